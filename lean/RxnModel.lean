import RxnModel.Base.Bytes
