import Driver.Util
import RxnModel.Model.Rescale
/-!
Driver section for C06 (trace validation: every input line is `op ## impl-output`).

* `assign` / `deploy`    lockstep on `AssignRanges` (and the handles `Assembly.Deploy` passes to each operator)
* `new/put/del/ckpt`     old DKV instances; `ckpt` reads the real checkpoint document (tables with sequence numbers,
                         WAL entries) from the implementation's output and validates it against the instance's map
* `open`                 `Rescale.openDB` over the recorded documents in the given handle order with ownership
* `get/scan/scanown`     answered by the Lsm read definitions on the model state; spec = union of the old maps
                         filtered by ownership, updated by the writes after the restore
-/
namespace Driver.C06
open Rxn Driver Rxn.Lsm Rxn.Rescale

structure Inst where
  id : Nat
  range : KGRange
  s : State
  /-- newest binding first -/
  spec : List Entry

structure Saved where
  inst : Nat
  cid : Nat
  range : KGRange
  ck : Ckpt
  spec : List Entry

structure St where
  insts : List Inst := []
  saved : List Saved := []

def splitHint (ws : List String) : List String × List String :=
  let i := ws.idxOf "##"
  (ws.take i, ws.drop (i + 1))

def parseRanges (s : String) : List KGRange :=
  if s == "-" || s == "" then [] else
  (s.splitOn ";").filterMap fun item =>
    match item.splitOn "," with
    | [a, b] => some ⟨natOr a, natOr b⟩
    | _ => none

def showIdx (l : List Nat) : String := if l.isEmpty then "-" else joinWith "," (l.map toString)

def showAssign (a : List (List Nat)) : String := if a.isEmpty then "none" else joinWith "|" (a.map showIdx)

def parseNats (s : String) : List Nat := if s == "-" || s == "" then [] else (s.splitOn ",").map natOr

def showAnswer : Option Bytes → String
  | some v => "val " ++ toHex v
  | none => "absent"

def showScan (r : Run) : String :=
  if r.isEmpty then "empty" else joinWith "," (r.map fun e => toHex e.key ++ ":" ++ toHex e.val)

/-- a deviation of the modelled code from the spec can only be the open finding D37 (second rescale of instances that
hold table entries outside their own range); anything else is reported by the harness as a violation -/
def withSpec (model spec : String) : String :=
  if model == spec then model else model ++ " #spec " ++ spec ++ " #kf D37"

def specGet (m : List Entry) (k : Bytes) : Option Entry := Run.lookup m k

/-- live keys with the prefix in ascending order with their latest values -/
def specScan (m : List Entry) (p : Bytes) : Run :=
  let keys := (m.map (·.key)).eraseDups
  let latest := keys.filterMap (fun k => specGet m k)
  let live := latest.filter (fun e => !e.del && Bytes.hasPrefix e.key p)
  live.foldl (fun acc e => Run.insert acc e) []

/-- parse `k:seq:d:v;k:seq:d:v` -/
def parseRun (s : String) : Run :=
  if s == "empty" || s == "" then [] else
  (s.splitOn ";").filterMap fun item =>
    match item.splitOn ":" with
    | [k, sq, d, v] => some ⟨hexOr k, natOr sq, d == "1", hexOr v⟩
    | _ => none

def parseLevel (s : String) : List Tbl :=
  if s == "e" || s == "" then [] else (s.splitOn "|").map fun t => ⟨0, parseRun t⟩

def parseWal (s : String) : List WalEntry :=
  if s == "e" || s == "" then [] else
  (s.splitOn ";").filterMap fun item =>
    match item.splitOn ":" with
    | [k, d, v] => some ⟨hexOr k, d == "1", hexOr v⟩
    | _ => none

def parseCkpt (levels wal : String) : Ckpt := ⟨(levels.splitOn "/").map parseLevel, parseWal wal⟩

def findInst (st : St) (id : Nat) : Option Inst := st.insts.find? (·.id == id)

def setInst (st : St) (i : Inst) : St :=
  { st with insts := i :: st.insts.filter (·.id != i.id) }

def ckptKeys (c : Ckpt) : List Bytes :=
  (c.levels.flatten.flatMap (fun t => t.run.map (·.key))) ++ c.wal.map (·.key)

/-- the recorded document must describe the instance's map on the keys it owns (C08's subject; M-obs here) -/
def ckptMismatch (i : Inst) (c : Ckpt) : Option Bytes :=
  let keys := ((i.spec.map (·.key)) ++ ckptKeys c).eraseDups.filter (Keys.ownsKey i.range)
  keys.find? (fun k => ckptAnswer c k != answer (specGet i.spec k))

def parseHandle (s : String) : Nat × Nat :=
  match s.splitOn ":" with
  | [a, b] => (natOr a, natOr b)
  | _ => (0, 0)

def step (st : St) (ws : List String) : St × String :=
  let (op, hint) := splitHint ws
  match op with
  | ["assign", to, frm] => (st, showAssign (assignRanges (parseRanges to) (parseRanges frm)))
  | ["assignold", to, frm] => (st, showAssign (assignRangesOld (parseRanges to) (parseRanges frm)))
  | ["deploy", kgc, n, frm] =>
    -- handles given to each new operator: positions in the recorded checkpoint list (`sliceu.Pick` of the assignment)
    let a := assignRanges (KeySpace.ranges (natOr kgc) (natOr n)) (parseRanges frm)
    (st, showAssign (a.map fun idx => pick (List.range (parseRanges frm).length) idx))
  | ["assigncheck", _, _, _, _] => (st, "ok")   -- spec: C06.assign_exact / assign_complete evaluated on the implementation
  | ["new", id, lo, hi, _, _] =>
    (setInst st ⟨natOr id, ⟨natOr lo, natOr hi⟩, {}, []⟩, "ok")
  | ["put", id, k, v] =>
    match findInst st (natOr id) with
    | some i => (setInst st { i with s := write i.s (hexOr k) false (hexOr v), spec := ⟨hexOr k, 0, false, hexOr v⟩ :: i.spec }, "ok")
    | none => (st, "no-instance")
  | ["del", id, k] =>
    match findInst st (natOr id) with
    | some i => (setInst st { i with s := write i.s (hexOr k) true [], spec := ⟨hexOr k, 0, true, []⟩ :: i.spec }, "ok")
    | none => (st, "no-instance")
  | ["settle", id] => (st, if (findInst st (natOr id)).isSome then "ok" else "no-instance")
  | ["ckpt", id, cid] =>
    match findInst st (natOr id), hint with
    | some i, ["ckpt", levels, wal] =>
      let c := parseCkpt levels wal
      match ckptMismatch i c with
      | some k => (st, "bad-ckpt " ++ toHex k)
      | none =>
        ({ st with saved := ⟨i.id, natOr cid, i.range, c, i.spec⟩ :: st.saved }, joinWith " " hint)
    | some _, _ => (st, "ckpt-unreadable")
    | none, _ => (st, "no-instance")
  | ["open", id, lo, hi, _, _, hs] =>
    let r : KGRange := ⟨natOr lo, natOr hi⟩
    let own := Keys.ownsKey r
    let handles := (hs.splitOn ",").map parseHandle
    let found := handles.filterMap fun (a, b) => st.saved.find? (fun s => s.inst == a && s.cid == b)
    if found.length != handles.length then (st, "no-handle") else
    let s := openDB own (found.map (·.ck))
    let spec := found.flatMap fun sv => sv.spec.filter (fun e => own e.key)
    (setInst st ⟨natOr id, r, s, spec⟩, "ok")
  | ["seq", id] =>
    match findInst st (natOr id) with
    | some i => (st, s!"seq={i.s.seq}")
    | none => (st, "no-instance")
  | ["get", id, k] =>
    match findInst st (natOr id) with
    | some i => (st, withSpec (showAnswer (answer (getR i.s (hexOr k)))) (showAnswer (answer (specGet i.spec (hexOr k)))))
    | none => (st, "no-instance")
  | ["scan", id, p] =>
    match findInst st (natOr id) with
    | some i => (st, withSpec (showScan (scanR i.s (hexOr p))) (showScan (specScan i.spec (hexOr p))))
    | none => (st, "no-instance")
  | ["scanown", id] =>
    match findInst st (natOr id) with
    | some i =>
      (st, withSpec (showScan ((scanR i.s []).filter (fun e => Keys.ownsKey i.range e.key))) (showScan (specScan i.spec [])))
    | none => (st, "no-instance")
  | _ => (st, "bad-op")

def handle (lines : Array String) (i : Nat) (out : Array String) : Nat × Array String :=
  runLines step {} lines i out

end Driver.C06
