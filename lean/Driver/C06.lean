import Driver.Util
import RxnModel.Model.Rescale
import RxnModel.Generated.Facts
/-!
Driver section for C06 (trace validation: every input line is `op ## impl-output`).

* `assign` / `deploy`    lockstep on `AssignRanges` (and the handles `Assembly.Deploy` passes to each operator)
* `new/put/del/ckpt`     old DKV instances; `ckpt` reads the real checkpoint document (tables with sequence numbers,
                         WAL entries) from the implementation's output and validates it against the instance's map
* `open`                 `Rescale.openDB` over the recorded documents in the given handle order with ownership
* `get/scan/scanown`     answered by the Lsm read definitions on the model state; spec = union of the old maps
                         filtered by ownership, updated by the writes after the restore
-/
namespace Driver.C06
open Rxn Driver Rxn.Lsm Rxn.Rescale

structure Inst where
  id : Nat
  range : KGRange
  s : State
  /-- newest binding first -/
  spec : List Entry
  /-- started empty (not restored from handles) -/
  fresh : Bool := true
  /-- the known-finding situation this instance is in, if any (see `kfSituation`) -/
  kf : Option String := none

structure Saved where
  inst : Nat
  cid : Nat
  range : KGRange
  ck : Ckpt
  spec : List Entry

structure St where
  insts : List Inst := []
  saved : List Saved := []

def splitHint (ws : List String) : List String × List String :=
  let i := ws.idxOf "##"
  (ws.take i, ws.drop (i + 1))

def parseRanges (s : String) : List KGRange :=
  if s == "-" || s == "" then [] else
  (s.splitOn ";").filterMap fun item =>
    match item.splitOn "," with
    | [a, b] => some ⟨natOr a, natOr b⟩
    | _ => none

def showIdx (l : List Nat) : String := if l.isEmpty then "-" else joinWith "," (l.map toString)

def showAssign (a : List (List Nat)) : String := if a.isEmpty then "none" else joinWith "|" (a.map showIdx)

def parseNats (s : String) : List Nat := if s == "-" || s == "" then [] else (s.splitOn ",").map natOr

def showAnswer : Option Bytes → String
  | some v => "val " ++ toHex v
  | none => "absent"

def showScan (r : Run) : String :=
  if r.isEmpty then "empty" else joinWith "," (r.map fun e => toHex e.key ++ ":" ++ toHex e.val)

/-- a deviation of the modelled code from the spec is tagged as a known finding only when the instance is in that
finding's situation (`kfSituation`); otherwise it is printed untagged and the harness reports a violation -/
def withSpec (kf : Option String) (model spec : String) : String :=
  if model == spec then model else
  match kf with
  | some id => model ++ " #spec " ++ spec ++ " #kf " ++ id
  | none => model ++ " #spec " ++ spec

def specGet (m : List Entry) (k : Bytes) : Option Entry := Run.lookup m k

/-- live keys with the prefix in ascending order with their latest values -/
def specScan (m : List Entry) (p : Bytes) : Run :=
  let keys := (m.map (·.key)).eraseDups
  let latest := keys.filterMap (fun k => specGet m k)
  let live := latest.filter (fun e => !e.del && Bytes.hasPrefix e.key p)
  live.foldl (fun acc e => Run.insert acc e) []

/-- parse `k:seq:d:v;k:seq:d:v` -/
def parseRun (s : String) : Run :=
  if s == "empty" || s == "" then [] else
  (s.splitOn ";").filterMap fun item =>
    match item.splitOn ":" with
    | [k, sq, d, v] => some ⟨hexOr k, natOr sq, d == "1", hexOr v⟩
    | _ => none

def parseLevel (s : String) : List Tbl :=
  if s == "e" || s == "" then [] else (s.splitOn "|").map fun t => ⟨0, parseRun t⟩

def parseWal (s : String) : List WalEntry :=
  if s == "e" || s == "" then [] else
  (s.splitOn ";").filterMap fun item =>
    match item.splitOn ":" with
    | [k, d, v] => some ⟨hexOr k, d == "1", hexOr v⟩
    | _ => none

def parseCkpt (levels wal : String) : Ckpt := ⟨(levels.splitOn "/").map parseLevel, parseWal wal⟩

def findInst (st : St) (id : Nat) : Option Inst := st.insts.find? (·.id == id)

def setInst (st : St) (i : Inst) : St :=
  { st with insts := i :: st.insts.filter (·.id != i.id) }

def ckptKeys (c : Ckpt) : List Bytes :=
  (c.levels.flatten.flatMap (fun t => t.run.map (·.key))) ++ c.wal.map (·.key)

/-- the recorded document must describe the instance's map on the keys it owns (C08's subject; M-obs here) -/
def ckptMismatch (i : Inst) (c : Ckpt) : Option Bytes :=
  let keys := ((i.spec.map (·.key)) ++ ckptKeys c).eraseDups.filter (Keys.ownsKey i.range)
  keys.find? (fun k => ckptAnswer c k != answer (specGet i.spec k))

/-- ascending, pairwise disjoint key ranges (executable form of `LevelValid`) -/
def levelValidB : List Tbl → Bool
  | [] => true
  | [t] => Bytes.cmp t.startKey t.endKey != .gt
  | t :: u :: rest => Bytes.cmp t.startKey t.endKey != .gt && Bytes.cmp t.endKey u.startKey == .lt && levelValidB (u :: rest)

def runSortedB : Run → Bool
  | [] => true
  | [_] => true
  | a :: b :: rest => Bytes.cmp a.key b.key == .lt && runSortedB (b :: rest)

/-- the hypotheses of the restore theorems (`Rescale.SrcOk`) evaluated on a real document -/
def inFamily (r : KGRange) (c : Ckpt) : Bool :=
  (ckptKeys c).all (fun k => decide (2 ≤ k.length) && Keys.ownsKey r k) &&
  c.levels.flatten.all (fun t => !t.run.isEmpty && runSortedB t.run) &&
  c.levels.tail.all levelValidB

/-- The situation of the open findings D37/D47: some source document of the restore carries keys outside the source
instance's own key-group range (only possible when that source was itself restored from a handle it partly owned,
i.e. this is a second rescale). D37 = the merged deeper levels overlap; D47 = they do not (a stale foreign copy
shadows through level 0 / level order). No other situation is ever tagged. -/
def kfSituation (sources : List (KGRange × Ckpt)) (s : State) : Option String :=
  if sources.any (fun (r, c) => (ckptKeys c).any (fun k => !Keys.ownsKey r k)) then
    if s.levels.tail.all levelValidB then some "D47" else some "D37"
  else none

/-! the operator's own stores over the instance: `KeyedStateStore.GetState/ApplyMutations`, `TimerStore.Put/GetEarliest` -/

/-- `decodeKey` + the grouping of `GetState`: namespace and data of every scanned entry, in scan order -/
def showState (plen : Nat) (r : Run) : String :=
  if r.isEmpty then "empty" else
  joinWith "," (r.map fun e =>
    let rest := e.key.drop plen
    let nsLen := (rest.headD 0).toNat
    toHex ((rest.drop 1).take nsLen) ++ "/" ++ toHex ((rest.drop 1).drop nsLen) ++ "=" ++ toHex e.val)

/-- `TimerStore.GetEarliest`: smallest timestamp over the key groups of the operator's range -/
def earliest (scanOf : Bytes → Run) (r : KGRange) : String :=
  let all := (List.range (r.stop - r.start)).flatMap fun i =>
    scanOf (Bytes.u16be (r.start + i) ++ [UInt8.ofNat Facts.schemaTimer])
  match all.foldl (fun (best : Option Entry) e =>
      match best with
      | none => some e
      | some b => if Bytes.cmp ((e.key.drop 3).take 8) ((b.key.drop 3).take 8) == .lt then some e else some b) none with
  | none => "none"
  | some e => toString (Bytes.beNat ((e.key.drop 3).take 8)) ++ " " ++ toHex (e.key.drop 11)

def parseHandle (s : String) : Nat × Nat :=
  match s.splitOn ":" with
  | [a, b] => (natOr a, natOr b)
  | _ => (0, 0)

/-- `ckpt` / `cckpt`: read the implementation's checkpoint document and validate it against the instance's map -/
def doCkpt (st : St) (id cid : String) (hint : List String) : St × String :=
    match findInst st (natOr id), hint with
    | some i, ["ckpt", levels, wal] =>
      let c := parseCkpt levels wal
      match ckptMismatch i c with
      | some k => (st, "bad-ckpt " ++ toHex k)
      | none =>
        if i.fresh && !inFamily i.range c then (st, "ckpt-outside-theorem-family") else
        ({ st with saved := ⟨i.id, natOr cid, i.range, c, i.spec⟩ :: st.saved }, joinWith " " hint)
    | some _, _ => (st, "ckpt-unreadable")
    | none, _ => (st, "no-instance")

def step (st : St) (ws : List String) : St × String :=
  let (op, hint) := splitHint ws
  match op with
  | ["assign", to, frm] => (st, showAssign (assignRanges (parseRanges to) (parseRanges frm)))
  | ["assignold", to, frm] => (st, showAssign (assignRangesOld (parseRanges to) (parseRanges frm)))
  | ["deploy", kgc, n, frm] =>
    -- handles given to each new operator: positions in the recorded checkpoint list (`sliceu.Pick` of the assignment)
    let a := assignRanges (KeySpace.ranges (natOr kgc) (natOr n)) (parseRanges frm)
    (st, showAssign (a.map fun idx => pick (List.range (parseRanges frm).length) idx))
  | ["assigncheck", _, _, _, _] => (st, "ok")   -- spec: C06.assign_exact / assign_complete evaluated on the implementation
  | ["new", id, lo, hi, _, _] =>
    (setInst st ⟨natOr id, ⟨natOr lo, natOr hi⟩, {}, [], true, none⟩, "ok")
  | ["put", id, k, v] =>
    match findInst st (natOr id) with
    | some i => (setInst st { i with s := write i.s (hexOr k) false (hexOr v), spec := ⟨hexOr k, 0, false, hexOr v⟩ :: i.spec }, "ok")
    | none => (st, "no-instance")
  | ["del", id, k] =>
    match findInst st (natOr id) with
    | some i => (setInst st { i with s := write i.s (hexOr k) true [], spec := ⟨hexOr k, 0, true, []⟩ :: i.spec }, "ok")
    | none => (st, "no-instance")
  | ["settle", id] => (st, if (findInst st (natOr id)).isSome then "ok" else "no-instance")
  | ["cnew", first, kgc, m] =>
    -- M real operators deployed together: operator j owns `ranges kgc m`[j] (Operator.HandleDeploy, C05)
    let rs := KeySpace.ranges (natOr kgc) (natOr m)
    let st' := (List.range rs.length).foldl (fun st j =>
      setInst st ⟨natOr first + j, rs.getD j ⟨0, 0⟩, {}, [], true, none⟩) st
    (st', joinWith ";" (rs.map fun r => s!"{r.start},{r.stop}"))
  | ["rot", id] => (st, if (findInst st (natOr id)).isSome then "ok" else "no-instance")
  | ["cdeploy", first, kgc, n, cid, acks] =>
    -- real Assembly.Deploy: AssignRanges over the recorded (acknowledgement-ordered) checkpoint ranges, sliceu.Pick,
    -- Operator.HandleDeploy = dkv.Open of the picked handles in that order with the operator's ownership
    let srcIds := parseNats acks
    let found := srcIds.filterMap fun a => st.saved.find? (fun s => s.inst == a && s.cid == natOr cid)
    if found.length != srcIds.length then (st, "no-ack") else
    let to := KeySpace.ranges (natOr kgc) (natOr n)
    let a := assignRanges to (found.map (·.range))
    let st' := (List.range to.length).foldl (fun st i =>
      let r := to.getD i ⟨0, 0⟩
      let own := Keys.ownsKey r
      let hs := Rescale.pick found (a.getD i [])
      if hs.isEmpty then setInst st ⟨natOr first + i, r, {}, [], true, none⟩ else
      let s := openDB own (hs.map (·.ck))
      let spec := hs.flatMap fun sv => sv.spec.filter (fun e => own e.key)
      setInst st ⟨natOr first + i, r, s, spec, false, kfSituation (hs.map fun sv => (sv.range, sv.ck)) s⟩) st
    (st', showAssign a)
  | ["ckpt", id, cid] => doCkpt st id cid hint
  | ["cckpt", id, cid] => doCkpt st id cid hint
  | ["open", id, lo, hi, _, _, hs] =>
    let r : KGRange := ⟨natOr lo, natOr hi⟩
    let own := Keys.ownsKey r
    let handles := (hs.splitOn ",").map parseHandle
    let found := handles.filterMap fun (a, b) => st.saved.find? (fun s => s.inst == a && s.cid == b)
    if found.length != handles.length then (st, "no-handle") else
    let s := openDB own (found.map (·.ck))
    let spec := found.flatMap fun sv => sv.spec.filter (fun e => own e.key)
    (setInst st ⟨natOr id, r, s, spec, false, kfSituation (found.map fun sv => (sv.range, sv.ck)) s⟩, "ok")
  | ["leak", id, _, hs] =>
    -- next checkpoint of the restored instance = its memtable (WAL) + level list: entries it does not own and that no
    -- source table held (`seq_above_loaded`: the replay only admits owned keys)
    match findInst st (natOr id) with
    | some i =>
      let handles := (hs.splitOn ",").map parseHandle
      let found := handles.filterMap fun (a, b) => st.saved.find? (fun s => s.inst == a && s.cid == b)
      if found.length != handles.length then (st, "no-handle") else
      let tri := fun (e : Entry) => (e.key, e.del, e.val)
      let inherited := found.flatMap fun sv => sv.ck.levels.flatten.flatMap fun t => t.run.map tri
      let mine := (i.s.mems.flatten ++ i.s.levels.flatten.flatMap (·.run)).map tri
      let extra := (mine.filter fun x => !Keys.ownsKey i.range x.1 && !inherited.contains x).eraseDups
      (st, if extra.isEmpty then "none" else
        joinWith "," (extra.map fun x => toHex x.1 ++ ":" ++ (if x.2.1 then "1" else "0") ++ ":" ++ toHex x.2.2))
    | none => (st, "no-instance")
  | ["seq", id] =>
    match findInst st (natOr id) with
    | some i => (st, s!"seq={i.s.seq}")
    | none => (st, "no-instance")
  | ["get", id, k] =>
    match findInst st (natOr id) with
    | some i => (st, withSpec i.kf (showAnswer (answer (getR i.s (hexOr k)))) (showAnswer (answer (specGet i.spec (hexOr k)))))
    | none => (st, "no-instance")
  | ["scan", id, p] =>
    match findInst st (natOr id) with
    | some i => (st, withSpec i.kf (showScan (scanR i.s (hexOr p))) (showScan (specScan i.spec (hexOr p))))
    | none => (st, "no-instance")
  | ["sput", id, kgc, subj, ns, data, v] =>
    match findInst st (natOr id) with
    | some i =>
      if !Keys.ownsKey i.range (Keys.subjectKey (natOr kgc) (hexOr subj)) then (st, "not-routed") else
      let k := Keys.dbKey (natOr kgc) (hexOr subj) (hexOr ns) (hexOr data)
      (setInst st { i with s := write i.s k false (hexOr v), spec := ⟨k, 0, false, hexOr v⟩ :: i.spec }, "ok")
    | none => (st, "no-instance")
  | ["sdel", id, kgc, subj, ns, data] =>
    match findInst st (natOr id) with
    | some i =>
      if !Keys.ownsKey i.range (Keys.subjectKey (natOr kgc) (hexOr subj)) then (st, "not-routed") else
      let k := Keys.dbKey (natOr kgc) (hexOr subj) (hexOr ns) (hexOr data)
      (setInst st { i with s := write i.s k true [], spec := ⟨k, 0, true, []⟩ :: i.spec }, "ok")
    | none => (st, "no-instance")
  | ["sget", id, kgc, subj] =>
    match findInst st (natOr id) with
    | some i =>
      let p := Keys.subjectKey (natOr kgc) (hexOr subj)
      if !Keys.ownsKey i.range p then (st, "not-routed") else
      (st, withSpec i.kf (showState p.length (scanR i.s p)) (showState p.length (specScan i.spec p)))
    | none => (st, "no-instance")
  | ["tput", id, kgc, subj, t] =>
    match findInst st (natOr id) with
    | some i =>
      if !Keys.ownsKey i.range (Keys.subjectKey (natOr kgc) (hexOr subj)) then (st, "not-routed") else
      let k := Keys.timerKey (natOr kgc) (hexOr subj) (natOr t)
      (setInst st { i with s := write i.s k false [], spec := ⟨k, 0, false, []⟩ :: i.spec }, "ok")
    | none => (st, "no-instance")
  | ["tearliest", id, _] =>
    match findInst st (natOr id) with
    | some i => (st, withSpec i.kf (earliest (scanR i.s) i.range) (earliest (specScan i.spec) i.range))
    | none => (st, "no-instance")
  | ["scanown", id] =>
    match findInst st (natOr id) with
    | some i =>
      (st, withSpec i.kf (showScan ((scanR i.s []).filter (fun e => Keys.ownsKey i.range e.key))) (showScan (specScan i.spec [])))
    | none => (st, "no-instance")
  | _ => (st, "bad-op")

def handle (lines : Array String) (i : Nat) (out : Array String) : Nat × Array String :=
  runLines step {} lines i out

end Driver.C06
