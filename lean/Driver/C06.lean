import Driver.Util
import RxnModel.Model.Rescale
import RxnModel.Generated.Facts
/-!
Driver section for C06 (trace validation: every input line is `op ## impl-output`).

* `assign` / `deploy`    lockstep on `AssignRanges` (and the handles `Assembly.Deploy` passes to each operator)
* `new/put/del/ckpt`     old DKV instances; `ckpt` reads the real checkpoint document (tables with sequence numbers,
                         WAL entries) from the implementation's output and validates it against the instance's map
* `open`                 `Rescale.openDB` over the recorded documents in the given handle order with ownership
* `get/scan/scanown`     answered by the Lsm read definitions on the model state; spec = union of the old maps
                         filtered by ownership, updated by the writes after the restore
-/
namespace Driver.C06
open Rxn Driver Rxn.Lsm Rxn.Rescale

structure Inst where
  id : Nat
  range : KGRange
  s : State
  /-- newest binding first -/
  spec : List Entry
  /-- started empty (not restored from handles) -/
  fresh : Bool := true
  /-- the `(range, document)` pairs this instance was restored from (empty for a fresh instance): what the
  known-finding situations are decided on (`kfGet`, `kfScan`) -/
  srcs : List (KGRange × Ckpt) := []
  /-- the operator's composite watermark (cluster mode; epoch after a deploy) -/
  wm : Nat := 0
  /-- the instance whose directory this one was opened in (an operator that keeps running keeps its directory) -/
  dir : Nat := 0
  /-- the handles it was restored from -/
  refs : List (Nat × Nat) := []
  /-- restored from a handle whose document had been rewritten by a repositioned operator (open finding D72) -/
  d72 : Bool := false

structure Saved where
  inst : Nat
  cid : Nat
  range : KGRange
  ck : Ckpt
  spec : List Entry
  /-- the directory's `checkpoints` document was rewritten by an instance restored from OTHER handles: this entry now
  holds the composite that instance had loaded (open finding D72; the D50 family) -/
  d72 : Bool := false
  /-- the document as recorded at its checkpoint (what the restoring instances read at deploy time) -/
  orig : Option Ckpt := none

structure St where
  insts : List Inst := []
  saved : List Saved := []

def splitHint (ws : List String) : List String × List String :=
  let i := ws.idxOf "##"
  (ws.take i, ws.drop (i + 1))

def parseRanges (s : String) : List KGRange :=
  if s == "-" || s == "" then [] else
  (s.splitOn ";").filterMap fun item =>
    match item.splitOn "," with
    | [a, b] => some ⟨natOr a, natOr b⟩
    | _ => none

def showIdx (l : List Nat) : String := if l.isEmpty then "-" else joinWith "," (l.map toString)

def showAssign (a : List (List Nat)) : String := if a.isEmpty then "none" else joinWith "|" (a.map showIdx)

def parseNats (s : String) : List Nat := if s == "-" || s == "" then [] else (s.splitOn ",").map natOr

def showAnswer : Option Bytes → String
  | some v => "val " ++ toHex v
  | none => "absent"

def showScan (r : Run) : String :=
  if r.isEmpty then "empty" else joinWith "," (r.map fun e => toHex e.key ++ ":" ++ toHex e.val)

/-- a deviation of the modelled code from the spec is tagged as a known finding only when the instance is in that
finding's situation (`kfGet`, `kfScan`); otherwise it is printed untagged and the harness reports a violation -/
def withSpec (kf : Option String) (model spec : String) : String :=
  if model == spec then model else
  match kf with
  | some id => model ++ " #spec " ++ spec ++ " #kf " ++ id
  | none => model ++ " #spec " ++ spec

def specGet (m : List Entry) (k : Bytes) : Option Entry := Run.lookup m k

/-- live keys with the prefix in ascending order with their latest values -/
def specScan (m : List Entry) (p : Bytes) : Run :=
  let keys := (m.map (·.key)).eraseDups
  let latest := keys.filterMap (fun k => specGet m k)
  let live := latest.filter (fun e => !e.del && Bytes.hasPrefix e.key p)
  live.foldl (fun acc e => Run.insert acc e) []

/-- parse `k:seq:d:v;k:seq:d:v` -/
def parseRun (s : String) : Run :=
  if s == "empty" || s == "" then [] else
  (s.splitOn ";").filterMap fun item =>
    match item.splitOn ":" with
    | [k, sq, d, v] => some ⟨hexOr k, natOr sq, d == "1", hexOr v⟩
    | _ => none

def parseLevel (s : String) : List Tbl :=
  if s == "e" || s == "" then [] else (s.splitOn "|").map fun t =>
    -- `<file number>~<entries>`
    match t.splitOn "~" with
    | [n, r] => ⟨natOr n, parseRun r⟩
    | _ => ⟨0, parseRun t⟩

def parseWal (s : String) : List WalEntry :=
  if s == "e" || s == "" then [] else
  (s.splitOn ";").filterMap fun item =>
    match item.splitOn ":" with
    | [k, d, v] => some ⟨hexOr k, d == "1", hexOr v⟩
    | _ => none

def parseCkpt (levels wal : String) : Ckpt := ⟨(levels.splitOn "/").map parseLevel, parseWal wal⟩

def findInst (st : St) (id : Nat) : Option Inst := st.insts.find? (·.id == id)

def setInst (st : St) (i : Inst) : St :=
  { st with insts := i :: st.insts.filter (·.id != i.id) }

def ckptKeys (c : Ckpt) : List Bytes :=
  (c.levels.flatten.flatMap (fun t => t.run.map (·.key))) ++ c.wal.map (·.key)

/-- the recorded document must describe the instance's map on the keys it owns (C08's subject; M-obs here) -/
def ckptMismatch (i : Inst) (c : Ckpt) : Option Bytes :=
  let keys := ((i.spec.map (·.key)) ++ ckptKeys c).eraseDups.filter (Keys.ownsKey i.range)
  keys.find? (fun k => ckptAnswer c k != answer (specGet i.spec k))

/-- ascending, pairwise disjoint key ranges (executable form of `LevelValid`) -/
def levelValidB : List Tbl → Bool
  | [] => true
  | [t] => Bytes.cmp t.startKey t.endKey != .gt
  | t :: u :: rest => Bytes.cmp t.startKey t.endKey != .gt && Bytes.cmp t.endKey u.startKey == .lt && levelValidB (u :: rest)

def runSortedB : Run → Bool
  | [] => true
  | [_] => true
  | a :: b :: rest => Bytes.cmp a.key b.key == .lt && runSortedB (b :: rest)

/-- executable `NewerAbove` over the tables in read order -/
def newerB : List Tbl → Bool
  | [] => true
  | t :: rest =>
    rest.all (fun u => t.run.all fun e => u.run.all fun e' => e'.key != e.key || decide (e'.seq < e.seq)) && newerB rest

/-- the hypotheses of the restore theorems (`Rescale.SrcOk`: keys, ne, sorted, deeper, newer, nlev) evaluated on a real
document -/
def inFamily (r : KGRange) (c : Ckpt) : Bool :=
  -- `dkv.New`: `sst.NewEmptyLevelList(6)`; every document of a case must have the same number of levels (`SrcOk.nlev`)
  decide (c.levels.length = 6) && newerB (readOrder c.levels) &&
  (ckptKeys c).all (fun k => decide (2 ≤ k.length) && Keys.ownsKey r k) &&
  c.levels.flatten.all (fun t => !t.run.isEmpty && runSortedB t.run) &&
  c.levels.tail.all levelValidB

/-- The situations of the open findings, decided per observation (never for an instance restored from ONE handle: the
theorems cover it whatever the document carries; never for a fresh instance).

* D37 — the restore merged ≥ 2 handles and some merged deeper level is not a valid level (overlapping key ranges, which
  needs a source document carrying keys outside its source's range): the binary searches of `Get` and of
  `AllTablesForPrefix` can land on the wrong table. Applies to point reads and to scans.
* D47 — the restore merged ≥ 2 handles and the KEY read is carried by a source document whose source does not own it
  (a shared table's stale copy): `Get` can answer from that copy through level order. Point reads of that key only —
  a scan resolves the copies by sequence number (`d47_counterexample`). -/
def d37Situation (i : Inst) : Bool :=
  decide (2 ≤ i.srcs.length) && !(i.s.levels.tail.all levelValidB)

def d47Situation (i : Inst) (k : Bytes) : Bool :=
  decide (2 ≤ i.srcs.length) &&
    i.srcs.any (fun (r, c) => !Keys.ownsKey r k && c.levels.flatten.any (fun t => t.run.any (fun e => e.key == k)))

def kfGet (i : Inst) (k : Bytes) : Option String :=
  if i.d72 then some "D72" else if d37Situation i then some "D37" else if d47Situation i k then some "D47" else none

def kfScan (i : Inst) : Option String := if i.d72 then some "D72" else if d37Situation i then some "D37" else none

/-- `CheckpointList.Save` of instance `i`: the one `checkpoints` document of its directory is rewritten with the list the
instance holds — the composite it loaded, under the id of the job checkpoint it was restored from, and its own new
checkpoints. If the directory belongs to a source instance whose handle of that id the instance was NOT (only) restored
from, that handle now resolves to the composite (D72). -/
def rewriteDoc (st : St) (i : Inst) : St :=
  match i.refs with
  | [] => st
  | (_, fromCid) :: _ =>
    if i.refs == [(i.dir, fromCid)] then st else
    let comp : Ckpt := compositeDoc (i.srcs.map (·.2))
    { st with saved := st.saved.map fun s =>
        if s.inst == i.dir && s.cid == fromCid && i.dir != i.id then { s with ck := comp, d72 := true } else s }


/-! the operator's own stores over the instance: `KeyedStateStore.GetState/ApplyMutations`, `TimerStore.Put/GetEarliest` -/

/-- `decodeKey` + the grouping of `GetState`: namespace and data of every scanned entry, in scan order -/
def showState (plen : Nat) (r : Run) : String :=
  if r.isEmpty then "empty" else
  joinWith "," (r.map fun e =>
    let rest := e.key.drop plen
    let nsLen := (rest.headD 0).toNat
    toHex ((rest.drop 1).take nsLen) ++ "/" ++ toHex ((rest.drop 1).drop nsLen) ++ "=" ++ toHex e.val)

/-- `TimerStore.GetEarliest`: smallest timestamp over the key groups of the operator's range -/
def earliest (scanOf : Bytes → Run) (r : KGRange) : String :=
  let all := (List.range (r.stop - r.start)).flatMap fun i =>
    scanOf (Bytes.u16be (r.start + i) ++ [UInt8.ofNat Facts.schemaTimer])
  match all.foldl (fun (best : Option Entry) e =>
      match best with
      | none => some e
      | some b => if Bytes.cmp ((e.key.drop 3).take 8) ((b.key.drop 3).take 8) == .lt then some e else some b) none with
  | none => "none"
  | some e => toString (Bytes.beNat ((e.key.drop 3).take 8)) ++ " " ++ toHex (e.key.drop 11)

/-- timers (entries under the key-group timer prefixes of the range) due at watermark `t`, by timestamp -/
def dueTimers (scanOf : Bytes → Run) (r : KGRange) (t : Nat) : List Entry :=
  let all := (List.range (r.stop - r.start)).flatMap fun i =>
    scanOf (Bytes.u16be (r.start + i) ++ [UInt8.ofNat Facts.schemaTimer])
  let due := all.filter fun e => Bytes.beNat ((e.key.drop 3).take 8) ≤ t
  due.foldl (fun acc e =>
    let ts := fun (x : Entry) => Bytes.beNat ((x.key.drop 3).take 8)
    (acc.takeWhile (fun x => ts x ≤ ts e)) ++ [e] ++ (acc.dropWhile (fun x => ts x ≤ ts e))) []

def showFired (es : List Entry) : String :=
  if es.isEmpty then "none" else
  joinWith "," (es.map fun e => toString (Bytes.beNat ((e.key.drop 3).take 8)) ++ " " ++ toHex (e.key.drop 11))

def parseHandle (s : String) : Nat × Nat :=
  match s.splitOn ":" with
  | [a, b] => (natOr a, natOr b)
  | _ => (0, 0)

/-- `ckpt` / `cckpt`: read the implementation's checkpoint document and validate it against the instance's map -/
def doCkpt (st : St) (id cid : String) (hint : List String) : St × String :=
    match findInst st (natOr id), hint with
    | some i, ["ckpt", levels, wal] =>
      let c := parseCkpt levels wal
      match ckptMismatch i c with
      | some k => (st, "bad-ckpt " ++ toHex k)
      | none =>
        if i.fresh && !inFamily i.range c then (st, "ckpt-outside-theorem-family") else
        let st := rewriteDoc st i
        ({ st with saved := ⟨i.id, natOr cid, i.range, c, i.spec, false, some c⟩ :: st.saved }, joinWith " " hint)
    | some _, _ => (st, "ckpt-unreadable")
    | none, _ => (st, "no-instance")

/-- `open` / `openin`: `dkv.Open` of the recorded documents in the given handle order with the range's ownership (the
directory the instance is opened in does not enter the state; that new table files never reuse a loaded table's name there is
`C06.restored_table_ids_fresh`, observed by `freshnames`) -/
def doOpen (st : St) (id lo hi hs : String) (dir : Option Nat := none) : St × String :=

    let r : KGRange := ⟨natOr lo, natOr hi⟩
    let own := Keys.ownsKey r
    let handles := (hs.splitOn ",").map parseHandle
    let found := handles.filterMap fun (a, b) => st.saved.find? (fun s => s.inst == a && s.cid == b)
    if found.length != handles.length then (st, "no-handle") else
    let s := openDB own (found.map (·.ck))
    let spec := found.flatMap fun sv => sv.spec.filter (fun e => own e.key)
    (setInst st ⟨natOr id, r, s, spec, false, found.map fun sv => (sv.range, sv.ck), 0, dir.getD (natOr id), handles,
      found.any (·.d72)⟩, "ok")

/-- `cdeploy`: real Assembly.Deploy: AssignRanges over the recorded checkpoint ranges, sliceu.Pick, Operator.HandleDeploy =
dkv.Open of the picked handles in that order with the ownership of the operator's NEW position (whether the operator object is
new or one that keeps running does not enter the state) -/
def doCDeploy (st : St) (first kgc n cid acks : String) (hint : List String) (reuse : List String := []) : St × String :=
    -- an operator that keeps running keeps its directory
    let dirOf := fun (i : Nat) => match reuse[i]? with
      | some r => if r == "-" then natOr first + i else natOr r
      | none => natOr first + i

    -- real Assembly.Deploy: AssignRanges over the recorded (acknowledgement-ordered) checkpoint ranges, sliceu.Pick,
    -- Operator.HandleDeploy = dkv.Open of the picked handles in that order with the operator's ownership
    -- the order in which the snapshot store recorded the acknowledgements is the implementation's choice (any order is
    -- legitimate): it is read from the implementation's output and must be a permutation of the acknowledged operators
    let implOrder := (hint.filterMap fun w => if w.startsWith "order=" then some (parseNats (w.drop 6).toString) else none).head?
    let srcIds := match implOrder with
      | some o => if o.length == (parseNats acks).length && o.all (parseNats acks).contains && (parseNats acks).all o.contains then o else parseNats acks
      | none => parseNats acks
    let found := srcIds.filterMap fun a => st.saved.find? (fun s => s.inst == a && s.cid == natOr cid)
    if found.length != srcIds.length then (st, "no-ack") else
    let to := KeySpace.ranges (natOr kgc) (natOr n)
    let a := assignRanges to (found.map (·.range))
    let st' := (List.range to.length).foldl (fun st i =>
      let r := to.getD i ⟨0, 0⟩
      let own := Keys.ownsKey r
      let hs := Rescale.pick found (a.getD i [])
      if hs.isEmpty then setInst st ⟨natOr first + i, r, {}, [], true, [], 0, dirOf i, [], false⟩ else
      let s := openDB own (hs.map (·.ck))
      let spec := hs.flatMap fun sv => sv.spec.filter (fun e => own e.key)
      setInst st ⟨natOr first + i, r, s, spec, false, hs.map (fun sv => (sv.range, sv.ck)), 0, dirOf i,
        hs.map (fun sv => (sv.inst, sv.cid)), hs.any (·.d72)⟩) st
    (st', showAssign a ++ " order=" ++ joinWith "," (srcIds.map toString))

def step (st : St) (ws : List String) : St × String :=
  let (op, hint) := splitHint ws
  match op with
  | ["assign", to, frm] => (st, showAssign (assignRanges (parseRanges to) (parseRanges frm)))
  | ["assignold", to, frm] => (st, showAssign (assignRangesOld (parseRanges to) (parseRanges frm)))
  | ["deploy", kgc, n, frm] =>
    -- handles given to each new operator: positions in the recorded checkpoint list (`sliceu.Pick` of the assignment)
    let a := assignRanges (KeySpace.ranges (natOr kgc) (natOr n)) (parseRanges frm)
    (st, showAssign (a.map fun idx => pick (List.range (parseRanges frm).length) idx))
  | ["assigncheck", _, _, _, _] => (st, "ok")   -- spec: C06.assign_exact / assign_complete evaluated on the implementation
  | ["new", id, lo, hi, _, _] =>
    (setInst st ⟨natOr id, ⟨natOr lo, natOr hi⟩, {}, [], true, [], 0, natOr id, [], false⟩, "ok")
  | ["put", id, k, v] =>
    match findInst st (natOr id) with
    | some i => (setInst st { i with s := write i.s (hexOr k) false (hexOr v), spec := ⟨hexOr k, 0, false, hexOr v⟩ :: i.spec }, "ok")
    | none => (st, "no-instance")
  | ["del", id, k] =>
    match findInst st (natOr id) with
    | some i => (setInst st { i with s := write i.s (hexOr k) true [], spec := ⟨hexOr k, 0, true, []⟩ :: i.spec }, "ok")
    | none => (st, "no-instance")
  | ["settle", id] => (st, if (findInst st (natOr id)).isSome then "ok" else "no-instance")
  | ["cnew", first, kgc, m] =>
    -- M real operators deployed together: operator j owns `ranges kgc m`[j] (Operator.HandleDeploy, C05)
    let rs := KeySpace.ranges (natOr kgc) (natOr m)
    let st' := (List.range rs.length).foldl (fun st j =>
      setInst st ⟨natOr first + j, rs.getD j ⟨0, 0⟩, {}, [], true, [], 0, natOr first + j, [], false⟩) st
    (st', joinWith ";" (rs.map fun r => s!"{r.start},{r.stop}"))
  | ["rot", id] => (st, if (findInst st (natOr id)).isSome then "ok" else "no-instance")
  | ["cdeploy", first, kgc, n, cid, acks] => doCDeploy st first kgc n cid acks hint
  | ["cdeploy", first, kgc, n, cid, acks, reuse] => doCDeploy st first kgc n cid acks hint (reuse.splitOn ",")
  | ["ckpt", id, cid] => doCkpt st id cid hint
  | ["cckpt", id, cid] => doCkpt st id cid hint
  | ["open", id, lo, hi, _, _, hs] => doOpen st id lo hi hs
  | ["openin", id, lo, hi, _, _, hs, d] => doOpen st id lo hi hs (some (natOr d))
  | ["freshnames", id] =>
    -- `C06.restored_table_ids_fresh`: every table written after the restore is numbered at or above the model's `nextId`
    -- (= above every table number of every handle), hence no live table's file is reused
    match findInst st (natOr id) with
    | some i =>
      let expect := s!"ok first>={i.s.nextId}"
      match hint with
      | ["ok", f] =>
        if f == "first=-" then (st, "ok first=-") else
        if f.startsWith "first=" && i.s.nextId ≤ natOr (f.drop 6).toString then (st, "ok " ++ f) else (st, expect)
      | _ => (st, expect)
    | none => (st, "no-instance")
  | ["leak", id, _, hs] =>
    -- next checkpoint of the restored instance = its memtable (WAL) + level list: entries it does not own and that no
    -- source table held (`seq_above_loaded`: the replay only admits owned keys)
    match findInst st (natOr id) with
    | some i =>
      let handles := (hs.splitOn ",").map parseHandle
      let found := handles.filterMap fun (a, b) => st.saved.find? (fun s => s.inst == a && s.cid == b)
      if found.length != handles.length then (st, "no-handle") else
      let st := rewriteDoc st i   -- `leak` takes the instance's next checkpoint: its directory's document is saved
      let tri := fun (e : Entry) => (e.key, e.del, e.val)
      let inherited := found.flatMap fun sv => (sv.orig.getD sv.ck).levels.flatten.flatMap fun t => t.run.map tri
      let mine := (i.s.mems.flatten ++ i.s.levels.flatten.flatMap (·.run)).map tri
      let extra := (mine.filter fun x => !Keys.ownsKey i.range x.1 && !inherited.contains x).eraseDups
      (st, if extra.isEmpty then "none" else
        joinWith "," (extra.map fun x => toHex x.1 ++ ":" ++ (if x.2.1 then "1" else "0") ++ ":" ++ toHex x.2.2))
    | none => (st, "no-instance")
  | ["seq", id] =>
    match findInst st (natOr id) with
    | some i => (st, s!"seq={i.s.seq}")
    | none => (st, "no-instance")
  | ["get", id, k] =>
    match findInst st (natOr id) with
    | some i => (st, withSpec (kfGet i (hexOr k)) (showAnswer (answer (getR i.s (hexOr k)))) (showAnswer (answer (specGet i.spec (hexOr k)))))
    | none => (st, "no-instance")
  | ["scan", id, p] =>
    match findInst st (natOr id) with
    | some i => (st, withSpec (kfScan i) (showScan (scanR i.s (hexOr p))) (showScan (specScan i.spec (hexOr p))))
    | none => (st, "no-instance")
  | ["sput", id, kgc, subj, ns, data, v] =>
    match findInst st (natOr id) with
    | some i =>
      if !Keys.ownsKey i.range (Keys.subjectKey (natOr kgc) (hexOr subj)) then (st, "not-routed") else
      let k := Keys.dbKey (natOr kgc) (hexOr subj) (hexOr ns) (hexOr data)
      (setInst st { i with s := write i.s k false (hexOr v), spec := ⟨k, 0, false, hexOr v⟩ :: i.spec }, "ok")
    | none => (st, "no-instance")
  | ["sdel", id, kgc, subj, ns, data] =>
    match findInst st (natOr id) with
    | some i =>
      if !Keys.ownsKey i.range (Keys.subjectKey (natOr kgc) (hexOr subj)) then (st, "not-routed") else
      let k := Keys.dbKey (natOr kgc) (hexOr subj) (hexOr ns) (hexOr data)
      (setInst st { i with s := write i.s k true [], spec := ⟨k, 0, true, []⟩ :: i.spec }, "ok")
    | none => (st, "no-instance")
  | ["sget", id, kgc, subj] =>
    match findInst st (natOr id) with
    | some i =>
      let p := Keys.subjectKey (natOr kgc) (hexOr subj)
      if !Keys.ownsKey i.range p then (st, "not-routed") else
      (st, withSpec (kfScan i) (showState p.length (scanR i.s p)) (showState p.length (specScan i.spec p)))
    | none => (st, "no-instance")
  | ["tput", id, kgc, subj, t] =>
    match findInst st (natOr id) with
    | some i =>
      if !Keys.ownsKey i.range (Keys.subjectKey (natOr kgc) (hexOr subj)) then (st, "not-routed") else
      let k := Keys.timerKey (natOr kgc) (hexOr subj) (natOr t)
      (setInst st { i with s := write i.s k false [], spec := ⟨k, 0, false, []⟩ :: i.spec }, "ok")
    | none => (st, "no-instance")
  | ["tearliest", id, _] =>
    match findInst st (natOr id) with
    | some i => (st, withSpec (kfScan i) (earliest (scanR i.s) i.range) (earliest (specScan i.spec) i.range))
    | none => (st, "no-instance")
  | [h, id, kgc, subj, a, b, c] =>
    if h != "hput" then (st, "bad-op") else
    match findInst st (natOr id) with
    | some i =>
      let p := Keys.subjectKey (natOr kgc) (hexOr subj)
      if !Keys.ownsKey i.range p then (st, "not-routed") else
      let out := withSpec (kfScan i) (showState p.length (scanR i.s p)) (showState p.length (specScan i.spec p))
      let k := Keys.dbKey (natOr kgc) (hexOr subj) (hexOr a) (hexOr b)
      (setInst st { i with s := write i.s k false (hexOr c), spec := ⟨k, 0, false, hexOr c⟩ :: i.spec }, out)
    | none => (st, "no-instance")
  | ["hdel", id, kgc, subj, a, b] =>
    match findInst st (natOr id) with
    | some i =>
      let p := Keys.subjectKey (natOr kgc) (hexOr subj)
      if !Keys.ownsKey i.range p then (st, "not-routed") else
      let out := withSpec (kfScan i) (showState p.length (scanR i.s p)) (showState p.length (specScan i.spec p))
      let k := Keys.dbKey (natOr kgc) (hexOr subj) (hexOr a) (hexOr b)
      (setInst st { i with s := write i.s k true [], spec := ⟨k, 0, true, []⟩ :: i.spec }, out)
    | none => (st, "no-instance")
  | ["htimer", id, kgc, subj, t] =>
    match findInst st (natOr id) with
    | some i =>
      let p := Keys.subjectKey (natOr kgc) (hexOr subj)
      if !Keys.ownsKey i.range p then (st, "not-routed") else
      let out := withSpec (kfScan i) (showState p.length (scanR i.s p)) (showState p.length (specScan i.spec p))
      -- `TimerRegistry.SetTimer`: a timer on or before the watermark is not stored
      if natOr t ≤ i.wm then (st, out) else
      let k := Keys.timerKey (natOr kgc) (hexOr subj) (natOr t)
      (setInst st { i with s := write i.s k false [], spec := ⟨k, 0, false, []⟩ :: i.spec }, out)
    | none => (st, "no-instance")
  | ["hwm", id, _, t] =>
    -- `TimerRegistry.AdvanceWatermark`: every timer not after the watermark fires, earliest first, and is deleted
    match findInst st (natOr id) with
    | some i =>
      let due := dueTimers (scanR i.s) i.range (natOr t)
      let dueSpec := dueTimers (specScan i.spec) i.range (natOr t)
      let s' := due.foldl (fun s e => write s e.key true []) i.s
      let spec' := dueSpec.foldl (fun sp e => ⟨e.key, 0, true, []⟩ :: sp) i.spec
      (setInst st { i with s := s', spec := spec', wm := natOr t }, withSpec (kfScan i) (showFired due) (showFired dueSpec))
    | none => (st, "no-instance")
  | ["scanown", id] =>
    match findInst st (natOr id) with
    | some i =>
      (st, withSpec (kfScan i) (showScan ((scanR i.s []).filter (fun e => Keys.ownsKey i.range e.key))) (showScan (specScan i.spec [])))
    | none => (st, "no-instance")
  | _ => (st, "bad-op")

def handle (lines : Array String) (i : Nat) (out : Array String) : Nat × Array String :=
  runLines step {} lines i out

end Driver.C06
