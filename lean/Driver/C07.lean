import Driver.Util
import RxnModel.Model.LsmCode
/-!
Driver section for C07/C18/C08-style traces of the real `dkv.DB`.
Input lines are `op ## impl-output` (trace validation): the implementation's output tells which background
action actually happened; everything the model can derive itself (read results, enabledness, safety of a change
set) is recomputed and printed, and compared with the implementation by the harness.

Reads are computed with the table selection of `dkv/sst/level_list.go` (`Rescale.getR`, `getBResultR`,
`Rescale.scanR`, `scanPhase1`/`scanResume`: `SearchUnique` over `RangeKeyCompare`, `AllTablesForPrefix` with its
binary search and forward walk) — the definitions the `*_code` theorems of `Props/C07.lean` are about.
-/
namespace Driver.C07
open Rxn Driver Rxn.Lsm

structure St where
  s : State := {}
  spec : Spec := []
  bad : Bool := false
  /-- background tasks enqueued and not finished (the code's task queues hold 5) -/
  flushQ : Nat := 0
  compactQ : Nat := 0
  /-- a `ScanPrefix` between its two phases: prefix and the merged memtable entries taken in the first phase
  (`DB.ScanPrefix` builds the memtable iterator first, then snapshots the sstables) -/
  scanning : Option (Bytes × Run) := none
  /-- a `ScanPrefix` iterator obtained (both snapshots taken at the call) and not yet consumed: prefix and the
  result fixed at the call -/
  held : Option (Bytes × Run) := none

/-- a foreground read is in flight (parked between its phases, or an iterator is held unconsumed): reads and writes
share one goroutine, so no other foreground operation happens -/
def St.busy (st : St) : Bool := st.s.reading.isSome || st.scanning.isSome || st.held.isSome

def showAnswer : Option Bytes → String
  | some v => "val " ++ toHex v
  | none => "absent"

def showScan (r : Run) : String :=
  if r.isEmpty then "empty" else joinWith "," (r.map fun e => toHex e.key ++ ":" ++ toHex e.val)

/-- a run with everything an entry carries, in the form the harness dumps a table file: `k:seq:d:v;…` -/
def showRunFull (r : Run) : String :=
  if r.isEmpty then "empty" else
  joinWith ";" (r.map fun e => toHex e.key ++ ":" ++ toString e.seq ++ ":" ++ (if e.del then "1" else "0") ++ ":" ++ toHex e.val)

/-- spec scan: live keys with the prefix in ascending order with their latest values -/
def specScan (m : Spec) (p : Bytes) : Run :=
  let keys := (m.map (·.key)).eraseDups
  let latest := keys.filterMap (fun k => Spec.get m k)
  let live := latest.filter (fun e => !e.del && Bytes.hasPrefix e.key p)
  live.foldl (fun acc e => Run.insert acc e) []

def withSpec (model spec : String) : String :=
  if model == spec then model else model ++ " #spec " ++ spec

/-- parse `k:seq:d:v;k:seq:d:v` -/
def parseRun (s : String) : Run :=
  if s == "empty" || s == "" then [] else
  (s.splitOn ";").filterMap fun item =>
    match item.splitOn ":" with
    | [k, sq, d, v] => some ⟨hexOr k, natOr sq, d == "1", hexOr v⟩
    | _ => none

def parseIds (s : String) : List Nat :=
  if s == "-" || s == "" then [] else (s.splitOn ",").map natOr

def splitHint (ws : List String) : List String × List String :=
  let i := ws.idxOf "##"
  (ws.take i, ws.drop (i + 1))

def applyActs (st : St) (acts : List Act) : Option St :=
  match run st.s acts with
  | some s' =>
    let spec' := acts.foldl (fun (m : Spec × Nat) a => (specStep m.1 m.2 a, match a with | .put .. => m.2 + 1 | .del .. => m.2 + 1 | _ => m.2)) (st.spec, st.s.seq)
    some { st with s := s', spec := spec'.1 }
  | none => none

def writeOp (st : St) (a : Act) (hint : List String) : St × String :=
  if st.busy then (st, "reader-busy") else
  if st.flushQ ≥ 4 then (st, "queue-full") else
  let rot := hint == ["rot=1"]
  match applyActs st (if rot then [a, .rotate] else [a]) with
  | some st' => ({ st' with flushQ := st'.flushQ + (if rot then 1 else 0) }, if rot then "rot=1" else "rot=0")
  | none => ({ st with bad := true }, "disabled")

def step (st : St) (ws : List String) : St × String :=
  let (op, hint) := splitHint ws
  match op with
  | ["put", k, v] => writeOp st (.put (hexOr k) (hexOr v)) hint
  | ["del", k] => writeOp st (.del (hexOr k)) hint
  | ["get", k] =>
    if st.busy then (st, "reader-busy") else
    (st, withSpec (showAnswer (answer (Rescale.getR st.s (hexOr k)))) (showAnswer (answer (Spec.get st.spec (hexOr k)))))
  | ["scan", p] =>
    if st.busy then (st, "reader-busy") else
    (st, withSpec (showScan (Rescale.scanR st.s (hexOr p))) (showScan (specScan st.spec (hexOr p))))
  | ["scanpark", p] =>
    if st.busy then (st, "reader-busy") else
    ({ st with scanning := some (hexOr p, scanPhase1 st.s (hexOr p)) }, "parked")
  | ["getpark", k] =>
    if st.busy then (st, "reader-busy") else
    match applyActs st [.getA (hexOr k)] with
    | some st' =>
      match st'.s.reading with
      | some (_, some e) =>
        -- memtable hit: the real call returns without reaching the second phase
        let st'' := { st' with s := { st'.s with reading := none } }
        (st'', withSpec ("done " ++ showAnswer (answer (some e))) ("done " ++ showAnswer (answer (Spec.get st.spec (hexOr k)))))
      | _ => (st', "parked")
    | none => ({ st with bad := true }, "disabled")
  | ["failnext"] =>
    -- fault injection of the harness (the next table write fails); nothing happens in the model until the task runs
    if st.busy then (st, "reader-busy") else (st, "armed")
  | ["scanget", p] =>
    if st.busy then (st, "reader-busy") else
    ({ st with held := some (hexOr p, Rescale.scanR st.s (hexOr p)) }, "held")
  | ["scanrun"] =>
    match st.held with
    | some (p, res) => ({ st with held := none }, withSpec (showScan res) (showScan (specScan st.spec p)))
    | none => (st, "no-iter")
  | ["resume"] =>
    match st.scanning with
    | some (p, memRun) =>
      ({ st with scanning := none }, withSpec (showScan (scanResume memRun st.s.levels p)) (showScan (specScan st.spec p)))
    | none =>
    match st.s.reading with
    | none => (st, "no-reader")
    | some (k, _) =>
      let res := getBResultR st.s
      match applyActs st [.getB] with
      | some st' => (st', withSpec (showAnswer (answer res)) (showAnswer (answer (Spec.get st.spec k))))
      | none => ({ st with bad := true }, "disabled")
  | ["bg", _] =>
    match hint with
    | ["none"] => (st, "none")
    | ["compactbegin"] => (st, "compactbegin")
    | ["compactidle"] => ({ st with compactQ := st.compactQ - 1 }, "compactidle")
    | ["queue-full"] => (st, if st.compactQ ≥ 4 then "queue-full" else "not-full")
    | ["flushbegin", n] =>
      match applyActs st [.flushBegin (natOr n)] with
      | some st' => (st', "flushbegin " ++ toString ((st'.s.flushing.getD []).length))
      | none => ({ st with bad := true }, "disabled " ++ n)
    | ["flushfail", n] =>
      -- the flush task took its snapshot of the sealed memtables and failed writing a table: `flushBegin`, `flushAbort`
      match applyActs st [.flushBegin (natOr n), .flushAbort] with
      | some st' => ({ st' with flushQ := st'.flushQ - 1 }, "flushfail " ++ n)
      | none => ({ st with bad := true }, "disabled " ++ n)
    | ["compactfail"] => ({ st with compactQ := st.compactQ - 1 }, "compactfail")
    | "flushcommit" :: n :: rest =>
      -- with a third hint word the implementation dumped the tables it appended to level 0: the model answers with
      -- its own flush snapshot (one table per sealed memtable, every entry with key, seq, marker, value)
      let snap := st.s.flushing.getD []
      let cnt := snap.length
      let tbls := if rest.isEmpty then "" else " tbl=" ++ joinWith "|" (snap.map showRunFull)
      match applyActs st [.flushCommit] with
      | some st' => ({ st' with flushQ := st'.flushQ - 1, compactQ := st'.compactQ + 1 }, "flushcommit " ++ toString cnt ++ tbls)
      | none => ({ st with bad := true }, "disabled " ++ n)
    | ["compact", lvl, rm, add] =>
      let l := natOr (lvl.drop 1).toString
      let rmIds := parseIds (rm.drop 3).toString
      let addStr := (add.drop 4).toString
      let runs := if addStr == "none" then [] else (addStr.splitOn "|").map parseRun
      match applyActs st [.compact rmIds l runs] with
      | some st' => (st', joinWith " " hint)
      | none =>
        -- not in the safe family: report it, but keep following the implementation's layout so that the
        -- reads that follow are still compared with the (independent) map specification
        let s' := { st.s with levels := addAt (removeIds rmIds st.s.levels) l (mkTables st.s.nextId runs),
                              nextId := st.s.nextId + runs.length }
        ({ st with s := s', bad := true }, "unsafe")
    | _ => (st, "bad-hint")
  | _ => (st, "bad-op")

def handle (lines : Array String) (i : Nat) (out : Array String) : Nat × Array String :=
  runLines step {} lines i out

end Driver.C07
