import Driver.Util
import Driver.C05
/-!
Line-protocol driver. Reads all of stdin, processes it in sections:
  `M <model> ...`   selects the model handling the following lines (state reset)
  other lines       passed to the current model; one output line per input line
-/
open Driver

def dispatch (model : String) : Option (Array String → Nat → Array String → Nat × Array String) :=
  match model with
  | "C05" => some Driver.C05.handle
  | _ => none

partial def readAll (h : IO.FS.Stream) (acc : Array String) : IO (Array String) := do
  let line ← h.getLine
  if line.isEmpty then return acc
  readAll h (acc.push (line.trimAsciiEnd.toString))

partial def process (lines : Array String) (i : Nat) (out : Array String) : Array String :=
  if h : i < lines.size then
    let l := lines[i]
    match words l with
    | "M" :: model :: _ =>
      match dispatch model with
      | some f =>
        let (j, out') := f lines (i + 1) (out.push "ok")
        process lines j out'
      | none => process lines (i + 1) (out.push "bad-model")
    | _ => process lines (i + 1) (out.push "no-model")
  else out

def main : IO Unit := do
  let stdin ← IO.getStdin
  let lines ← readAll stdin #[]
  let out := process lines 0 #[]
  let stdout ← IO.getStdout
  for o in out do
    stdout.putStrLn o
  stdout.flush
