import Driver.Loop
import Driver.C01
import Driver.C02
import Driver.C03
import Driver.C04
import Driver.C05
import Driver.C06
import Driver.C07
import Driver.C08
import Driver.C09
import Driver.C10
import Driver.C11
import Driver.C12
import Driver.C13
import Driver.C14
import Driver.C15
import Driver.C16
import Driver.C17
import Driver.C18
import Driver.C19
import Driver.C20
/-!
Line-protocol driver (all models). Reads all of stdin, processes it in sections:
  `M <model> ...`   selects the model handling the following lines (state reset); answered with `ok`
  other lines       passed to the current model; exactly one output line per input line
`Driver/Main_Cxx.lean` are single-model variants (same loop, same handlers) that `./check Cxx` falls back to when
another property's model no longer compiles, so that one property's breakage cannot raise alarms for the others.
-/
def dispatch (model : String) : Option (Array String → Nat → Array String → Nat × Array String) :=
  match model with
  | "C01" => some Driver.C01.handle
  | "C02" => some Driver.C02.handle
  | "C03" => some Driver.C03.handle
  | "C04" => some Driver.C04.handle
  | "C05" => some Driver.C05.handle
  | "C06" => some Driver.C06.handle
  | "C07" => some Driver.C07.handle
  | "C08" => some Driver.C08.handle
  | "C09" => some Driver.C09.handle
  | "C10" => some Driver.C10.handle
  | "C11" => some Driver.C11.handle
  | "C12" => some Driver.C12.handle
  | "C13" => some Driver.C13.handle
  | "C14" => some Driver.C14.handle
  | "C15" => some Driver.C15.handle
  | "C16" => some Driver.C16.handle
  | "C17" => some Driver.C17.handle
  | "C18" => some Driver.C18.handle
  | "C19" => some Driver.C19.handle
  | "C20" => some Driver.C20.handle
  | _ => none

def main : IO Unit := driverMain dispatch
