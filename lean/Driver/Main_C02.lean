import Driver.Loop
import Driver.C02
/-! Single-model driver for C02 (fallback of `./check C02` when the all-models driver does not build). -/
def dispatchC02 (model : String) : Option (Array String → Nat → Array String → Nat × Array String) :=
  if model == "C02" then some Driver.C02.handle else none

def main : IO Unit := driverMain dispatchC02
