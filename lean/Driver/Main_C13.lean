import Driver.Loop
import Driver.C13
/-! Single-model driver for C13 (fallback of `./check C13` when the all-models driver does not build). -/
def dispatchC13 (model : String) : Option (Array String → Nat → Array String → Nat × Array String) :=
  if model == "C13" then some Driver.C13.handle else none

def main : IO Unit := driverMain dispatchC13
