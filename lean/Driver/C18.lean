import Driver.Util
import Driver.C07
import RxnModel.Model.Compaction
import RxnModel.Generated.Facts
/-!
Driver section for C18.

`mode=direct`: a level list built table by table, real `Compactor.Compact` steps on it, flush arrivals between the
computation and the application of a change set. Lines are `op ## impl-output`.

* `w i put k v` / `load`      mode=ckpt: writes to source databases; `load` = the level list `LoadCheckpointList`
                              built from their checkpoints (dump taken from the implementation)
* `tbl l run` / `flush run`   add a table (both to the model of the real list and to the never-compacted reference)
* `compact`                   impl: `o=<few><amp>/<met…>/<over…> none|cs L<l> rm=<ids> add=<runs> cur=<cursor>`;
                              echoed; the model's own `compact` runs with these oracle answers
* `apply`                     the real change set is applied (`applyCS`)
* `valid`                     P-obs: `LayoutValid` evaluated on the dump of the real layout
* `get k` / `scan p`          P-obs: answered from the never-compacted reference (compaction must not change the view)
* `safe`                      M-obs: the real change set lies in `SafeCS` and passes `Lsm.safeCS`, at computation and
                              at application time
* `pick`                      M-obs: what the model's `compact` produced (removed ids, level, tables, cursor)
* `layout`                    M-obs: the model's level list
-/
namespace Driver.C18
open Rxn Driver Rxn.Lsm Rxn.Compaction

def showEntry (e : Entry) : String :=
  toHex e.key ++ ":" ++ toString e.seq ++ ":" ++ (if e.del then "1" else "0") ++ ":" ++ toHex e.val

def showRun (r : Run) : String :=
  if r.isEmpty then "empty" else joinWith ";" (r.map showEntry)

def showLevel (l : List Tbl) : String :=
  if l.isEmpty then "-" else joinWith "|" (l.map fun t => toString t.id ++ "=" ++ showRun t.run)

def showLayout (L : Levels) : String := joinWith "/" (L.map showLevel)

def parseTbl (s : String) : Tbl :=
  match s.splitOn "=" with
  | [i, r] => ⟨natOr i, Driver.C07.parseRun r⟩
  | _ => ⟨0, []⟩

def parseLevel (s : String) : List Tbl :=
  if s == "-" || s == "" then [] else (s.splitOn "|").map parseTbl

def parseLayout (s : String) : Levels := (s.splitOn "/").map parseLevel

def bits (s : String) : List Bool := s.toList.map (· == '1')

/-- `o=<few><amp>/<met…>/<over…>` and the cut lengths of the real tables -/
def parseOracle (s : String) (cuts : List Nat) : Oracle :=
  match ((s.drop 2).toString.splitOn "/") with
  | [fa, met, over] =>
    let fa' := bits fa
    let met' := bits met
    let over' := bits over
    { l0Few := fa'.getD 0 false, overAmp := fa'.getD 1 false,
      goalMet := fun n => met'.getD (n - 1) false, levelOver := fun i => over'.getD i false, cuts := cuts }
  | _ => { l0Few := false, overAmp := false, goalMet := fun _ => false, levelOver := fun _ => false, cuts := cuts }

def sortNat (l : List Nat) : List Nat := l.foldr (fun x acc => (acc.filter (· < x)) ++ x :: (acc.filter (fun y => !(y < x)))) []

def showIds (l : List Nat) : String := if l.isEmpty then "-" else joinWith "," ((sortNat l).map toString)

def showCS (cs : Option ChangeSet) (cur : Nat) : String :=
  match cs with
  | none => "none cur=" ++ toString cur
  | some c =>
    "cs L" ++ toString c.lvl ++ " rm=" ++ showIds c.rm ++ " add=" ++
      (if c.add.isEmpty then "none" else joinWith "|" (c.add.map showRun)) ++ " cur=" ++ toString cur

structure Applied where
  atCompute : Levels
  atApply : Levels
  cs : ChangeSet

structure St where
  L : Levels := []
  nextId : Nat := 0
  /-- the same history without any compaction -/
  ref : Levels := []
  refNext : Nat := 0
  comp : Compactor := {}
  pending : Option (ChangeSet × Levels) := none
  predicted : String := "none cur=0"
  last : Option Applied := none
  init : Bool := false

def ensureInit (st : St) (hdr : List String) : St :=
  if st.init then st else
  let n := (hdr.filterMap fun w => if w.startsWith "levels=" then some (natOr (w.drop 7).toString) else none).headD 6
  { st with L := List.replicate n [], ref := List.replicate n [], init := true }

def addTbl (st : St) (lvl : Nat) (r : Run) : St :=
  { st with L := addAt st.L lvl [⟨st.nextId, r⟩], nextId := st.nextId + 1,
            ref := addAt st.ref lvl [⟨st.refNext, r⟩], refNext := st.refNext + 1 }

def field (pfx : String) (ws : List String) : Option String :=
  (ws.filterMap fun w => if w.startsWith pfx then some (w.drop pfx.length).toString else none).head?

/-- tables of equal age (possible only across checkpoint sources) are listed by id: their order is immaterial.
The input is already age-sorted, so sorting by (age, id) only arranges the ties. -/
def insertAgeId (t : Tbl) : List Tbl → List Tbl
  | [] => [t]
  | x :: xs => if age t < age x || (age t == age x && t.id ≤ x.id) then t :: x :: xs else x :: insertAgeId t xs

def tieById (l : List Tbl) : List Tbl := l.foldr insertAgeId []

/-- a `Compact` call on the current level list: the real result is echoed and stored as pending, the model's own pick
is computed under the observed oracle answers and cuts -/
def directCompact (st : St) (hint : List String) : St × String :=
  if st.pending.isSome then (st, "busy") else
  match hint with
  | o :: rest =>
    let cur := natOr ((field "cur=" rest).getD "0")
    let real : Option ChangeSet :=
      match rest with
      | "cs" :: lv :: _ =>
        let rm := Driver.C07.parseIds ((field "rm=" rest).getD "-")
        let addS := (field "add=" rest).getD "none"
        let runs := if addS == "none" then [] else (addS.splitOn "|").map Driver.C07.parseRun
        some { rm := rm, lvl := natOr (lv.drop 1).toString, add := runs }
      | _ => none
    let cuts := match real with | some c => c.add.map (·.length) | none => []
    let orc := parseOracle o cuts
    let (pcs, comp') := compact st.comp st.L orc
    let st' := { st with comp := comp', predicted := showCS pcs comp'.minorLevel,
                         pending := real.map (fun c => (c, st.L)) }
    (st', o ++ " " ++ showCS real cur)
  | _ => (st, "bad-hint")

def stepDirect (st : St) (op hint : List String) : St × String :=
  match op with
  | "w" :: _ => (st, "ok")
  | ["load"] =>
    -- the composite level list loaded from several real checkpoints: taken from the implementation's dump
    match hint with
    | [d] =>
      let real := parseLayout d
      let next := (real.flatten.map (fun t => t.id + 1)).foldl max 0
      ({ st with L := real, ref := real, nextId := next, refNext := next }, d)
    | _ => (st, "bad-hint")
  | ["tbl", l, r] => (addTbl st (natOr l) (Driver.C07.parseRun r), "ok")
  | ["flush", r] => (addTbl st 0 (Driver.C07.parseRun r), "ok")
  | ["compact"] => directCompact st hint
  | ["compactreadfail"] =>
    -- `Compact` while reading any input table fails behind its first entry: if the pick has a table with two or more
    -- entries the call must fail (error, no change set, level list unchanged, cursor as after the pick); otherwise no
    -- fault is hit and this is an ordinary `Compact`
    if st.pending.isSome then (st, "busy") else
    match hint with
    | o :: _ =>
      let (pcs, comp') := compact st.comp st.L (parseOracle o [])
      let hit : Bool := match pcs with
        | some cs => (st.L.flatten.filter (fun t => cs.rm.contains t.id)).any (fun t => decide (t.run.length ≥ 2))
        | none => false
      if hit then
        ({ st with comp := comp', predicted := "failed cur=" ++ toString comp'.minorLevel },
         o ++ " readfault cur=" ++ toString comp'.minorLevel)
      else directCompact st hint
    | _ => (st, "bad-hint")
  | ["compactfail"] =>
    if st.pending.isSome then (st, "busy") else
    match hint with
    | o :: _ =>
      let (pcs, comp') := compact st.comp st.L (parseOracle o [])
      -- a failed call leaves the level list alone; the cursor is where the code put it before writing
      ({ st with comp := comp' }, o ++ (if pcs.isSome then " failed cur=" else " none cur=") ++ toString comp'.minorLevel)
    | _ => (st, "bad-hint")
  | ["apply"] =>
    match st.pending with
    | none => (st, "none")
    | some (cs, atc) =>
      ({ st with L := applyCS st.L st.nextId cs, nextId := st.nextId + cs.add.length, pending := none,
                 last := some { atCompute := atc, atApply := st.L, cs := cs } }, "ok")
  | ["valid"] =>
    match hint with
    | [d, _] =>
      let real := parseLayout d
      (st, d ++ (if decide (LayoutValid real) then " valid" else " INVALID"))
    | _ => (st, "bad-hint")
  | ["get", k] =>
    (st, match levelsGet st.ref (hexOr k) with
      | some e => "e " ++ showEntry e
      | none => "none")
  | ["scan", p] => (st, showRun (scanView st.ref (hexOr p)))
  | ["safe"] =>
    match st.last with
    | none => (st, "safe")
    | some a =>
      let c := a.cs
      let r1 := decide (SafeCS a.atCompute c.rm c.lvl c.add)
      let r2 := decide (SafeCS a.atApply c.rm c.lvl c.add)
      let r3 := safeCS a.atCompute c.rm c.lvl c.add
      let r4 := safeCS a.atApply c.rm c.lvl c.add
      let r5 := decide (LayoutValid a.atApply)
      let r6 := decide (L0KeyAgeOrdered a.atCompute) && decide (L0KeyAgeOrdered a.atApply)
      (st, if r1 && r2 && r3 && r4 && r5 && r6 then "safe" else
        "not-safe family@compute=" ++ toString r1 ++ " family@apply=" ++ toString r2 ++ " test@compute=" ++ toString r3 ++
          " test@apply=" ++ toString r4 ++ " validBefore=" ++ toString r5 ++ " keyAge=" ++ toString r6)
  | ["cfg"] =>
    (st, "levels=" ++ toString Facts.dkvLevelCount ++ " l0=" ++ toString Facts.dkvDefaultL0Trigger ++ " amp=" ++
      toString Facts.dkvMaxSizeAmpPercent)
  | ["ages"] =>
    (st, joinWith "/" (st.L.map fun l =>
      if l.isEmpty then "-" else joinWith "," (l.map fun t => toString t.id ++ ":" ++ toString (age t))))
  | ["agesort"] =>
    (st, joinWith "/" (st.L.map fun l =>
      if l.isEmpty then "-" else joinWith "," ((tieById (sortByAge l)).map fun t => toString t.id)))
  | ["pick"] => (st, st.predicted)
  | ["layout"] => (st, showLayout st.L)
  | _ => (st, "bad-op")

def splitHint (ws : List String) : List String × List String :=
  let i := ws.idxOf "##"
  (ws.take i, ws.drop (i + 1))

/-! ### `mode=db`: the C07 trace driver plus the compactor model at every compaction step -/

structure DbSt where
  c07 : Driver.C07.St := {}
  comp : Compactor := {}
  /-- oracle token, level list and compactor state at the moment the real `Compact` ran -/
  begun : Option (String × Levels × Compactor) := none
  unsafeSeen : Bool := false

def stripExtras (hint : List String) : List String × List String :=
  (hint.filter (fun w => !(w.startsWith "o=" || w.startsWith "cur=")),
   hint.filter (fun w => w.startsWith "o=" || w.startsWith "cur="))

def dbIdle (st : DbSt) (rest : List String) : DbSt × String :=
  let o := (field "o=" rest).getD ""
  let (pcs, comp') := compact st.comp st.c07.s.levels (parseOracle ("o=" ++ o) [])
  let (c07', out) := Driver.C07.step st.c07 ["bg", "c", "##", "compactidle"]
  let st' := { st with c07 := c07', comp := comp' }
  (st', if pcs.isNone then joinWith " " ([out, "o=" ++ o, "cur=" ++ toString comp'.minorLevel])
        else out ++ " pick-mismatch model=" ++ showCS pcs comp'.minorLevel)

/-- the compaction commit of the real task: the model's pick on the snapshot the real compactor saw is compared, the
real change set is applied -/
def dbCommit (st : DbSt) (lv : String) (rest : List String) : DbSt × String :=
  let rm := Driver.C07.parseIds ((field "rm=" rest).getD "-")
  let addS := (field "add=" rest).getD "none"
  let runs := if addS == "none" then [] else (addS.splitOn "|").map Driver.C07.parseRun
  let l := natOr (lv.drop 1).toString
  let real : ChangeSet := { rm := rm, lvl := l, add := runs }
  -- the model's pick on the snapshot the real compactor saw
  let (pred, comp') := match st.begun with
    | some (o, lv0, c0) => compact c0 lv0 (parseOracle o (runs.map (·.length)))
    | none => (none, st.comp)
  let s := st.c07.s
  let safeNow := safeCS s.levels rm l runs && decide (SafeCS s.levels rm l runs)
  let c07' : Driver.C07.St :=
    match Driver.C07.applyActs st.c07 [.compact rm l runs] with
    | some x => x
    | none => { st.c07 with s := { s with levels := addAt (removeIds rm s.levels) l (mkTables s.nextId runs),
                                          nextId := s.nextId + runs.length } }
  let st' := { st with c07 := c07', comp := comp', begun := none, unsafeSeen := st.unsafeSeen || !safeNow }
  let realS := showCS (some real) comp'.minorLevel
  let predS := showCS pred comp'.minorLevel
  let lineReal := "compact L" ++ toString l ++ " rm=" ++ ((field "rm=" rest).getD "-") ++ " add=" ++ addS ++
    " cur=" ++ toString comp'.minorLevel
  (st', if realS == predS then lineReal else lineReal ++ " pick-mismatch model=" ++ predS)

/-- the compaction task called `Compact` and holds a change set -/
def dbBegin (st : DbSt) (rest : List String) : DbSt × String :=
  let o := (field "o=" rest).getD ""
  let (c07', out) := Driver.C07.step st.c07 ["bg", "c", "##", "compactbegin"]
  -- the cursor after the real call is predicted without knowing where `WriteRun` cuts
  let (pcs, comp') := compact st.comp st.c07.s.levels (parseOracle ("o=" ++ o) [])
  let st' := { st with c07 := c07', begun := some ("o=" ++ o, st.c07.s.levels, st.comp) }
  (st', if pcs.isSome then joinWith " " ([out, "o=" ++ o, "cur=" ++ toString comp'.minorLevel])
        else out ++ " pick-mismatch model=none")

def showIdLevels (L : Levels) : String :=
  joinWith "/" (L.map fun l => if l.isEmpty then "-" else joinWith "," (l.map fun t => toString t.id))

def stepDB (st : DbSt) (ws : List String) : DbSt × String :=
  let (op, hint) := splitHint ws
  match op, hint with
  | ["chk"], _ => (st, if st.unsafeSeen then "not-safe-change-set-seen" else "safe")
  | ["bg", "cf"], "cf" :: "compactbegin" :: rest =>
    -- `Compact` computed its change set, then (while it was writing its first table) the flush task wrote its tables
    let o := (field "o=" rest).getD ""
    let n := match rest.dropWhile (· != "flushbegin") with
      | _ :: k :: _ => k
      | _ => "0"
    let (c07a, out1) := Driver.C07.step st.c07 ["bg", "c", "##", "compactbegin"]
    let (pcs, comp') := compact st.comp st.c07.s.levels (parseOracle ("o=" ++ o) [])
    let (c07b, out2) := Driver.C07.step c07a ["bg", "f", "##", "flushbegin", n]
    let st' := { st with c07 := c07b, begun := some ("o=" ++ o, st.c07.s.levels, st.comp) }
    (st', if pcs.isSome then joinWith " " (["cf", out1, "o=" ++ o, "cur=" ++ toString comp'.minorLevel, out2])
          else "cf pick-mismatch model=none")
  | ["bg", "cf"], "compactidle" :: rest => dbIdle st rest
  | ["bg", "cf"], _ =>
    -- nothing to overlap, or one of the two tasks is past its begin: decided by the model, never echoed
    if st.c07.compactQ == 0 || st.c07.flushQ == 0 then (st, "none")
    else if st.c07.s.flushing.isSome || st.begun.isSome then (st, "skip")
    else (st, "bad-hint")
  | ["bg", "race"], "race" :: "flushcommit" :: n :: "compact" :: lv :: rest =>
    -- the flush commit and the compaction commit were released together: whatever order the lock gave them, the level
    -- list holds both effects (`safe_commutes_with_flush`); the model commits the flush first
    if st.c07.s.flushing.isNone || st.begun.isNone then (st, "skip") else
    if st.c07.compactQ ≥ 4 then (st, "queue-full") else
    let (c07a, out1) := Driver.C07.step st.c07 ["bg", "f", "##", "flushcommit", n]
    let (st2, out2) := dbCommit { st with c07 := c07a } lv (rest.filter (fun w => !w.startsWith "ids="))
    (st2, joinWith " " ["race", out1, out2, "ids=" ++ showIdLevels st2.c07.s.levels])
  | ["bg", "race"], _ =>
    if st.c07.s.flushing.isNone || st.begun.isNone then (st, "skip")
    else if st.c07.compactQ ≥ 4 then (st, "queue-full") else (st, "bad-hint")
  | ["bg", "c"], "compactidle" :: rest => dbIdle st rest
  | ["bg", "c"], "compactbegin" :: rest => dbBegin st rest
  | ["bg", "crf"], hint =>
    -- `Compact` of the compaction task while every table with two or more entries is unreadable behind its first
    -- entry: with such a table in the pick the task must end with an error (nothing pending, level list unchanged)
    if st.c07.compactQ == 0 then (st, "none")
    else if st.begun.isSome then (st, "skip")
    else
      match hint with
      | "compactidle" :: rest => dbIdle st rest
      | "compactbegin" :: rest => dbBegin st rest
      | "readfault" :: rest =>
        let o := (field "o=" rest).getD ""
        let (pcs, comp') := compact st.comp st.c07.s.levels (parseOracle ("o=" ++ o) [])
        let hit : Bool := match pcs with
          | some cs => (st.c07.s.levels.flatten.filter (fun t => cs.rm.contains t.id)).any (fun t => decide (t.run.length ≥ 2))
          | none => false
        if hit then
          ({ st with comp := comp', c07 := { st.c07 with compactQ := st.c07.compactQ - 1 } },
           "readfault o=" ++ o ++ " cur=" ++ toString comp'.minorLevel)
        else (st, "no-fault-expected")
      | _ => (st, "bad-hint")
  | ["bg", "c"], "compact" :: lv :: rest => dbCommit st lv rest
  | _, _ =>
    let (c07', out) := Driver.C07.step st.c07 ws
    ({ st with c07 := c07' }, out)

def handle (lines : Array String) (i : Nat) (out : Array String) : Nat × Array String :=
  let hdr := if i ≥ 1 then words (lines[i - 1]!) else []
  if hdr.contains "mode=db" then
    runLines stepDB ({} : DbSt) lines i out
  else
    runLines (fun st ws => let (op, hint) := splitHint ws; stepDirect (ensureInit st hdr) op hint) ({} : St) lines i out

end Driver.C18
