import Driver.Util
import Driver.C07
import RxnModel.Model.Compaction
/-!
Driver section for C18.

`mode=direct`: a level list built table by table, real `Compactor.Compact` steps on it, flush arrivals between the
computation and the application of a change set. Lines are `op ## impl-output`.

* `tbl l run` / `flush run`   add a table (both to the model of the real list and to the never-compacted reference)
* `compact`                   impl: `o=<few><amp>/<met…>/<over…> none|cs L<l> rm=<ids> add=<runs> cur=<cursor>`;
                              echoed; the model's own `compact` runs with these oracle answers
* `apply`                     the real change set is applied (`applyCS`)
* `valid`                     P-obs: `LayoutValid` evaluated on the dump of the real layout
* `get k` / `scan p`          P-obs: answered from the never-compacted reference (compaction must not change the view)
* `safe`                      M-obs: the real change set lies in `SafeCS` and passes `Lsm.safeCS`, at computation and
                              at application time
* `pick`                      M-obs: what the model's `compact` produced (removed ids, level, tables, cursor)
* `layout`                    M-obs: the model's level list
-/
namespace Driver.C18
open Rxn Driver Rxn.Lsm Rxn.Compaction

def showEntry (e : Entry) : String :=
  toHex e.key ++ ":" ++ toString e.seq ++ ":" ++ (if e.del then "1" else "0") ++ ":" ++ toHex e.val

def showRun (r : Run) : String :=
  if r.isEmpty then "empty" else joinWith ";" (r.map showEntry)

def showLevel (l : List Tbl) : String :=
  if l.isEmpty then "-" else joinWith "|" (l.map fun t => toString t.id ++ "=" ++ showRun t.run)

def showLayout (L : Levels) : String := joinWith "/" (L.map showLevel)

def parseTbl (s : String) : Tbl :=
  match s.splitOn "=" with
  | [i, r] => ⟨natOr i, Driver.C07.parseRun r⟩
  | _ => ⟨0, []⟩

def parseLevel (s : String) : List Tbl :=
  if s == "-" || s == "" then [] else (s.splitOn "|").map parseTbl

def parseLayout (s : String) : Levels := (s.splitOn "/").map parseLevel

def bits (s : String) : List Bool := s.toList.map (· == '1')

/-- `o=<few><amp>/<met…>/<over…>` and the cut lengths of the real tables -/
def parseOracle (s : String) (cuts : List Nat) : Oracle :=
  match ((s.drop 2).toString.splitOn "/") with
  | [fa, met, over] =>
    let fa' := bits fa
    let met' := bits met
    let over' := bits over
    { l0Few := fa'.getD 0 false, overAmp := fa'.getD 1 false,
      goalMet := fun n => met'.getD (n - 1) false, levelOver := fun i => over'.getD i false, cuts := cuts }
  | _ => { l0Few := false, overAmp := false, goalMet := fun _ => false, levelOver := fun _ => false, cuts := cuts }

def sortNat (l : List Nat) : List Nat := l.foldr (fun x acc => (acc.filter (· < x)) ++ x :: (acc.filter (fun y => !(y < x)))) []

def showIds (l : List Nat) : String := if l.isEmpty then "-" else joinWith "," ((sortNat l).map toString)

def showCS (cs : Option ChangeSet) (cur : Nat) : String :=
  match cs with
  | none => "none cur=" ++ toString cur
  | some c =>
    "cs L" ++ toString c.lvl ++ " rm=" ++ showIds c.rm ++ " add=" ++
      (if c.add.isEmpty then "none" else joinWith "|" (c.add.map showRun)) ++ " cur=" ++ toString cur

structure Applied where
  atCompute : Levels
  atApply : Levels
  cs : ChangeSet

structure St where
  L : Levels := []
  nextId : Nat := 0
  /-- the same history without any compaction -/
  ref : Levels := []
  refNext : Nat := 0
  comp : Compactor := {}
  pending : Option (ChangeSet × Levels) := none
  predicted : String := "none cur=0"
  last : Option Applied := none
  init : Bool := false

def ensureInit (st : St) (hdr : List String) : St :=
  if st.init then st else
  let n := (hdr.filterMap fun w => if w.startsWith "levels=" then some (natOr (w.drop 7).toString) else none).headD 6
  { st with L := List.replicate n [], ref := List.replicate n [], init := true }

def addTbl (st : St) (lvl : Nat) (r : Run) : St :=
  { st with L := addAt st.L lvl [⟨st.nextId, r⟩], nextId := st.nextId + 1,
            ref := addAt st.ref lvl [⟨st.refNext, r⟩], refNext := st.refNext + 1 }

def field (pfx : String) (ws : List String) : Option String :=
  (ws.filterMap fun w => if w.startsWith pfx then some (w.drop pfx.length).toString else none).head?

def stepDirect (st : St) (op hint : List String) : St × String :=
  match op with
  | ["tbl", l, r] => (addTbl st (natOr l) (Driver.C07.parseRun r), "ok")
  | ["flush", r] => (addTbl st 0 (Driver.C07.parseRun r), "ok")
  | ["compact"] =>
    if st.pending.isSome then (st, "busy") else
    match hint with
    | o :: rest =>
      let cur := natOr ((field "cur=" rest).getD "0")
      let real : Option ChangeSet :=
        match rest with
        | "cs" :: lv :: _ =>
          let rm := Driver.C07.parseIds ((field "rm=" rest).getD "-")
          let addS := (field "add=" rest).getD "none"
          let runs := if addS == "none" then [] else (addS.splitOn "|").map Driver.C07.parseRun
          some { rm := rm, lvl := natOr (lv.drop 1).toString, add := runs }
        | _ => none
      let cuts := match real with | some c => c.add.map (·.length) | none => []
      let orc := parseOracle o cuts
      let (pcs, comp') := compact st.comp st.L orc
      let st' := { st with comp := comp', predicted := showCS pcs comp'.minorLevel,
                           pending := real.map (fun c => (c, st.L)) }
      (st', o ++ " " ++ showCS real cur)
    | _ => (st, "bad-hint")
  | ["apply"] =>
    match st.pending with
    | none => (st, "none")
    | some (cs, atc) =>
      ({ st with L := applyCS st.L st.nextId cs, nextId := st.nextId + cs.add.length, pending := none,
                 last := some { atCompute := atc, atApply := st.L, cs := cs } }, "ok")
  | ["valid"] =>
    match hint with
    | [d, _] =>
      let real := parseLayout d
      (st, d ++ (if decide (LayoutValid real) then " valid" else " INVALID"))
    | _ => (st, "bad-hint")
  | ["get", k] =>
    (st, match levelsGet st.ref (hexOr k) with
      | some e => "e " ++ showEntry e
      | none => "none")
  | ["scan", p] => (st, showRun (scanView st.ref (hexOr p)))
  | ["safe"] =>
    match st.last with
    | none => (st, "safe")
    | some a =>
      let c := a.cs
      let r1 := decide (SafeCS a.atCompute c.rm c.lvl c.add)
      let r2 := decide (SafeCS a.atApply c.rm c.lvl c.add)
      let r3 := safeCS a.atCompute c.rm c.lvl c.add
      let r4 := safeCS a.atApply c.rm c.lvl c.add
      let r5 := decide (LayoutValid a.atApply)
      (st, if r1 && r2 && r3 && r4 && r5 then "safe" else
        "not-safe family@compute=" ++ toString r1 ++ " family@apply=" ++ toString r2 ++ " test@compute=" ++ toString r3 ++
          " test@apply=" ++ toString r4 ++ " validBefore=" ++ toString r5)
  | ["pick"] => (st, st.predicted)
  | ["layout"] => (st, showLayout st.L)
  | _ => (st, "bad-op")

def splitHint (ws : List String) : List String × List String :=
  let i := ws.idxOf "##"
  (ws.take i, ws.drop (i + 1))

def handle (lines : Array String) (i : Nat) (out : Array String) : Nat × Array String :=
  let hdr := if i ≥ 1 then words (lines[i - 1]!) else []
  if hdr.contains "mode=db" then
    Driver.C07.handle lines i out
  else
    runLines (fun st ws => let (op, hint) := splitHint ws; stepDirect (ensureInit st hdr) op hint) ({} : St) lines i out

end Driver.C18
