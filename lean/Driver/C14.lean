import Driver.Util
import RxnModel.Model.Savepoint
/-! Driver section for C14: trace validation of the savepoint store/artifact model (`Model/Savepoint.lean`).
Lines arrive as `op ## impl-output` (FeedImpl): the storage dump, the document URIs returned by the operators'
DKV checkpoints and the junk URIs are read from the implementation; everything else is computed. -/
namespace Driver.C14
open Rxn Rxn.Savepoint Driver

structure St where
  nOps : Nat := 1
  store : Store := {}
  acked : List String := []
  srcAcked : Bool := false
  parked : List Published := []
  fs : FS := []
  dumped : Bool := false
  atDump : Option FS := none
  released : Bool := false
  completed : List Nat := []          -- ids of the snapshots the current store holds as completed
  fresh : Bool := false               -- nothing touched the operators' files since the last successful load
  cleanLoad : Bool := false           -- that load started from a wiped working storage
  held : Option (Published × Nat × FS) := none   -- a creation parked before its n-th storage call; storage at its start
  hasSp : Bool := false               -- cluster mode: a savepoint was taken
  booted : Bool := false              -- cluster mode: the assembly was deployed
  idOffset : Nat := 0                 -- ids the store would hand out if existing savepoints were counted, minus those it does
  repaired : List (Nat × FS) := []    -- D53: savepoints whose artifact differs from the one the repair gives (that storage)
  frozen : Bool := false
  wiped : Bool := false
  created : List (Nat × FS) := []     -- successful savepoints: id ↦ storage right after the creation
  loaded : Option JobSnap := none

/-! rendering / parsing of the canonical storage text (mirrors `harness/cmd/corr/c14.go`) -/

/-- `path.Split`: the directory up to and including the last slash, and the base name -/
def pURI (s : String) : URI :=
  match (s.splitOn "/").reverse with
  | [] => ⟨"", s⟩
  | [b] => ⟨"", b⟩
  | b :: rest => ⟨joinWith "/" rest.reverse ++ "/", b⟩

def rCk (c : CkDoc) : String :=
  s!"{c.id}~{joinWith "," (c.wals.map URI.str)}~{joinWith "|" (c.levels.map fun l => joinWith "," (l.map URI.str))}"

def rContent : Content → String
  | .doc cks => "d:" ++ joinWith ";" (cks.map rCk)
  | .job s => s!"j:{s.id}~{s.src}~" ++ joinWith "," (s.ops.map fun o => s!"{o.op}@{o.ckptId}@{o.uri.str}")
  | .blob t => "b:" ++ t
  | .junk => "x"

def splitNE (sep s : String) : List String := (s.splitOn sep).filter (· ≠ "")

def pCk (s : String) : CkDoc :=
  match s.splitOn "~" with
  | [id, ws, ls] => ⟨natOr id, (splitNE "," ws).map pURI, (ls.splitOn "|").map fun l => (splitNE "," l).map pURI⟩
  | _ => ⟨0, [], []⟩

def pContent (s : String) : Content :=
  if s.startsWith "d:" then .doc ((splitNE ";" ((s.drop 2).toString)).map pCk)
  else if s.startsWith "b:" then .blob ((s.drop 2).toString)
  else .junk

def pEntry (w : String) : Option (Path × Content) :=
  match w.splitOn "=" with
  | [u, c] => some (.work (pURI u), pContent c)
  | _ => none

def leS (a b : String) : Bool := a < b || a == b

def dedupKeys : List Path → List Path → List Path
  | [], acc => acc.reverse
  | p :: r, acc => if acc.contains p then dedupKeys r acc else dedupKeys r (p :: acc)

def keyStr : Path → String
  | .work u => u.str
  | .sp id d b => s!"sp:{id}:{d}{b}"
  | .spJob id => s!"spjob:{id}"

/-- sorted `key=content` words of the files selected by `sel`; job snapshot files of the working storage are
not listed (the store removes obsolete ones asynchronously) -/
def listing (fs : FS) (sel : Path → Bool) : String :=
  let keys := (dedupKeys (fs.map (·.1)) []).filter sel
  let ws := keys.filterMap fun p => (read fs p).map fun c => keyStr p ++ "=" ++ rContent c
  let ws := ws.mergeSort leS
  if ws.isEmpty then "-" else joinWith " " ws

def isWorkFile : Path → Bool
  | .work u => u.dir != "job:"
  | _ => false

def lister : Lister := .byId


def splitFeed (ws : List String) : List String × List String :=
  (ws.takeWhile (· ≠ "##"), (ws.dropWhile (· ≠ "##")).drop 1)

def pubSuffix : Option Published → String
  | some (s, _) => s!" publishing {s.id}"
  | none => ""

def afterAck (st : St) (r : Store × Option Published) : St :=
  match r.2 with
  | some pub => { st with store := r.1, parked := st.parked ++ [pub], acked := [], srcAcked := false }
  | none => { st with store := r.1 }

/-- the environment's moves that turn the working files of `old` into those of `new` -/
def workDiff (old new : FS) : List WorkOp :=
  let keys := fun (fs : FS) => (dedupKeys (fs.map (·.1)) []).filter isWorkFile
  let puts := (keys new).filterMap fun p => match p, read new p with
    | .work u, some c => some (WorkOp.put u c)
    | _, _ => none
  let dels := (keys old).filterMap fun p => match p, read new p with
    | .work u, none => some (WorkOp.del u)
    | _, _ => none
  dels ++ puts

/-- the same for the job snapshot files (written and removed by the model's own publications) -/
def jobDiff (old new : FS) : List WorkOp :=
  let keys := fun (fs : FS) => (dedupKeys (fs.map (·.1)) []).filter (fun p => p.isWork && !isWorkFile p)
  let puts := (keys new).filterMap fun p => match p, read new p with
    | .work u, some c => some (WorkOp.put u c)
    | _, _ => none
  let dels := (keys old).filterMap fun p => match p, read new p with
    | .work u, none => some (WorkOp.del u)
    | _, _ => none
  dels ++ puts

def spListing (fs : FS) (id : Nat) : String := listing fs (fun p => p.inSp id)

/-- `finishSnapshotAsync` in one piece (nothing else happens meanwhile) -/
def release (st st' : St) (k : Nat) : St × String :=
  if st.wiped then (st', "wiped") else
  if !st.dumped then (st', "nodump") else
  match st.parked[k]? with
  | none => (st', "nothing")
  | some pub =>
    let id := pub.1.id
    let r := publish lister st.fs (jobURI id) pub
    -- the obsolete (older) job snapshot files are removed, by id
    let st2 := { st' with fs := cleanup r.1 (st.completed.filter (· < id)), parked := st.parked.eraseIdx k,
                          released := true, completed := id :: st.completed.filter (· ≥ id) }
    if !r.2 then (st2, s!"savepoint-error {pub.1.id}")
    else if pub.2 then ({ st2 with created := (id, r.1) :: st.created }, s!"published {id} savepoint")
    else (st2, s!"published {pub.1.id}")

/-- open finding (savepoint ids reused): after a start from a savepoint, with an existing savepoint of a higher id in
the file store, the store hands out ids that name existing savepoint directories; the spec counts them -/
def kfReuse : String := "D66"

def reuseTag (st : St) (render : Nat → String) (id : Nat) : String :=
  if st.idOffset > 0 then render id ++ " #spec " ++ render (id + st.idOffset) ++ " #kf " ++ kfReuse else render id

def step (st : St) (line : List String) : St × String :=
  let (op, fed) := splitFeed line
  let touches := match op with
    | "put" :: _ | "del" :: _ | "opck" :: _ | "redeploy" :: _ | "retain" :: _ | "lose" :: _ | "wipe" :: _ | "junk" :: _ => true
    | _ => false
  let st' := { st with dumped := false, released := false, fresh := st.fresh && !touches }
  let live := !st.wiped
  match op with
  | ["put", _, _, _] | ["del", _, _] | ["put", _, _] =>
      if st.wiped then (st', "wiped") else if st.frozen then (st', "frozen") else (st', "ok")
  -- cluster mode (real Job + workers): theorem instances evaluated by the implementation side
  | ["boot"] => ({ st' with booted := true }, "running")
  | ["feed", _, _] => (st', if st.booted then "ok" else "not-booted")   -- after a restart: C14.savepoint_roundtrip (+ C08/C06)
  | ["ckpt", _] => (st', if st.booted then "done" else "not-booted")
  | ["savepoint", _] | ["savepoint", _, "fold"] =>                       -- C14.savepoint_folds / folded_savepoint_published
      if st.booted then ({ st' with hasSp := true }, "savepoint ok") else (st', "not-booted")
  | ["restart", _, _] =>                                                 -- C14.savepoint_roundtrip
      (st', if !st.booted then "not-booted" else if !st.hasSp then "no-savepoint" else "restored ok")
  | ["timersdue"] => (st', if st.booted then "ok" else "not-booted")     -- pending timers are part of the restored state
  | ["ckpt"] =>
      if !live then (st', "wiped") else
      match createCheckpoint st.store st.nOps with
      | (s, .ckpt id) => ({ st' with store := s, acked := [], srcAcked := false }, reuseTag st (fun i => s!"ckpt {i}") id)
      | (_, _) => (st', "inprogress")
  | ["sp"] =>
      if !live then (st', "wiped") else
      match createSavepoint st.store st.nOps with
      | (s, .sp id true) => ({ st' with store := s, acked := [], srcAcked := false }, reuseTag st (fun i => s!"sp {i} created") id)
      | (s, .sp id false) => ({ st' with store := s }, reuseTag st (fun i => s!"sp {i} folded") id)
      | (_, _) => (st', "sp-already")
  | ["opck", i] =>
      if !live then (st', "wiped") else if st.frozen then (st', "frozen") else
      match st.store.pending with
      | none => (st', "nopending")
      | some p =>
        let name := "op" ++ i
        if natOr i ≥ st.nOps then (st', "noop") else
        if st.acked.contains name then (st', "dup") else
        match fed with
        | "ack" :: uri :: _ =>
          let r := ackOp st.store ⟨name, p.id, pURI uri⟩
          (afterAck { st' with acked := name :: st.acked } r, s!"ack {uri}" ++ pubSuffix r.2)
        | _ => (st', "ack ?")
  | ["srcack"] =>
      if !live then (st', "wiped") else
      match st.store.pending with
      | none => (st', "nopending")
      | some p =>
        if st.srcAcked then (st', "dup") else
        let r := ackSrc st.store p.id s!"s{p.id}|SPL"   -- split state of the runner | state of the splitter
        (afterAck { st' with srcAcked := true } r, "ok" ++ pubSuffix r.2)
  | ["redeploy", _] => if !live then (st', "wiped") else if st.frozen then (st', "frozen") else (st', "ok")
  | "retain" :: _ => if !live then (st', "wiped") else if st.frozen then (st', "frozen") else (st', "ok")
  | ["lose", _, _] => if !live then (st', "wiped") else ({ st' with frozen := true }, "ok")
  | ["dump"] =>
      let entries := fed.filterMap pEntry
      -- keep the savepoint directories of the model, adopt the working storage of the implementation
      -- (job snapshot files are not listed by the implementation: the model keeps its own)
      let fs := entries ++ st.fs.filter (fun e => !isWorkFile e.1)
      ({ st' with fs := fs, dumped := true, atDump := some fs }, listing fs isWorkFile)
  | ["intact"] =>
      if !live then (st', "wiped") else
      match (if st.released then st.atDump else none) with
      | none => (st', "norelease")
      | some fs0 =>
        -- C14.savepoint_nonintrusive: publication writes only the job snapshot file and the savepoint directory
        if listing st.fs isWorkFile == listing fs0 isWorkFile then (st', "ok") else (st', "changed")
  | ["release", k] => release st st' (natOr k)
  | ["release", k, "hold", n] =>
      -- the creation is parked before its n-th storage call (document reads and copies, in order) if it gets there
      if !live then (st', "wiped") else
      if !st.dumped then (st', "nodump") else
      if st.held.isSome then (st', "busy") else
      match st.parked[natOr k]?, fed with
      | none, _ => (st', "nothing")
      | some pub, "held" :: _ =>
        -- before the creation starts the job snapshot is written, the snapshot becomes the completed one and the
        -- obsolete job snapshots are removed (finishSnapshotAsync up to CreateSavepointArtifact)
        let id := pub.1.id
        let fs1 := cleanup (write (.work (jobURI id)) (.job pub.1) st.fs) (st.completed.filter (· < id))
        ({ st' with held := some (pub, natOr n, fs1), fs := fs1, parked := st.parked.eraseIdx (natOr k),
                    completed := id :: st.completed.filter (· ≥ id) }, "held")
      | some _, _ => release st st' (natOr k)
  | ["resume"] =>
      match st.held with
      | none => (st', "nohold")
      | some (pub, n, fs0) =>
        if !st.dumped then (st', "nodump") else
        let id := pub.1.id
        -- what the running job did to the working storage meanwhile happens just before the n-th storage call
        -- (operators' files as dumped; job snapshot files as the model's own publications and cleanups left them)
        let env := workDiff fs0 st.fs ++ jobDiff fs0 st.fs
        let sched : Sched := List.replicate n [] ++ [env]
        -- (savepoint directories as they are now: another publication may have created one meanwhile)
        let start := st.fs.filter (fun e => !e.1.isWork) ++ fs0.filter (fun e => e.1.isWork)
        let run := fun (m : DocMode) =>
          if pub.2 then createArtifactSJ lister m jobMode start (jobURI id) pub.1 sched else (applyWork start env, true)
        let r := run docMode
        let spec := run .writeRead
        let st2 := { st' with fs := r.1, held := none, released := true }
        let render := fun (x : FS × Bool) =>
          if !x.2 then s!"savepoint-error {id}" else if pub.2 then s!"published {id} savepoint" else s!"published {id}"
        let st3 := if r.2 && pub.2 then { st2 with created := (id, start) :: st.created } else st2
        -- D53: the code copies the document file as it is by then; the property needs the document that was listed
        let differs := docMode == .copyFile && (r.2 != spec.2 || spListing r.1 id != spListing spec.1 id)
        let st4 := if differs then { st3 with repaired := (id, spec.1) :: st.repaired } else st3
        -- D65 (open): the creation copies the job snapshot LAST; the next publication's cleanup may have removed it by then.
        -- The property wants the requested savepoint: what the creation gives if that file is left alone.
        let kept := if pub.2 then createArtifactSJ lister docMode .fromBytes start (jobURI id) pub.1 sched else r
        let jobGone := (read st.fs (.work (jobURI id))).isNone
        if render r != render spec then (st4, render r ++ " #spec " ++ render spec ++ " #kf D53")
        else if pub.2 && jobGone && !r.2 && kept.2 then (st4, render r ++ " #spec " ++ render kept ++ " #kf D65")
        else (st4, render r)
  | ["art"] =>
      -- only complete artifacts (those with a job.savepoint); leftovers of failed creations are not compared
      let complete := fun (id : Nat) => (read st.fs (.spJob id)).isSome
      (st', listing st.fs (fun p => match p with
        | .work _ => false
        | .sp id _ _ => complete id
        | .spJob _ => true))
  | ["work"] =>
      if st.loaded.isNone then (st', "noload") else if !(st.fresh && st.cleanLoad) then (st', "notclean")
      else (st', listing st.fs isWorkFile)
  | ["wipe"] => ({ st' with fs := wipe st.fs, wiped := true, parked := [], loaded := none, held := none }, "ok")
  | ["junk", _] =>
      if live then (st', "notwiped") else
      match fed with
      | "junk" :: uri :: _ => ({ st' with fs := write (.work (pURI uri)) .junk st.fs }, s!"junk {uri}")
      | _ => (st', "none")
  | ["load", id] =>
      -- a (re)start of the job from a savepoint URI: after a wipe, or as a roll-back while the job was running
      -- D53 situation: this savepoint's artifact was built by a creation during which an operator rewrote its
      -- document, and the repaired creation would have given another artifact: the spec is the load from that one
      let specOut : Option String := (st.repaired.find? (·.1 == natOr id)).map fun e =>
        match startStore lister (e.2.filter (fun x => x.1.inSp (natOr id)) ++ st.fs) (natOr id) with
        | (_, some (s, _)) => s!"loaded {rContent (.job s)}"
        | (_, none) => "load-error"
      let tag := fun (x : String) => match specOut with
        | some y => if x == y then x else x ++ " #spec " ++ y ++ " #kf D53"
        | none => x
      match startStore lister st.fs (natOr id) with
      | (fs, some (s, store)) =>
        -- the counter the store would start from if it also counted the existing savepoints (proposed repair)
        let specCounter := startCounter true fs s
        ({ st' with fs := fs, loaded := some s, store := store, idOffset := specCounter - store.ckptId, acked := [], srcAcked := false,
                    parked := [], wiped := false, frozen := false, completed := [s.id], fresh := true, cleanLoad := st.wiped,
                    held := none },
         tag s!"loaded {rContent (.job s)}")
      | (fs, none) => ({ st' with fs := fs, loaded := none, parked := [], wiped := true, held := none }, tag "load-error")
  | ["open", i] =>
      match st.loaded with
      | none => (st', "noload")
      | some s =>
        if !st.fresh then (st', "stale") else
        match s.ops.find? (fun o => o.op == "op" ++ i) with
        | none => (st', "noop")
        | some o =>
          match st.created.find? (fun e => e.1 == s.id) with
          | none => (st', "unknown-savepoint")
          | some (_, fs0) =>
            -- C14.savepoint_roundtrip: same image as on the storage the savepoint was created from, and it exists
            if openDB st.fs o == openDB fs0 o && (openDB fs0 o).isSome then (st', "ok") else (st', "incomplete")
  | _ => (st', "bad-op")

def parseHeader (h : String) : St :=
  let kv := (words h).filterMap fun w => match w.splitOn "=" with
    | [k, v] => some (k, v)
    | _ => none
  { nOps := ((kv.find? (·.1 == "ops")).map (natOr ·.2)).getD 1 }

def handle (lines : Array String) (i : Nat) (out : Array String) : Nat × Array String :=
  runLines step (parseHeader (lines.getD (i - 1) "")) lines i out

end Driver.C14
