import Driver.Util
import RxnModel.Model.Runner
/-!
Driver section for C04. Header `M C04 <nOps> <keyGroupCount>`.
Ops `read <id>:<keyhex>:<cnt> …` and `barrier <id>` build the read order; every other op only stirs the schedule
of the implementation (timer expiries, fetch completions, operator back-pressure, parked flushers) and is answered
`-`: by `C04.per_operator_stream` / `C04.delivery_complete` the streams do not depend on the schedule.
`end` prints, per operator, `Runner.project` of the read order — the definition the theorems are about.
-/
namespace Driver.C04
open Rxn Driver Runner

structure Rec where
  id : Nat
  key : Bytes
  cnt : Nat

def keyOfRec (r : Rec) : List KEv := (List.range r.cnt).map (fun j => { key := r.key, src := r.id, idx := j })

structure DSt where
  nOps : Nat
  kgc : Nat
  logical : List (Item Rec) := []

def parseRec (s : String) : Rec :=
  match s.splitOn ":" with
  | [a, b, c] => { id := natOr a, key := hexOr b, cnt := natOr c }
  | _ => { id := 0, key := [], cnt := 0 }

def showEv : Ev → String
  | .keyed e => s!"{e.src}.{e.idx}"
  | .wm => "w"
  | .barrier id => s!"b{id}"

def cfg (st : DSt) : Cfg Rec :=
  { nOps := st.nOps, route := fun k => KeySpace.rangeIndex st.kgc st.nOps k, keyOf := keyOfRec }

def showStreams (st : DSt) : String :=
  joinWith " " ((List.range st.nOps).map fun o =>
    let evs := (project (cfg st) o st.logical).map showEv
    s!"o{o}=" ++ (if evs.isEmpty then "-" else joinWith "," evs))

def step (st : DSt) : List String → DSt × String
  | "read" :: recs => ({ st with logical := st.logical ++ recs.map (fun r => Item.record (parseRec r)) }, "-")
  | ["barrier", id] => ({ st with logical := st.logical ++ [Item.barrier (natOr id)] }, "-")
  -- a checkpoint request that arrives while the read is being fetched / in the middle of enqueueing it: by
  -- `C04.barrier_cut` the barrier still comes after every record of that read
  | "readbar" :: id :: recs =>
    ({ st with logical := st.logical ++ recs.map (fun r => Item.record (parseRec r)) ++ [Item.barrier (natOr id)] }, "-")
  | "midbar" :: id :: recs =>
    ({ st with logical := st.logical ++ recs.map (fun r => Item.record (parseRec r)) ++ [Item.barrier (natOr id)] }, "-")
  | ["end"] =>
    let cuts := (cutsOf st.logical 0).map (fun p => s!"{p.1}:{p.2}")
    (st, showStreams st ++ " | ck=" ++ (if cuts.isEmpty then "-" else joinWith "," cuts) ++ " cut=ok")
  | _ => (st, "-")

def handle (lines : Array String) (i : Nat) (out : Array String) : Nat × Array String :=
  let hdr := if i = 0 then [] else words (lines.getD (i - 1) "")
  let st : DSt := match hdr with
    | "M" :: "C04" :: n :: k :: _ => { nOps := natOr n, kgc := natOr k }
    | _ => { nOps := 1, kgc := 1 }
  runLines step st lines i out

end Driver.C04
