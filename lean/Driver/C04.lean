import Driver.Util
import RxnModel.Model.Runner
/-!
Driver section for C04. Header `M C04 <nOps> <keyGroupCount> <maxSize> <delay01>`. Trace validation (FeedImpl):
every line is `op ## events the implementation logged during the op`. The op extends the scripted read order
(`read`, `barrier`, `readbar`, `midbar`, `wm`, `midwm`) or only stirs the implementation's schedule; the events are
replayed through `Runner.step` (the transition system the theorems are about) and answered by echoing them if each is
enabled (after hidden router steps), by `REJECT …` otherwise. `end` additionally prints, per operator,
`Runner.project` of the read order, the cuts `cutsOf`, and whether the replayed model state agrees with both.
-/
namespace Driver.C04
open Rxn Driver Runner

structure Rec where
  id : Nat
  key : Bytes
  cnt : Nat

def keyOfRec (r : Rec) : List KEv := (List.range r.cnt).map (fun j => { key := r.key, src := r.id, idx := j })

structure DSt where
  nOps : Nat
  kgc : Nat
  logical : List (Item Rec) := []     -- the scripted read order (specification)
  recs : List Rec := []               -- every scripted record
  script : List Rec := []             -- scripted records the reader has not handed out yet
  m : Runner.St Rec                   -- the model state reached by replaying the implementation's events
  mustHit : Bool := false             -- header flag: the timing windows of readbar/midbar/midwm must really be hit
  bad : Option String := none         -- first event of the implementation that is not a step of the model
  ticksDue : Nat := 0                 -- ticks performed in the model whose `W` event has not been seen yet

def parseRec (s : String) : Rec :=
  match s.splitOn ":" with
  | [a, b, c] => { id := natOr a, key := hexOr b, cnt := natOr c }
  | _ => { id := 0, key := [], cnt := 0 }

def showEv : Ev → String
  | .keyed e => s!"{e.src}.{e.idx}"
  | .wm => "w"
  | .barrier id => s!"b{id}"

def cfg (st : DSt) : Cfg Rec :=
  { nOps := st.nOps, route := fun k => KeySpace.rangeIndex st.kgc st.nOps k, keyOf := keyOfRec }

def showStreams (st : DSt) : String :=
  joinWith " " ((List.range st.nOps).map fun o =>
    let evs := (project (cfg st) o st.logical).map showEv
    s!"o{o}=" ++ (if evs.isEmpty then "-" else joinWith "," evs))

/-! ### replay of the implementation's events through `Runner.step`

The harness logs, in the order they happen: `R:<n>` (the reader handed out a read of n records), `K:<id>`
(`Checkpoint()` was called for barrier id), `T`/`W` (a watermark tick became due / the loop took it), `D:<o>:<batch>` (`HandleEventBatch`
entered on operator o with that batch), `X:<o>` (it returned). Each must be a step of the transition system the theorems
are about, possibly after hidden steps (enq, rfEmit, the router's sTake/sAdd/sIsFull/sFlush) that have no observable
of their own; an event that is not enabled is answered `REJECT`. -/

def tryActs (c : Cfg Rec) (s : Runner.St Rec) : List (Act Rec) → Option (Runner.St Rec)
  | [] => some s
  | a :: as => (Runner.step c s a).bind (fun s1 => tryActs c s1 as)

/-- one hidden step: the router's next action if it has one, else a result becoming available, else the next enqueue -/
def hidden (c : Cfg Rec) (s : Runner.St Rec) : Option (Runner.St Rec) :=
  [Act.sAdd, .sIsFull, .sFlush, .sTake, .rfEmit, .enq].firstM (fun a => Runner.step c s a)

def parseEv (st : DSt) (w : String) : Ev :=
  if w == "w" then .wm
  else if w.startsWith "b" then .barrier (natOr (w.drop 1).toString)
  else match w.splitOn "." with
    | [a, j] =>
      let key := ((st.recs.find? (fun r => r.id == natOr a)).map (·.key)).getD []
      .keyed { key := key, src := natOr a, idx := natOr j }
    | _ => .wm

def parseBatch (st : DSt) (w : String) : List Ev :=
  if w == "-" || w == "" then [] else (w.splitOn ",").map (parseEv st)

/-- ways the model can hand batch `b` to operator `o` right now -/
def deliverNow (c : Cfg Rec) (s : Runner.St Rec) (o : Nat) (b : List Ev) : Option (Runner.St Rec) :=
  let handed (s1 : Runner.St Rec) : Bool := (s1.ops o).recv.getLast? == some b && (s1.ops o).recv.length == (s.ops o).recv.length + 1
  let size := match s.spc with
    | .handoff o' b' => if o' == o && b' == b then Runner.step c s .sSend else none
    | _ => none
  let byTok (t : Nat) := (tryActs c s [.staleTok o t, .oTok o, .oTFlush o]).filter handed
  (size.filter handed).orElse fun _ => (byTok (s.ops o).b.token).orElse fun _ => byTok 0

/-- the operator an event belongs to (`D:<o>:…`, `X:<o>`) -/
def evOp (w : String) : Option Nat :=
  match w.splitOn ":" with
  | "D" :: o :: _ => some (natOr o)
  | ["X", o] => some (natOr o)
  | _ => none

/-- enqueue the rest of the current read (the loop finishes a read before it does anything else) -/
def finishRead (c : Cfg Rec) : Nat → Runner.St Rec → Runner.St Rec
  | 0, s => s
  | n + 1, s => match s.readBuf with
    | [] => s
    | _ => match Runner.step c s .enq with
      | some s1 => finishRead c n s1
      | none => s

/-- events of the loop goroutine and operator returns: steps that need no search -/
def applySimple (st : DSt) (w : String) : DSt :=
  let c := cfg st
  let reject (why : String) : DSt := { st with bad := some s!"REJECT {w} ({why})" }
  match w.splitOn ":" with
  | ["R", n] =>
    let k := natOr n
    let rs := st.script.take k
    let s0 := finishRead c 10000 st.m
    if rs.length != k then reject "reader handed out more than was scripted" else
    match Runner.step c s0 (.fetch rs) with
    | some s1 => { st with m := s1, script := st.script.drop k }
    | none => reject "fetch not enabled"
  | ["K", id] =>
    match Runner.step c (finishRead c 10000 st.m) (.barrier (natOr id)) with
    | some s1 => { st with m := s1 }
    | none => reject "barrier not enabled"
  -- `T`: a watermark tick is due. Until the loop's select takes it the reader hands out nothing, so the loop finishes the
  -- current read (if any) and then takes the tick: that is where the model performs it. `W` (logged by the ticking
  -- goroutine once the loop has it) only has to be preceded by its `T`.
  | ["T"] =>
    match Runner.step c (finishRead c 10000 st.m) .tick with
    | some s1 => { st with m := s1, ticksDue := st.ticksDue + 1 }
    | none => reject "tick not enabled"
  | ["W"] => if st.ticksDue > 0 then { st with ticksDue := st.ticksDue - 1 } else reject "tick taken that was not due"
  | ["X", o] =>
    match Runner.step c st.m (.oDone (natOr o)) with
    | some s1 => { st with m := s1 }
    | none => reject "operator is not inside HandleEventBatch"
  | _ => reject "unknown event"

/-- a later `D` event that can be performed right now and is the first pending event of its operator: the batch was
taken (the step of the model) before the operator goroutine got to log it, and other goroutines were logged first -/
def findEarly (st : DSt) (c : Cfg Rec) : List String → List String → Option (Runner.St Rec × List String)
  | _, [] => none
  | seen, w :: rest =>
    match w.splitOn ":" with
    | ["D", o, b] =>
      if seen.any (fun v => evOp v == some (natOr o)) then findEarly st c (seen ++ [w]) rest
      else match deliverNow c st.m (natOr o) (parseBatch st b) with
        | some s1 => some (s1, seen ++ rest)
        | none => findEarly st c (seen ++ [w]) rest
    | _ => findEarly st c (seen ++ [w]) rest

/-- replay the whole log. `D` events: performed if enabled now; otherwise a later `D` that is enabled now is taken first
(see `findEarly`), otherwise one hidden step of the model, otherwise the log is not a run of the model. -/
def replay : Nat → DSt → List String → DSt
  | 0, st, _ => { st with bad := st.bad.orElse fun _ => some "REJECT (replay fuel exhausted)" }
  | _, st, [] => st
  | n + 1, st, w :: rest =>
    if st.bad.isSome then st else
    let c := cfg st
    match w.splitOn ":" with
    | ["D", o, b] =>
      match deliverNow c st.m (natOr o) (parseBatch st b) with
      | some s1 => replay n { st with m := s1 } rest
      | none =>
        match findEarly st c [] rest with
        | some (s1, rest') => replay n { st with m := s1 } (w :: rest')
        | none =>
          match hidden c st.m with
          | some s1 => replay n { st with m := s1 } (w :: rest)
          | none => { st with bad := some s!"REJECT {w} (no schedule of the model hands this batch to the operator now)" }
    | _ => replay n (applySimple st w) rest

/-- op tokens and the implementation's output tokens -/
def splitFeed (ws : List String) : List String × List String :=
  (ws.takeWhile (· ≠ "##"), (ws.dropWhile (· ≠ "##")).drop 1)

def addRecs (st : DSt) (recs : List String) (tail : List (Item Rec)) : DSt :=
  let rs := recs.map parseRec
  { st with logical := st.logical ++ rs.map Item.record ++ tail, recs := st.recs ++ rs, script := st.script ++ rs }

def showDelivered (st : DSt) : String :=
  joinWith " " ((List.range st.nOps).map fun o =>
    let evs := (delivered st.m o).map showEv
    s!"o{o}=" ++ (if evs.isEmpty then "-" else joinWith "," evs))

def step (st0 : DSt) (ws : List String) : DSt × String :=
  let (op, impl) := splitFeed ws
  let evs := impl.takeWhile (· ≠ "|")
  let evs := evs.filter (fun w => w ≠ "-" && w ≠ "timeout" && w ≠ "concurrent-HandleEventBatch")
  -- the scripted read order first (the op), then what the implementation did during the op
  let st1 : DSt := match op with
    | "read" :: recs => addRecs st0 recs []
    | ["barrier", id] => { st0 with logical := st0.logical ++ [Item.barrier (natOr id)] }
    -- a checkpoint request that arrives while the read is being fetched / in the middle of enqueueing it: by
    -- `C04.barrier_cut` the barrier still comes after every record of that read
    | "readbar" :: id :: recs => addRecs st0 recs [Item.barrier (natOr id)]
    | "midbar" :: id :: recs => addRecs st0 recs [Item.barrier (natOr id)]
    | ["wm"] => { st0 with logical := st0.logical ++ [Item.wm] }
    -- a tick that becomes due in the middle of a read: the watermark follows the whole read (`tick` needs `readBuf = []`)
    | "midwm" :: recs => addRecs st0 recs [Item.wm]
    | _ => st0
  let isEnd := op == ["end"]
  let st := if isEnd then replay 1000000 st1 evs else st1
  let echo := match st.bad with
    | some why => if isEnd then why else "-"
    | none => if evs.isEmpty || !isEnd then "-" else joinWith " " evs
  -- `readbar`/`midbar`/`midwm`: did the request really arrive in the intended window (`-hit`) or did the harness fall
  -- back to the reader-driven order (`-fallback`)? Only a coverage marker (counted in the evidence), so it is echoed —
  -- except in cases whose header says `musthit`, where the window must have been hit.
  let marker (name : String) : String :=
    if st.mustHit then name ++ "-hit"
    else match impl with
      | [w] => if w == name ++ "-hit" || w == name ++ "-fallback" then w else name ++ "-hit"
      | _ => name ++ "-hit"
  match op with
  | "readbar" :: _ => (st, marker "readbar")
  | "midbar" :: _ => (st, marker "midbar")
  | "midwm" :: _ => (st, marker "midwm")
  | ["end"] =>
    let cuts := (cutsOf st.logical 0).map (fun p => s!"{p.1}:{p.2}")
    -- what the replayed model has handed to the operators must be the specification, and the cursors the model
    -- snapshotted must be the cuts of the read order
    let replay := if st.bad.isSome then "rejected"
      else if showDelivered st != showStreams st then "model-delivered:" ++ showDelivered st
      else if st.m.ckpts != cutsOf st.logical 0 then "model-cuts-differ" else "ok"
    (st, echo ++ " | " ++ showStreams st ++ " | ck=" ++ (if cuts.isEmpty then "-" else joinWith "," cuts) ++ " cut=ok replay=" ++ replay)
  | _ => (st, echo)

def handle (lines : Array String) (i : Nat) (out : Array String) : Nat × Array String :=
  let hdr := if i = 0 then [] else words (lines.getD (i - 1) "")
  let st : DSt := match hdr with
    | "M" :: "C04" :: n :: k :: ms :: d :: rest =>
      { nOps := natOr n, kgc := natOr k, m := Runner.init (natOr ms) (natOr d != 0), mustHit := rest.contains "musthit" }
    | _ => { nOps := 1, kgc := 1, m := Runner.init 1 false }
  runLines step st lines i out

end Driver.C04
