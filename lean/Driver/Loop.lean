import Driver.Util
/-! Generic stdin/stdout loop of the line-protocol driver, parametrised by the model dispatch table. -/
open Driver

partial def readAll (h : IO.FS.Stream) (acc : Array String) : IO (Array String) := do
  let line ← h.getLine
  if line.isEmpty then return acc
  readAll h (acc.push (line.trimAsciiEnd.toString))

partial def processLines (dispatch : String → Option (Array String → Nat → Array String → Nat × Array String))
    (lines : Array String) (i : Nat) (out : Array String) : Array String :=
  if h : i < lines.size then
    let l := lines[i]
    match words l with
    | "M" :: model :: _ =>
      match dispatch model with
      | some f =>
        let (j, out') := f lines (i + 1) (out.push "ok")
        processLines dispatch lines j out'
      | none => processLines dispatch lines (i + 1) (out.push "bad-model")
    | _ => processLines dispatch lines (i + 1) (out.push "no-model")
  else out

def driverMain (dispatch : String → Option (Array String → Nat → Array String → Nat × Array String)) : IO Unit := do
  let stdin ← IO.getStdin
  let lines ← readAll stdin #[]
  let out := processLines dispatch lines 0 #[]
  let stdout ← IO.getStdout
  for o in out do
    stdout.putStrLn o
  stdout.flush
