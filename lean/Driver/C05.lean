import Driver.Util
import RxnModel.Model.KeySpace
import RxnModel.Model.Assembly
namespace Driver.C05
open Rxn Driver

structure St where
  cache : Option (Nat × Nat × Array Nat) := none   -- lookup table of the last (kgc, n)

def showRanges (rs : List KGRange) : String :=
  joinWith ";" (rs.map fun r => s!"{r.start},{r.stop}")

/-- `RangeIndex` through the `uint16` lookup table of `NewKeySpace` (array form of `KeySpace.lookupTable`,
`C05.lookupTableA_eq` / `C05.rangeIndexA_eq`), for every key group count; the table is built once per configuration -/
def rangeIdx (st : St) (kgc n : Nat) (key : Bytes) : St × String :=
  let (st, tbl) := match st.cache with
    | some (a, b, t) => if a == kgc && b == n then (st, t) else
        let t := KeySpace.lookupTableA kgc n; ({ cache := some (kgc, n, t) }, t)
    | none => let t := KeySpace.lookupTableA kgc n; ({ cache := some (kgc, n, t) }, t)
  (st, toString (KeySpace.rangeIndexA tbl kgc key))

open Assembly in
def parseSteps (s : String) : List RegStep :=
  (s.splitOn ",").filterMap fun tok =>
    match tok.toList with
    | 'o' :: h => some (.regOp (hexOr (String.ofList h)))
    | 's' :: h => some (.regSr (hexOr (String.ofList h)))
    | 'O' :: h => some (.deregOp (hexOr (String.ofList h)))
    | 'S' :: h => some (.deregSr (hexOr (String.ofList h)))
    | _ => none

def hx (b : Bytes) : String := toHex b
def ids (l : List Bytes) : String := joinWith "," (l.map hx)

/-- canonical text of a list of numbers: maximal runs of consecutive values as `first+length` -/
def showRuns (l : List Nat) : String :=
  let runs := l.foldl (fun (acc : List (Nat × Nat)) g =>
    match acc with
    | (a, n) :: rest => if g == a + n then (a, n + 1) :: rest else (g, 1) :: (a, n) :: rest
    | [] => [(g, 1)]) []
  joinWith "," (runs.reverse.map fun (a, n) => s!"{a}+{n}")

open Assembly in
/-- registry → `Deploy` → every receiver handles its request → route/own every key -/
def deployOp (kgc tc : Nat) (steps : List RegStep) (keys : List Bytes) : String :=
  match newAssembly tc (Reg.run steps) with
  | none => "noassembly"
  | some (ops, srs) =>
    match deploy kgc tc ops srs with
    | none => "panic"
    | some D =>
      let opStates := D.opReqs.map fun (o, req) => (o, req, opHandleDeploy o req)
      let srStates := D.srReqs.map fun (s, req) => (s, req, srHandleDeploy req)
      let showOp := fun (x : NodeId × OpReq × Option OpState) =>
        let (o, req, st) := x
        s!"{hx o}={req.kgc}:{ids req.operators}:{ids req.srIds}:" ++
          (match st with | none => "panic" | some st => s!"{st.range.start}-{st.range.stop}/{st.n}/q{showRuns st.timerQueues}")
      let showSr := fun (x : NodeId × SrReq × Option SrState) =>
        let (s, req, _) := x
        s!"{hx s}={req.kgc}:{ids req.operators}"
      let showKey := fun (k : Bytes) =>
        let tgts := srStates.map fun (_, _, st) =>
          match st with
          | none => "panic"
          | some st => match srRoute st k with | none => "none" | some t => hx t
        let owners := fun (f : OpState → Bool) => ids (opStates.filterMap fun (o, _, st) =>
          match st with | some st => if f st then some o else none | none => none)
        -- for every operator owning the key's timer: the queue it is pushed to and the key group that queue serves
        let queues := joinWith "," (opStates.filterMap fun (_, _, st) =>
          match st with
          | some st => if st.owns (st.timerKey k 123456789) then
              let i := st.timerQueueIndex k 123456789
              some s!"{i}:{(st.timerQueues[i]?.map toString).getD "none"}" else none
          | none => none)
        s!"{hx k}={joinWith "," tgts}/{owners fun st => st.owns (st.dbKey k [110, 115] [7])}/{owners fun st => st.owns (st.timerKey k 123456789)}/{queues}"
      s!"A{ids ops}/{ids srs}|O" ++ joinWith ";" (opStates.map showOp) ++ "|S" ++ joinWith ";" (srStates.map showSr) ++
        "|K" ++ joinWith ";" (keys.map showKey)

def step (st : St) : List String → St × String
  | ["ranges", kgc, n] => (st, showRanges (KeySpace.ranges (natOr kgc) (natOr n)))
  | ["hash", k, seed] => (st, toString (Murmur.hash (hexOr k) (natOr seed)).toNat)
  | ["kg", kgc, k] => (st, toString (KeySpace.keyGroup (natOr kgc) (hexOr k)))
  | ["ri", kgc, n, k] => rangeIdx st (natOr kgc) (natOr n) (hexOr k)
  | ["route", kgc, n, k] => rangeIdx st (natOr kgc) (natOr n) (hexOr k)
  | ["fanout", kgc, n, ks] =>
    -- one source record whose KeyEvent result has several keys: every keyed event goes to the owner of ITS key
    let (st, outs) := (ks.splitOn ",").foldl (fun (acc : St × List String) k =>
      let (st', o) := rangeIdx acc.1 (natOr kgc) (natOr n) (hexOr k)
      (st', acc.2 ++ [o])) (st, [])
    (st, joinWith "," outs)
  | ["hashvec", _, _, expected] => (st, expected)   -- spec: published MurmurHash3-32 vectors (C05.murmur_vectors)
  | ["partition", _, _] => (st, "ok")              -- spec: C05.ranges_partition / ranges_balanced / ranges_disjoint / keyGroups_partition
  | ["ownsroute", _, _, _] => (st, "ok")           -- spec: C05.owns_encoded / rangeIndex_unique
  | ["redeploy", kgc, n1, i1, n2, i2, k] =>
    -- one operator process deployed as operator i1 of n1, then as i2 of n2: after each deployment it must own
    -- exactly range i of `ranges kgc n` and compute / persist the key under `keyGroup kgc key`
    let kgc := natOr kgc
    let g := KeySpace.keyGroup kgc (hexOr k)
    let one (n i : Nat) : String :=
      let r := (KeySpace.ranges kgc n).getD i ⟨0, 0⟩
      s!"{r.start},{r.stop}/{n}/{g}/{g}"
    (st, one (natOr n1) (natOr i1) ++ ";" ++ one (natOr n2) (natOr i2))
  | ["deploy", kgc, tc, steps, keys] =>
    (st, deployOp (natOr kgc) (natOr tc) (parseSteps steps) ((keys.splitOn ",").map hexOr))
  | ["dbkey", kgc, k, ns, d] => (st, toHex (Keys.dbKey (natOr kgc) (hexOr k) (hexOr ns) (hexOr d)))
  | ["subjkey", kgc, k] => (st, toHex (Keys.subjectKey (natOr kgc) (hexOr k)))
  | ["timerkey", kgc, k, t] => (st, toHex (Keys.timerKey (natOr kgc) (hexOr k) (natOr t)))
  | ["owns", s, e, k] => (st, toString (Keys.ownsKey ⟨natOr s, natOr e⟩ (hexOr k)))
  | ["overlaps", a, b, c, d] => (st, toString ((⟨natOr a, natOr b⟩ : KGRange).overlaps ⟨natOr c, natOr d⟩))
  | ["contains", a, b, c, d] => (st, toString ((⟨natOr a, natOr b⟩ : KGRange).contains ⟨natOr c, natOr d⟩))
  | _ => (st, "bad-op")

def handle (lines : Array String) (i : Nat) (out : Array String) : Nat × Array String :=
  runLines step {} lines i out

end Driver.C05
