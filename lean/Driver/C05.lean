import Driver.Util
import RxnModel.Model.KeySpace
namespace Driver.C05
open Rxn Driver

structure St where
  cache : Option (Nat × Nat × Array Nat) := none

def showRanges (rs : List KGRange) : String :=
  joinWith ";" (rs.map fun r => s!"{r.start},{r.stop}")

/-- index of the unique range containing `g` (justified by `C05.rangeIndex_unique`); used above the table-size cutoff -/
def rangeIndexBySearch (kgc n : Nat) (key : Bytes) : Nat :=
  let g := KeySpace.keyGroup kgc key
  ((KeySpace.ranges kgc n).findIdx? (·.includes g)).getD 0

def rangeIdx (st : St) (kgc n : Nat) (key : Bytes) : St × String :=
  if kgc ≤ 2048 then
    let (st, tbl) := match st.cache with
      | some (a, b, t) => if a == kgc && b == n then (st, t) else
          let t := (KeySpace.lookupTable kgc n).toArray; ({ cache := some (kgc, n, t) }, t)
      | none => let t := (KeySpace.lookupTable kgc n).toArray; ({ cache := some (kgc, n, t) }, t)
    (st, toString (tbl.getD (KeySpace.keyGroup kgc key % 65536) 0))
  else (st, toString (rangeIndexBySearch kgc n key))

def step (st : St) : List String → St × String
  | ["ranges", kgc, n] => (st, showRanges (KeySpace.ranges (natOr kgc) (natOr n)))
  | ["hash", k, seed] => (st, toString (Murmur.hash (hexOr k) (natOr seed)).toNat)
  | ["kg", kgc, k] => (st, toString (KeySpace.keyGroup (natOr kgc) (hexOr k)))
  | ["ri", kgc, n, k] => rangeIdx st (natOr kgc) (natOr n) (hexOr k)
  | ["route", kgc, n, k] => rangeIdx st (natOr kgc) (natOr n) (hexOr k)
  | ["fanout", kgc, n, ks] =>
    -- one source record whose KeyEvent result has several keys: every keyed event goes to the owner of ITS key
    let (st, outs) := (ks.splitOn ",").foldl (fun (acc : St × List String) k =>
      let (st', o) := rangeIdx acc.1 (natOr kgc) (natOr n) (hexOr k)
      (st', acc.2 ++ [o])) (st, [])
    (st, joinWith "," outs)
  | ["hashvec", _, _, expected] => (st, expected)   -- spec: published MurmurHash3-32 vectors (C05.murmur_vectors)
  | ["partition", _, _] => (st, "ok")              -- spec: C05.ranges_partition / ranges_balanced
  | ["ownsroute", _, _, _] => (st, "ok")           -- spec: C05.owns_encoded / rangeIndex_unique
  | ["redeploy", kgc, n1, i1, n2, i2, k] =>
    -- one operator process deployed as operator i1 of n1, then as i2 of n2: after each deployment it must own
    -- exactly range i of `ranges kgc n` and compute / persist the key under `keyGroup kgc key`
    let kgc := natOr kgc
    let g := KeySpace.keyGroup kgc (hexOr k)
    let one (n i : Nat) : String :=
      let r := (KeySpace.ranges kgc n).getD i ⟨0, 0⟩
      s!"{r.start},{r.stop}/{n}/{g}/{g}"
    (st, one (natOr n1) (natOr i1) ++ ";" ++ one (natOr n2) (natOr i2))
  | ["dbkey", kgc, k, ns, d] => (st, toHex (Keys.dbKey (natOr kgc) (hexOr k) (hexOr ns) (hexOr d)))
  | ["subjkey", kgc, k] => (st, toHex (Keys.subjectKey (natOr kgc) (hexOr k)))
  | ["timerkey", kgc, k, t] => (st, toHex (Keys.timerKey (natOr kgc) (hexOr k) (natOr t)))
  | ["owns", s, e, k] => (st, toString (Keys.ownsKey ⟨natOr s, natOr e⟩ (hexOr k)))
  | ["overlaps", a, b, c, d] => (st, toString ((⟨natOr a, natOr b⟩ : KGRange).overlaps ⟨natOr c, natOr d⟩))
  | ["contains", a, b, c, d] => (st, toString ((⟨natOr a, natOr b⟩ : KGRange).contains ⟨natOr c, natOr d⟩))
  | _ => (st, "bad-op")

def handle (lines : Array String) (i : Nat) (out : Array String) : Nat × Array String :=
  runLines step {} lines i out

end Driver.C05
