import Driver.Loop
import Driver.C15
/-! Single-model driver for C15 (fallback of `./check C15` when the all-models driver does not build). -/
def dispatchC15 (model : String) : Option (Array String → Nat → Array String → Nat × Array String) :=
  if model == "C15" then some Driver.C15.handle else none

def main : IO Unit := driverMain dispatchC15
