import Driver.Loop
import Driver.C12
/-! Single-model driver for C12 (fallback of `./check C12` when the all-models driver does not build). -/
def dispatchC12 (model : String) : Option (Array String → Nat → Array String → Nat × Array String) :=
  if model == "C12" then some Driver.C12.handle else none

def main : IO Unit := driverMain dispatchC12
