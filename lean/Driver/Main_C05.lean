import Driver.Loop
import Driver.C05
/-! Single-model driver for C05 (fallback of `./check C05` when the all-models driver does not build). -/
def dispatchC05 (model : String) : Option (Array String → Nat → Array String → Nat × Array String) :=
  if model == "C05" then some Driver.C05.handle else none

def main : IO Unit := driverMain dispatchC05
