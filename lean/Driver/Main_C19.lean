import Driver.Loop
import Driver.C19
/-! Single-model driver for C19 (fallback of `./check C19` when the all-models driver does not build). -/
def dispatchC19 (model : String) : Option (Array String → Nat → Array String → Nat × Array String) :=
  if model == "C19" then some Driver.C19.handle else none

def main : IO Unit := driverMain dispatchC19
