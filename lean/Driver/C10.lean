import Driver.Util
import RxnModel.Model.Timers
import Driver.C11
/-!
Driver section for C10. Header: `M C10 <kgc> <start> <stop> <cacheBytes> <runners>`.
Runs `Timers.Registry` (the definitions the theorems of Props/C10.lean are about).
-/
namespace Driver.C10
open Rxn Driver Rxn.Timers

structure Cfg where
  kgc : Nat := 1
  start : Nat := 0
  stop : Nat := 1
  cache : Nat := 0
  runners : Nat := 1

structure St where
  cfg : Cfg := {}
  reg : Registry := Registry.new (Store.new [] 1 0 1 0) []
  ckpt : Option DB := none
  -- the set-based specification (`Timers.Spec`), run alongside: by `C10.registry_refines_spec` / `restore_pending` its
  -- outputs equal the model's; if a regenerated fact breaks that, the deviating line is emitted as `#spec`
  spec : Spec := Spec.new []
  specCkpt : Option (List (Bytes × Int)) := none

def intOr (s : String) : Int := s.toInt?.getD 0

def runnerIds (n : Nat) : List String := (List.range n).map fun i => s!"sr{i}"

def freshReg (c : Cfg) (db : DB) : Registry :=
  Registry.new (Store.new db c.kgc c.start c.stop c.cache) (runnerIds c.runners)

def initSt (hdr : List String) : St :=
  match hdr with
  | "M" :: _ :: kgc :: start :: stop :: cache :: runners :: _ =>   -- an 8th field (DKV memtable bytes) only concerns the real DKV
    let c : Cfg := ⟨natOr kgc, natOr start, natOr stop, natOr cache, natOr runners⟩
    { cfg := c, reg := freshReg c [], spec := Spec.new (runnerIds c.runners) }
  | _ => {}

/-- canonical order for printing: by timestamp, ties by subject key bytes -/
def firedLe (a b : Bytes × Int) : Bool :=
  a.2 < b.2 || (a.2 == b.2 && Bytes.cmp a.1 b.1 != .gt)

def insertFired (x : Bytes × Int) : List (Bytes × Int) → List (Bytes × Int)
  | [] => [x]
  | y :: ys => if firedLe x y then x :: y :: ys else y :: insertFired x ys

def sortFired (l : List (Bytes × Int)) : List (Bytes × Int) := l.foldr insertFired []

def nonDecreasing : List (Bytes × Int) → Bool
  | a :: b :: rest => decide (a.2 ≤ b.2) && nonDecreasing (b :: rest)
  | _ => true

/-- fired timers in canonical order (ties by key); a raw order that decreases in the timestamp is shown as it is,
marked `UNORDERED` (followed by the same canonical list; the harness prints the implementation's list the same way) -/
def showFired (l : List (Bytes × Int)) : String :=
  if l.isEmpty then "-"
  else (if nonDecreasing l then "" else "UNORDERED ") ++ joinWith "," ((sortFired l).map fun p => s!"{p.2}:{toHex p.1}")

/-- the specification's fired set (a set: shown in canonical order) -/
def showFiredSet (l : List (Bytes × Int)) : String := showFired (sortFired l)

/-- model line, with the specification's line attached when they differ -/
def withSpec (kf model spec : String) : String :=
  if model == spec then model else s!"{model} #spec {spec} #kf {kf}"

/-- timestamps an `int64` of nanoseconds can hold; outside, `time.Time.UnixNano` is undefined ("The result is undefined if
the Unix time in nanoseconds cannot be represented by an int64 (a date before the year 1678 or after 2262)"), so
such timers are outside the property: the driver and the harness answer `outofrange` and do nothing -/
def inRange (t : Int) : Bool := decide (-9223372036854775808 ≤ t) && decide (t < 9223372036854775808)

def listDiff (a b : List (Bytes × Int)) : List (Bytes × Int) := a.filter fun x => !b.contains x

/-- the situation of finding D51, and only that: a timer before 1970 is ordered after the later ones (keys carry
`uint64(UnixNano)`), so what the code fires / stores / reports as earliest differs from the specification **only in
timers before 1970** (fired late, or in the wrong order). `m` and `s` are the timers the two sides fired (or store, or
report as earliest) in this operation. Any other deviation keeps the unlisted label and is reported as a violation. -/
def kfLabelFor (m s : List (Bytes × Int)) : String :=
  let d := listDiff m s ++ listDiff s m
  if (!d.isEmpty && d.all fun p => decide (p.2 < 0)) || (d.isEmpty && (m.any fun p => decide (p.2 < 0))) then "D51"
  else "spec-deviation"

def kfEarliest (m s : List (Bytes × Int)) : String :=
  if (m ++ s).any (fun p => decide (p.2 < 0)) then "D51" else "spec-deviation"

def specEarliestTimer (sp : Spec) : List (Bytes × Int) :=
  match sp.pending with
  | [] => []
  | p :: ps => [ps.foldl (fun m q => if q.2 < m.2 then q else m) p]

def specEarliest (sp : Spec) : String :=
  match sp.pending with
  | [] => "none"
  | p :: ps => s!"t={ps.foldl (fun m q => if q.2 < m then q.2 else m) p.2}"

def step (st : St) : List String → St × String
  | ["set", k, t] =>
    let key := hexOr k
    if !inRange (intOr t) then (st, "outofrange") else
    if !st.reg.store.owns key then (st, "notowned") else
    ({ st with reg := st.reg.setTimer key (intOr t), spec := st.spec.setTimer key (intOr t) }, "ok")
  | ["put", k, t] =>
    let key := hexOr k
    if !inRange (intOr t) then (st, "outofrange") else
    if !st.reg.store.owns key then (st, "notowned") else
    let p := (key, intOr t)
    ({ st with reg := { st.reg with store := st.reg.store.put key (intOr t) },
               spec := if st.spec.pending.contains p then st.spec else { st.spec with pending := p :: st.spec.pending } }, "ok")
  | ["adv", i, wm] =>
    let r := st.reg.advance s!"sr{natOr i}" (intOr wm)
    let sp := st.spec.advance s!"sr{natOr i}" (intOr wm)
    ({ st with reg := r.1, spec := sp.1 },
      withSpec (kfLabelFor r.2 sp.2) s!"c={r.1.wm} f={showFired r.2}" s!"c={sp.1.wm} f={showFiredSet sp.2}")
  -- `advk`: the consumer of the iterator stops after k timers (as `handleWatermark` does when a batch fails) and the same
  -- report is then drained: together the two calls fire what one drained call fires, each timer once
  | ["advk", i, wm, _] =>
    let r := st.reg.advance s!"sr{natOr i}" (intOr wm)
    let sp := st.spec.advance s!"sr{natOr i}" (intOr wm)
    ({ st with reg := r.1, spec := sp.1 },
      withSpec (kfLabelFor r.2 sp.2) s!"c={r.1.wm} f={showFired r.2}" s!"c={sp.1.wm} f={showFiredSet sp.2}")
  | ["earliest"] =>
    match st.reg.store.earliest with
    -- D51 at `GetEarliest`: one side's earliest timer is before 1970 (the code ranks it last, or still holds it)
    | none => (st, withSpec (kfEarliest [] (specEarliestTimer st.spec)) "none" (specEarliest st.spec))
    | some k => (st, withSpec (kfEarliest [timerOf k] (specEarliestTimer st.spec)) s!"t={(timerOf k).2}" (specEarliest st.spec))
  | ["dbcount"] =>
    (st, withSpec (kfLabelFor (st.reg.store.timerKeys.map timerOf) st.spec.pending)
      (toString st.reg.store.timerKeys.length) (toString st.spec.pending.length))
  | ["ckpt"] => ({ st with ckpt := some st.reg.store.db, specCkpt := some st.spec.pending }, "ok")
  | ["restore"] =>
    match st.ckpt with
    | none => (st, "nockpt")
    | some db =>
      ({ st with reg := freshReg st.cfg db,
                 spec := ⟨st.specCkpt.getD [], Wm.Ups.init (runnerIds st.cfg.runners), Wm.regInit⟩ }, "ok")
  | _ => (st, "bad-op")

def handle (lines : Array String) (i : Nat) (out : Array String) : Nat × Array String :=
  let hdr := if i = 0 then [] else words (lines.getD (i - 1) "")
  match hdr with
  | "M" :: _ :: "op" :: rest =>
    -- operator mode: the operator event loop `Timers.Op` (shared with C11's driver section)
    runLines Driver.C11.stepOp (Driver.C11.initSt ("M" :: "C11" :: rest)) lines i out
  | _ => runLines step (initSt hdr) lines i out

end Driver.C10
