import Driver.Util
import RxnModel.Model.Align
import RxnModel.Generated.Facts
/-!
Driver section for C02 (barrier alignment). Header: `M C02 <senders> <batchMaxSize> [<undeployed senders>]`
(senders `k … k+z-1` call without being among the deployed `SourceRunnerIds`).
Ops (one output line each):
  `send <sr> ev <keyhex> <p> <t>` | `send <sr> wm <ts>` | `send <sr> bar <id>`  → `passed` | `parked` | `busy`
  `send <sr> done` (SourceComplete) likewise
  `sendb <sr> <item> <item> …` one `HandleEventBatch` call carrying several events (`ev:<key>:<p>:<t>`, `wm:<ts>`,
              `bar:<id>`, `done`): answers for the first event; after each `go <sr>` the call goes on with its next
              event (`… next:passed|parked`); an error (mismatch, failed ack, redeploy) ends the call
  `cancel <sr>` → `cancelled` | `noop` (the context of the call in flight is cancelled)
  `go <sr>`   → `noop` | `ok <observations of the consumer's event function>`
  `gohold <sr>` → like `go`, but a barrier that completes the checkpoint stops the consumer at the start of its
                flush: `held rel:<woken senders>`; while held `go <x>` → `queued` | `noop`, `resume` → `ok <…>`,
                everything else → `consumer-held`
  `failnext`  → `armed` (the next ack to the job fails)   `failckpt` → `armed` (the next `db.Checkpoint` fails)      `redeploy` → `redeployed:<senders turned away>`
  `tick` / `stale` → `none` | `H(...)`
  `state`     → `ck=<id>:<missing>|- slots=<per sender p|k|->`   (mechanism detail)
The step function is `Rxn.Align.step`, the one the theorems of `Props/C02.lean` are about.
-/
namespace Driver.C02
open Rxn Driver Rxn.Align

structure DSt where
  s : St
  keys : List Bytes := []
  /-- checkpoint ids already written to the DKV in this deployment: the DKV looks checkpoints up by id, so the
  contents of a second checkpoint with a reused id cannot be read back (both sides print `dup`) -/
  ids : List Nat := []
  held : Option Nat := none
  queue : List Nat := []
  blocked : List (Nat × Item) := []
  /-- per sender: the events of its `HandleEventBatch` call that have not been handed to `HandleEvent` yet -/
  rest : List (Nat × List Item) := []
  /-- `true`: this copy follows the property's spec of a redeploy (`redeploySpec`: batcher emptied, every call in
  flight turned away) instead of the code's (`redeploy`); the only difference between the two copies -/
  specMode : Bool := false
  /-- callers that are not among the deployed runners are turned away before the alignment decision: always in the
  spec copy (open finding D69); in the copy of the code exactly when `Operator.HandleEvent` checks the sender
  (`Facts.c02SenderChecked`, regenerated from the source on every run) -/
  refuseU : Bool := false
  /-- number of further callers named in the header (they exist for the harness even when the operator admits none) -/
  zHdr : Nat := 0

def insSorted (k : Bytes) : List Bytes → List Bytes
  | [] => [k]
  | y :: r => if k = y then y :: r else if Bytes.lt k y then k :: y :: r else y :: insSorted k r

def showEntry : Entry → String
  | .user _ k p t => s!"u:{toHex k}:{p}:{t}"
  | .timer _ k ts => s!"t:{toHex k}:{ts}"

def showKV (kv : List (Bytes × Bytes)) : String :=
  joinWith "," ((kv.filter fun x => !x.2.isEmpty).map fun x => s!"{toHex x.1}={toHex x.2}")

def showObs (keys : List Bytes) (ids : List Nat) : Obs → Option String
  | .aligned _ p => some (if p then "passed" else "parked")
  | .busy _ => some "busy"
  | .proc _ _ => none
  | .handler es w given =>
    let ks := (given.map (·.1)).foldl (fun acc k => insSorted k acc) []
    let g := ks.map fun k => (k, ((given.find? (·.1 = k)).map (·.2)).getD [])
    some s!"H({w}|{joinWith "," (es.map showEntry)}|{showKV g})"
  | .fired _ _ => none
  | .reg _ id => some s!"reg:{id}"
  | .reject _ got have_ => some s!"reject:{got}:{have_}"
  | .snap id kv timers =>
    if ids.contains id then some s!"S({id}|dup)" else
    some s!"S({id}|{showKV (keys.map fun k => (k, kv k))}|{joinWith "," (timers.map fun t => s!"{t.1}:{toHex t.2}")})"
  | .ack id => some s!"ack:{id}"
  | .released srs => some s!"rel:{joinWith "." (srs.map toString)}"
  | .ackfail id => some s!"ackfail:{id}"
  | .completed _ => some "completed"
  | .stopped => some "stopped"
  | .redeployed srs => some s!"redeployed:{joinWith "." (srs.map toString)}"

def showAll (keys : List Bytes) (ids : List Nat) (obs : List Obs) : List String := obs.filterMap (showObs keys ids)

def newIds (ids : List Nat) (obs : List Obs) : List Nat :=
  obs.foldl (fun acc o => match o with
    | .snap id _ _ => id :: acc
    | .ackfail id => id :: acc   -- also after a failed `db.Checkpoint`: the DKV's list already holds the id
    | .redeployed _ => []
    | _ => acc) ids

def showState (s : St) : String :=
  let ck := match s.ckpt with
    | none => "-"
    | some (id, m) => s!"{id}:{joinWith "." (m.map toString)}"
  let slots := String.ofList ((List.range (s.k + s.z)).map fun i =>
    match s.slots i with
    | none => '-'
    | some (_, true) => 'p'
    | some (_, false) => 'k')
  s!"ck={ck} slots={slots}"

def doAct (st : DSt) (a : Act) : DSt × List String :=
  let r := step st.s a
  ({ st with s := r.1, ids := newIds st.ids r.2 }, showAll st.keys st.ids r.2)

def parseItem (w : String) : Option Item :=
  match w.splitOn ":" with
  | ["ev", k, p, t] => some (.ev (hexOr k) (natOr p) (natOr t))
  | ["wm", ts] => some (.wm (natOr ts))
  | ["bar", id] => some (.bar (natOr id))
  | ["done"] => some .done
  | _ => none

def restOf (st : DSt) (sr : Nat) : List Item := ((st.rest.find? (·.1 == sr)).map (·.2)).getD []

def setRest (st : DSt) (sr : Nat) (l : List Item) : DSt :=
  { st with rest := if l.isEmpty then st.rest.filter (·.1 != sr) else (sr, l) :: st.rest.filter (·.1 != sr) }

def isErr : Obs → Bool
  | .reject _ _ _ => true
  | .ackfail _ => true
  | _ => false

def abortedBy : List Obs → List Nat
  | [] => []
  | .redeployed l :: r => l ++ abortedBy r
  | _ :: r => abortedBy r

def addKeys (keys : List Bytes) (its : List Item) : List Bytes :=
  its.foldl (fun acc it => match it with | .ev k _ _ => insSorted k acc | _ => acc) keys

/-- after the consumer finished sender `sr`'s event: the sender's call ends on an error, otherwise it hands its next
event to `HandleEvent` (alignment decision for that event) -/
def continueCall (st : DSt) (sr : Nat) (obs : List Obs) : DSt × String :=
  if st.s.stopped || obs.any isErr then (setRest st sr [], "")
  else match restOf st sr with
    | [] => (st, "")
    | it :: tl =>
      let r := step st.s (.align sr it)
      (setRest { st with s := r.1 } sr tl, " next:" ++ joinWith " " (showAll st.keys st.ids r.2))

def isReleased : Obs → Bool
  | .released _ => true
  | _ => false

/-- sender `sr` is a caller that is not among the deployed runners -/
def undeployed (st : DSt) (sr : String) : Bool := st.s.k ≤ natOr sr && natOr sr < st.s.k + st.zHdr

def step'' (st : DSt) : List String → DSt × String
  | ["send", sr, "ev", k, p, t] =>
    if st.refuseU && undeployed st sr then ({ st with keys := insSorted (hexOr k) st.keys }, "refused") else
    let key := hexOr k
    let st := { st with keys := insSorted key st.keys }
    if natOr sr < st.s.k + st.s.z then
      let (st, o) := doAct st (.align (natOr sr) (.ev key (natOr p) (natOr t)))
      (st, if o.isEmpty then "gone" else joinWith " " o)
    else (st, "bad-op")
  | ["send", sr, "wm", ts] =>
    if st.refuseU && undeployed st sr then (st, "refused") else
    if natOr sr < st.s.k + st.s.z then
      let (st, o) := doAct st (.align (natOr sr) (.wm (natOr ts)))
      (st, if o.isEmpty then "gone" else joinWith " " o)
    else (st, "bad-op")
  | ["send", sr, "bar", id] =>
    if st.refuseU && undeployed st sr then (st, "refused") else
    if natOr sr < st.s.k + st.s.z then
      let (st, o) := doAct st (.align (natOr sr) (.bar (natOr id)))
      (st, if o.isEmpty then "gone" else joinWith " " o)
    else (st, "bad-op")
  | ["send", sr, "done"] =>
    if st.refuseU && undeployed st sr then (st, "refused") else
    if natOr sr < st.s.k + st.s.z then
      let (st, o) := doAct st (.align (natOr sr) .done)
      (st, if o.isEmpty then "gone" else joinWith " " o)
    else (st, "bad-op")
  | ["failnext"] =>
    let (st, _) := doAct st .armFail
    (st, if st.s.stopped then "gone" else "armed")
  | ["failckpt"] =>
    let (st, _) := doAct st .armDbFail
    (st, if st.s.stopped then "gone" else "armed")
  | "sendb" :: sr :: ws =>
    let its := ws.filterMap parseItem
    if its.length != ws.length || its.isEmpty then (st, "bad-op") else
    let st := { st with keys := addKeys st.keys its }
    if st.refuseU && undeployed st sr then (st, "refused") else
    if natOr sr < st.s.k + st.s.z then
      match its with
      | it :: tl =>
        let free := (st.s.slots (natOr sr)).isNone
        let (st, o) := doAct st (.align (natOr sr) it)
        (if free && !o.isEmpty then setRest st (natOr sr) tl else st, if o.isEmpty then "gone" else joinWith " " o)
      | [] => (st, "bad-op")
    else (st, "bad-op")
  | ["cancel", sr] =>
    let inFlight := natOr sr < st.s.k + st.s.z && (st.s.slots (natOr sr)).isSome && !st.s.stopped
    let (st, _) := doAct st (.cancel (natOr sr))
    (st, if inFlight then "cancelled" else "noop")
  | ["redeploy"] =>
    let r := if st.specMode && !st.s.stopped then redeploySpec st.s else step st.s .redeploy
    let st := (abortedBy r.2).foldl (fun st x => setRest st x []) { st with s := r.1, ids := newIds st.ids r.2 }
    (st, if r.2.isEmpty then "gone" else joinWith " " (showAll st.keys st.ids r.2))
  | ["go", sr] =>
    let r := step st.s (.go (natOr sr))
    if r.2.isEmpty then (st, "noop")
    else
      let shown := joinWith " " ("ok" :: showAll st.keys st.ids r.2)
      let (st, nx) := continueCall { st with s := r.1, ids := newIds st.ids r.2 } (natOr sr) r.2
      (st, shown ++ nx)
  | ["tick"] =>
    let (st, o) := doAct st .tick
    (st, if o.isEmpty then "none" else joinWith " " o)
  | ["stale"] =>
    let (st, o) := doAct st .stale
    (st, if o.isEmpty then "none" else joinWith " " o)
  | ["state"] =>
    (st, if st.s.stopped then "gone" else showState st.s ++ String.ofList (List.replicate (st.zHdr - st.s.z) '-'))
  | _ => (st, "bad-op")

/-- a new call while the consumer is held: it blocks on the read lock (at most one per hold is started) -/
def startBlocked (st : DSt) (h : HSt) (sr : Nat) (its : List Item) (n : Nat) : DSt × String :=
  if its.length != n || its.isEmpty then (st, "bad-op") else
  let st := { st with keys := addKeys st.keys its }
  if sr < st.s.k + st.zHdr then
    match its with
    | it :: tl =>
      let r := hstep h (.base (.align sr it))
      if r.1.blocked.length != st.blocked.length then
        (setRest { st with blocked := r.1.blocked } sr tl, "blocked")
      else (st, "consumer-held")
    | [] => (st, "bad-op")
  else (st, "bad-op")

/-- ops around a held consumer go through `hstep` -/
def step' (st : DSt) (ws : List String) : DSt × String :=
  let h : HSt := { s := st.s, held := st.held, queue := st.queue, blocked := st.blocked }
  match st.held, ws with
  | none, ["gohold", sr] =>
    if completing st.s (natOr sr) && (restOf st (natOr sr)).isEmpty then
      let r := hstep h (.hold (natOr sr))
      ({ st with held := r.1.held, queue := r.1.queue },
       s!"held rel:{joinWith "." ((parkedList st.s).map toString)}")
    else step'' st ["go", sr]
  | none, ["resume"] => (st, "noop")
  | none, _ => step'' st ws
  | some _, ["go", x] =>
    if !(restOf st (natOr x)).isEmpty then (st, "noop") else
    let r := hstep h (.base (.go (natOr x)))
    ({ st with queue := r.1.queue }, if r.1.queue.length != st.queue.length then "queued" else "noop")
  | some _, ["resume"] =>
    let r := hstep h .resume
    let shown := showAll st.keys st.ids (r.2.filter fun o => !isReleased o)
    ({ st with s := r.1.s, held := none, queue := [], blocked := [], ids := newIds st.ids r.2 },
     joinWith " " ("ok" :: shown))
  | some _, "send" :: sr :: ws => startBlocked st h (natOr sr) ([joinWith ":" ws].filterMap parseItem) 1
  | some _, "sendb" :: sr :: ws => startBlocked st h (natOr sr) (ws.filterMap parseItem) ws.length
  | some _, _ => (st, "consumer-held")

/-- the model of the code and the spec copy run side by side. The spec copy differs in two points only: a redeploy
empties the batcher and turns every call in flight away (`redeploySpec`, open finding D45), and callers that are not
among the deployed runners are refused (open finding D69). `d45`: the last redeploy found events in the batcher or a
call past alignment; `d69`: an undeployed caller has acted since the last redeploy. An answer is tagged only while
one of the two situations holds; a difference outside both is emitted untagged (and reported as unlisted). -/
structure Both where
  c : DSt
  sp : DSt
  d45 : Bool := false
  d69 : Bool := false

def stepBoth (st : Both) (ws : List String) : Both × String :=
  let (c, xc) := step' st.c ws
  let (sp, xs) := step' st.sp ws
  let isRedeploy := ws == ["redeploy"] && st.c.held.isNone && !st.c.s.stopped
  -- a redeploy that finds the batcher empty and no call past alignment starts a clean epoch: the spec copy restarts
  -- from the code copy (batch tokens may have drifted)
  let clean := st.c.s.pending.isEmpty &&
    (List.range (st.c.s.k + st.c.s.z)).all fun i => match st.c.s.slots i with | some (_, true) => false | _ => true
  let byUndeployed := match ws with
    | _ :: sr :: _ => (ws.head? == some "send" || ws.head? == some "sendb" || ws.head? == some "go" ||
        ws.head? == some "cancel" || ws.head? == some "gohold") && undeployed st.c sr
    | _ => false
  let d45 := if isRedeploy then !clean else st.d45
  let d69 := if isRedeploy then false else st.d69 || byUndeployed
  -- (the answer of the redeploy itself still belongs to the epoch in which the undeployed caller acted)
  let d69line := d69 || st.d69
  let d45line := d45 || st.d45
  -- D69 is a difference between the copies only while the code does not check the sender (`refuseU = false`); once it
  -- does (repaired), a difference in a line of an undeployed caller can only stem from the D45 situation
  let tag := if !st.c.refuseU && d69line && (byUndeployed || !d45line) then "D69" else if d45line then "D45" else ""
  ({ c := c, sp := if isRedeploy && clean then { c with specMode := true, refuseU := true } else sp, d45 := d45, d69 := d69 },
   if xc == xs then xc else s!"{xc} #spec {xs} #kf {tag}")

def handle (lines : Array String) (i : Nat) (out : Array String) : Nat × Array String :=
  let hdr := words (lines.getD (i - 1) "")
  let k := natOr (hdr.getD 2 "1")
  let b := natOr (hdr.getD 3 "1")
  let z := natOr (hdr.getD 4 "0")
  -- the copy of the code starts from `codeInit` (callers outside the runners admitted only if the source does not
  -- check the sender); the spec copy never serves them
  runLines stepBoth { c := { s := codeInit k (max b 1) z, refuseU := Facts.c02SenderChecked == 1, zHdr := z },
                      sp := { s := { init k (max b 1) with z := z }, specMode := true, refuseU := true, zHdr := z } }
    lines i out

end Driver.C02
