import Driver.Util
import RxnModel.Model.Publish
/-! Driver section for C13: trace validation of publication / retention / restart against `Model/Publish.lean`.
Every line is one action of the transition system the theorems are about (or an observation of its state). -/
namespace Driver.C13
open Rxn Driver Rxn.Publish

structure St where
  sys : Option Sys := none

def natList (s : String) : List Nat :=
  if s == "-" then [] else (s.splitOn ",").map natOr

def insertSorted (x : Nat) : List Nat → List Nat
  | [] => [x]
  | y :: ys => if x ≤ y then x :: y :: ys else y :: insertSorted x ys

def sortNats (l : List Nat) : List Nat := l.foldr insertSorted []

def showNats (l : List Nat) : String :=
  if l.isEmpty then "-" else joinWith "," (l.map toString)

def showOpt : Option Nat → String
  | none => "none"
  | some n => toString n

def showFiles (s : Sys) : String := s!"files {showNats (sortNats s.pub.files)}"

def act (st : St) (a : Act) (render : Sys → List Obs → String) (disabled : String) : St × String :=
  match st.sys with
  | none => (st, "no-init")
  | some s =>
    match Publish.step s a with
    | none => (st, disabled)
    | some (s', obs) => ({ sys := some s' }, render s' obs)

def applyCalls (s : Sys) (cs : List Store.Call) : Sys :=
  cs.foldl (fun s c => match Publish.step s (.call c) with | some (s', _) => s' | none => s) s

def step (st : St) : List String → St × String
  | "init" :: ids :: _ =>
    let s := Publish.init (natList ids)
    ({ sys := some s }, s!"loaded {showOpt (load (natList ids))}")
  | ["ckpt"] =>
    match st.sys with
    | none => (st, "no-init")
    | some s =>
      match Publish.step s (.call (.create [1] [1])) with
      | some (s1, [.res (.id n)]) =>
        ({ sys := some (applyCalls s1 [.opAck 1 n 0, .srAck 1 n []]) }, s!"id {n}")
      | _ => (st, "inprogress")
  | ["write", n] => act st (.write (natOr n)) (fun s _ => showFiles s) "disabled"
  | ["lock", n] => act st (.lock (natOr n)) (fun s _ => s!"cur {showOpt s.pub.current}") "disabled"
  | ["rems", _] =>
    match st.sys with
    | none => (st, "no-init")
    | some s =>
      let ls := (s.pub.removes.map fun r => showNats (sortNats r))
      (st, s!"rems {if ls.isEmpty then "-" else joinWith ";" (ls.toArray.qsort (· < ·)).toList}")
  | ["remove", ids] =>
    match st.sys with
    | none => (st, "no-init")
    | some s =>
      -- the pending removal with this id set (the code builds the list in slice order)
      match s.pub.removes.find? (fun r => sortNats r == sortNats (natList ids)) with
      | none => (st, "absent")
      | some r => act st (.remove r) (fun s _ => showFiles s) "absent"
  | ["drain", _] =>
    match st.sys with
    | none => (st, "no-init")
    | some s =>
      -- the job receives the queued notifications in queue order (single announcer, D54 repair); the received
      -- order is the observation
      let all := s.pub.notifs.flatten
      let s' := s.pub.notifs.foldl (fun s _ => match Publish.step s .deliver with | some (s', _) => s' | none => s) s
      ({ sys := some s' }, s!"notify {showNats all}")
  | ["crashwrite", n] =>
    -- the job process is lost in the middle of `fileStore.Write` for checkpoint n. Writes are atomic (D60 repair:
    -- temporary file + rename; `tmp_name_ignored`), so this is a `crash` while n's write has not happened.
    match st.sys with
    | none => (st, "no-init")
    | some s =>
      if (natOr n, false) ∈ s.pub.inflight then
        act st .crash (fun s _ => s!"loaded {showOpt s.pub.current}") "disabled"
      else (st, "disabled")
  | ["crash"] => act st .crash (fun s _ => s!"loaded {showOpt s.pub.current}") "disabled"
  | ["current"] =>
    match st.sys with
    | none => (st, "no-init")
    | some s => (st, s!"cur {showOpt s.pub.current}")
  | ["files"] =>
    match st.sys with
    | none => (st, "no-init")
    | some s => (st, showFiles s)
  | ["seg", id] => (st, toHex (pathSegment (natOr id)))
  | ["name", id] => (st, toHex (snapName (natOr id)))
  | _ => (st, "bad-op")

def handle (lines : Array String) (i : Nat) (out : Array String) : Nat × Array String :=
  runLines step {} lines i out

end Driver.C13
