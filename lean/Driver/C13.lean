import Driver.Util
import RxnModel.Model.Publish
/-! Driver section for C13: trace validation of publication / retention / restart against `Model/Publish.lean`.
Every line is one action of the transition system the theorems are about (or an observation of its state). -/
namespace Driver.C13
open Rxn Driver Rxn.Publish

structure St where
  sys : Option Sys := none

def natList (s : String) : List Nat :=
  if s == "-" then [] else (s.splitOn ",").map natOr

def insertSorted (x : Nat) : List Nat → List Nat
  | [] => [x]
  | y :: ys => if x ≤ y then x :: y :: ys else y :: insertSorted x ys

def sortNats (l : List Nat) : List Nat := l.foldr insertSorted []

def showNats (l : List Nat) : String :=
  if l.isEmpty then "-" else joinWith "," (l.map toString)

def showOpt : Option Nat → String
  | none => "none"
  | some n => toString n

def showFiles (s : Sys) : String := s!"files {showNats (sortNats s.pub.files)}"

def act (st : St) (a : Act) (render : Sys → List Obs → String) (disabled : String) : St × String :=
  match st.sys with
  | none => (st, "no-init")
  | some s =>
    match Publish.step s a with
    | none => (st, disabled)
    | some (s', obs) => ({ sys := some s' }, render s' obs)

def applyCalls (s : Sys) (cs : List Store.Call) : Sys :=
  cs.foldl (fun s c => match Publish.step s (.call c) with | some (s', _) => s' | none => s) s

def step (st : St) : List String → St × String
  | "init" :: ids :: _ =>
    let s := Publish.init (natList ids)
    ({ sys := some s }, s!"loaded {showOpt (load (natList ids))}")
  | ["ckpt"] =>
    match st.sys with
    | none => (st, "no-init")
    | some s =>
      match Publish.step s (.call (.create [1] [1])) with
      | some (s1, [.res (.id n)]) =>
        ({ sys := some (applyCalls s1 [.opAck 1 n 0, .srAck 1 n []]) }, s!"id {n}")
      | _ => (st, "inprogress")
  | ["write", n] => act st (.write (natOr n)) (fun s _ => showFiles s) "disabled"
  | ["lock", n] => act st (.lock (natOr n)) (fun s _ => s!"cur {showOpt s.pub.current}") "disabled"
  | ["rems", _] =>
    match st.sys with
    | none => (st, "no-init")
    | some s =>
      let ls := (s.pub.removes.map fun r => showNats (sortNats r))
      (st, s!"rems {if ls.isEmpty then "-" else joinWith ";" (ls.toArray.qsort (· < ·)).toList}")
  | ["remove", ids] =>
    match st.sys with
    | none => (st, "no-init")
    | some s =>
      -- the pending removal with this id set (the code builds the list in slice order)
      match s.pub.removes.find? (fun r => sortNats r == sortNats (natList ids)) with
      | none => (st, "absent")
      | some r => act st (.remove r) (fun s _ => showFiles s) "absent"
  | ["drain", _] =>
    match st.sys with
    | none => (st, "no-init")
    | some s =>
      -- D54 (open): every notification is sent from its own goroutine, so with two or more of them outstanding
      -- the order in which the job receives them is up to the scheduler and cannot be forced from outside.
      -- Both sides print the received ids as a multiset (sorted); in exactly that situation the line is tagged:
      -- the property demands the start order.
      let all := s.pub.notifs.flatten
      let s' := s.pub.notifs.foldl (fun s _ => match Publish.step s (.deliver 0) with | some (s', _) => s' | none => s) s
      let line := s!"notify {showNats (sortNats all)}"
      ({ sys := some s' },
       if s.pub.notifs.length ≥ 2 then s!"{line} #spec notify in-order {showNats all} #kf D54" else line)
  | ["crashwrite", n] =>
    -- D60 (open), outside the proven model: `Publish.write` is atomic (true for an object store), but
    -- `LocalDirectory.Write` creates the file and copies into it. If the job process is lost in the middle of the
    -- write of checkpoint n, the cut-off file is the newest snapshot file and `LoadCheckpoint` fails on it (error or
    -- panic): the job does not start any more. The property demands the newest completed checkpoint.
    match st.sys with
    | none => (st, "no-init")
    | some s =>
      if (natOr n, false) ∈ s.pub.inflight then
        if s.pub.files.all (· < natOr n) then
          ({ sys := none }, s!"loaded error #spec loaded {showOpt (load s.pub.files)} #kf D60")
        else
          -- a newer complete snapshot file exists: the cut-off file has a lower id and is never picked
          match Publish.step s (.write (natOr n)) with
          | some (s1, _) =>
            match Publish.step s1 .crash with
            | some (s2, _) => ({ sys := some s2 }, s!"loaded {showOpt s2.pub.current}")
            | none => (st, "model-error")
          | none => (st, "model-error")
      else (st, "disabled")
  | ["crash"] => act st .crash (fun s _ => s!"loaded {showOpt s.pub.current}") "disabled"
  | ["current"] =>
    match st.sys with
    | none => (st, "no-init")
    | some s => (st, s!"cur {showOpt s.pub.current}")
  | ["files"] =>
    match st.sys with
    | none => (st, "no-init")
    | some s => (st, showFiles s)
  | ["seg", id] => (st, toHex (pathSegment (natOr id)))
  | ["name", id] => (st, toHex (snapName (natOr id)))
  | _ => (st, "bad-op")

def handle (lines : Array String) (i : Nat) (out : Array String) : Nat × Array String :=
  runLines step {} lines i out

end Driver.C13
