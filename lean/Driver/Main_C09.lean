import Driver.Loop
import Driver.C09
/-! Single-model driver for C09 (fallback of `./check C09` when the all-models driver does not build). -/
def dispatchC09 (model : String) : Option (Array String → Nat → Array String → Nat × Array String) :=
  if model == "C09" then some Driver.C09.handle else none

def main : IO Unit := driverMain dispatchC09
