import Driver.Loop
import Driver.C07
/-! Single-model driver for C07 (fallback of `./check C07` when the all-models driver does not build). -/
def dispatchC07 (model : String) : Option (Array String → Nat → Array String → Nat × Array String) :=
  if model == "C07" then some Driver.C07.handle else none

def main : IO Unit := driverMain dispatchC07
