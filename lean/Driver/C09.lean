import Driver.Util
import RxnModel.Model.Files
/-!
Driver section for C09: trace validation of real dkv instances against `Model/Files.lean`.
Input lines are `op ## impl-output`. Change sets of flushes/compactions, WAL names and loaded documents are read from
the implementation's output (mechanism) and must be enabled steps of the model; which cleanups run at a `gc` point,
what they decide, which files disappear and whether a needed file is missing are derived by the model alone.
A deletion of a file in the property's needed set is printed as `model #spec spec [#kf Dnn]`.
-/
namespace Driver.C09
open Rxn Driver Rxn.Files

structure St where
  s : State := {}
  modes : List String := []
  kf : String := ""
  /-- table files whose deletion was attributed to a known finding, with its id -/
  lostKf : List (String × String) := []
  /-- a `NeedsTable` call held between its two reads: instance and table -/
  ask : Option (Nat × Path) := none
  /-- per instance, parallel to its `snaps`: is the snapshot a held scan iterator -/
  scans : List (List Bool) := []
  /-- per instance: tables pinned for good by a held scan that could not be finished because one of the files it
  reads was already gone (a recorded loss); an abandoned scan never lets go of its tables (`mergesort.Merge`, D62) -/
  stuck : List (Nat × List Path) := []

def sortStr (xs : List String) : List String := (xs.toArray.qsort (· < ·)).toList

def joinC (xs : List String) : String := if xs.isEmpty then "-" else joinWith "," xs

def parseRange (x : String) : KGRange :=
  match x.splitOn "-" with
  | [a, b] => ⟨natOr a, natOr b⟩
  | _ => ⟨0, 0⟩

def parseTbl (x : String) : Option Tbl :=
  match x.splitOn ":" with
  | [u, lo, hi] => some ⟨u, natOr lo, natOr hi⟩
  | _ => none

def parseList (x : String) : List String := if x == "-" || x == "" then [] else x.splitOn ","

def showTbl (t : Tbl) : String := t.uri ++ ":" ++ toString t.lo ++ ":" ++ toString t.hi

def field (ws : List String) (key : String) : String :=
  match ws.find? (fun w => w.startsWith (key ++ "=")) with
  | some w => (w.drop (key.length + 1)).toString
  | none => ""

def splitHint (ws : List String) : List String × List String :=
  let i := ws.idxOf "##"
  (ws.take i, ws.drop (i + 1))

def pad6 (n : Nat) : String :=
  let d := toString n
  String.mk (List.replicate (6 - d.length) '0') ++ d

def walName (w : Wal) : String := "i" ++ toString w.dir ++ "/" ++ pad6 w.num ++ ".wal"

/-- the file name on disk: a late write (`lateName`) leaves a file of the same name with other content -/
partial def diskName (p : String) : String := if p.endsWith "'" then diskName (p.dropRight 1) else p

def filePath : File → String
  | .sst p => diskName p
  | .wal w => walName w

def aliveAt (st : St) (i : Nat) : Bool :=
  match st.s.insts[i]? with
  | some x => x.life = .alive
  | none => false

def modeOf (st : St) (s : State) (gen : Nat) (r : KGRange) : String :=
  match s.insts.findIdx? (fun x => x.life = .alive ∧ x.gen = gen ∧ x.range = r) with
  | some j => st.modes.getD j "truthful"
  | none => "err"

/-- what the neighbours of instance `x` answer about table `u` right now -/
def answersFor (st : St) (s : State) (x : Inst) (u : Path) : List Ans :=
  x.nbrs.map fun r =>
    match modeOf st s x.gen r with
    | "truthful" => truthful s x.gen u r
    | "hang" => .hang
    | "slow" => .needs   -- answers "yes", but only after longer than any deadline the asker might impose
    | _ => .err

structure GcAcc where
  s : State
  lines : List String := []
  /-- (uri, kf id) of deletions that hit the needed set -/
  bad : List (String × String) := []

def applyEvent (s : State) (i : Nat) (ev : String) : Option State :=
  if ev.startsWith "f+" then
    match parseTbl (ev.drop 2).toString with
    | some t => step s (.flush i t)
    | none => none
  else if ev.startsWith "c-" then
    match ((ev.drop 2).toString).splitOn "+" with
    | [rm, add] => step s (.compact i (parseList rm) ((parseList add).filterMap parseTbl))
    | _ => none
  else none

/-- D68's situation, seen from the collecting instance `x` (number `i`): a job-retained handle of an instance that is
gone, newer than the checkpoint `x` was restored from — `x` never learns of it -/
def newerDeadHandle (s : State) (i : Nat) (x : Inst) (h : Handle) : Bool :=
  h.writer != i && !writerAlive s h.writer && (match x.src with
    | some n => decide (n < h.id)
    | none => false)

/-- does anybody whose key-group range overlaps the table still hold it (a running instance's level list, or a
job-retained checkpoint written by such an instance)? If only out-of-range holders are left the deletion is D34.
Handles selected by `skip` are left out. -/
def inRangeHolder (s : State) (i : Nat) (t : Tbl) (skip : Handle → Bool) : Bool :=
  let overl := fun (j : Nat) => match s.insts[j]? with
    | some y => Gen.kgOverlaps y.range t.span
    | none => true
  ((List.range s.insts.length).any fun j => j != i && overl j && (match s.insts[j]? with
      | some y => y.life = .alive && (uris y.current).contains t.uri
      | none => false)) ||
  s.retained.any fun h => !skip h && (uris h.tables).contains t.uri && (h.writer == i || overl h.writer)

/-- any holder at all besides the collecting instance and the handles selected by `skip` -/
def otherHolder (s : State) (i : Nat) (t : Tbl) (skip : Handle → Bool) : Bool :=
  ((List.range s.insts.length).any fun j => j != i && (match s.insts[j]? with
      | some y => y.life = .alive && (uris y.current).contains t.uri
      | none => false)) ||
  s.retained.any fun h => !skip h && (uris h.tables).contains t.uri

def collectOne (st : St) (need : List File) (acc : GcAcc) (i : Nat) (u : Path) (isCreated : Bool) : GcAcc :=
  match acc.s.insts[i]? with
  | none => acc
  | some x =>
    let ans := answersFor st acc.s x u
    match step acc.s (.collect i u ans) with
    | none => acc
    | some s' =>
      let deleted := acc.s.files.contains (.sst u) && !s'.files.contains (.sst u)
      let dec :=
        if isCreated then (if Facts.c09CreatedDeletes == 1 then "del" else "keep")
        else match x.loaded.find? (fun t => t.uri == u) with
          | some t => if decision x.range t (x.nbrs.zip ans) = .delete ∨ Facts.c09LoadedGuarded ≠ 1 then "del" else "keep"
          | none => "keep"
      let line := toString i ++ ":" ++ u ++ ":" ++ (if isCreated then "c" else "l") ++ ":" ++ dec
      let bad :=
        if deleted && need.contains (.sst u) then
          let kf :=
            -- D25 only in its situation: the instance was released inside a living process
            if x.life = .released then "D25"
            else if isCreated then ""
            else match x.loaded.find? (fun t => t.uri == u) with
              | some t =>
                -- D68 only in its situation: the table is still needed ONLY by retained checkpoints, newer than the one
                -- this instance was restored from, of instances that are gone
                let skip := newerDeadHandle acc.s i x
                if inRangeHolder acc.s i t skip then ""
                else if otherHolder acc.s i t skip then "D34"
                else if acc.s.retained.any (fun h => skip h && (uris h.tables).contains t.uri) then "D68" else "D34"
              | none => ""
          [(u, kf)]
        else []
      { s := s', lines := acc.lines ++ [line], bad := acc.bad ++ bad }

def gcInst (st : St) (need : List File) (acc : GcAcc) (i : Nat) : GcAcc :=
  match acc.s.insts[i]? with
  | none => acc
  | some x =>
    let pinned := fun (u : Path) => st.stuck.any (fun p => p.1 == i && p.2.contains u)
    let cs := x.created.filter (fun u => x.unreachable u && !pinned u)
    let ls := (x.loaded.filter (fun t => x.unreachable t.uri && !x.created.contains t.uri && !pinned t.uri)).map (·.uri)
    let acc := cs.foldl (fun a u => collectOne st need a i u true) acc
    ls.foldl (fun a u => collectOne st need a i u false) acc

def withSpec (model spec kf : String) : String :=
  if model == spec then model else model ++ " #spec " ++ spec ++ (if kf == "" then "" else " #kf " ++ kf)

def pickKf (bad : List (String × String)) : String :=
  if bad.any (fun b => b.2 == "") then "" else
  if bad.any (fun b => b.2 == "D25") then "D25" else
  match bad with
  | b :: _ => b.2
  | [] => ""

/-- an operation refused because a file it needs is gone (the code under test would panic in a background goroutine):
the refusal is a consequence of that loss, and carries a finding's id only if every missing file was lost in that
finding's situation (as recorded when it was lost); an unrecorded loss leaves it untagged -/
def refused (st : St) (gone : List File) : String :=
  let ids := gone.map fun f => match st.lostKf.find? (fun b => b.1 == filePath f) with
    | some b => b.2
    | none => ""
  let kf := if ids.isEmpty || ids.any (· == "") then ""
    else if ids.any (· == "D25") then "D25" else ids.headD ""
  withSpec "files-missing" "ok" kf

/-- the held scans of instance `i` that cannot be finished when the instance is dropped: a file they read is gone -/
def stuckScans (st : St) (i : Nat) : List (Nat × List Path) :=
  match st.s.insts[i]? with
  | none => []
  | some x =>
    let flags := st.scans.getD i []
    (x.snaps.zip (flags ++ List.replicate (x.snaps.length - flags.length) false)).filterMap fun (sn, isScan) =>
      let us := uris sn
      if isScan && us.any (fun u => !st.s.files.contains (.sst u)) then some (i, us) else none

/-- a `NeedsTable` call held between its reads ends with the instance it was made on -/
def dropAsk (st : St) (i : Nat) : Option (Nat × Path) :=
  match st.ask with
  | some (j, u) => if j == i then none else some (j, u)
  | none => none

/-- `open`: a new instance, empty or restored from checkpoint handles; the model step, then the commits of the WAL
replay as read from the implementation -/
def doOpen (st : St) (rg : String) (rest hint : List String) : St × String :=
  let range := parseRange rg
  let gen := natOr (field rest "gen")
  let nbrs := (parseList (field rest "nbrs")).map parseRange
  let from_ := field rest "from"
  -- the storage directory: the instance's own unless `dir=<k>` names an earlier one (same operator id)
  let dirS := field rest "dir"
  let dir := if dirS == "" then st.s.insts.length else natOr dirS
  let act : Act :=
    if from_ == "none" || from_ == "" then .openFresh range gen nbrs dir
    else match from_.splitOn ":" with
      | [w, id] => .openFrom range gen nbrs ((w.splitOn "+").map natOr) (natOr id) dir
      | _ => .openFresh range gen nbrs dir
  match Files.step st.s act with
  | none => (st, "no-such-checkpoint")
  | some s' =>
    let idx := st.s.insts.length
    let lost : List File := match s'.insts[idx]? with
      | some x => ((uris x.current).map File.sst ++ (match x.ckpts with
            | c :: _ => c.wals.map File.wal
            | [] => [])).filter (fun f => !st.s.files.contains f)
      | none => []
    if !lost.isEmpty then (st, refused st lost) else
    match s'.insts[idx]? with
    | none => (st, "bad-state")
    | some x =>
      let wals := match x.ckpts with
        | c :: _ => c.wals
        | [] => []
      -- the WAL replay may flush and compact before the instance is handed over: those commits are read from the
      -- implementation like the ones of a `write`
      let evs := field hint "ev"
      let events := if evs == "-" || evs == "" then [] else evs.splitOn ";"
      let r := events.foldl (fun (acc : Option State × String) ev =>
        match acc.1 with
        | none => acc
        | some s => match applyEvent s idx ev with
          | some s2 => (some s2, acc.2)
          | none => (none, ev)) (some s', "")
      match r.1 with
      | none => (st, "disabled " ++ r.2)
      | some s2 =>
        ({ st with s := s2, modes := st.modes ++ ["truthful"] },
          "ok " ++ toString idx ++ " tables=" ++ joinC (sortStr (x.current.map showTbl)) ++ " wals=" ++ joinC (sortStr (wals.map walName))
            ++ " ev=" ++ (if evs == "" then "-" else evs))

def step (st : St) (ws : List String) : St × String :=
  let (op, hint) := splitHint ws
  match op with
  | "open" :: rg :: rest => doOpen st rg rest hint
  | "redeploy" :: i :: rest =>
    -- a second, successful `Operator.HandleDeploy` on the operator that serves instance `i` (same assembly): the
    -- operator drops the instance it had inside its living process and opens a new one, in the same directory, from
    -- the given handles. A load that cannot start leaves the operator serving the instance it had.
    let i := natOr i
    if !aliveAt st i then (st, "not-alive") else
    match st.s.insts[i]?, Files.step st.s (.release i) with
    | some x, some s1 =>
      let showR := fun (r : KGRange) => toString r.start ++ "-" ++ toString r.stop
      let r := doOpen { st with s := s1, ask := dropAsk st i, stuck := stuckScans st i ++ st.stuck } (showR x.range)
        ["gen=" ++ field rest "gen", "nbrs=" ++ joinC (x.nbrs.map showR), "from=" ++ field rest "from",
         "dir=" ++ toString x.dir] hint
      if r.2.startsWith "ok " then r else (st, r.2)
    | _, _ => (st, "not-alive")
  | ["write", i, _, _, _] =>
    let i := natOr i
    if !aliveAt st i then (st, "not-alive") else
    let cur := match st.s.insts[i]? with
      | some x => uris x.current
      | none => []
    if cur.any (fun u => !st.s.files.contains (.sst u)) then
      (st, refused st ((cur.map File.sst).filter (fun f => !st.s.files.contains f))) else
    match hint with
    | ["ok", evs] =>
      let events := if evs == "-" then [] else evs.splitOn ";"
      let r := events.foldl (fun (acc : Option State × String) ev =>
        match acc.1 with
        | none => acc
        | some s => match applyEvent s i ev with
          | some s' => (some s', acc.2)
          | none => (none, ev)) (some st.s, "")
      match r.1 with
      | some s' => ({ st with s := s' }, "ok " ++ evs)
      | none => (st, "disabled " ++ r.2)
    | _ => (st, "ok ?")
  | ["ckpt", i, id] =>
    let i := natOr i
    if !aliveAt st i then (st, "not-alive") else
    match st.s.insts[i]? with
    | none => (st, "not-alive")
    | some x =>
      -- the name of the sealed WAL is the model's own (directory, next number); a name that was used before
      -- gets the next version: the older file is overwritten
      let ver := (st.s.usedW.filter (fun v => v.dir == x.dir && v.num == x.walNext)).length
      let wal : Wal := ⟨x.dir, x.walNext, ver⟩
      match Files.step st.s (.ckpt i (natOr id) wal) with
      | none => (st, "disabled")
      | some s' => ({ st with s := s' }, "ok wal=" ++ walName wal ++ " tables=" ++ joinC (sortStr (uris x.current)))
  | ["jobdrop", k] =>
    match Files.step st.s (.jobDrop (natOr k)) with
    | none => (st, "disabled")
    | some s' => ({ st with s := s' }, "ok")
  | ["jobabandon", id] =>
    -- the job gives up a checkpoint (never completed, or rolled back past): the job's decision, like jobdrop
    match Files.step st.s (.jobAbandon (natOr id)) with
    | none => (st, "disabled")
    | some s' => ({ st with s := s' }, "ok")
  | ["retain", i, ids] =>
    let i := natOr i
    if !aliveAt st i then (st, "not-alive") else
    let ids := (parseList ids).map natOr
    match st.s.insts[i]? with
    | none => (st, "not-alive")
    | some x =>
      if (droppedOf x.ckpts ids).any (fun c => st.s.retained.any (fun h => h.id == c.id)) then (st, "job-still-retains") else
      if keptOf x.ckpts ids == [] then (st, "panic") else
      match Files.step st.s (.retain i ids) with
      | none => (st, "disabled")
      | some s' =>
        let goneF := st.s.files.filter (fun f => !s'.files.contains f)
        let need := needed st.s
        let gone := goneF.map filePath
        let bad := (goneF.filter (fun f => need.contains f)).map filePath
        let model := "ok deleted=" ++ joinC (sortStr gone)
        let spec := "ok deleted=" ++ joinC (sortStr (gone.filter (fun p => !bad.contains p)))
        ({ st with s := s' }, withSpec model spec "")
  | "snap" :: i :: rest =>
    -- a reader's level list, or (`snap i scan`) a held scan iterator: both pin the tables of the level list
    let i := natOr i
    let isScan := !rest.isEmpty
    let cur := match st.s.insts[i]? with
      | some x => uris x.current
      | none => []
    if isScan && aliveAt st i && cur.any (fun u => !st.s.files.contains (.sst u)) then
      (st, refused st ((cur.map File.sst).filter (fun f => !st.s.files.contains f))) else
    match Files.step st.s (.snap i) with
    | none => (st, "not-alive")
    | some s' =>
      let pad := st.scans ++ List.replicate (i + 1 - st.scans.length) []
      ({ st with s := s', scans := pad.set i (isScan :: pad.getD i []) }, "ok")
  | ["unsnap", i, k] =>
    let pinned := match st.s.insts[natOr i]? with
      | some x => uris (x.snaps.getD (natOr k) [])
      | none => []
    let isScan := (st.scans.getD (natOr i) []).getD (natOr k) false
    match Files.step st.s (.unsnap (natOr i) (natOr k)) with
    | none => (st, "not-alive")
    | some s' =>
      let isStuck := isScan && pinned.any (fun u => !st.s.files.contains (.sst u))
      ({ st with s := s', scans := st.scans.set (natOr i) ((st.scans.getD (natOr i) []).eraseIdx (natOr k)),
                 stuck := if isStuck then (natOr i, pinned) :: st.stuck else st.stuck },
        if isStuck then refused st ((pinned.map File.sst).filter (fun f => !st.s.files.contains f)) else "ok")
  | ["crash", i] =>
    match Files.step st.s (.crash (natOr i)) with
    | none => (st, "not-alive")
    | some s' => ({ st with s := s', ask := dropAsk st (natOr i) }, "ok")
  | ["release", i] =>
    match Files.step st.s (.release (natOr i)) with
    | none => (st, "not-alive")
    | some s' => ({ st with s := s', ask := dropAsk st (natOr i), stuck := stuckScans st (natOr i) ++ st.stuck }, "ok")
  | ["gate", i] => (st, if aliveAt st (natOr i) then "ok" else "not-alive")
  | "writehold" :: i :: _ =>
    -- the instance writes on while one of its compactions is held; it is dropped right afterwards, and what it
    -- flushed since its last checkpoint is not tracked: leftovers in its directory that nobody references
    if !aliveAt st (natOr i) then (st, "not-alive") else (st, joinWith " " hint)
  | "writeflush" :: i :: _ =>
    let i := natOr i
    if !aliveAt st i then (st, "not-alive") else
    match hint with
    | ["ok", evs] =>
      let events := if evs == "-" then [] else evs.splitOn ";"
      let r := events.foldl (fun (acc : Option State × String) ev =>
        match acc.1 with
        | none => acc
        | some s => match applyEvent s i ev with
          | some s' => (some s', acc.2)
          | none => (none, ev)) (some st.s, "")
      match r.1 with
      | some s' => ({ st with s := s' }, "ok " ++ evs)
      | none => (st, "disabled " ++ r.2)
    | _ => (st, joinWith " " hint)
  | ["ungate"] =>
    -- D63: the held compaction of the dropped instance saves its output files now, under the names its own
    -- numbering reserved
    match hint with
    | ["late", i, tbls] =>
      let i := natOr i
      let need := needed st.s
      let r := ((parseList tbls).filterMap parseTbl).foldl (fun (acc : State × List (String × String)) t =>
        -- the file that has this name now (possibly itself the result of a late write)
        let cur := (acc.1.files.filterMap fun f => match f with
          | .sst p => if diskName p == t.uri then some p else none
          | .wal _ => none).headD t.uri
        let t' : Tbl := { t with uri := cur }
        match Files.step acc.1 (.lateWrite i t') with
        | some s' =>
          -- D63's situation: a running instance of the same directory lists the overwritten table
          let dirI := (acc.1.insts[i]?).map (·.dir)
          let hit := acc.1.insts.any fun y => y.life = .alive && some y.dir == dirI && (uris y.current).contains cur
          (s', if need.contains (.sst cur) then acc.2 ++ [(diskName cur, if hit then "D63" else "")] else acc.2)
        | none => acc) (st.s, [])
      ({ st with s := r.1, lostKf := st.lostKf ++ r.2 }, joinWith " " hint)
    | _ => (st, joinWith " " hint)
  | ["redeployfail", i] =>
    match Files.step st.s (.redeployFailed (natOr i)) with
    | none => (st, "not-alive")
    | some s' => ({ st with s := s' }, "failed")
  | ["mode", i, m] =>
    let i := natOr i
    if i < st.modes.length then ({ st with modes := st.modes.set i m }, "ok") else (st, "bad-op")
  | ["gc"] =>
    let need := needed st.s
    let acc := (List.range st.s.insts.length).foldl (fun a i => gcInst st need a i) { s := st.s }
    let gone := ((st.s.files.filter (fun f => !acc.s.files.contains f)).map filePath)
    let badUris := acc.bad.map (·.1)
    let model := "ok cleanups=" ++ joinC (sortStr acc.lines) ++ " deleted=" ++ joinC (sortStr gone)
    let specLines := acc.lines.map fun l =>
      match l.splitOn ":" with
      | [i, u, k, d] => if badUris.contains u && d == "del" then i ++ ":" ++ u ++ ":" ++ k ++ ":keep" else l
      | _ => l
    let spec := "ok cleanups=" ++ joinC (sortStr specLines) ++ " deleted=" ++ joinC (sortStr (gone.filter (fun p => !badUris.contains p)))
    let kf := pickKf acc.bad
    ({ st with s := acc.s, kf := if acc.bad.isEmpty then st.kf else kf,
               lostKf := st.lostKf ++ acc.bad.filter (fun b => b.2 != "") }, withSpec model spec kf)
  | ["asksplit", i, sel] =>
    let i := natOr i
    if !aliveAt st i then (st, "not-alive") else
    if st.ask.isSome then (st, "ask-pending") else
    match st.s.insts[i]? with
    | none => (st, "not-alive")
    | some x =>
      let liveL := sortStr (uris x.current)
      -- which table is asked about is read from the implementation and checked against the selector
      let u := match hint with
        | [_, u] => u
        | [_, u, _] => u
        | _ => ""
      let okSel := match sel with
        | "new" => liveL.getLast? == some u
        | "old" => liveL.head? == some u
        | _ => st.s.used.contains u && !liveL.contains u
      if hint == ["none"] then
        (st, if (sel == "new" || sel == "old") && !liveL.isEmpty then "some" else "none")
      else if !okSel then (st, "bad-selection " ++ u)
      else if needsFirst x u then (st, "done " ++ u ++ " yes")
      -- whether the call can be held between its reads is mechanism (the hook point may be compiled out by a
      -- rewrite of NeedsTable as one expression): an answer given at once is the atomic answer
      else if hint.head? == some "done" then (st, "done " ++ u ++ (if needsTable x u then " yes" else " no"))
      else ({ st with ask := some (i, u) }, "parked " ++ u)
  | ["askresume"] =>
    match st.ask with
    | none => (st, "no-ask")
    | some (i, u) =>
      match st.s.insts[i]? with
      | none => ({ st with ask := none }, "no")
      | some x =>
        let yn := fun (b : Bool) => if b then "yes" else "no"
        -- the first read said no; the answer is the second read, and it must be true of the instance now
        ({ st with ask := none }, withSpec (yn (needsSecond x u)) (yn (needsTable x u)) "")
  | ["files"] => (st, "ok " ++ joinC (sortStr (st.s.files.map filePath)))
  | ["missing"] =>
    let m := (missing st.s).map filePath
    -- a retained checkpoint whose entry is no longer in the document of its writer's directory: a later instance
    -- of the same directory saved its own list, which holds only the checkpoint it restored from (D50)
    let dirOf := fun (k : Nat) => match st.s.insts[k]? with
      | some y => y.dir
      | none => k
    let lostDocs := st.s.retained.filterMap fun h =>
      match st.s.docs.find? (fun k => dirOf k == dirOf h.writer) with
      | some j => match st.s.insts[j]? with
        | some y => if y.ckpts.any (fun c => c.id == h.id) then none
                    else some ("doc:i" ++ toString h.writer ++ ":" ++ toString h.id)
        | none => none
      | none => none
    let all := (m ++ lostDocs).eraseDups
    if all.isEmpty then (st, "ok")
    else
      -- a missing file carries a finding's id only if that very file was lost in the finding's situation
      let ids := m.map fun p => match st.lostKf.find? (fun b => b.1 == p) with
        | some b => b.2
        | none => ""
      let kf := if m.isEmpty then "D50"
        else if ids.any (· == "") then ""
        else if ids.any (· == "D25") then "D25" else ids.headD ""
      (st, withSpec ("missing " ++ joinWith "," (sortStr all)) "ok" kf)
  | _ => (st, "bad-op")

def handle (lines : Array String) (i : Nat) (out : Array String) : Nat × Array String :=
  runLines step {} lines i out

end Driver.C09
