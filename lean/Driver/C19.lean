import Driver.Util
import RxnModel.Model.Search
import RxnModel.Model.Heap
import RxnModel.Model.Merge
import RxnModel.Model.ZipTree
import RxnModel.Model.Containers
/-! Driver section for C19: in-memory ordered structures (one state per case, ops prefixed by structure). -/
namespace Driver.C19
open Rxn Driver

structure St where
  zip : ZipTree.Tree := .nil
  heap : HeapItems.H := {}
  ppq : PPQ.Q := PPQ.new #[]
  cache : SortedCache.Cache := {}
  sets : Array OSet.S := Array.replicate 4 {}
  smap : SortedMap.M := {}

def csv (s : String) : List String := if s == "_" then [] else s.splitOn ","
def nats (s : String) : List Nat := (csv s).map natOr

def showKV (l : List (Bytes × Bytes)) : String :=
  if l.isEmpty then "list" else "list " ++ joinWith "," (l.map fun e => toHex e.1 ++ "=" ++ toHex e.2)
def showNats (l : List Nat) : String :=
  if l.isEmpty then "list" else "list " ++ joinWith "," (l.map toString)
def showOptNat : Option Nat → String
  | none => "none"
  | some n => s!"some {n}"
/-- property-level view of a popped item: its priority (which of several equal ones is the heap's tie-breaking,
observed separately through `h.dump` / `q.idx`) -/
def showHItem : Option HeapItems.Item → String
  | none => "none"
  | some x => s!"{x.prio}"
def showQItem : Option PPQ.Item → String
  | none => "none"
  | some x => s!"{x.prio}"

def parseEntry (s : String) : Merge.Entry :=
  match s.splitOn ":" with
  | [k, q, v] => ⟨hexOr k, natOr q, hexOr v⟩
  | _ => ⟨[], 0, []⟩
def parseRuns (s : String) : List (List Merge.Entry) :=
  if s == "!" then [] else (s.splitOn "|").map fun r => (csv r).map parseEntry
def showEntries : Option (List Merge.Entry) → String
  | none => "panic"
  | some l => if l.isEmpty then "list" else
      "list " ++ joinWith "," (l.map fun e => toHex e.key ++ ":" ++ toString e.seq ++ ":" ++ toHex e.val)

/-- sort every block of adjacent equal keys by (seq, val): order among equal keys is not part of the property -/
def canon (l : List Merge.Entry) : List Merge.Entry :=
  ((l.splitBy fun a b => a.key == b.key).map fun g =>
    g.mergeSort fun a b => a.seq < b.seq || (a.seq == b.seq && Bytes.cmp a.val b.val != .gt)).flatten

def entryCmp (a b : Merge.Entry) : Int := Gen.c19AscendingEntries Merge.Entry.key a b
def pickOf (mode : String) : Merge.Entry → Merge.Entry → Merge.Entry :=
  match mode with
  | "newest" => Gen.c19KeepNewest Merge.Entry.seq
  | "first" => fun a _ => a
  | "second" => fun _ b => b
  | _ => fun a _ => { a with seq := a.seq + 1000000 }   -- "bad": a value that is neither argument

def intCmp (t : Int) (x : Int) : Int := if x < t then -1 else if x > t then 1 else 0

def getSet (st : St) (r : String) : OSet.S := st.sets.getD (natOr r) {}
def putSet (st : St) (r : String) (s : OSet.S) : St := { st with sets := st.sets.setIfInBounds (natOr r) s }

def step (st : St) : List String → St × String
  -- zip tree
  | ["z.put", k, v, rank] =>
    let r := ZipTree.put (hexOr k) (hexOr v) (natOr rank) st.zip
    ({ st with zip := r.2 }, optHex r.1)
  | ["z.get", k] => (st, optHex (ZipTree.get (hexOr k) st.zip))
  | ["z.asc", p] => (st, showKV (ZipTree.ascendPrefix st.zip (hexOr p)))
  | ["z.ascn", p, n] => (st, showKV (ZipTree.ascendPrefixN st.zip (hexOr p) (natOr n)))
  | ["z.ascins", p, k, v, rank] =>
    -- structural mutation during a scan (documented as outside the contract; the behaviour is pinned to the model)
    let r := ZipTree.ascendInsert (hexOr p) (hexOr k) (hexOr v) (natOr rank) st.zip
    ({ st with zip := r.2 }, showKV r.1)
  | ["z.reput", k, v] =>
    let r := ZipTree.reput (hexOr k) (hexOr v) st.zip
    ({ st with zip := r.2 }, optHex r.1)
  | ["z.ascput", p, v, _] =>
    let r := ZipTree.ascendPut (hexOr p) (hexOr v) st.zip
    ({ st with zip := r.2 }, showKV r.1)
  | ["z.inv"] =>
    (st, (if ZipTree.keysAscending (ZipTree.toList st.zip) && ZipTree.ranksOk st.zip then
      s!"ok {ZipTree.size st.zip} " else "bad ") ++ ZipTree.showTree st.zip)
  -- heap
  | ["h.push", p, id] =>
    let h := HeapItems.step st.heap (.push (natOr p) (natOr id))
    ({ st with heap := h }, s!"size {h.data.size}")
  | ["h.pop"] =>
    (match HeapItems.out st.heap .pop with
     | none => ({ st with heap := HeapItems.step st.heap .pop }, "none")
     | some x => ({ st with heap := HeapItems.step st.heap .pop }, showHItem (some x)))
  | ["h.peek"] => (st, showHItem (Heap.peek st.heap.data))
  | ["h.size"] => (st, toString st.heap.data.size)
  | ["h.fix", id, p] =>
    let h := HeapItems.step st.heap (.fix (natOr id) (natOr p))
    ({ st with heap := h }, showOptNat (HeapItems.indexOf h (natOr id)))
  | ["h.idx", id] => (st, showOptNat (HeapItems.indexOf st.heap (natOr id)))
  | ["h.dump"] => (st, showNats (st.heap.data.toList.map (·.id)))
  -- partitioned priority queue
  | ["q.new", n] => ({ st with ppq := PPQ.new (Array.replicate (natOr n) []) }, "ok")
  | ["q.prod", n, _] =>
    -- same queue over the production partition type (its cache size is the environment's business)
    ({ st with ppq := PPQ.new (Array.replicate (natOr n) []) }, "ok")
  | ["q.newp", n, items] =>
    -- constructor over partitions that already hold items (as after a restore)
    let parts := (csv items).foldl (fun (ps : Array (List PPQ.Item)) s =>
      match (s.splitOn ":").map natOr with
      | [p, part, id] => ps.setIfInBounds part (PPQ.insertSorted ⟨p, part, id⟩ (ps.getD part []))
      | _ => ps) (Array.replicate (natOr n) [])
    ({ st with ppq := PPQ.new parts }, "ok")
  | ["q.push", p, part, id] =>
    -- `p.partitions[getPartitionIndex(item)]` panics (before any change) when the index addresses no partition
    if natOr part < st.ppq.parts.size then ({ st with ppq := PPQ.step st.ppq (.push ⟨natOr p, natOr part, natOr id⟩) }, "ok")
    else (st, "panic")
  | ["q.del", p, part, id] =>
    if natOr part < st.ppq.parts.size then ({ st with ppq := PPQ.step st.ppq (.delete ⟨natOr p, natOr part, natOr id⟩) }, "ok")
    else (st, "panic")
  | ["q.pop"] => let r := PPQ.pop st.ppq; ({ st with ppq := r.2 }, showQItem r.1)
  | ["q.peek"] => (st, showQItem (PPQ.peek st.ppq))
  | ["q.empty"] => (st, toString (PPQ.isEmpty st.ppq))
  | ["q.idx"] =>
    (st, if st.ppq.parts.size = 0 then "list" else
      "list " ++ joinWith "," ((List.range st.ppq.parts.size).map fun p => toString (st.ppq.idx p)))
  | ["q.dump"] =>
    (st, "parts " ++ joinWith "|" (st.ppq.parts.toList.map fun l => joinWith "," (l.map fun x => toString x.id)))
  -- sorted cache
  | ["c.new", m] => ({ st with cache := { maxSize := natOr m } }, "ok")
  | ["c.push", v] => ({ st with cache := SortedCache.push st.cache (hexOr v) }, "ok")
  | ["c.pop"] => let r := SortedCache.pop st.cache; ({ st with cache := r.2 }, optHex r.1)
  | ["c.poplast"] => let r := SortedCache.popLast st.cache; ({ st with cache := r.2 }, optHex r.1)
  | ["c.peek"] => (st, optHex (SortedCache.peek st.cache))
  | ["c.peeklast"] => (st, optHex (SortedCache.peekLast st.cache))
  | ["c.del", k] => ({ st with cache := SortedCache.delete st.cache (hexOr k) }, "ok")
  | ["c.empty"] => (st, toString (SortedCache.isEmpty st.cache))
  | ["c.full"] => (st, toString (SortedCache.isFull st.cache))
  | ["c.bytes"] => (st, toString st.cache.byteSize)
  | ["c.sum"] => (st, "ok")      -- spec: C19.sortedCache_accounting (byteSize = sum of the cached lengths)
  -- insertion-ordered set
  | ["s.add", r, vs] => (putSet st r (OSet.add (getSet st r) (nats vs)), "ok")
  | ["s.added", r, d, vs] => (putSet st d (OSet.add (getSet st r) (nats vs)), "ok")
  | ["s.without", r, d, vs] => (putSet st d (OSet.without (getSet st r) (nats vs)), "ok")
  | ["s.diff", a, b, d] => (putSet st d (OSet.diff (getSet st a) (getSet st b)), "ok")
  | ["s.nil"] => (st, "ok")          -- spec: a nil set has size 0 and iterates nothing
  | ["s.of", d, vs] => (putSet st d (OSet.add {} (nats vs)), "ok")
  | ["s.str", r] => (st, "[" ++ joinWith " " ((getSet st r).l.map toString) ++ "]")
  | ["s.isolated", _, _] => (st, "ok")   -- spec: Added / Without / Diff return sets that share nothing with their source
  | ["s.has", r, v] => (st, toString (OSet.has (getSet st r) (natOr v)))
  | ["s.size", r] => (st, toString (OSet.size (getSet st r)))
  | ["s.slice", r] => (st, showNats (getSet st r).l)
  -- sorted map
  | ["m.set", k, v] => let r := SortedMap.set st.smap (natOr k) (natOr v); ({ st with smap := r.2 }, toString r.1)
  | ["m.get", k] => (st, showOptNat (SortedMap.get st.smap (natOr k)))
  | ["m.has", k] => (st, toString (SortedMap.has st.smap (natOr k)))
  | ["m.keys"] => let r := SortedMap.keys st.smap; ({ st with smap := r.2 }, showNats r.1)
  | ["m.values"] => let r := SortedMap.values st.smap; ({ st with smap := r.2 }, showNats r.1)
  | ["m.all"] =>
    let r := SortedMap.all st.smap
    ({ st with smap := r.2 }, if r.1.isEmpty then "list" else "list " ++ joinWith "," (r.1.map fun e => s!"{e.1}={e.2}"))
  | ["m.alln", n] =>
    -- `All()` sorts before it returns the iterator; a consumer that stops early sees a prefix
    let r := SortedMap.all st.smap
    let l := r.1.take (natOr n)
    ({ st with smap := r.2 }, if l.isEmpty then "list" else "list " ++ joinWith "," (l.map fun e => s!"{e.1}={e.2}"))
  | ["m.valsiso"] => (st, "ok")     -- spec: `Values()` is a fresh slice (the model's results are values)
  | ["m.del", k] => let r := SortedMap.delete st.smap (natOr k); ({ st with smap := r.2 }, toString r.1)
  | ["m.size"] => (st, toString (SortedMap.size st.smap))
  -- merges
  | ["mg.kv", runs] => (st, showEntries (Merge.merge entryCmp (pickOf "newest") (parseRuns runs)))
  | ["mg.kvn", n, runs] => (st, showEntries (Merge.mergeN entryCmp (pickOf "newest") (parseRuns runs) (natOr n)))
  | ["mg.genn", mode, n, runs] => (st, showEntries (Merge.mergeN entryCmp (pickOf mode) (parseRuns runs) (natOr n)))
  | ["ms.mergen", n, runs] =>
    let l := Merge.mergeSortedN entryCmp (parseRuns runs) (natOr n)
    (st, if l.isEmpty then "keys" else "keys " ++ joinWith "," (l.map fun e => toHex e.key))
  | ["mg.pickthm", _, _] => (st, "ok")      -- spec: C19.merge_any_pick
  | ["mg.thm", _] => (st, "ok")              -- spec: C19.mergeEntries_newest_wins
  | ["su.tblthm", _, _] => (st, "ok")        -- spec: C19.searchTables_correct
  | ["mg.gen", mode, runs] => (st, showEntries (Merge.merge entryCmp (pickOf mode) (parseRuns runs)))
  | ["ms.merge", runs] => (st, showEntries (some (canon (Merge.mergeSorted entryCmp (parseRuns runs)))))
  | ["ms.raw", runs] => (st, showEntries (some (Merge.mergeSorted entryCmp (parseRuns runs))))
  -- unique binary search
  | ["su.bytes", t, xs] => (st, showOptNat (Search.searchBytes ((csv xs).map hexOr).toArray (hexOr t)))
  | ["su.int", t, xs] =>
    (st, showOptNat (Search.searchUnique ((nats xs).map Int.ofNat).toArray (intCmp (Int.ofNat (natOr t)))))
  | ["su.tbl", key, ts] =>
    let tbls := (csv ts).map fun s => match s.splitOn ":" with
      | [a, b] => (hexOr a, hexOr b)
      | _ => ([], [])
    (st, showOptNat (Search.searchTables tbls.toArray (hexOr key)))
  | _ => (st, "bad-op")

def handle (lines : Array String) (i : Nat) (out : Array String) : Nat × Array String :=
  runLines step {} lines i out

end Driver.C19
