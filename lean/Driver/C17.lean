import Driver.Util
import RxnModel.Model.Wal
import RxnModel.Model.SstDoc
/-!
Driver section for C17. Stateful per case:
  SST:  `tbl <ents>` | `get k` | `rget k` | `scan p` | `rscan p` | `bloom k` | `run <target> <ents>` | `runok` | `sel i`
        | `info` | `runinfo` | `rdoc` | `corrupt ver|trunc n` | `cget k` | `cscan p` | `saturate` | `sget k` | `docjson uri` | `rget2 k`
  WAL:  `wnew id max` | `wput k v seq` | `wdel k seq` | `wcut` | `wtrunc seq` | `wrot` | `wstate` | `wread after`
        | `wreadhex <hex> after` | `wfile` | `wrotl` | `wsavel`
Entries: comma separated `key/seq/del/val` (hex, `-` = empty); `-` alone = no entries.
-/
namespace Driver.C17
open Rxn Rxn.Sst Driver

structure St where
  ents : List Entry := []              -- entries of the selected table
  data : Bytes := []                   -- its file
  doc : Doc := docOf []
  fresh : Option Meta := none          -- metadata of the freshly written table
  rdocv : Option Doc := none           -- the document after its JSON round trip (`parseDoc ∘ jsonDoc`)
  reopened : Option Meta := none       -- metadata loaded from the file via that document
  sdata : Bytes := []                  -- the file with a saturated bloom block (every key "might be" there)
  smeta : Option Meta := none
  cdata : Bytes := []                  -- a damaged copy of the file (outside the property: robustness only)
  cmeta : Option Meta := none
  chunks : List (List Entry) := []
  w : Wal.Writer := Wal.Writer.new 0 0
  saved : Bytes := []                  -- last saved WAL file
  pending : Bytes := []                -- file of a rotated writer whose `Save` is still outstanding

def parseEntry (s : String) : Entry :=
  match s.splitOn "/" with
  | [k, q, d, v] => ⟨hexOr k, natOr q, d == "1", hexOr v⟩
  | _ => ⟨[], 0, false, []⟩

def parseEntries (s : String) : List Entry :=
  if s == "-" then [] else (s.splitOn ",").map parseEntry

def showEntry (e : Entry) : String :=
  s!"{toHex e.key}/{e.seq}/{if e.del then 1 else 0}/{toHex e.val}"

def showEntries (es : List Entry) : String :=
  if es.isEmpty then "-" else joinWith "," (es.map showEntry)

def showGet : GetRes → String
  | .found e => if e.del then s!"del {e.seq}" else s!"val {e.seq} {toHex e.val}"
  | .notFound => "notfound"
  | .err => "err"
  | .panic => "panic"

def showDoc (d : Doc) (data : Bytes) : String :=
  s!"size={d.size} esize={d.entriesSize} start={toHex d.startKey} end={toHex d.endKey} sseq={d.startSeq} eseq={d.endSeq} fnv={(fnv64 data).toNat}"

def selectTable (st : St) (es : List Entry) : St :=
  let data := encTable es
  let doc := docOf es
  -- re-opening goes through the JSON form of the document, as a checkpoint does
  let rd := (parseDoc (jsonDoc doc "memory:///000000.sst".toList)).map (·.1)
  { st with ents := es, data := data, doc := doc, fresh := some (metaOf es), rdocv := rd,
            reopened := rd.bind (fun d => openDoc d data) }

def showRead (e : Wal.Read) : String :=
  s!"{toHex e.key}/{e.seq}/{if e.del then 1 else 0}/{toHex e.val}"

def showReads (es : List Wal.Read) : String :=
  if es.isEmpty then "-" else joinWith "," (es.map showRead)

def showReadRes : Wal.ReadRes → String
  | .ok es => "ok " ++ showReads es
  | .err es => "err " ++ showReads es
  | .panic => "panic"

def showWState (w : Wal.Writer) : String :=
  let segs := w.sealed.map fun s => s!"{s.latest}:{(Wal.encRecs s.recs).length}"
  s!"id={w.id} sealed=[{joinWith "," segs}] active={(Wal.encRecs w.active).length} latest={w.latest}"

def withMeta (m : Option Meta) (f : Meta → String) : String :=
  match m with
  | some m => f m
  | none => "loaderr"

def step (st : St) : List String → St × String
  | ["tbl", es] => (selectTable st (parseEntries es), "ok")
  | ["info"] => (st, withMeta st.fresh fun _ => showDoc st.doc st.data)          -- M-obs: document and checksum of the whole file
  | ["get", k] => (st, withMeta st.fresh fun m => showGet (get m st.doc.entriesSize st.data (hexOr k)))
  | ["rget", k] => (st, withMeta st.reopened fun m =>
      showGet (get m ((st.rdocv.map (·.entriesSize)).getD 0) st.data (hexOr k)))
  | ["rget2", k] => (st, withMeta st.reopened fun m =>   -- two overlapping first reads answer like one
      showGet (get m ((st.rdocv.map (·.entriesSize)).getD 0) st.data (hexOr k)))
  | ["docjson", uri] => (st, withMeta st.fresh fun _ => String.ofList (jsonDoc st.doc uri.toList))
  | ["scan", p] => (st, withMeta st.fresh fun _ => match scanPrefix st.doc.entriesSize st.data (hexOr p) with
      | some es => showEntries es | none => "err")
  | ["rscan", p] => (st, withMeta st.reopened fun _ =>
      match scanPrefix ((st.rdocv.map (·.entriesSize)).getD 0) st.data (hexOr p) with
      | some es => showEntries es | none => "err")
  | ["rdoc"] => (st, withMeta st.reopened fun _ => match st.rdocv with
      | some d => s!"{toHex d.startKey} {toHex d.endKey} {d.size} {d.entriesSize} {d.startSeq} {d.endSeq}"
      | none => "loaderr")
  | ["saturate"] =>
    -- the same file with every bit of the bloom block set: absent keys reach the index search and the scan
    match st.fresh with
    | none => (st, "loaderr")
    | some m =>
      let sat : Meta := ⟨{ m.bloom with words := m.bloom.words.map (fun _ => 2 ^ wordBits - 1) }, m.offsets⟩
      let sdata := encEntries st.ents ++ encFooter sat st.doc.entriesSize
      ({ st with sdata := sdata, smeta := openDoc st.doc sdata }, s!"size={sdata.length} fnv={(fnv64 sdata).toNat}")
  | ["sget", k] => (st, withMeta st.smeta fun m => showGet (get m st.doc.entriesSize st.sdata (hexOr k)))
  | ["corrupt", kind, n] =>
    let cdata :=
      if kind == "ver" then st.data.take (st.data.length - u32W) ++ leBytes u32W (natOr n)
      else if kind == "idx2" then
        -- one index offset at the end of the entries block (readKey fails with EOF) and one beyond it (panic): whether
        -- `Get` errs or panics depends on which the binary search probes, and it keeps probing after an error
        match st.fresh with
        | some m =>
          if m.offsets.isEmpty then st.data
          else
            let cnt := m.offsets.length
            let j := natOr n % cnt
            let j2 := (j + 1 + natOr n % 3) % cnt
            let offs := (m.offsets.set j st.doc.entriesSize).set j2 (st.doc.entriesSize + 1 + natOr n)
            encEntries st.ents ++ encFooter ⟨m.bloom, offs⟩ st.doc.entriesSize
        | none => st.data
      else if kind == "idx" then
        -- one index offset pointing beyond the entries block (the writer never produces this)
        match st.fresh with
        | some m =>
          if m.offsets.isEmpty then st.data
          else encEntries st.ents ++ encFooter ⟨m.bloom, m.offsets.set (natOr n % m.offsets.length) (st.doc.entriesSize + 1 + natOr n)⟩ st.doc.entriesSize
        | none => st.data
      else st.data.take (st.data.length - natOr n)
    ({ st with cdata := cdata, cmeta := openDoc st.doc cdata }, "ok")
  | ["cget", k] => (st, withMeta st.cmeta fun m => showGet (get m st.doc.entriesSize st.cdata (hexOr k)))
  | ["cscan", p] => (st, withMeta st.cmeta fun _ => match scanPrefix st.doc.entriesSize st.cdata (hexOr p) with
      | some es => showEntries es | none => "err")
  | ["bloom", k] => (st, withMeta st.reopened fun m => toString (m.bloom.mightHave (hexOr k)))
  | ["run", target, es] =>
    ({ st with chunks := writeRun (natOr target) (parseEntries es) }, "ok")
  | ["runinfo"] =>                                     -- M-obs: exact chunking and files
    let descr := st.chunks.map fun c => s!"{c.length}:{toHex (docOf c).startKey}:{toHex (docOf c).endKey}:{(docOf c).size}:{(fnv64 (encTable c)).toNat}"
    (st, joinWith " " (s!"n={st.chunks.length}" :: descr))
  | ["runok"] => (st, "ok")     -- spec: C17.writeRun_concat / writeRun_ranges / writeRun_nonempty_tables / writeRun_sizes
  | ["sel", i] => (selectTable st (st.chunks.getD (natOr i) []), "ok")
  | ["wnew", id, mx] => ({ st with w := Wal.Writer.new (natOr id) (natOr mx), saved := [] }, "ok")
  | ["wput", k, v, q] =>
    let w := st.w.put (hexOr k) (hexOr v) (natOr q)
    ({ st with w := w }, s!"full={w.full}")
  | ["wdel", k, q] =>
    let w := st.w.delete (hexOr k) (natOr q)
    ({ st with w := w }, s!"full={w.full}")
  | ["wcut"] => ({ st with w := st.w.cut }, "ok")
  | ["wtrunc", q] => ({ st with w := st.w.truncate (natOr q) }, "ok")
  | ["wrot"] =>
    let saved := st.w.save
    ({ st with w := st.w.rotate, saved := saved }, "ok")
  | ["wrotl"] => ({ st with w := st.w.rotate, pending := st.w.save }, "ok")   -- rotate now, save later
  | ["wsavel"] => ({ st with saved := st.pending }, "ok")
  | ["wfile"] => (st, toHex st.saved)                  -- M-obs: bytes of the last saved file
  | ["wstate"] => (st, showWState st.w)
  | ["wread", a] => (st, showReadRes (Wal.readAll st.saved (natOr a)))
  | ["wreadhex", h, a] => (st, showReadRes (Wal.readAll (hexOr h) (natOr a)))
  | _ => (st, "bad-op")

def handle (lines : Array String) (i : Nat) (out : Array String) : Nat × Array String :=
  runLines step {} lines i out

end Driver.C17
