import Driver.Util
import RxnModel.Model.Pipeline
import RxnModel.Model.KeySpace
/-!
Driver section for C01 (trace validation of the mini-cluster against `Rxn.Pipeline.step`).
Header: `M C01 <workers> <keyGroups> <splits> <batch> <readBatch> <keys> <rot>`.
Every input line is `<op …> ## <events the implementation recorded during the op> [result token]`.
Each event token is replayed as one action of `Rxn.Pipeline.step` (the function the theorems of `Props/C01.lean`
are about); the action must be enabled and the property-level observations must agree:
  `r:sp:i:k`            → `read sp`            (index = model cursor, key = input)
  `d:o:sp:i:k|st`       → `deliver (assign sp) o`  (head of the channel is exactly this record; `st` = model key state)
  `t:id`                → `start`              (id = model's next checkpoint id)
  `b:r:id:sp=c,…`       → `barrier r`          (cursors = model cursors of the runner's splits)
  `c:o:id`              → `opCkpt o`           (every channel into `o` has the barrier at its head)
  `p:id`                → `publish`            (a completed checkpoint with this id is being written)
  `k:w`                 → `kill w`
  `R:n:ck:c0.c1…:j|w`   → `restart n job`      (ck = newest published id, cursors = restored cursors)
The answer echoes the line when everything agrees; the first disagreement is answered with what the model says.
The handler is the reference handler (state = list of applied `(split,index)`), routing is the C05 model
(`KeySpace.rangeIndex` over murmur3 of the key bytes), split assignment is the scripted splitter's `sp % n`.
-/
namespace Driver.C01
open Rxn Driver Rxn.Pipeline

abbrev Sg := List (Nat × Nat)

structure DSt where
  cfg : Cfg Sg
  s : State Sg
  nsplits : Nat
  nkeys : Nat
  fed : Array Nat          -- records made available so far, per split
  ok : Bool := true
  live : Bool := false     -- a deployment reused a live node process (finding D39): deviations are attributed to it
  echo : Bool := false     -- after the first such deviation the model state no longer describes the cluster
  op : List String := []   -- the schedule op whose events are being replayed
  paused : Bool := false   -- the schedule stopped the readers
  ckReq : Bool := false    -- at the start of a `ckpt` op: deployed, nothing pending, nobody dead ⇒ the round must complete
  tSeen : Bool := false    -- a checkpoint was started during the current op
  prePend : Bool := false  -- a checkpoint was pending when the current op began
  -- while `echo`: what is still followed so that the model can re-synchronise at the next deployment on fresh processes
  maxT : Nat := 0              -- largest checkpoint id started while the model was not following
  untrusted : List Nat := []   -- checkpoints completed (or possibly completed) while not following: contents unknown
  kfCount : Nat := 0           -- tagged deviations so far in this case
  echoJob : Bool := false      -- the job process was replaced while the model was not following
  suspect : Bool := false      -- the current deployment restored a checkpoint a live redeploy may have damaged on disk (D50)
  resyncs : Nat := 0

def keyBytes (k : Nat) : Bytes := (0x6b : UInt8) :: (toString k).toList.map (fun c => UInt8.ofNat c.toNat)

def showLog (l : Sg) : String :=
  if l.isEmpty then "-" else joinWith "," (l.map fun p => s!"{p.1}.{p.2}")

/-- contents of the splits over the whole case (feeds and the final probe), so that `cfg.key` is a fixed function -/
partial def scanInput (lines : Array String) (i : Nat) (nkeys : Nat) (acc : Array (Array Nat)) : Array (Array Nat) :=
  if h : i < lines.size then
    let l := lines[i]
    if l.startsWith "M " then acc
    else
      match words l with
      | "feed" :: sp :: ks :: _ =>
        let sp := natOr sp
        let add := (ks.splitOn ",").map natOr
        scanInput lines (i + 1) nkeys (acc.modify sp fun a => a ++ add.toArray)
      | "probe" :: _ =>
        let acc := (List.range nkeys).foldl (fun (acc : Array (Array Nat)) k => acc.modify (k % acc.size) fun a => a.push k) acc
        scanInput lines (i + 1) nkeys acc
      | _ => scanInput lines (i + 1) nkeys acc
  else acc

def mkCfg (kgc nkeys : Nat) (input : Array (Array Nat)) : Cfg Sg :=
  let tbl : Array (Array Nat) := ((List.range 9).map fun n =>
    ((List.range (nkeys + 1)).map fun k => if n = 0 then 0 else KeySpace.rangeIndex kgc n (keyBytes k)).toArray).toArray
  { key := fun sp i => (input.getD sp #[]).getD i 0
    route := fun n k => (tbl.getD n #[]).getD k 0
    assign := fun n sp => if n = 0 then 0 else sp % n
    init := []
    h := fun s e => s ++ [(e.split, e.idx)] }

def quiescentB (d : DSt) : Bool :=
  (List.range d.nsplits).all (fun sp => d.s.cursor sp == d.fed.getD sp 0) &&
  (List.range d.s.n).all fun r => (List.range d.s.n).all fun o =>
    (d.s.queue r o).all fun it => match it with | .ev _ => false | .bar => true

/-- `no_loss_no_dup` evaluated on the (validated) model state -/
def exactlyOnceB (d : DSt) : Bool :=
  (List.range d.nsplits).all fun sp =>
    (List.range (d.s.cursor sp + 2)).all fun i =>
      let k := d.cfg.key sp i
      let owner := d.cfg.route d.s.n k
      let cnt := (d.s.log owner k).count (sp, i)
      let others := (List.range d.s.n).all fun o => (List.range (d.nkeys + 1)).all fun k' =>
        (o == owner && k' == k) || !(d.s.log o k').contains (sp, i)
      cnt == (if i < d.s.cursor sp then 1 else 0) && others

def act (d : DSt) (a : Act) : Option (DSt × List (Given Sg)) :=
  match step d.cfg d.s a with
  | some (s', g) => some ({ d with s := s' }, g)
  | none => none

def cutString (d : DSt) (r : Nat) : String :=
  let l := ((List.range d.nsplits).filter fun sp => d.cfg.assign d.s.n sp == r).map fun sp => s!"{sp}={d.s.cursor sp}"
  if l.isEmpty then "-" else joinWith "," l

/-- nothing the schedule did can keep the cluster from draining: deployed, no checkpoint pending (a parked
acknowledgement blocks its runner / operator), nobody dead, readers not paused -/
def mustDrain (d : DSt) : Bool :=
  0 < d.s.n && d.s.pending.isNone && d.s.dead.isEmpty && !d.paused

/-- answer to the bounded wait of `wait` / `probe`: `Q` iff the model is quiescent; a model that is not quiescent
although nothing can block it means records were read (or fed) and never handled: a stall / loss, not `NQ` -/
def waitAnswer (d : DSt) : String :=
  if quiescentB d then "Q" else if mustDrain d then "STALLED(records-fed-or-read-but-not-handled)" else "NQ"

/-- answer to the result token of a whole checkpoint round -/
def ckptAnswer (d : DSt) : String :=
  if 0 < d.s.n && (d.tSeen || d.prePend) && d.s.pending.isNone then "done"
  else if d.ckReq && d.s.dead.isEmpty then "CHECKPOINT-STALLED" else "incomplete"

/-- `rack` / `oack` / `pub` found nothing parked although the model has the corresponding step enabled -/
def ackExpected (d : DSt) : Bool :=
  match d.op.head? with
  | some "rack" => match d.s.pending with
    | some p => d.s.dead.isEmpty && (List.range d.s.n).any (fun r => !p.rAck.contains r)
    | none => false
  | some "oack" => match d.s.pending with
    | some p => d.s.dead.isEmpty && (List.range d.s.n).all (fun r => p.rAck.contains r)
        && (List.range d.s.n).any (fun o => !p.oAck.contains o)
    | none => false
  | some "pub" => !d.s.writing.isEmpty
  | some "restartpub" => !d.s.writing.isEmpty
  | _ => false

/-- A live redeploy reopens the surviving operators' databases in their directories from the restored checkpoint
`ck`: the checkpoints those processes took before (complete, published or not, `ck` included) can lose their entry in
the rewritten `checkpoints` document, and their WAL file names are used again (finding D50). Their contents on disk are no longer
the model's: the model must not re-synchronise on them. -/
def suspectsAtLive (d : DSt) (_ck : Option Nat) : List Nat :=
  -- the restored checkpoint itself is affected as well (witness: corpus/C01/d50-silent-state-loss-…: the checkpoint
  -- the live operator reopened from later restores with a key's state missing)
  (d.s.published ++ d.s.writing).map (·.id)

/-- replay one event token; answer = the token the model agrees with -/
def applyTok (d : DSt) (tok : String) : DSt × String :=
  let bad (why : String) : DSt × String := ({ d with ok := false }, s!"DISABLED({tok}:{why})")
  if tok.startsWith "z" then (d, tok) else
  match tok.splitOn "|" with
  | [hd, given] =>
    match hd.splitOn ":" with
    | ["d", o, sp, i, k] =>
      let o := natOr o; let sp := natOr sp; let i := natOr i; let k := natOr k
      let r := d.cfg.assign d.s.n sp
      match act d (.deliver r o) with
      | some (d', [g]) =>
        if g.e = ⟨k, sp, i⟩ then
          if showLog g.state = given then (d', tok) else (d', s!"{hd}|{showLog g.state}")
        else bad s!"head-is-{g.e.split}.{g.e.idx}"
      | _ => bad "channel-head-is-not-a-record"
    | _ => bad "unknown"
  | [t] =>
    match t.splitOn ":" with
    | ["r", sp, i, k] =>
      let sp := natOr sp
      if d.s.cursor sp ≠ natOr i then bad s!"cursor-is-{d.s.cursor sp}"
      else if d.cfg.key sp (natOr i) ≠ natOr k then bad "key"
      else match act d (.read sp) with
        | some (d', _) => (d', tok)
        | none => bad "not-deployed"
    | ["t", id] =>
      if d.s.nextId ≠ natOr id then bad s!"next-id-is-{d.s.nextId}"
      else match act d .start with
        | some (d', _) => ({ d' with tSeen := true }, tok)
        | none => bad "a-checkpoint-is-pending"
    | ["b", r, id, cs] =>
      let r := natOr r
      match d.s.pending with
      | some p =>
        if p.id ≠ natOr id then bad s!"pending-id-is-{p.id}"
        else match act d (.barrier r) with
          | some (d', _) =>
            let want := cutString d r
            if want = cs then (d', tok) else (d', s!"b:{r}:{id}:{want}")
          | none => bad "runner-already-acknowledged"
      | none => bad "no-pending-checkpoint"
    | ["c", o, id] =>
      match d.s.pending with
      | some p =>
        if p.id ≠ natOr id then bad s!"pending-id-is-{p.id}"
        else match act d (.opCkpt (natOr o)) with
          | some (d', _) => (d', tok)
          | none => bad "not-aligned"
      | none => bad "no-pending-checkpoint"
    | ["p", id] =>
      match d.s.writing.findIdx? (fun c => c.id == natOr id) with
      | some i =>
        match act d (.publish i) with
        | some (d', _) => (d', tok)
        | none => bad "publish"
      | none => bad "no-complete-checkpoint-with-this-id"
    | ["k", w] =>
      match act d (.kill (natOr w)) with
      | some (d', _) => (d', tok)
      | none => bad "kill"
    | ["R", n, _ck, _cs, j] =>
      let ck := match newest d.s.published with
        | some c => toString c.id
        | none => "none"
      match act d (.restart (natOr n) (j == "j")) with
      | some (d', _) =>
        let cs := joinWith "." ((List.range d.nsplits).map fun sp => toString (d'.s.cursor sp))
        -- every process of this deployment is new: no loop of an earlier deployment is left in it
        -- ... unless it restores a checkpoint whose files a live-redeployed operator has since reopened and rewritten
        let susp := match newest d.s.published with | some c => d.untrusted.contains c.id | none => false
        ({ d' with live := false, suspect := susp }, s!"R:{n}:{ck}:{cs}:{j}")
      | none => bad "restart"
    | ["L", n, _ck, _cs, j] =>
      let ck := match newest d.s.published with
        | some c => toString c.id
        | none => "none"
      match act d (.redeployLive (natOr n)) with
      | some (d', _) =>
        let cs := joinWith "." ((List.range d.nsplits).map fun sp => toString (d'.s.cursor sp))
        -- the model's `redeployLive` has no job flag (the region is excluded from the theorems anyway): when the job
        -- process was replaced too, its checkpoint counter restarts behind the newest published checkpoint and its
        -- publications in flight are gone, exactly as in `restore … true`
        let s' := if j == "j" then
            { d'.s with writing := [], nextId := match newest d.s.published with | some c => c.id + 1 | none => 1 }
          else d'.s
        ({ d' with s := s', live := true, suspect := false,
                   untrusted := suspectsAtLive d ((newest d.s.published).map (·.id)) ++ d.untrusted }, s!"L:{n}:{ck}:{cs}:{j}")
      | none => bad "redeploy"
    | ["x", w] =>
      match act d (.kill (natOr w)) with
      | some (d', _) => (d', tok)
      | none => bad "kill"
    | ["xr", w] =>
      -- stopped itself in a healthy deployment because its runner was answered "operator not ready" (the runner's
      -- watermark ticker starts at its own Deploy; start-up race of the code, counted in the evidence): a failure
      match act d (.kill (natOr w)) with
      | some (d', _) => (d', tok)
      | none => bad "kill"
    | "xu" :: _ => bad "a-worker-stopped-itself-and-nothing-in-the-schedule-explains-it"
    | ["Q"] => (d, waitAnswer d)
    | ["NQ"] => (d, waitAnswer d)
    | ["done"] => (d, ckptAnswer d)
    | ["incomplete"] => (d, ckptAnswer d)
    | ["none"] => (d, if ackExpected d then s!"STALLED({joinWith "-" d.op}:the-model-has-this-step-enabled)" else "none")
    | ["NOTRUNNING"] =>
      -- a deployment onto fresh processes must complete; one that races with the survivors' own shutdown may fail
      (d, if d.op.head? == some "restartlive" || d.op == ["killjob", d.op.getD 1 "", "0"] || !d.s.dead.isEmpty
          then "NOTRUNNING" else "DEPLOYMENT-STALLED")
    | _ =>
      if t == "-" || t == "noparked" || t == "nosuch" || t == "dead" || t == "kj" || t == "settled"
          || t.startsWith "survivors" || t.startsWith "z" then (d, t)
      else bad "no-such-step"
  | _ => bad "unknown"

def applyToks (d : DSt) : List String → List String → DSt × List String
  | [], acc => (d, acc.reverse)
  | t :: ts, acc =>
    if d.ok then
      let (d', o) := applyTok d t
      applyToks d' ts (o :: acc)
    else (d, acc.reverse)

def splitAt2 (ws : List String) : List String × List String :=
  (ws.takeWhile (· ≠ "##"), (ws.dropWhile (· ≠ "##")).drop 1)

/-- deviations a loop left over from an earlier deployment can cause (finding D39): wrong order / duplicates /
stale state at the handler, an operator checkpoint that is not aligned, a runner cut that does not match, a stall -/
def d39Kind (tok : String) : Bool :=
  tok.startsWith "d:" || tok.startsWith "c:" || tok.startsWith "b:" || tok == "Q" || tok == "NQ" ||
  tok == "done" || tok == "incomplete" || tok == "none" ||
  -- an operator process that is deployed again reopens its database in the same directory and rewrites the
  -- `checkpoints` document from the checkpoint it restores: a checkpoint it took in the previous deployment and that
  -- the job publishes later is no longer in that file, the next restore panics
  tok.startsWith "!deploy-panic:failed_to_find_indicated_checkpoint"

/-- the checkpoint id in `!deploy-panic:failed_to_find_indicated_checkpoint_ID_<n>_in_…` -/
def lostCheckpointId (tok : String) : Option Nat :=
  if tok.startsWith "!deploy-panic:failed_to_find_indicated_checkpoint" then
    match tok.splitOn "_ID_" with
    | [_, rest] => ((rest.splitOn "_").headD "").toNat?
    | _ => none
  else none

def firstDiff : List String → List String → Option String
  | a :: as, b :: bs => if a = b then firstDiff as bs else some a
  | a :: _, [] => some a
  | [], _ => none

/-- While the model cannot follow the implementation (after a tagged deviation) it still tracks what a later
deployment on fresh processes depends on: which *trusted* checkpoints (complete before the deviation, so their contents
are the model's) get published, which ids are used up, who died. At an `R:` whose restored checkpoint is the model's newest
published one (the implementation's id is the hint), `restart` determines the whole state again: every process is new,
channels and the pending checkpoint are discarded, state and cursors are the checkpoint's. From there on the case is
validated again. A checkpoint of unknown contents that is published later sends the model back to echoing. -/
def echoTok (d : DSt) (tok : String) : DSt :=
  match tok.splitOn ":" with
  | ["t", id] => { d with maxT := max d.maxT (natOr id), untrusted := natOr id :: d.untrusted }
  | ["p", id] =>
    if d.untrusted.contains (natOr id) then d else
    match d.s.writing.findIdx? (fun c => c.id == natOr id) with
    | some i => match act d (.publish i) with
      | some (d', _) => d'
      | none => d
    | none => { d with untrusted := natOr id :: d.untrusted }
  | ["kj"] =>   -- the job process died: its publications in flight are gone, the next job counts on from the newest published id
    { d with s := { d.s with writing := [] }, echoJob := true, maxT := 0 }
  | ["L", _n, ck, _cs, _j] => { d with untrusted := suspectsAtLive d ck.toNat? ++ d.untrusted }
  | ["R", n, ck, cs, j] =>
    let mine := match newest d.s.published with
      | some c => toString c.id
      | none => "none"
    -- the implementation restores its newest published checkpoint; if that is the model's newest one, nothing of
    -- unknown contents has been published since
    if ck == mine && !(match ck.toNat? with | some c => d.untrusted.contains c | none => false) then
      match act d (.restart (natOr n) (j == "j" || d.echoJob)) with
      | some (d', _) =>
        -- the same id must also be the same checkpoint (ids are used again after a job restart): the cursors agree
        if joinWith "." ((List.range d.nsplits).map fun sp => toString (d'.s.cursor sp)) != cs then d else
        let s' := if j == "j" then d'.s else { d'.s with nextId := max d'.s.nextId (d.maxT + 1) }
        { d' with s := s', echoJob := false, echo := false, ok := true, live := false, suspect := false, resyncs := d.resyncs + 1,
                  untrusted := if j == "j" then [] else d.untrusted }
      | none => d
    else d
  | _ => d

/-- a line met while echoing: tokens are echoed (and tracked by `echoTok`) until a deployment on fresh processes
re-synchronises the model; the tokens after that `R:` are validated as usual -/
def echoLine (d : DSt) : List String → List String → DSt × List String
  | [], acc => (d, acc.reverse)
  | t :: ts, acc =>
    if d.echo then echoLine (echoTok d t) ts (t :: acc)
    else if (match t.splitOn ":" with | ["p", id] => d.untrusted.contains (natOr id) | _ => false) then
      -- a checkpoint of unknown contents is published right after the re-synchronisation: back to echoing
      echoLine { d with echo := true } ts (t :: acc)
    else if d.ok then
      let (d', o) := applyTok d t
      echoLine d' ts (o :: acc)
    else (d, acc.reverse)

def step' (d : DSt) (ws : List String) : DSt × String :=
  let (op, toks) := splitAt2 ws
  let d := match op with
    | "feed" :: sp :: ks :: _ => { d with fed := d.fed.modify (natOr sp) (· + (ks.splitOn ",").length) }
    | "probe" :: _ => (List.range d.nkeys).foldl (fun (d : DSt) k => { d with fed := d.fed.modify (k % d.nsplits) (· + 1) })
        { d with paused := false }
    | ["pause"] => { d with paused := true }
    | ["resume"] => { d with paused := false }
    | _ => d
  if d.echo then
    -- the line is echoed; if a deployment on fresh processes in it lets the model re-synchronise, the tokens after
    -- that `R:` are not validated (they are few: the first reads), everything from the next line on is
    let d := { d with op := op, tSeen := false, prePend := false, ckReq := false }
    let (d', out) := echoLine d toks []
    (d', joinWith " " out)
  else
  if !d.ok then (d, "desync") else
  let d := { d with op := op, tSeen := false, prePend := d.s.pending.isSome, ckReq := 0 < d.s.n && d.s.pending.isNone && d.s.dead.isEmpty }
  match op with
  | ["end"] =>
    (d, if !quiescentB d then "not-quiescent" else if exactlyOnceB d then "ok" else "exactly-once-violated")
  | _ =>
    let (d', out) := applyToks d toks []
    let line := joinWith " " out
    -- a checkpoint of unknown contents (completed while the model was not following) is published after a
    -- re-synchronisation: the next restart would restore it; back to echoing, nothing new to report
    if !d'.ok && ((firstDiff toks out).map (fun t => match t.splitOn ":" with
        | ["p", id] => d.untrusted.contains (natOr id) | _ => false)).getD false then
      ((echoLine { d with echo := true } toks []).1, joinWith " " toks)
    -- model of the code as it is after a live redeploy: whatever the implementation did; the spec side is the
    -- fresh-process model. Only the first deviation of a kind a stale loop can cause is the known finding.
    else if (d'.live || d'.suspect ||
          -- the restore itself fails on a checkpoint a live-redeployed operator may have damaged on disk (D50)
          (match (firstDiff toks out).bind lostCheckpointId with | some c => d.untrusted.contains c | none => false))
        && line != joinWith " " toks && ((firstDiff toks out).map d39Kind).getD false then
      -- the restore that no longer finds a checkpoint in the redeployed operator's own `checkpoints` document is
      -- finding D50 (a database reopened in its directory drops earlier entries) reached through the live redeploy
      let id := if (d'.suspect && !d'.live) ||
          ((firstDiff toks out).map (·.startsWith "!deploy-panic:failed_to_find_indicated_checkpoint")).getD false
        then "D50" else "D39"
      -- the checkpoint pending at this moment may still complete: its contents are not the model's
      let pend := match d'.s.pending with | some p => [p.id] | none => []
      let d'' := { d' with echo := true, kfCount := d'.kfCount + 1, untrusted := pend ++ d'.untrusted, maxT := d'.s.nextId - 1 }
      -- what the rest of this line (from the deviating token on) means for a later re-synchronisation
      let rest := toks.drop (out.length - 1)
      ((echoLine d'' rest []).1, joinWith " " toks ++ " #spec " ++ line ++ " #kf " ++ id)
    else (d', line)

def handle (lines : Array String) (i : Nat) (out : Array String) : Nat × Array String :=
  let hdr := words (lines.getD (i - 1) "")
  let kgc := natOr (hdr.getD 3 "8")
  let nsplits := max 1 (natOr (hdr.getD 4 "1"))
  let nkeys := natOr (hdr.getD 7 "1")
  let input := scanInput lines i nkeys (Array.replicate nsplits #[])
  let cfg := mkCfg (max kgc 1) nkeys input
  runLines step' { cfg := cfg, s := init cfg, nsplits := nsplits, nkeys := nkeys, fed := Array.replicate nsplits 0 } lines i out

end Driver.C01
