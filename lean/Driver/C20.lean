import Driver.Util
/-! Driver section for C20 (stub until the model is online). -/
namespace Driver.C20
open Rxn Driver

def step (st : Unit) : List String → Unit × String
  | _ => (st, "bad-op")

def handle (lines : Array String) (i : Nat) (out : Array String) : Nat × Array String :=
  runLines step () lines i out

end Driver.C20
