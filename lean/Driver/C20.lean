import Driver.Util
import RxnModel.Model.Reorder
/-!
Driver section for C20.

`M C20 b <maxSize> <delay01>`                      lockstep on `EventBatcher` (ops = method calls)
`M C20 rf <maxSize> <delay01> <bufferSize> [old]`  trace validation of `ReorderFetcher`: every op is a scheduler
  step of the harness (start an operation / fire the timer / release a parked goroutine / complete a fetch); the
  driver performs the corresponding actions of `Reorder.step` (the transition system the theorems are about),
  lets released goroutines run to their next hook point, and prints the resulting thread positions, live fetches
  and what was sent to `Output` during the step. `old` = the code before the repair of D17 (no `flushMu`).
-/
namespace Driver.C20
open Rxn Driver

def showNats (xs : List Nat) : String :=
  if xs.isEmpty then "-" else joinWith "," (xs.map toString)

/-! ### batcher (lockstep) -/

structure BSt where
  s : Batcher.St Nat
  addedRev : List Nat := []
  flushed : List (List Nat) := []
  pendA : Option (List String) := none   -- a method call parked inside the batcher's critical section (holds `b.mu`)
  pendB : Option (List String) := none   -- a method call waiting for `b.mu`

def tokStr : Option Nat → String
  | some n => s!"tok {n}"
  | none => "unarmed"

def tokOf (t : String) : Batcher.Tok := if t == "cur" then Batcher.Tok.cur else Batcher.Tok.tok (natOr t)

/-- one method of the batcher = one atomic action of the model -/
def bcall (st : BSt) : List String → Option (BSt × String)
  | ["add", x] => some ({ st with s := Batcher.add st.s (natOr x), addedRev := natOr x :: st.addedRev }, "-")
  | ["full"] => some (st, toString (Batcher.isFull st.s))
  | ["flush", t] =>
    let r := Batcher.flush st.s (tokOf t)
    some ({ st with s := r.1, flushed := st.flushed ++ [r.2] }, showNats r.2)
  | _ => none

def bstep (st : BSt) (ws : List String) : BSt × String :=
  let isTry := match ws with | "try" :: _ => true | ["unpark"] => true | _ => false
  if st.pendA.isSome && !isTry then (st, "busy") else   -- the mutex is held by the parked call
  match ws with
  | ["padd", x] =>
    -- `Add` calls `timer.Set` (where the harness parks it) exactly when it starts a batch with a positive delay
    if st.s.batch.isEmpty && st.s.hasDelay then ({ st with pendA := some ["add", x] }, "parked")
    else match bcall st ["add", x] with
      | some (st1, r) => (st1, "done " ++ r)
      | none => (st, "bad-op")
  | ["pflush", t] =>
    -- `Flush` calls `timer.Stop` exactly when it hands out the batch
    if Batcher.flushes st.s (tokOf t) then ({ st with pendA := some ["flush", t] }, "parked")
    else match bcall st ["flush", t] with
      | some (st1, r) => (st1, "done " ++ r)
      | none => (st, "bad-op")
  | "try" :: call =>
    match st.pendA, st.pendB with
    | none, _ => (match bcall st call with | some (st1, r) => (st1, "ran " ++ r) | none => (st, "bad-op"))
    | some _, some _ => (st, "busy")
    | some _, none => (match bcall st call with | some _ => ({ st with pendB := some call }, "blocked") | none => (st, "bad-op"))
  | ["unpark"] =>
    match st.pendA with
    | none => (st, "none")
    | some a =>
      let st0 := { st with pendA := none, pendB := none }
      match bcall st0 a with
      | none => (st0, "bad-op")
      | some (st1, ra) =>
        match st.pendB with
        | none => (st1, s!"a={ra} b=-")
        | some bop => (match bcall st1 bop with | some (st2, rb) => (st2, s!"a={ra} b={rb}") | none => (st1, "bad-op"))
  | ["fire"] => (st, tokStr (Batcher.fire st.s))
  | ["stale"] => (st, tokStr (Batcher.stale st.s))
  | ["concat"] => (st, "ok")   -- spec: C20.batcher_concat evaluated on the implementation
  | call => (match bcall st call with | some r => r | none => (st, "bad-op"))

/-! ### reorder fetcher (trace validation) -/

structure RSt where
  s : Reorder.St Nat Nat
  atomic : Bool := true
  freeP : Bool := false     -- producer released from its hook (running or blocked)
  freeT : Bool := false
  failed : List Nat := []   -- sequence numbers whose fetch was completed with an error
  pendAdd : List Nat := []  -- fetches completed by the schedule whose goroutine still waits for the buffer mutex
  out : List Nat := []      -- received by the consumer during the current step

def fetchFn (evs : List Nat) : List Nat := evs

def isFree (st : RSt) : Reorder.Tid → Bool
  | .prod => st.freeP
  | .tmo => st.freeT

def setFree (st : RSt) (t : Reorder.Tid) (v : Bool) : RSt :=
  match t with
  | .prod => { st with freeP := v }
  | .tmo => { st with freeT := v }

/-- apply one action of the transition system; `none` if it is not enabled. Every sequence number is completed at
most once, so the per-step oracle `failed.contains` agrees with one fixed oracle for the whole trace. -/
def act (st : RSt) (a : Reorder.Act Nat) : Option RSt :=
  match Reorder.step fetchFn (fun q => st.failed.contains q) st.atomic st.s a with
  | some (s', o) => some { st with s := s', out := st.out ++ o }
  | none => none

/-- let one released flusher run until it parks at its next hook point, returns, or blocks -/
def advance (st : RSt) (t : Reorder.Tid) : Option RSt :=
  if !isFree st t then none else
  match Reorder.pc st.s t with
  | .enter =>
    match act st (.lock t) with
    | some st1 => (act st1 (.flushA t)).map (fun st2 => setFree st2 t false)   -- parks at rf.flush.mid
    | none => none                                                           -- blocked on flushMu
  | .mid _ => (act st (.flushB t)).map (fun st1 => setFree st1 t false)        -- none: blocked in Reserve
  | _ => none

/-- one step of the fetch goroutines: send, dequeue the next batch, end the drain, `buffer.Add`, enter `Drain` -/
def advanceBuf (st : RSt) : Option RSt :=
  match st.s.drainer with
  | some (_ :: _) => act st .send                      -- none: `Output` is full, the drain is blocked holding the mutex
  | some [] => act st .drainNext
  | none =>
    match st.pendAdd with
    | q :: rest => (act st (.fetchDone q)).map (fun st1 => { st1 with pendAdd := rest })
    | [] => act st .drainStart

def settle : Nat → RSt → RSt
  | 0, st => st
  | n + 1, st =>
    match advanceBuf st with
    | some st1 => settle n st1
    | none =>
      match advance st .prod with
      | some st1 => settle n st1
      | none =>
        match advance st .tmo with
        | some st1 => settle n st1
        | none =>
          -- a timer callback blocked on `BatchTimedOut` is served as soon as the timeout goroutine is back in its select
          match act st .tmoRecv with
          | some st1 => settle n (setFree st1 .tmo false)   -- parks at rf.flush.enter
          | none => st

def thrStr (st : RSt) (t : Reorder.Tid) : String :=
  match Reorder.pc st.s t with
  | .idle => "i"
  | .added => "a"
  | .enter => if isFree st t then "L" else "e"
  | .locked => "l"
  | .mid evs => if isFree st t then "C" else s!"m{evs.length}"

/-- fetches the schedule has not completed yet -/
def running (st : RSt) : List (Nat × List Nat) := st.s.inflight.filter (fun p => !st.pendAdd.contains p.1)

def snapshot (st : RSt) : String :=
  let run := (running st).map (fun p => s!"{p.1}:" ++ joinWith "." (p.2.map toString))
  s!"p={thrStr st .prod} t={thrStr st .tmo} run={if run.isEmpty then "-" else joinWith ";" run} " ++
  s!"out={showNats st.out} q={st.s.outq.length} pend={(Reorder.curOf st.s.drainer).length} errs={st.s.errs} tok={st.s.pendingTok}"

def finish (st : RSt) (res : String) : RSt × String :=
  (st, res ++ " | " ++ snapshot st)

def isIdle {α : Type} : Reorder.Pc α → Bool
  | .idle => true
  | _ => false

def parked (st : RSt) (t : Reorder.Tid) : Bool :=
  !isFree st t && (match Reorder.pc st.s t with | .enter => true | .mid _ => true | _ => false)

def tidOf (s : String) : Reorder.Tid := if s == "p" then .prod else .tmo

def takeN : Nat → RSt → RSt
  | 0, st => st
  | n + 1, st =>
    match act st .recv with
    | some st1 => takeN n (settle 64 st1)
    | none => st

def complete (st : RSt) (r : Nat) (ok : Bool) : RSt × String :=
  match running st with
  | [] => finish st "nofetch"
  | fl =>
    let seq := (fl.getD (r % fl.length) (0, [])).1
    let st1 := { st with pendAdd := st.pendAdd ++ [seq], failed := if ok then st.failed else seq :: st.failed }
    -- a failed fetch reports its error before it needs the buffer mutex
    let st2 := if ok then st1 else (act st1 (.fetchErr seq)).getD st1
    finish (settle 64 st2) s!"seq={seq}"

def rstep (st0 : RSt) (ws : List String) : RSt × String :=
  let st := { st0 with out := [] }
  match ws with
  | ["add", x] =>
    if !isIdle st.s.pp then finish st "busy" else
    match (act st (.pAdd (natOr x))).bind (fun s1 => act s1 .pIsFull) with
    | some st1 => finish st1 (if isIdle st1.s.pp then "ret" else "park")
    | none => finish st "model-stuck"
  | ["flush"] =>
    if !isIdle st.s.pp then finish st "busy" else
    match act st .pFlush with
    | some st1 => finish st1 "park"
    | none => finish st "model-stuck"
  | [op] =>
    if op == "fire" || op == "stale" then
      match act st (if op == "fire" then .fire else .stale) with
      | none => finish st "unarmed"
      | some st1 =>
        -- the callback blocks sending its token until the timeout goroutine is in its select
        if isIdle st.s.tp then finish (settle 64 st1) "recv" else finish st1 "pending"
    else finish st "bad-op"
  | ["rel", t] =>
    let tid := tidOf t
    if !parked st tid then finish st "noop" else
    finish (settle 64 (setFree st tid true)) "ok"
  | ["fin", r] => complete st (natOr r) true
  | ["fail", r] => complete st (natOr r) false
  | ["take", n] => finish (takeN (natOr n) st) "ok"
  | _ => finish st "bad-op"

inductive Mode where
  | b (st : BSt)
  | rf (st : RSt)
  | bad

def step (m : Mode) (ws : List String) : Mode × String :=
  match m with
  | .b st => let r := bstep st ws; (.b r.1, r.2)
  | .rf st => let r := rstep st ws; (.rf r.1, r.2)
  | .bad => (.bad, "bad-header")

def handle (lines : Array String) (i : Nat) (out : Array String) : Nat × Array String :=
  let hdr := if i = 0 then [] else words (lines.getD (i - 1) "")
  let m : Mode := match hdr with
    | ["M", "C20", "b", ms, d] => .b { s := Batcher.new (natOr ms) (natOr d != 0) }
    | ["M", "C20", "rf", ms, d, bs] => .rf { s := Reorder.init (natOr ms) (natOr d != 0) (natOr bs) }
    | ["M", "C20", "rf", ms, d, bs, "old"] => .rf { s := Reorder.init (natOr ms) (natOr d != 0) (natOr bs), atomic := false }
    | _ => .bad
  runLines step m lines i out

end Driver.C20
