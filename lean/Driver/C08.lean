import Driver.Util
import Driver.C07
import RxnModel.Model.Ckpt
/-!
Driver section for C08: trace validation of a real `dkv.DB` through checkpoints, crashes and restores.
Input lines are `op ## impl-output`. The C07 operations (put/del/get/scan/bg f/bg c) are replayed on
`Rxn.Ckpt.step` (the same definitions the theorems of `Props/C08.lean` are about); in addition

* `ckpt id`            `DB.Checkpoint(id)` up to the return of the call (capture under the lock)
* `cw id` / `cd id`    the two asynchronous halves (WAL save, document save + handle returned)
* `retain i,j`         `UpdateRetainedCheckpoints`
* `hcd id` / `hretain i,j` / `release`   the same with the write of the `checkpoints` file held back at a gate until
                       `release`: other list operations issued meanwhile report `blocked` (the list mutex is held)
* `reopen id mode`     abandon the instance (crash) and `dkv.Open` from the handle of checkpoint `id`
* `peek id`            open a throw-away read-only instance from the handle and scan it completely
* `intact`             theorem instance evaluated on the implementation (files of retained checkpoints unchanged)

Every read prints the model's answer and, when it differs, the specification's (`#spec`): the map at the
`Checkpoint` call for restores, the map of all writes for ordinary reads.
-/
namespace Driver.C08
open Rxn Driver Rxn.Lsm Driver.C07

structure St where
  s : Ckpt.State := {}
  /-- the expected map and the expected map at each `Checkpoint` call (`Ckpt.stepSpec`, as in `Props/C08.lean`) -/
  sp : Ckpt.SpecSt := {}
  bad : Bool := false
  flushQ : Nat := 0
  compactQ : Nat := 0
  /-- a save of the `checkpoints` document is being held back by the harness inside `CheckpointList.Save` -/
  held : Bool := false
  /-- the checkpoint whose handle that held save will return -/
  heldId : Option Nat := none
  /-- the held save has written its document and is stopped before its WAL deletions -/
  heldDel : Bool := false
  /-- the running instance was restored with its background tasks running freely during the replay (`reopenfree`):
  the model does not know the interleaving, only — by `restore_is_spec` — what every read must return -/
  free : Bool := false
  /-- number of the directory the running instance works in (a `fresh` reopen moves to a new one) and, for every
  handle, the directory of its document -/
  dir : Nat := 0
  hdir : List (Nat × Nat) := []

/-- values are printed in hex when short, as length and checksum when long (the 64 KB values of large WAL segments) -/
def showVal (v : Bytes) : String :=
  if v.length ≤ 64 then toHex v
  else "L" ++ toString v.length ++ "x" ++ toString (v.foldl (fun a b => (a * 131 + b.toNat) % 4294967291) 0)

def showAnswer8 : Option Bytes → String
  | some v => "val " ++ showVal v
  | none => "absent"

def showScan8 (r : Run) : String :=
  if r.isEmpty then "empty" else joinWith "," (r.map fun e => toHex e.key ++ ":" ++ showVal e.val)

def specOf (st : St) (id : Nat) : Spec := Ckpt.specAt st.sp.saved id

def retainedDone (st : St) (id : Nat) : Bool :=
  Ckpt.retainedDone st.s id && st.heldId != some id

/-- While a save is held inside `CheckpointList.Save` the code keeps the list mutex, so every other list operation
waits (`blocked`: nothing happens). The model's save is one atomic step, applied when the held save took its
snapshot; if the implementation lets a list operation through nevertheless, it is applied after it. -/
def listBlocked (st : St) (hint : List String) : Bool := st.held && hint == ["blocked"]

def stepM (st : St) (a : Ckpt.Act) : Option St :=
  match Ckpt.step st.s a with
  | some s' =>
    let hdir := match a with
      | .saveDoc id => (id, st.dir) :: st.hdir
      | _ => st.hdir
    some { st with s := s', sp := Ckpt.stepSpec st.s st.sp a, hdir := hdir }
  | none => none

/-- the directory whose `checkpoints` document the handle of `id` points to -/
def dirOf (st : St) (id : Nat) : Nat := ((st.hdir.find? (·.1 == id)).map (·.2)).getD 0

/-- the loop at the end of `CheckpointList.Save`: one `destroy` step per checkpoint pending removal -/
def destroyAll (st : St) : St :=
  (List.range st.s.pending.length).foldl (fun acc _ => (stepM acc .destroy).getD acc) st

/-- `CheckpointList.Save` on behalf of a checkpoint task: document write + handle, then the WAL deletions -/
def saveDocM (st : St) (id : Nat) : Option St := (stepM st (.saveDoc id)).map destroyAll

/-- `UpdateRetainedCheckpoints`: `RetainOnly`, then `Save` (document write, then the WAL deletions) -/
def retainM (st : St) (ids : List Nat) : Option St :=
  match stepM st (.retain ids) with
  | some st1 => (stepM st1 .saveList).map destroyAll
  | none => none

def writeOp (st : St) (del : Bool) (k v : Bytes) (hint : List String) : St × String :=
  if st.flushQ ≥ 3 then (st, "queue-full") else
  let rot := hint == ["rot=1"]
  match stepM st (.write del k v rot) with
  | some st' =>
    ({ st' with flushQ := st'.flushQ + (if rot then 1 else 0) },
     if rot then "rot=1" else "rot=0")
  | none => ({ st with bad := true }, "disabled")

def parseRots (ws : List String) : List Nat :=
  match ws.find? (·.startsWith "rots=") with
  | some w => parseIds (w.drop 5).toString
  | none => []

def showIds (l : List Nat) : String := if l.isEmpty then "-" else joinWith "," (l.map toString)

def stepList (st : St) (op : List String) : St × String :=
  match op with
  | ["ckpt", id] =>
    match stepM st (.checkpoint (natOr id)) with
    | some st' => (st', "captured")
    | none => (st, "disabled")
  | ["cw", id] =>
    match stepM st (.saveWal (natOr id)) with
    | some st' => (st', "ok")
    | none => (st, "none")
  | ["cd", id] =>
    match saveDocM st (natOr id) with
    | some st' => (st', "ok")
    | none => (st, "none")
  | ["retain", ids] =>
    match retainM st (parseIds ids) with
    | some st' => (st', "ok")
    | none => (st, "refused")
  | ["hcd", id] =>
    if st.held then
      match saveDocM st (natOr id) with
      | some st' => (st', "ok")
      | none => (st, "none")
    else
      match saveDocM st (natOr id) with
      | some st' => ({ st' with held := true, heldId := some (natOr id) }, "held")
      | none => (st, "none")
  | ["hretaind", ids] =>
    if st.held then
      match retainM st (parseIds ids) with
      | some st' => (st', "ok")
      | none => (st, "refused")
    else
      match stepM st (.retain (parseIds ids)) with
      | some st1 =>
        match stepM st1 .saveList with
        | some st2 =>
          if st2.s.pending.isEmpty then (st2, "ok") else ({ st2 with held := true, heldDel := true }, "held")
        | none => (st, "refused")
      | none => (st, "refused")
  | ["hretain", ids] =>
    match retainM st (parseIds ids) with
    | some st' => if st.held then (st', "ok") else ({ st' with held := true }, "held")
    | none => (st, "refused")
  | _ => (st, "bad-op")

def stepFree (st : St) (op : List String) : St × String :=
  match op with
  | ["get", k] => (st, showAnswer8 (answer (Spec.get st.sp.m (hexOr k))))
  | ["scan", p] => (st, showScan8 (specScan st.sp.m (hexOr p)))
  | _ => (st, "ended")

def step (st : St) (ws : List String) : St × String :=
  let (op, hint) := splitHint ws
  if st.free then stepFree st op else
  match op with
  | ["reopenfree", id] =>
    let i := natOr id
    if !retainedDone st i then (st, "refused") else
    ({ st with sp := Ckpt.stepSpec st.s st.sp (.openBegin i), free := true }, "opened-free")
  | ["put", k, v] => writeOp st false (hexOr k) (hexOr v) hint
  | ["del", k] => writeOp st true (hexOr k) [] hint
  | ["get", k] =>
    (st, withSpec (showAnswer8 (answer (get st.s.db (hexOr k)))) (showAnswer8 (answer (Spec.get st.sp.m (hexOr k)))))
  | ["scan", p] =>
    (st, withSpec (showScan8 (scan st.s.db (hexOr p))) (showScan8 (specScan st.sp.m (hexOr p))))
  | ["bg", _] =>
    match hint with
    | ["none"] => (st, "none")
    | ["compactbegin"] => (st, "compactbegin")
    | ["compactidle"] => ({ st with compactQ := st.compactQ - 1 }, "compactidle")
    | ["queue-full"] => (st, if st.compactQ ≥ 4 then "queue-full" else "not-full")
    | ["flushbegin", n] =>
      match stepM st (.flushBegin (natOr n)) with
      | some st' => (st', "flushbegin " ++ toString ((st'.s.db.flushing.getD []).length))
      | none => ({ st with bad := true }, "disabled " ++ n)
    | ["flushcommit", n] =>
      let cnt := (st.s.db.flushing.getD []).length
      match stepM st .flushCommit with
      | some st' => ({ st' with flushQ := st'.flushQ - 1, compactQ := st'.compactQ + 1 }, "flushcommit " ++ toString cnt)
      | none => ({ st with bad := true }, "disabled " ++ n)
    | ["compact", lvl, rm, add] =>
      let l := natOr (lvl.drop 1).toString
      let rmIds := parseIds (rm.drop 3).toString
      let addStr := (add.drop 4).toString
      let runs := if addStr == "none" then [] else (addStr.splitOn "|").map parseRun
      match stepM st (.compact rmIds l runs) with
      | some st' => (st', joinWith " " hint)
      | none => ({ st with bad := true }, "unsafe")
    | _ => (st, "bad-hint")
  | ["cw", _] => stepList st op
  | ["ckptrace", id] =>
    -- `DB.Checkpoint` with a flush commit parked at its hook; the implementation says whether the commit landed inside
    -- the call (at a log record): in the model it then comes first, the capture sees the new level list
    if listBlocked st hint then (st, "blocked") else
    match hint with
    | ["captured", "commit-first", n] =>
      let cnt := (st.s.db.flushing.getD []).length
      match stepM st .flushCommit with
      | some st1 =>
        let st2 := { st1 with flushQ := st1.flushQ - 1, compactQ := st1.compactQ + 1 }
        match stepM st2 (.checkpoint (natOr id)) with
        | some st3 => (st3, "captured commit-first " ++ toString cnt)
        | none => (st2, "disabled")
      | none => ({ st with bad := true }, "disabled " ++ n)
    | _ => stepList st ["ckpt", id]
  | ["ckpt", _] | ["cd", _] | ["retain", _] | ["hcd", _] | ["hretain", _] | ["hretaind", _] =>
    if listBlocked st hint then (st, "blocked") else stepList st op
  | ["probe"] =>
    -- a real `DB.NeedsTable` call (CheckpointList.IncludesTable): it waits for the list mutex while a save is held
    (st, if st.held then "blocked" else "free")
  | ["release"] =>
    if st.held then
      let st1 := if st.heldDel then destroyAll st else st
      ({ st1 with held := false, heldId := none, heldDel := false }, "ok")
    else (st, "none")
  | ["reopen", id, mode] =>
    let i := natOr id
    if !retainedDone st i then (st, "refused") else
    let rots := parseRots hint
    match Ckpt.run st.s [.crash, .open i rots] with
    | some s' =>
      let n := s'.db.mems.length - 1
      ({ st with s := s', sp := Ckpt.stepSpec st.s st.sp (.open i rots), dir := if mode == "fresh" then st.hdir.length + st.dir + 1 else st.dir, flushQ := n, compactQ := 0, held := false, heldId := none, heldDel := false },
       "opened n=" ++ toString n ++ " rots=" ++ showIds rots)
    | none => ({ st with bad := true }, "failed")
  | ["peek", id] =>
    -- every handle the user holds may be tried, also after the database was reopened from another checkpoint
    let i := natOr id
    if !st.sp.handles.contains i || st.heldId == some i then (st, "refused") else
    if !Ckpt.retainedDone st.s i && st.held then
      -- the document write of the held save has not landed yet, the model has already applied it: for a checkpoint the
      -- running instance does not list the two differ until `release`
      (st, "unsettled") else
    if !Ckpt.retainedDone st.s i && dirOf st i != st.dir then
      -- its document lives in a directory the running instance does not write to (not modelled: one flat name space)
      (st, "otherdir") else
    let want := showScan8 (specScan (specOf st i) [])
    match Ckpt.step st.s (.open i []) with
    | some r =>
      if !Ckpt.retainedDone st.s i && st.sp.over.contains i then
        -- D67 situation only: a handle newer than the checkpoint the database was reopened from, not listed by the
        -- running instance, same directory. Its table / WAL files may have been overwritten; which ones depends on file
        -- numbers the model does not track (allocation at write time), so whatever the code returns instead of the
        -- expected map is recorded as the known finding.
        let got := joinWith " " hint
        if got == want then (st, want) else (st, got ++ " #spec " ++ want ++ " #kf D67")
      else (st, withSpec (showScan8 (scan r.db [])) want)
    | none =>
      -- D50 situation only: an unlisted handle after the running instance wrote the document
      if st.sp.lost.contains i then (st, "failed #spec " ++ want ++ " #kf D50")
      else (st, "failed #spec " ++ want)
  | ["intact"] => (st, "ok")
  | _ => (st, "bad-op")

def handle (lines : Array String) (i : Nat) (out : Array String) : Nat × Array String :=
  runLines step {} lines i out

end Driver.C08
