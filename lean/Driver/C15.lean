import Driver.Util
import RxnModel.Model.JobFsm
import RxnModel.Model.RunnerProc
/-! Driver section for C15: replays the harness' action lines on `JobFsm.step` (the definition the theorems of
`Props/C15.lean` are about) and renders the observations. Header: `M C15 <workerCount> <deadline> <initial ckpt>`. -/
namespace Driver.C15
open Rxn Driver Rxn.JobFsm

def ids (xs : List Nat) : String :=
  if xs.isEmpty then "-" else joinWith "," (xs.map toString)

def optNat : Option Nat → String
  | none => "none"
  | some n => toString n

def showStatus : Status → String
  | .init => "Init" | .paused => "Paused" | .starting => "Starting" | .running => "Running"

def showAck : AckRes → String
  | .ok none => "ok" | .ok (some n) => s!"ok pub={n}" | .nopending => "nopending" | .mismatch => "mismatch"
  | .unknown => "unknown"

def tagsOf (b : List (Nat × Nat)) : String := ids (b.map (·.1))

/-- events of the operator's current deployment only (what a redeploy that discards the batcher would leave) -/
def curOf (b : List (Nat × Nat)) (epoch : Nat) : List (Nat × Nat) := b.filter (·.2 == epoch)

/-- `X` when the code's behaviour is what the property asks for, `X #spec Y #kf D45` when events of a previous
deployment are involved (finding D45) -/
def withSpecId (x y id : String) : String := if x == y then x else s!"{x} #spec {y} #kf {id}"

def withSpec (x y : String) : String := withSpecId x y "D45"

/-- the code-side part of an output line -/
def plain (str : String) : String := (str.splitOn " #spec ").headD str

def flushedSuffix (b : List (Nat × Nat)) : String := if b.isEmpty then "" else s!" flushed={tagsOf b}"

def staleStr (sp : Bool) (sr sb : List Nat) : String :=
  let stale := (if sp then ["pending"] else []) ++ sr.map (fun i => s!"rec:{i}") ++ sb.map (fun i => s!"batch:{i}")
  if stale.isEmpty then "none" else joinWith "+" stale

def render : Out → String
  | .status st none => showStatus st
  | .status st (some d) => s!"{showStatus st} deploy o={ids d.ops} s={ids d.srs} ck={optNat d.ck}"
  | .done => "ok"
  | .nostart => "nostart"
  | .started st ck asg sp sr sb =>
      let pre := s!"{showStatus st} start={optNat ck} as={ids asg} stale="
      withSpec (pre ++ staleStr sp sr sb) (pre ++ staleStr sp sr [])
  | .stopped => "stopped"
  | .retry => "retry"
  | .ckpt id srs => s!"ckpt {id} s={ids srs}"
  | .ack r => showAck r
  | .barOk => "ok"
  | .barAcked pub b e =>
      let pre := match pub with | none => "ok acked" | some n => s!"ok acked pub={n}"
      withSpec (pre ++ flushedSuffix b) (pre ++ flushedSuffix (curOf b e))
  | .barAckErr r b e =>
      withSpec (s!"ackerr {showAck r}" ++ flushedSuffix b) (s!"ackerr {showAck r}" ++ flushedSuffix (curOf b e))
  | .barMismatch => "mismatch"
  | .barRefused => "refused"
  | .barBlocked => "blocked"
  | .barNotReady => "notready"
  | .tickRead ops => s!"read o={ids ops}"
  | .ckptCreated n => s!"created {n}"
  | .noTick => "notick"
  | .published n cur l => s!"published {n} cur={optNat cur}" ++ (if l.isEmpty then "" else s!" retain={n}@{ids l}")
  | .spNotRunning => "notrunning"
  | .spBusy => "busy"
  | .spJoined id => s!"joined {id}"
  | .nothing => "nothing"
  | .queueStuck => "QUEUE-STUCK"
  | .evQueued => "queued"
  | .processed b e => withSpec s!"processed {tagsOf b}" s!"processed {tagsOf (curOf b e)}"
  | .flushEmpty => "empty"

def showState (s : St) : String :=
  let pend := match s.store.pending with
    | none => "none"
    | some p => s!"{p.id}:o{ids p.waitOps}:s{ids p.waitSrs}"
  let recs := (List.range 10).filterMap fun i =>
    match (s.procs i).inflight with
    | some (id, waiting) => some s!"{i}:{id}/{ids waiting}"
    | none => none
  let bats := (List.range 10).filterMap fun i =>
    if (s.procs i).batch.isEmpty then none else some s!"{i}:{tagsOf (s.procs i).batch}"
  s!"{showStatus s.status} reg=o{ids s.ops}:s{ids s.srs} asm=o{ids s.asmOps}:s{ids s.asmSrs} pend={pend} cur={optNat s.store.current} wr={ids s.store.writing} tick={if s.ticker then 1 else 0} rec={if recs.isEmpty then "-" else joinWith ";" recs} bat={if bats.isEmpty then "-" else joinWith ";" bats}"

def parse : List String → Option Act
  | ["reg", "o", i] => some (.regO (natOr i))
  | ["reg", "s", i] => some (.regS (natOr i))
  | ["dereg", "o", i] => some (.deregO (natOr i))
  | ["dereg", "s", i] => some (.deregS (natOr i))
  | ["adv", n] => some (.adv (natOr n))
  | ["deployok"] => some .deployOk
  | ["deployfail", k] => some (.deployFail (natOr k))
  | ["tick"] => some .tick
  | ["ack", "s", i, id] => some (.ackS (natOr i) (natOr id))
  | ["ack", "o", i, id] => some (.ackO (natOr i) (natOr id))
  | ["bar", i, s, id] => some (.bar (natOr i) (natOr s) (natOr id))
  | ["ev", i, s, tag] => some (.ev (natOr i) (natOr s) (natOr tag))
  | ["flush", i] => some (.flush (natOr i))
  | ["savepoint"] => some .savepoint
  | ["spa"] => some .spA
  | ["ticka"] => some .tickA
  | ["tickb"] => some .tickB
  | ["tickc"] => some .tickC
  | _ => none

/-- driver state: the model state plus what the real-worker ops need to know about worker processes (which exist,
which have halted or stopped); worker `k` runs operator `k` and source runner `5 + k` -/
structure DSt where
  s : St
  started : List Nat := []
  gone : List Nat := []
  hold : Bool := false   -- `holdpub`: snapshot files are not written until `relpub`
  rp : RunnerProc.St := {}   -- the standalone source runner process of `r.*` ops
  hungS : List Nat := []     -- `hang s i` / `hang o i`: members that stop answering RPCs
  hungO : List Nat := []
  stuck : Bool := false
  retainStuck : Bool := false

def DSt.live (d : DSt) (k : Nat) : Bool := d.started.contains k && !d.gone.contains k

def shortBar : Out → String
  | .barOk => "ok"
  | .barAcked _ _ _ => "acked"
  | .barAckErr r _ _ => s!"ackerr:{showAck r}"
  | .barMismatch => "mismatch"
  | .barRefused => "refused"
  | .barBlocked => "blocked"
  | .barNotReady => "notready"
  | _ => "?"

def pubOf : Out → Option Nat
  | .barAcked p _ _ => p
  | .ack (.ok p) => p
  | _ => none

/-- `rack k`: the runner's acknowledgement, then its barrier at every live operator of the assembly -/
def rack (d : DSt) (k : Nat) : DSt × String :=
  if !d.live k then (d, "none") else
  match d.s.store.pending with
  | none => (d, "none")
  | some p =>
    if !p.waitSrs.contains (5 + k) then (d, "none") else
    let (s1, o1) := step d.s (.ackS (5 + k) p.id)
    match o1 with
    | .ack (.ok pub0) =>
      let ops := d.s.asmOps.filter (fun i => d.live i)
      let (s2, txt, pub) := ops.foldl (fun (acc : St × String × Option Nat) i =>
        let (s', o) := step acc.1 (.bar i (5 + k) p.id)
        (s', acc.2.1 ++ s!" b{i}={shortBar o}", (pubOf o).orElse fun _ => acc.2.2)) (s1, "ok", pub0)
      ({ d with s := s2 }, txt ++ (match pub with | some n => s!" pub={n}" | none => ""))
    | o => ({ d with s := s1 }, render o)

def deployReal (d : DSt) : DSt × String :=
  if d.s.status != .starting then (d, "nostart") else
  let deadO := d.s.asmOps.findIdx? (fun i => !d.live i)
  let deadS := d.s.asmSrs.findIdx? (fun i => !d.live (i - 5))
  match deadO, deadS with
  | none, none => let (s', o) := step d.s .deployOk; ({ d with s := s' }, render o)
  | some v, _ => let (s', o) := step d.s (.deployFail v); ({ d with s := s' }, render o)
  | none, some v => let (s', o) := step d.s (.deployFail (d.s.asmOps.length + v)); ({ d with s := s' }, render o)

/-- Finding D56, checked in the driver so that the tag is only used in the recorded situation: operator `i` holds an
alignment record that is not the job's pending checkpoint (a stale barrier created it, or its acknowledgement was
refused), and the barrier now arriving has a higher id, or repeats the id of a completed refused record. The property
asks that the stale record does not stand in the way: the answer of an operator without it. -/
def d56Spec (s : St) (i sr id : Nat) : Option String :=
  let pr := s.procs i
  if !pr.deployed then none else
  match pr.inflight with
  | none => none
  | some (rid, w) =>
    let stale := match s.store.pending with
      | none => true
      | some p => p.id != rid
    if stale && (rid < id || (rid == id && w.isEmpty)) then
      some (plain (render (barrier { s with procs := setProc s.procs i { pr with inflight := none } } i sr id).2))
    else none

/-- Finding D57: the ticker callback continues after the job left the assembly it read (paused, or already on a new
assembly). With the callback on the task queue it would have run before the pause or not at all. -/
def d57Situation (s : St) : Bool :=
  match s.tk with
  | some t => t.start.isNone && (s.status != .running || t.ops != s.asmOps)
  | none => false

def two (d : DSt) (a b : Act) : DSt × String :=
  let (s1, o1) := step d.s a
  let (s2, o2) := step s1 b
  ({ d with s := s2 }, render o1 ++ " ; " ++ render o2)

/-- one action through `stepQ` (the job with members that may not answer) -/
def qstep (d : DSt) (a : Act) : DSt × Out :=
  let (q', o) := stepQ { s := d.s, hungS := d.hungS, hungO := d.hungO, stuck := d.stuck, retainStuck := d.retainStuck } a
  ({ d with s := q'.s, hungS := q'.hungS, hungO := q'.hungO, stuck := q'.stuck, retainStuck := q'.retainStuck }, o)

def retainText : Out → String
  | .published n _ l => if l.isEmpty then "" else s!" retain={n}@{ids l}"
  | _ => ""

/-- publish everything being written, oldest first; returns the retained-ids notifications that go out -/
def publishAll (d : DSt) : DSt × String :=
  d.s.store.writing.foldl (fun (acc : DSt × String) n =>
    let (d', o) := qstep acc.1 (.publish n)
    (d', acc.2 ++ retainText o)) (d, "")

/-- unless the harness holds the storage, the file of a completed snapshot is written at once -/
def settlePub (d : DSt) : DSt × String :=
  if d.hold then (d, "") else publishAll d

def renderR : RunnerProc.Out → String
  | .deployed none => "deployed"
  | .deployed (some (i, true)) => s!"deployed acked {i}"
  | .deployed (some (i, false)) => s!"deployed refused {i}"
  | .held => "held"
  | .nothingToHold => "nohold"
  | .queued => "queued"
  | .full => "full"
  | .acked i => s!"acked {i}"
  | .refused i => s!"refused {i}"
  | .notDeployed => "notdeployed"
  | .ok => "ok"

/-- the real source runner, one process (`r.*` ops). Finding D48 is tagged only in its situation: a loop takes a request
that was queued before the current deployment and is refused (the property: the redeploy forgets it), and, afterwards,
a request for the job's pending checkpoint stays queued because that loop is gone (the property: it is acknowledged). -/
def stepRunner (d : DSt) (a : RunnerProc.Act) : DSt × String :=
  let (r', o) := RunnerProc.step d.rp a
  let x := renderR o
  let y := match a, o with
    | .deploy, .deployed (some (_, false)) => if d.rp.queuedAt < d.rp.deploys + 1 then "deployed" else x
    | .start id, .queued =>
        if d.rp.diedStale && d.rp.free == 0 && d.rp.pending == some id then s!"acked {id}" else x
    | _, _ => x
  ({ d with rp := r' }, withSpecId x y "D48")

def stepLine0 (d : DSt) (ws : List String) : DSt × String :=
  match ws with
  | ["st"] => (d, if d.stuck then "QUEUE-STUCK" else showState d.s)
  | ["hang", "s", i] => ({ d with hungS := natOr i :: d.hungS }, "ok")
  | ["hang", "o", i] => ({ d with hungO := natOr i :: d.hungO }, "ok")
  | ["r.deploy"] => stepRunner d .deploy
  | ["r.hold"] => stepRunner d .hold
  | ["r.start", id] => stepRunner d (.start (natOr id))
  | ["r.pend", id] => stepRunner d (.pend (natOr id))
  | ["holdpub"] => ({ d with hold := true }, "ok")
  | ["relpub"] =>
      let ns := d.s.store.writing
      let (d', t) := publishAll d
      ({ d' with hold := false },
       if ns.isEmpty then "nothing" else s!"published {ids ns} cur={optNat d'.s.store.current}" ++ t)
  | ["raceprobe", _] => (d, "ok")  -- concurrency probe for the -race build of the harness; ends its case
  | ["hbxn", _, _] => (d, "ok")  -- the same statement at nanosecond resolution around the deadline
  | ["hbx", _, _] => (d, "ok")   -- spec: C15.heartbeat_expiry_exact, evaluated on the real LivenessTracker
  | ["wstart", k] =>
      let k := natOr k
      if d.started.contains k || k > 4 then (d, "exists")
      else two { d with started := k :: d.started } (.regO k) (.regS (5 + k))
  | ["whb", k] => let k := natOr k; if d.live k then two d (.regO k) (.regS (5 + k)) else (d, "dead")
  | ["wkill", k] => let k := natOr k; if d.live k then ({ d with gone := k :: d.gone }, "ok") else (d, "dead")
  | ["wstop", k] =>
      let k := natOr k
      if d.live k then two { d with gone := k :: d.gone } (.deregS (5 + k)) (.deregO k) else (d, "dead")
  | ["wdeploy"] => deployReal d
  | ["rack", k] => rack d (natOr k)
  | _ =>
    match parse ws with
    | some (.bar i sr id) =>
      let (s', o) := step d.s (.bar i sr id)
      let x := render o
      let line := if x != plain x then x else
        match d56Spec d.s i sr id with
        | some y => withSpecId x y "D56"
        | none => x
      ({ d with s := s' }, line)
    | some .tickB =>
      let (s', o) := step d.s .tickB
      let x := render o
      ({ d with s := s' }, if d57Situation d.s && x != "notick" then withSpecId x "stopped" "D57" else x)
    | some a =>
      -- Finding D71, tagged only in its situation: the queue is blocked behind an AssignSplits call to a runner that does
      -- not answer (the property: the job still processes membership changes; what that would print is not computed,
      -- the spec side only says that it is not stuck)
      let (d', o) := qstep d a
      let x := render o
      (d', if x == "QUEUE-STUCK" then withSpecId x "not-stuck" "D71" else x)
    | none => (d, "bad-op")

def stepLine (d : DSt) (ws : List String) : DSt × String :=
  let (d', o) := stepLine0 d ws
  let (d'', t) := settlePub d'
  -- the notification text goes on the code side and on the spec side of the line
  (d'', if t.isEmpty then o else
    match o.splitOn " #spec " with
    | [x, rest] =>
      (match rest.splitOn " #kf " with
       | [y, k] => s!"{x}{t} #spec {y}{t} #kf {k}"
       | _ => o ++ t)
    | _ => o ++ t)

def handle (lines : Array String) (i : Nat) (out : Array String) : Nat × Array String :=
  let st₀ := match words (lines.getD (i - 1) "") with
    | _ :: _ :: w :: d :: c0 :: b :: _ => init (natOr w) (natOr d) (natOr c0) (natOr b)
    | [_, _, w, d, c0] => init (natOr w) (natOr d) (natOr c0)
    | _ => init 1 5 0
  runLines stepLine { s := st₀ } lines i out

end Driver.C15
