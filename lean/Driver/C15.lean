import Driver.Util
import RxnModel.Model.JobFsm
/-! Driver section for C15: replays the harness' action lines on `JobFsm.step` (the definition the theorems of
`Props/C15.lean` are about) and renders the observations. Header: `M C15 <workerCount> <deadline> <initial ckpt>`. -/
namespace Driver.C15
open Rxn Driver Rxn.JobFsm

def ids (xs : List Nat) : String :=
  if xs.isEmpty then "-" else joinWith "," (xs.map toString)

def optNat : Option Nat → String
  | none => "none"
  | some n => toString n

def showStatus : Status → String
  | .init => "Init" | .paused => "Paused" | .starting => "Starting" | .running => "Running"

def showAck : AckRes → String
  | .ok none => "ok" | .ok (some n) => s!"ok pub={n}" | .nopending => "nopending" | .mismatch => "mismatch"
  | .unknown => "unknown"

def tagsOf (b : List (Nat × Nat)) : String := ids (b.map (·.1))

/-- events of the operator's current deployment only (what a redeploy that discards the batcher would leave) -/
def curOf (b : List (Nat × Nat)) (epoch : Nat) : List (Nat × Nat) := b.filter (·.2 == epoch)

/-- `X` when the code's behaviour is what the property asks for, `X #spec Y #kf D45` when events of a previous
deployment are involved (finding D45) -/
def withSpec (x y : String) : String := if x == y then x else s!"{x} #spec {y} #kf D45"

def flushedSuffix (b : List (Nat × Nat)) : String := if b.isEmpty then "" else s!" flushed={tagsOf b}"

def staleStr (sp : Bool) (sr sb : List Nat) : String :=
  let stale := (if sp then ["pending"] else []) ++ sr.map (fun i => s!"rec:{i}") ++ sb.map (fun i => s!"batch:{i}")
  if stale.isEmpty then "none" else joinWith "+" stale

def render : Out → String
  | .status st none => showStatus st
  | .status st (some d) => s!"{showStatus st} deploy o={ids d.ops} s={ids d.srs} ck={optNat d.ck}"
  | .done => "ok"
  | .nostart => "nostart"
  | .started st ck asg sp sr sb =>
      let pre := s!"{showStatus st} start={optNat ck} as={ids asg} stale="
      withSpec (pre ++ staleStr sp sr sb) (pre ++ staleStr sp sr [])
  | .stopped => "stopped"
  | .retry => "retry"
  | .ckpt id srs => s!"ckpt {id} s={ids srs}"
  | .ack r => showAck r
  | .barOk => "ok"
  | .barAcked pub b e =>
      let pre := match pub with | none => "ok acked" | some n => s!"ok acked pub={n}"
      withSpec (pre ++ flushedSuffix b) (pre ++ flushedSuffix (curOf b e))
  | .barAckErr r b e =>
      withSpec (s!"ackerr {showAck r}" ++ flushedSuffix b) (s!"ackerr {showAck r}" ++ flushedSuffix (curOf b e))
  | .barMismatch => "mismatch"
  | .barBlocked => "blocked"
  | .barNotReady => "notready"
  | .evQueued => "queued"
  | .processed b e => withSpec s!"processed {tagsOf b}" s!"processed {tagsOf (curOf b e)}"
  | .flushEmpty => "empty"

def showState (s : St) : String :=
  let pend := match s.store.pending with
    | none => "none"
    | some p => s!"{p.id}:o{ids p.waitOps}:s{ids p.waitSrs}"
  let recs := (List.range 10).filterMap fun i =>
    match (s.procs i).inflight with
    | some (id, waiting) => some s!"{i}:{id}/{ids waiting}"
    | none => none
  let bats := (List.range 10).filterMap fun i =>
    if (s.procs i).batch.isEmpty then none else some s!"{i}:{tagsOf (s.procs i).batch}"
  s!"{showStatus s.status} reg=o{ids s.ops}:s{ids s.srs} asm=o{ids s.asmOps}:s{ids s.asmSrs} pend={pend} cur={optNat s.store.current} tick={if s.ticker then 1 else 0} rec={if recs.isEmpty then "-" else joinWith ";" recs} bat={if bats.isEmpty then "-" else joinWith ";" bats}"

def parse : List String → Option Act
  | ["reg", "o", i] => some (.regO (natOr i))
  | ["reg", "s", i] => some (.regS (natOr i))
  | ["dereg", "o", i] => some (.deregO (natOr i))
  | ["dereg", "s", i] => some (.deregS (natOr i))
  | ["adv", n] => some (.adv (natOr n))
  | ["deployok"] => some .deployOk
  | ["deployfail", k] => some (.deployFail (natOr k))
  | ["tick"] => some .tick
  | ["ack", "s", i, id] => some (.ackS (natOr i) (natOr id))
  | ["ack", "o", i, id] => some (.ackO (natOr i) (natOr id))
  | ["bar", i, s, id] => some (.bar (natOr i) (natOr s) (natOr id))
  | ["ev", i, s, tag] => some (.ev (natOr i) (natOr s) (natOr tag))
  | ["flush", i] => some (.flush (natOr i))
  | _ => none

/-- driver state: the model state plus what the real-worker ops need to know about worker processes (which exist,
which have halted or stopped); worker `k` runs operator `k` and source runner `5 + k` -/
structure DSt where
  s : St
  started : List Nat := []
  gone : List Nat := []

def DSt.live (d : DSt) (k : Nat) : Bool := d.started.contains k && !d.gone.contains k

def shortBar : Out → String
  | .barOk => "ok"
  | .barAcked _ _ _ => "acked"
  | .barAckErr r _ _ => s!"ackerr:{showAck r}"
  | .barMismatch => "mismatch"
  | .barBlocked => "blocked"
  | .barNotReady => "notready"
  | _ => "?"

def pubOf : Out → Option Nat
  | .barAcked p _ _ => p
  | .ack (.ok p) => p
  | _ => none

/-- `rack k`: the runner's acknowledgement, then its barrier at every live operator of the assembly -/
def rack (d : DSt) (k : Nat) : DSt × String :=
  if !d.live k then (d, "none") else
  match d.s.store.pending with
  | none => (d, "none")
  | some p =>
    if !p.waitSrs.contains (5 + k) then (d, "none") else
    let (s1, o1) := step d.s (.ackS (5 + k) p.id)
    match o1 with
    | .ack (.ok pub0) =>
      let ops := d.s.asmOps.filter (fun i => d.live i)
      let (s2, txt, pub) := ops.foldl (fun (acc : St × String × Option Nat) i =>
        let (s', o) := step acc.1 (.bar i (5 + k) p.id)
        (s', acc.2.1 ++ s!" b{i}={shortBar o}", (pubOf o).orElse fun _ => acc.2.2)) (s1, "ok", pub0)
      ({ d with s := s2 }, txt ++ (match pub with | some n => s!" pub={n}" | none => ""))
    | o => ({ d with s := s1 }, render o)

def deployReal (d : DSt) : DSt × String :=
  if d.s.status != .starting then (d, "nostart") else
  let deadO := d.s.asmOps.findIdx? (fun i => !d.live i)
  let deadS := d.s.asmSrs.findIdx? (fun i => !d.live (i - 5))
  match deadO, deadS with
  | none, none => let (s', o) := step d.s .deployOk; ({ d with s := s' }, render o)
  | some v, _ => let (s', o) := step d.s (.deployFail v); ({ d with s := s' }, render o)
  | none, some v => let (s', o) := step d.s (.deployFail (d.s.asmOps.length + v)); ({ d with s := s' }, render o)

def two (d : DSt) (a b : Act) : DSt × String :=
  let (s1, o1) := step d.s a
  let (s2, o2) := step s1 b
  ({ d with s := s2 }, render o1 ++ " ; " ++ render o2)

def stepLine (d : DSt) (ws : List String) : DSt × String :=
  match ws with
  | ["st"] => (d, showState d.s)
  | ["hbxn", _, _] => (d, "ok")  -- the same statement at nanosecond resolution around the deadline
  | ["hbx", _, _] => (d, "ok")   -- spec: C15.heartbeat_expiry_exact, evaluated on the real LivenessTracker
  | ["wstart", k] =>
      let k := natOr k
      if d.started.contains k || k > 4 then (d, "exists")
      else two { d with started := k :: d.started } (.regO k) (.regS (5 + k))
  | ["whb", k] => let k := natOr k; if d.live k then two d (.regO k) (.regS (5 + k)) else (d, "dead")
  | ["wkill", k] => let k := natOr k; if d.live k then ({ d with gone := k :: d.gone }, "ok") else (d, "dead")
  | ["wstop", k] =>
      let k := natOr k
      if d.live k then two { d with gone := k :: d.gone } (.deregS (5 + k)) (.deregO k) else (d, "dead")
  | ["wdeploy"] => deployReal d
  | ["rack", k] => rack d (natOr k)
  | _ =>
    match parse ws with
    | some a => let (s', o) := step d.s a; ({ d with s := s' }, render o)
    | none => (d, "bad-op")

def handle (lines : Array String) (i : Nat) (out : Array String) : Nat × Array String :=
  let st₀ := match words (lines.getD (i - 1) "") with
    | _ :: _ :: w :: d :: c0 :: b :: _ => init (natOr w) (natOr d) (natOr c0) (natOr b)
    | [_, _, w, d, c0] => init (natOr w) (natOr d) (natOr c0)
    | _ => init 1 5 0
  runLines stepLine { s := st₀ } lines i out

end Driver.C15
