import Driver.Util
import RxnModel.Model.JobFsm
/-! Driver section for C15: replays the harness' action lines on `JobFsm.step` (the definition the theorems of
`Props/C15.lean` are about) and renders the observations. Header: `M C15 <workerCount> <deadline> <initial ckpt>`. -/
namespace Driver.C15
open Rxn Driver Rxn.JobFsm

def ids (xs : List Nat) : String :=
  if xs.isEmpty then "-" else joinWith "," (xs.map toString)

def optNat : Option Nat → String
  | none => "none"
  | some n => toString n

def showStatus : Status → String
  | .init => "Init" | .paused => "Paused" | .starting => "Starting" | .running => "Running"

def showAck : AckRes → String
  | .ok none => "ok" | .ok (some n) => s!"ok pub={n}" | .nopending => "nopending" | .mismatch => "mismatch"
  | .unknown => "unknown"

def render : Out → String
  | .status st none => showStatus st
  | .status st (some d) => s!"{showStatus st} deploy o={ids d.ops} s={ids d.srs} ck={optNat d.ck}"
  | .done => "ok"
  | .nostart => "nostart"
  | .started st ck asg sp sr =>
      let stale := (if sp then ["pending"] else []) ++ sr.map (fun i => s!"rec:{i}")
      s!"{showStatus st} start={optNat ck} as={ids asg} stale={if stale.isEmpty then "none" else joinWith "+" stale}"
  | .stopped => "stopped"
  | .retry => "retry"
  | .ckpt id srs => s!"ckpt {id} s={ids srs}"
  | .ack r => showAck r
  | .barOk => "ok"
  | .barAcked none => "ok acked"
  | .barAcked (some n) => s!"ok acked pub={n}"
  | .barAckErr r => s!"ackerr {showAck r}"
  | .barMismatch => "mismatch"
  | .barBlocked => "blocked"
  | .barNotReady => "notready"
  | .barWouldPanic => "wouldpanic"

def showState (s : St) : String :=
  let pend := match s.store.pending with
    | none => "none"
    | some p => s!"{p.id}:o{ids p.waitOps}:s{ids p.waitSrs}"
  let recs := (List.range 10).filterMap fun i =>
    match (s.procs i).inflight with
    | some (id, waiting) => some s!"{i}:{id}/{ids waiting}"
    | none => none
  s!"{showStatus s.status} reg=o{ids s.ops}:s{ids s.srs} asm=o{ids s.asmOps}:s{ids s.asmSrs} pend={pend} cur={optNat s.store.current} tick={if s.ticker then 1 else 0} rec={if recs.isEmpty then "-" else joinWith ";" recs}"

def parse : List String → Option Act
  | ["reg", "o", i] => some (.regO (natOr i))
  | ["reg", "s", i] => some (.regS (natOr i))
  | ["dereg", "o", i] => some (.deregO (natOr i))
  | ["dereg", "s", i] => some (.deregS (natOr i))
  | ["adv", n] => some (.adv (natOr n))
  | ["deployok"] => some .deployOk
  | ["deployfail", k] => some (.deployFail (natOr k))
  | ["tick"] => some .tick
  | ["ack", "s", i, id] => some (.ackS (natOr i) (natOr id))
  | ["ack", "o", i, id] => some (.ackO (natOr i) (natOr id))
  | ["bar", i, s, id] => some (.bar (natOr i) (natOr s) (natOr id))
  | _ => none

def stepLine (s : St) (ws : List String) : St × String :=
  match ws with
  | ["st"] => (s, showState s)
  | ["hbx", _, _] => (s, "ok")   -- spec: C15.heartbeat_expiry_exact, evaluated on the real LivenessTracker
  | _ =>
    match parse ws with
    | some a => let (s', o) := step s a; (s', render o)
    | none => (s, "bad-op")

def handle (lines : Array String) (i : Nat) (out : Array String) : Nat × Array String :=
  let st₀ := match words (lines.getD (i - 1) "") with
    | [_, _, w, d, c0] => init (natOr w) (natOr d) (natOr c0)
    | _ => init 1 5 0
  runLines stepLine st₀ lines i out

end Driver.C15
