import Driver.Loop
import Driver.C06
/-! Single-model driver for C06 (fallback of `./check C06` when the all-models driver does not build). -/
def dispatchC06 (model : String) : Option (Array String → Nat → Array String → Nat × Array String) :=
  if model == "C06" then some Driver.C06.handle else none

def main : IO Unit := driverMain dispatchC06
