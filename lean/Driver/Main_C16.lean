import Driver.Loop
import Driver.C16
/-! Single-model driver for C16 (fallback of `./check C16` when the all-models driver does not build). -/
def dispatchC16 (model : String) : Option (Array String → Nat → Array String → Nat × Array String) :=
  if model == "C16" then some Driver.C16.handle else none

def main : IO Unit := driverMain dispatchC16
