import Driver.Util
import RxnModel.Model.KeyedState
/-!
Driver section for C03. Header: `M C03 <kgc> <mode> <mem> <target> <small> <batch>` (only `kgc` and `batch` matter here).
Every op line may carry ` ## <implementation output>` (trace validation); only `wm` reads it.

Ops (token grammar; bytes in hex, `-` = empty):
* `apply <subj> (ns <ns> (p <ek> <v> | d <ek>)*)*`      `ApplyMutations`                          → `ok`
* `get <subj>` / `getmid <subj>`                         `GetState`                                → state
* `tput <subj> <t>` / `tdel <subj> <t>`                  timer store write-through                 → `ok`
* `batch (ev <key>)* (res <key> (t <t>)* (ns <ns> (p .. | d ..)*)*)*`   one `processEventBatch`    → key states
* `wm <t> (res ..)*`      watermark: the due timers fire as TimerExpired events, in chunks of the batch size; which
                          timer fires when is read from the implementation's output and checked against the model's
                          set of due timers; the response answers the first invocation  → `<events>=><key states> | ..`
* `ckpt` / `restart [new] [<id>]`   DKV checkpoint (ids 1,2,..) / redeploy from the latest or the named retained checkpoint → `ok`
* `rot` / `wait`             background timing of the LSM: no effect on the map                     → `ok`
* `prefixfree ..` / `inj ..` / `disjoint ..` / `decode ..`  theorem instances evaluated on the real encoders → `ok`
-/
namespace Driver.C03
open Rxn Driver Rxn.KeyedState

structure St where
  kgc : Nat := 0
  batch : Nat := 1
  ops : OpState := {}
  /-- timers in the DKV (mechanism bookkeeping for `wm`; what fires when is C10's subject) -/
  pending : List (Bytes × Nat) := []
  savedPending : List (Nat × List (Bytes × Nat)) := []
  ckptN : Nat := 0
  /-- composite watermark in ns since the epoch; a new deployment starts at the epoch (`NewTimerRegistry`, fix D58) -/
  wm : Nat := 0

def showEntries (es : List (Bytes × Bytes)) : String :=
  joinWith "," (es.map fun e => toHex e.1 ++ "=" ++ toHex e.2)

def showState (st : List NsState) : String :=
  if st.isEmpty then "-" else String.join (st.map fun g => toHex g.1 ++ "[" ++ showEntries g.2 ++ "]")

def parseMuts : List String → List Mut × List String
  | "p" :: ek :: v :: rest => let (ms, r) := parseMuts rest; (Mut.put (hexOr ek) (hexOr v) :: ms, r)
  | "d" :: ek :: rest => let (ms, r) := parseMuts rest; (Mut.del (hexOr ek) :: ms, r)
  | rest => ([], rest)

partial def parseNss : List String → List NsMuts × List String
  | "ns" :: ns :: rest =>
    let (ms, r) := parseMuts rest
    let (nss, r') := parseNss r
    ((hexOr ns, ms) :: nss, r')
  | rest => ([], rest)

def parseTimers : List String → List Nat × List String
  | "t" :: t :: rest => let (ts, r) := parseTimers rest; (natOr t :: ts, r)
  | rest => ([], rest)

partial def parseResults : List String → List KeyResult × List String
  | "res" :: key :: rest =>
    let (ts, r) := parseTimers rest
    let (nss, r') := parseNss r
    let (krs, r'') := parseResults r'
    ({ key := hexOr key, timers := ts, muts := nss } :: krs, r'')
  | rest => ([], rest)

def parseEvents : List String → List Bytes × List String
  | "ev" :: k :: rest => let (ks, r) := parseEvents rest; (hexOr k :: ks, r)
  | rest => ([], rest)

def showKeyStates (ks : List (Bytes × List NsState)) : String :=
  if ks.isEmpty then "none" else joinWith ";" (ks.map fun p => toHex p.1 ++ ":" ++ showState p.2)

/-- op tokens and the implementation's output tokens -/
def splitFeed : List String → List String × List String
  | [] => ([], [])
  | "##" :: rest => ([], rest)
  | w :: rest => let (a, b) := splitFeed rest; (w :: a, b)

/-- `SetTimer`'s guard: only timers strictly after the composite watermark are stored -/
def guardOK (wm : Nat) (t : Nat) : Bool := wm < t

def applyGuard (wm : Nat) (res : List KeyResult) : List KeyResult :=
  res.map fun kr => { kr with timers := kr.timers.filter (guardOK wm) }

def addPending (p : List (Bytes × Nat)) (res : List KeyResult) : List (Bytes × Nat) :=
  res.foldl (fun p kr => kr.timers.foldl (fun p t => if p.contains (kr.key, t) then p else p ++ [(kr.key, t)]) p) p

/-- the fired events of each invocation as the implementation reports them: `k@t,k@t=>…` separated by `|` -/
def parseFiring (impl : List String) : List (List (Bytes × Nat)) :=
  (impl.filter (fun w => w ≠ "|" && w ≠ "none")).map fun w =>
    let evs := (w.splitOn "=>").headD ""
    (evs.splitOn ",").filterMap fun e =>
      match e.splitOn "@" with
      | [k, t] => some (hexOr k, natOr t)
      | _ => none

def showFired (c : List (Bytes × Nat)) : String := joinWith "," (c.map fun e => toHex e.1 ++ "@" ++ toString e.2)

/-- every chunk but the last is a full batch; the last holds between 1 and `b` events -/
def chunksOK (b : Nat) : List (List (Bytes × Nat)) → Bool
  | [] => true
  | [c] => 0 < c.length && c.length ≤ b
  | c :: cs => c.length == b && chunksOK b cs

def runChunks (kgc : Nat) : OpState → List (List (Bytes × Nat)) → List KeyResult → OpState × List String
  | s, [], _ => (s, [])
  | s, c :: cs, res =>
    let (s', obs) := opStep kgc s (.batch { fired := c, events := c.map (·.1), resp := res })
    let (s'', outs) := runChunks kgc s' cs []
    (s'', (showFired c ++ "=>" ++ showKeyStates (obs.getD [])) :: outs)

def stepKV (st : St) (a : Act) : St := { st with ops := { st.ops with kv := KeyedState.step st.kgc st.ops.kv a } }

def step (st : St) (line : List String) : St × String :=
  let (ws, impl) := splitFeed line
  match ws with
  | "apply" :: subj :: rest =>
    let (nss, r) := parseNss rest
    if r.isEmpty then (stepKV st (.apply (hexOr subj) nss), "ok") else (st, "bad-op")
  | ["get", subj] => (st, showState (getState st.kgc st.ops.kv (hexOr subj)))
  | ["getmid", subj] => (st, showState (getState st.kgc st.ops.kv (hexOr subj)))
  | ["tput", subj, t] => (stepKV st (.timerPut (hexOr subj) (natOr t)), "ok")
  | ["tdel", subj, t] => (stepKV st (.timerDel (hexOr subj) (natOr t)), "ok")
  | "batch" :: rest =>
    let (evs, r1) := parseEvents rest
    let (res, r2) := parseResults r1
    if r2.isEmpty then
      let res := applyGuard st.wm res
      let (ops', obs) := opStep st.kgc st.ops (.batch { fired := [], events := evs, resp := res })
      ({ st with ops := ops', pending := addPending st.pending res }, showKeyStates (obs.getD []))
    else (st, "bad-op")
  | "wm" :: t :: rest =>
    let (res, r2) := parseResults rest
    if r2.isEmpty then
      let T := natOr t
      let res := applyGuard T res
      let due := st.pending.filter (fun p => p.2 ≤ T)
      let chunks := parseFiring impl
      let fired := chunks.flatten
      let valid := fired.length == due.length && fired.all due.contains && fired.eraseDups.length == fired.length &&
        chunksOK st.batch chunks
      if !valid then ({ st with wm := T }, "bad-firing due=" ++ showFired due)
      else if chunks.isEmpty then ({ st with wm := T }, "none")
      else
        let (ops', outs) := runChunks st.kgc st.ops chunks res
        let rest := st.pending.filter (fun p => !(p.2 ≤ T))
        ({ st with ops := ops', wm := T, pending := addPending rest res }, joinWith " | " outs)
    else (st, "bad-op")
  | ["ckpt"] =>
    let id := st.ckptN + 1
    ({ st with ops := (opStep st.kgc st.ops (.ckpt id)).1, savedPending := (id, st.pending) :: st.savedPending, ckptN := id }, "ok")
  | "restart" :: args =>
    -- `restart [new] [<id>]`: the latest retained checkpoint, or the named retained one
    let id := match args.filter (· ≠ "new") with
      | i :: _ => natOr i
      | [] => (st.ops.saved.head?.map (·.1)).getD 0
    match lookupCkpt st.ops.saved id with
    | none => (st, "no-checkpoint")
    | some _ =>
      ({ st with ops := (opStep st.kgc st.ops (.restore id)).1, pending := (lookupCkpt st.savedPending id).getD [],
                 savedPending := keepOnly st.savedPending id, wm := 0 }, "ok")
  | ["rot"] => (st, "ok")
  | ["wait"] => (st, "ok")
  | ["prefixfree", _, _, _, _] => (st, "ok")      -- C03.subject_prefix_free
  | ["inj", _, _, _, _, _, _] => (st, "ok")       -- C03.dbkey_injective
  | ["disjoint", _, _, _] => (st, "ok")           -- C03.state_timer_disjoint
  | ["decode", k, ns, d] =>                       -- C03.decode_encode (model side evaluates its own decoder)
    let r := decodeKey (Keys.dbKey st.kgc (hexOr k) (hexOr ns) (hexOr d))
    (st, toHex r.1 ++ " " ++ toHex r.2)
  | _ => (st, "bad-op")

def handle (lines : Array String) (i : Nat) (out : Array String) : Nat × Array String :=
  let hdr := if i = 0 then [] else words (lines[i - 1]!)
  let kgc := match hdr with
    | _ :: _ :: k :: _ => natOr k
    | _ => 256
  let b := match hdr with
    | _ :: _ :: _ :: _ :: _ :: _ :: _ :: b :: _ => natOr b
    | _ => 8
  runLines step { kgc := kgc, batch := b } lines i out

end Driver.C03
