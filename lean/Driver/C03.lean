import Driver.Util
import RxnModel.Model.KeyedState
/-!
Driver section for C03. Header: `M C03 <kgc>`.

Ops (token grammar; bytes in hex, `-` = empty):
* `apply <subj> (ns <ns> (p <ek> <v> | d <ek>)*)*`      `ApplyMutations`                          → `ok`
* `get <subj>` / `getmid <subj>`                         `GetState` (`getmid`: background commits land between the scan's two snapshots) → state
* `tput <subj> <t>` / `tdel <subj> <t>`                  timer store write-through                 → `ok`
* `batch (fire <subj> <t>)* (ev <key>)* (res <key> (t <t>)* (ns <ns> (p .. | d ..)*)*)*`
                                                         one `processEventBatch`                   → key states
* `rot` / `wait` / `ckpt`                                background timing of the LSM: no effect on the map → `ok`
* `prefixfree ..` / `inj ..` / `disjoint ..` / `decode ..`  theorem instances evaluated on the real encoders → `ok`
-/
namespace Driver.C03
open Rxn Driver Rxn.KeyedState

structure St where
  kgc : Nat := 0
  kv : KV := []

def showEntries (es : List (Bytes × Bytes)) : String :=
  joinWith "," (es.map fun e => toHex e.1 ++ "=" ++ toHex e.2)

def showState (st : List NsState) : String :=
  if st.isEmpty then "-" else String.join (st.map fun g => toHex g.1 ++ "[" ++ showEntries g.2 ++ "]")

def parseMuts : List String → List Mut × List String
  | "p" :: ek :: v :: rest => let (ms, r) := parseMuts rest; (Mut.put (hexOr ek) (hexOr v) :: ms, r)
  | "d" :: ek :: rest => let (ms, r) := parseMuts rest; (Mut.del (hexOr ek) :: ms, r)
  | rest => ([], rest)

partial def parseNss : List String → List NsMuts × List String
  | "ns" :: ns :: rest =>
    let (ms, r) := parseMuts rest
    let (nss, r') := parseNss r
    ((hexOr ns, ms) :: nss, r')
  | rest => ([], rest)

def parseTimers : List String → List Nat × List String
  | "t" :: t :: rest => let (ts, r) := parseTimers rest; (natOr t :: ts, r)
  | rest => ([], rest)

partial def parseResults : List String → List KeyResult × List String
  | "res" :: key :: rest =>
    let (ts, r) := parseTimers rest
    let (nss, r') := parseNss r
    let (krs, r'') := parseResults r'
    ({ key := hexOr key, timers := ts, muts := nss } :: krs, r'')
  | rest => ([], rest)

def parseFired : List String → List (Bytes × Nat) × List String
  | "fire" :: k :: t :: rest => let (fs, r) := parseFired rest; ((hexOr k, natOr t) :: fs, r)
  | rest => ([], rest)

def parseEvents : List String → List Bytes × List String
  | "ev" :: k :: rest => let (ks, r) := parseEvents rest; (hexOr k :: ks, r)
  | rest => ([], rest)

def showKeyStates (ks : List (Bytes × List NsState)) : String :=
  if ks.isEmpty then "none" else joinWith ";" (ks.map fun p => toHex p.1 ++ ":" ++ showState p.2)

def step (st : St) : List String → St × String
  | "apply" :: subj :: rest =>
    let (nss, r) := parseNss rest
    if r.isEmpty then ({ st with kv := KeyedState.step st.kgc st.kv (.apply (hexOr subj) nss) }, "ok") else (st, "bad-op")
  | ["get", subj] => (st, showState (getState st.kgc st.kv (hexOr subj)))
  | ["getmid", subj] => (st, showState (getState st.kgc st.kv (hexOr subj)))
  | ["tput", subj, t] => ({ st with kv := KeyedState.step st.kgc st.kv (.timerPut (hexOr subj) (natOr t)) }, "ok")
  | ["tdel", subj, t] => ({ st with kv := KeyedState.step st.kgc st.kv (.timerDel (hexOr subj) (natOr t)) }, "ok")
  | "batch" :: rest =>
    let (fired, r0) := parseFired rest
    let (evs, r1) := parseEvents r0
    let (res, r2) := parseResults r1
    if r2.isEmpty then
      let (kv', states) := processBatch st.kgc st.kv { fired := fired, events := evs, resp := res }
      ({ st with kv := kv' }, showKeyStates states)
    else (st, "bad-op")
  | ["rot"] => (st, "ok")
  | ["wait"] => (st, "ok")
  | ["ckpt"] => (st, "ok")
  | ["prefixfree", _, _, _, _] => (st, "ok")      -- C03.subject_prefix_free
  | ["inj", _, _, _, _, _, _] => (st, "ok")       -- C03.dbkey_injective
  | ["disjoint", _, _, _] => (st, "ok")           -- C03.state_timer_disjoint
  | ["decode", k, ns, d] =>                       -- C03.decode_encode (model side evaluates its own decoder)
    let r := decodeKey (Keys.dbKey st.kgc (hexOr k) (hexOr ns) (hexOr d))
    (st, toHex r.1 ++ " " ++ toHex r.2)
  | _ => (st, "bad-op")

def handle (lines : Array String) (i : Nat) (out : Array String) : Nat × Array String :=
  let kgc := match (if i = 0 then [] else words (lines[i - 1]!)) with
    | _ :: _ :: k :: _ => natOr k
    | _ => 256
  runLines step { kgc := kgc } lines i out

end Driver.C03
