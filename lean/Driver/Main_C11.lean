import Driver.Loop
import Driver.C11
/-! Single-model driver for C11 (fallback of `./check C11` when the all-models driver does not build). -/
def dispatchC11 (model : String) : Option (Array String → Nat → Array String → Nat × Array String) :=
  if model == "C11" then some Driver.C11.handle else none

def main : IO Unit := driverMain dispatchC11
