import Driver.Loop
import Driver.C04
/-! Single-model driver for C04 (fallback of `./check C04` when the all-models driver does not build). -/
def dispatchC04 (model : String) : Option (Array String → Nat → Array String → Nat × Array String) :=
  if model == "C04" then some Driver.C04.handle else none

def main : IO Unit := driverMain dispatchC04
