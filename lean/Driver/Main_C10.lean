import Driver.Loop
import Driver.C10
/-! Single-model driver for C10 (fallback of `./check C10` when the all-models driver does not build). -/
def dispatchC10 (model : String) : Option (Array String → Nat → Array String → Nat × Array String) :=
  if model == "C10" then some Driver.C10.handle else none

def main : IO Unit := driverMain dispatchC10
