import Driver.Util
import RxnModel.Model.Splits
/-!
Driver section for C16. Header: `M C16 kin <shards> <runners>` | `M C16 cut` | `M C16 misc`.
`kin` runs the model of the code as it is (`keep = false`) and the ideal splitter that also persists withheld
shards (`keep = true`) side by side; where they differ the line is `X #spec Y #kf D16c`.
-/
namespace Driver.C16
open Rxn Rxn.Splits Driver

structure KSt where
  impl : Sp
  spec : Sp
  started : Bool := false

inductive St where
  | kin (k : KSt)
  | cut (r : RSt)
  | ecut
  | ckrace
  | kread (k : KRd)
  | job (j : JSt) (deployed : Bool)
  | misc

def splitOnC (s : String) (c : String) : List String :=
  if s == "-" || s == "" then [] else (s.splitOn c).filter (· ≠ "")

def natList (s : String) : List Nat := (splitOnC s ",").map natOr

/-- a read batch: split ids in emission order, `a*n` = `n` records of split `a` -/
def batchList (s : String) : List Nat :=
  (splitOnC s ",").flatMap fun x => match x.splitOn "*" with
    | [a, n] => List.replicate (natOr n) (natOr a)
    | _ => [natOr x]

/-- `a=b,c=d` or `a@b,c@d` -/
def pairList (sep : String) (s : String) : List (Nat × Nat) :=
  (splitOnC s ",").map fun p => match p.splitOn sep with
    | [a, b] => (natOr a, natOr b)
    | _ => (0, 0)

def insertSorted (x : Nat) : List Nat → List Nat
  | [] => [x]
  | y :: ys => if x ≤ y then x :: y :: ys else y :: insertSorted x ys

def sortNat (l : List Nat) : List Nat := l.foldl (fun acc x => insertSorted x acc) []

def insertPair (x : Nat × Nat) : List (Nat × Nat) → List (Nat × Nat)
  | [] => [x]
  | y :: ys => if x.1 < y.1 || (x.1 == y.1 && x.2 ≤ y.2) then x :: y :: ys else y :: insertPair x ys

def sortPairs (l : List (Nat × Nat)) : List (Nat × Nat) := l.foldl (fun acc x => insertPair x acc) []

def showCur (c : Nat) : String := if c == 0 then "-" else toString c

def showCall (runners : Nat) (c : Call) : String :=
  let parts := (List.range runners).filterMap fun r =>
    let mine := sortPairs ((c.filter (·.1 == r)).map fun x => (x.2.1, x.2.2))
    if mine.isEmpty then none
    else some s!"r{r}:[{joinWith "," (mine.map fun p => s!"{p.1}@{showCur p.2}")}]"
  "A " ++ joinWith " " parts

def showCalls (runners : Nat) (cs : List Call) : String :=
  if cs.isEmpty then "-" else joinWith " | " (cs.map (showCall runners))

/-- the model of the code and the ideal splitter are run side by side; since D16c and D52 are repaired they are the
same model (`codeKeep = codeReadd = true`), so a difference cannot arise; should a future change of the switches
reintroduce one, the line carries an id that is no recorded finding and is therefore reported -/
def both (_impl : Sp) (a b : String) : String :=
  if a == b then a else s!"{a} #spec {b} #kf UNEXPLAINED"

def parentsOf (s : Sp) (i : Nat) : List Nat := (s.stream[i]?.map (·.parents)).getD []

def firstDup : List Nat → Option Nat
  | [] => none
  | x :: xs => if xs.contains x then some x else firstDup xs

/-- the statements of `one_reader`, `children_withheld` and completeness after a tick, evaluated on a state -/
def chk (withLost : Bool) (s : Sp) : String :=
  match firstDup (sortNat s.log) with
  | some i => s!"dup {i}"
  | none =>
    match (sortNat s.log).find? (fun i => (parentsOf s i).any (fun p => !s.done.contains p)) with
    | some i => s!"early {i}"
    | none =>
      match (List.range s.stream.length).find? (fun i => withLost &&
          !s.done.contains i && !s.log.contains i && (parentsOf s i).all (fun p => s.done.contains p)) with
      | some i => s!"lost {i}"
      | none => "ok"

def showCkpt (s : Sp) : String :=
  match s.ck with
  | none => "none"
  | some c =>
    let ids := sortNat ((c.tr.known.filter (isAssigned c.tr)).map (·.id))
    let last := if c.tr.next == 0 then "-" else toString (c.tr.next - 1)
    s!"last={last} assigned={joinWith "," (ids.map toString)}"

/-- the code under test resumes shards whose reported position the splitter had dropped (D52 repaired, /repo c7455f1:
`resumeFinishedShards`); `false` was the old rule (`C16.reported_positions_resumed_counterexample`). -/
def codeReadd : Bool := true

/-- the code under test persists withheld shards in the splitter checkpoint (D16c repaired, /repo e1d3d29:
`withheld_shards`, `CheckpointState`); `false` was the old rule (`C16.children_withheld_counterexample`). With
`codeKeep` and `codeReadd` the code is the ideal splitter. -/
def codeKeep : Bool := true

def kstep (k : KSt) (a : Act) (withLost : Bool := true) : KSt × String :=
  let (i', ci) := Splits.step codeKeep codeReadd k.impl a
  let (s', cs) := Splits.step true true k.spec a
  ({ k with impl := i', spec := s' },
   both i' (showCalls i'.runners ci ++ " ; " ++ chk withLost i') (showCalls s'.runners cs ++ " ; " ++ chk withLost s'))

/-- maximal runs of a sorted list, `a-b` -/
def runsOf : List Nat → Option (Nat × Nat) → List String
  | [], none => []
  | [], some (a, b) => [if a == b then toString a else s!"{a}-{b}"]
  | x :: xs, none => runsOf xs (some (x, x))
  | x :: xs, some (a, b) =>
    if x == b + 1 then runsOf xs (some (a, x))
    else (if a == b then toString a else s!"{a}-{b}") :: runsOf xs (some (x, x))

def showIdx (l : List Nat) : String := if l.isEmpty then "-" else joinWith "." (runsOf (sortNat l) none)

def showBarrier (r : RSt) : String :=
  match r.reports.getLast? with
  | none => "none"
  | some rep =>
    let snap := sortPairs (rep.snap.map fun x => (x.split, x.cur))
    let pre := r.out.take rep.pos
    let st := joinWith "," (snap.map fun p => s!"{p.1}={p.2}")
    let del := joinWith " " (snap.map fun p => s!"{p.1}:{showIdx (recIdx p.1 pre)}")
    s!"st {st} | {del}"

def stepKin (k : KSt) (ws : List String) : KSt × String :=
  let env := match ws with
    | "start" :: _ | "restore" :: _ | "split" :: _ | "merge" :: _ => true
    | _ => false
  if !k.started && !env then (k, "not-started") else
  match ws with
  | ["start"] => kstep { k with started := true } .start
  | ["restore"] => kstep { k with started := true } .start
  | ["tick"] => kstep k .tick
  | ["finish", ids] => kstep k (.finish (natList ids)) false
  | ["ckpt", states] =>
    let (k', _) := kstep k (.ckpt (pairList "=" states))
    (k', both k'.impl (showCkpt k'.impl) (showCkpt k'.spec))
  | ["split", i, a] =>
    let ok := (envSplit k.impl (natOr i) (natOr a)).isSome
    ((kstep k (.split (natOr i) (natOr a))).1, if ok then "ok" else "err")
  | ["merge", i, j] =>
    let ok := (envMerge k.impl (natOr i) (natOr j)).isSome
    ((kstep k (.merge (natOr i) (natOr j))).1, if ok then "ok" else "err")
  | ["chk"] => (k, both k.impl (chk true k.impl) (chk true k.spec))
  | _ => (k, "bad-op")

def stepCut (r : RSt) : List String → RSt × String
  | ["assign", l] => (rstep r (.assign (pairList "@" l)), "ok")
  | ["read", b] =>
    let r' := rstep r (.read (batchList b))
    (r', s!"n={r'.out.length - r.out.length}")
  | ["barrier", n] => let r' := rstep r (.barrier (natOr n)); (r', showBarrier r')
  -- a checkpoint request arriving while a read is under way (before / after the cursors move, or while the read's
  -- records are being emitted): the read is one atomic action of the loop (C16.read_is_atomic), the barrier follows it
  | ["readbar1", n, b] => let r' := rstep (rstep r (.read (batchList b))) (.barrier (natOr n)); (r', showBarrier r')
  | ["readbar2", n, b] => let r' := rstep (rstep r (.read (batchList b))) (.barrier (natOr n)); (r', showBarrier r')
  | ["readbar3", n, _, b] => let r' := rstep (rstep r (.read (batchList b))) (.barrier (natOr n)); (r', showBarrier r')
  | ["end"] => (r, "ok")   -- spec: C16.cursor_matches_cut_partial for every report
  | _ => (r, "bad-op")

def showGroups (gs : List (List Nat)) : String :=
  joinWith ";" (gs.map fun g => if g.isEmpty then "-" else joinWith "." (g.map toString))

def showEmb (gs : List (List Nat)) : String :=
  let parts := (List.range gs.length).filterMap fun r =>
    match gs[r]? with
    | some g => if g.isEmpty then none else some s!"r{r}:[{joinWith "," (g.map fun i => s!"{i}@-")}]"
    | none => none
  "A " ++ joinWith " " parts

def stepMisc : List String → String
  | ["part", len, n] => showGroups (partition (List.range (natOr len)) (natOr n))
  | ["partchk", _, _] => "ok"      -- spec: C16.partition_exact
  | ["embchk", _, _] => "ok"       -- spec: C16.partition_exact / partition_disjoint on `embeddedAssign`
  | ["emb", k, n] => showEmb (embeddedAssign (natOr k) (natOr n))
  | ["http", n, states] =>
    if natOr n == 0 then "A " else
      s!"A r0:[only@{toHex (httpCursor ((splitOnC states ",").map hexOr))}]"
  | ["uidx", lo, hi, n] => toString (uidx (natOr lo) (natOr hi) (natOr n))
  | _ => "bad-op"

/-- `shard@-` (from the start) or `shard@seq` (after that sequence number): (shard, position) -/
def kAssignList (s : String) : List (Nat × Nat) :=
  (splitOnC s ",").map fun p => match p.splitOn "@" with
    | [a, "-"] => (natOr a, 0)
    | [a, b] => (natOr a, natOr b + 1)
    | _ => (0, 0)

/-- the real Kinesis reader under the real runner, one gated `ReadEvents` per `kread`. `kread` / `kbarrier` print the
verdict of `C16.cursor_matches_cut_kinesis_partial` evaluated on the implementation (spec `ok`); the `…m` forms print what the
model of the round-robin reader predicts (mechanism). -/
def stepKread (k : KRd) : List String → KRd × String
  | ["put", s, n] =>
    if k.closed.contains (natOr s) then (k, "closed")   -- a closed shard takes no more records
    else ((Splits.kstep k (.put (natOr s) (natOr n))).1, "ok")
  | ["close", s] => ((Splits.kstep k (.close (natOr s))).1, "ok")
  | ["expire"] => ((Splits.kstep k .expire).1, "ok")
  | ["assign", l] => ((Splits.kstep k (.assign (kAssignList l))).1, "ok")
  | ["fail", n] => ((Splits.kstep k (.fail (natOr n))).1, "ok")
  | ["kread"] => ((Splits.kstep k .read).1, "ok")
  | ["kreadm"] =>
    let (k', o) := Splits.kstep k .read
    (k', match o with
      | some (some n) => s!"n={n}"
      | some none => "err"
      | none => "bad")
  | ["kbarrier", n] => ((Splits.kstep k (.barrier (natOr n))).1, "ok")
  | ["kbarrierm", n] => let k' := (Splits.kstep k (.barrier (natOr n))).1; (k', showBarrier k'.r)
  | ["end"] => (k, "ok")
  | _ => (k, "bad-op")

def showOptNat : Option Nat → String
  | none => "-"
  | some n => toString n

def showStart (r : JSt × Option JObs) : JSt × String :=
  match r.2 with
  | some (d, c) => (r.1, s!"dep {showOptNat d} | only@{showOptNat c} ; ok")   -- `ok`: C16.job_resumes_restored_cut
  | none => (r.1, "bad")

def stepJob (j : JSt) (deployed : Bool) (ws : List String) : JSt × String :=
  if !deployed && ws != ["deploy"] then (j, "not-deployed") else
  match ws with
  | ["deploy"] => showStart (jstep j (.start false))
  | ["fail"] => showStart (jstep j (.start false))
  | ["fail", "race"] => showStart (jstep j (.start true))
  | ["ckpt", p] => ((jstep j (.ckpt (natOr p) false)).1, s!"ck {j.lastId + 1}")
  | ["ckpt", p, "hold"] => ((jstep j (.ckpt (natOr p) true)).1, s!"ck {j.lastId + 1} held")
  | ["release"] => ((jstep j .release).1, "ok")
  | _ => (j, "bad-op")

def step (st : St) (ws : List String) : St × String :=
  match st with
  | .kin k => let (k', o) := stepKin k ws; (.kin k', o)
  | .cut r => let (r', o) := stepCut r ws; (.cut r', o)
  | .ecut => (.ecut, match ws with   -- free-running real reader: every op evaluates C16.cursor_matches_cut_partial, spec `ok`
      | ["assign", _] | ["pause", _] | ["barrier", _] => "ok"
      | _ => "bad-op")
  | .ckrace => (.ckrace, match ws with   -- spec: the checkpoint is one consistent view (C16.checkpoint_is_one_locked_read)
      | ["stress", _, _] => "ok"
      | _ => "bad-op")
  | .kread k => let (k', o) := stepKread k ws; (.kread k', o)
  | .job j d => let (j', o) := stepJob j d ws; (.job j' (d || ws == ["deploy"]), o)
  | .misc => (.misc, stepMisc ws)

def initSt (header : String) : St :=
  match words header with
  | "M" :: "C16" :: "kin" :: shards :: runners :: _ =>   -- an optional third number: ListShards page size (harness only)
    let s := initSp (natOr shards) (natOr runners)
    .kin { impl := s, spec := s }
  | "M" :: "C16" :: "cut" :: _ => .cut {}
  | "M" :: "C16" :: "ecut" :: _ => .ecut
  | "M" :: "C16" :: "job" :: _ => .job {} false
  | "M" :: "C16" :: "ckrace" :: _ => .ckrace
  | ["M", "C16", "kread", _, _, _, _, limit] => .kread { limit := natOr limit }
  | _ => .misc

def handle (lines : Array String) (i : Nat) (out : Array String) : Nat × Array String :=
  runLines step (initSt (lines.getD (i - 1) "")) lines i out

end Driver.C16
