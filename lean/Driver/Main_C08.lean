import Driver.Loop
import Driver.C08
/-! Single-model driver for C08 (fallback of `./check C08` when the all-models driver does not build). -/
def dispatchC08 (model : String) : Option (Array String → Nat → Array String → Nat × Array String) :=
  if model == "C08" then some Driver.C08.handle else none

def main : IO Unit := driverMain dispatchC08
