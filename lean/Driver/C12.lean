import Driver.Util
import RxnModel.Model.Publish
/-! Driver section for C12: the `snapshots.Store` call protocol (`Model/Store.lean`) with synchronous
publication (`Model/Publish.lean`: write, lock section, removals run right after the finishing call) and
store restarts (`crash` = new Store + LoadCheckpoint). -/
namespace Driver.C12
open Rxn Driver Rxn.Store

structure St where
  sys : Publish.Sys := Publish.init []
  descs : List (Nat × String) := []     -- contents of the snapshot files by id
  savepoints : List Nat := []           -- published savepoints whose artifact the harness can restore (no operators)
  artifacts : List Nat := []            -- ids of the savepoint artifacts in the storage (operator-less published savepoints)
  armed : Bool := false                 -- the harness parks the next `sourceSplitter.Checkpoint()`
  held : Option Call := none            -- the call that is inside `Checkpoint()`: it holds `stateMu`
  queue : List Call := []               -- calls issued meanwhile: blocked on `stateMu`, run after it in order
  maxHanded : Nat := 0                  -- history: the highest id handed out so far in this storage, across restarts
  spConfig : Option Nat := none         -- the job is configured with the savepoint URI of this checkpoint (kept across restarts)

def natList (s : String) : List Nat :=
  if s == "-" then [] else (s.splitOn ",").map natOr

def showNats (l : List Nat) : String :=
  if l.isEmpty then "-" else joinWith "," (l.map toString)

def descOf (p : Snap) : String :=
  let ents := p.opEntries.map fun e => s!"{e.op}:{e.cp}:{e.tag}"
  s!"id={p.id} ops={if ents.isEmpty then "-" else joinWith ";" ents} splits={showNats p.splitStates}"

def showRes : Res → String
  | .id n => s!"id {n}"
  | .inProgress => "inprogress"
  | .spExisting n => s!"sp existing {n}"
  | .spCreated n => s!"sp created {n}"
  | .spAlready => "sp already"
  | .ok => "ok"
  | .errNoPending => "err nopending"
  | .errWrongId => "err wrongid"
  | .errUnknown => "err unknown"

def applyAll (s : Publish.Sys) (as : List Publish.Act) : Publish.Sys :=
  as.foldl (fun s a => match Publish.step s a with | some (s', _) => s' | none => s) s

/-- one store call (a finished snapshot is published to the end at once: ungated storage): the new state, what the code (as modelled) answers and what the property demands.
The two differ only in the situation of D55: the call starts a checkpoint and the id it hands out was already
handed out before a restart (it had not been persisted when the job process was lost). -/
def call2 (st : St) (c : Call) : St × String × String :=
  let tagId (st : St) (r : Res) : St × String × String :=
    match r.created with
    | [n] =>
      let st' := { st with maxHanded := max st.maxHanded n }
      if n ≤ st.maxHanded then
        (st', showRes r, showRes (match r with | .spCreated _ => .spCreated (st.maxHanded + 1) | _ => .id (st.maxHanded + 1)))
      else (st', showRes r, showRes r)
    | _ => (st, showRes r, showRes r)
  match Publish.step st.sys (.call c) with
  | some (s1, [.res r]) => tagId { st with sys := s1 } r
  | some (s1, [.res r, .finished snap]) =>
    let s2 := applyAll s1 [.write snap.id, .lock snap.id]
    let s3 := applyAll s2 (s2.pub.removes.map Publish.Act.remove)
    let out := s!"{showRes r} pub {descOf snap}"
    ({ st with sys := s3, descs := (snap.id, descOf snap) :: st.descs,
               savepoints := if snap.isSavepoint && snap.opEntries.isEmpty then snap.id :: st.savepoints else st.savepoints,
               artifacts := if snap.isSavepoint && snap.opEntries.isEmpty then snap.id :: st.artifacts else st.artifacts },
     out, out)
  | _ => (st, "model-error", "model-error")

def tagged (model spec : String) : String :=
  if model == spec then model else s!"{model} #spec {spec} #kf D55"

def call (st : St) (c : Call) : St × String :=
  let (st', m, sp) := call2 st c
  (st', tagged m sp)

/-- a store call issued by the harness: while another call is parked inside `Checkpoint()` it blocks on the
store mutex (`Facts.c12CallsAtomic`, `Facts.c12FinishHoldsLock`) and runs after it -/
def issue (st : St) (c : Call) : St × String :=
  match st.held with
  | some _ => ({ st with queue := st.queue ++ [c] }, "blocked")
  | none =>
    if st.armed && (Store.step st.sys.store c).2.2.isSome then
      ({ st with armed := false, held := some c }, "held")
    else call st c

def release (st : St) : St × String :=
  match st.held with
  | none => (st, "released -")
  | some c =>
    let (st1, m0, s0) := call2 { st with held := none, queue := [] } c
    let (st2, ms, ss) := st.queue.foldl (fun (acc : St × List String × List String) q =>
      let (s', m, sp) := call2 acc.1 q
      (s', acc.2.1 ++ [m], acc.2.2 ++ [sp])) (st1, [m0], [s0])
    -- savepoints published inside the window are not used for restarts (their artifact creation races with the
    -- later publications of the window on the real store; see the harness)
    ({ st2 with savepoints := st.savepoints }, tagged ("released " ++ joinWith " ; " ms) ("released " ++ joinWith " ; " ss))

def step (st : St) : List String → St × String
  | ["create", ops, srs] => issue st (.create (natList ops) (natList srs))
  | ["savepoint", ops, srs] => issue st (.savepoint (natList ops) (natList srs))
  | ["opack", op, cp, tag] => issue st (.opAck (natOr op) (natOr cp) (natOr tag))
  -- an acknowledgement with an unusual payload (e.g. no key group range): the store does not inspect payloads,
  -- it records the entry like any other
  | ["opack", op, cp, tag, _] => issue st (.opAck (natOr op) (natOr cp) (natOr tag))
  | ["srack", sr, cp, splits] => issue st (.srAck (natOr sr) (natOr cp) (natList splits))
  | ["redeploy"] => issue st .redeploy
  | ["hold"] => if st.held.isSome then (st, "skipped") else ({ st with armed := true }, "armed")
  | ["release"] => release st
  | ["sprestart", k, mode] =>
    if st.held.isSome then (st, "skipped")
    else if (natOr k) ∈ st.savepoints then
      let files := if mode == "fresh" then [] else st.sys.pub.files
      let written := if mode == "fresh" then [] else st.sys.pub.written
      -- a fresh storage location starts a new lineage from the savepoint; in the job's own storage the ids
      -- handed out so far stay taken
      let st' := { st with sys := Publish.bootSavepoint (natOr k) files written st.sys.pub.delivered [] [] st.artifacts, armed := false,
                           maxHanded := if mode == "fresh" then natOr k else st.maxHanded, spConfig := some (natOr k) }
      -- D64 (open): the job is ALREADY configured with this savepoint (this is a restart of the same job, not a
      -- reconfiguration) and its storage holds a newer completed checkpoint: the code goes back to the savepoint,
      -- the property demands the newest completed checkpoint
      let newest := Publish.maxL files
      if mode != "fresh" && st.spConfig == some (natOr k) && newest > natOr k then
        (st', s!"loaded {natOr k} #spec loaded {newest} #kf D64")
      else (st', s!"loaded {natOr k}")
    else (st, "nosavepoint")
  | ["current"] =>
    if st.held.isSome then (st, "skipped") else
    match st.sys.pub.current with
    | none => (st, "cur none")
    | some n => (st, s!"cur {(st.descs.lookup n).getD s!"id={n} ?"}")
  | ["restart"] =>
    if st.held.isSome then (st, "skipped") else
    match Publish.step st.sys .crash with
    | some (s', [.loaded none]) => ({ st with sys := s', armed := false, spConfig := none }, "loaded none")
    | some (s', [.loaded (some n)]) => ({ st with sys := s', armed := false, spConfig := none }, s!"loaded {n}")
    | _ => (st, "model-error")
  | _ => (st, "bad-op")

def handle (lines : Array String) (i : Nat) (out : Array String) : Nat × Array String :=
  runLines step {} lines i out

end Driver.C12
