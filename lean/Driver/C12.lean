import Driver.Util
import RxnModel.Model.Publish
/-! Driver section for C12: the `snapshots.Store` call protocol (`Model/Store.lean`) with synchronous
publication (`Model/Publish.lean`: write, lock section, removals run right after the finishing call) and
store restarts (`crash` = new Store + LoadCheckpoint). -/
namespace Driver.C12
open Rxn Driver Rxn.Store

structure St where
  sys : Publish.Sys := Publish.init []
  descs : List (Nat × String) := []     -- contents of the snapshot files by id

def natList (s : String) : List Nat :=
  if s == "-" then [] else (s.splitOn ",").map natOr

def showNats (l : List Nat) : String :=
  if l.isEmpty then "-" else joinWith "," (l.map toString)

def descOf (p : Snap) : String :=
  let ents := p.opEntries.map fun e => s!"{e.op}:{e.cp}:{e.tag}"
  s!"id={p.id} ops={if ents.isEmpty then "-" else joinWith ";" ents} splits={showNats p.splitStates}"

def showRes : Res → String
  | .id n => s!"id {n}"
  | .inProgress => "inprogress"
  | .spExisting n => s!"sp existing {n}"
  | .spCreated n => s!"sp created {n}"
  | .spAlready => "sp already"
  | .ok => "ok"
  | .errNoPending => "err nopending"
  | .errWrongId => "err wrongid"
  | .errUnknown => "err unknown"

def applyAll (s : Publish.Sys) (as : List Publish.Act) : Publish.Sys :=
  as.foldl (fun s a => match Publish.step s a with | some (s', _) => s' | none => s) s

/-- a store call; a finished snapshot is published to the end at once (ungated storage) -/
def call (st : St) (c : Call) : St × String :=
  match Publish.step st.sys (.call c) with
  | some (s1, [.res r]) => ({ st with sys := s1 }, showRes r)
  | some (s1, [.res r, .finished snap]) =>
    let s2 := applyAll s1 [.write snap.id, .lock snap.id]
    let s3 := applyAll s2 (s2.pub.removes.map Publish.Act.remove)
    ({ sys := s3, descs := (snap.id, descOf snap) :: st.descs }, s!"{showRes r} pub {descOf snap}")
  | _ => (st, "model-error")

def step (st : St) : List String → St × String
  | ["create", ops, srs] => call st (.create (natList ops) (natList srs))
  | ["savepoint", ops, srs] => call st (.savepoint (natList ops) (natList srs))
  | ["opack", op, cp, tag] => call st (.opAck (natOr op) (natOr cp) (natOr tag))
  | ["srack", sr, cp, splits] => call st (.srAck (natOr sr) (natOr cp) (natList splits))
  | ["redeploy"] => call st .redeploy
  | ["current"] =>
    match st.sys.pub.current with
    | none => (st, "cur none")
    | some n => (st, s!"cur {(st.descs.lookup n).getD s!"id={n} ?"}")
  | ["restart"] =>
    match Publish.step st.sys .crash with
    | some (s', [.loaded none]) => ({ st with sys := s' }, "loaded none")
    | some (s', [.loaded (some n)]) => ({ st with sys := s' }, s!"loaded {n}")
    | _ => (st, "model-error")
  | _ => (st, "bad-op")

def handle (lines : Array String) (i : Nat) (out : Array String) : Nat × Array String :=
  runLines step {} lines i out

end Driver.C12
