import Driver.Loop
import Driver.C20
/-! Single-model driver for C20 (fallback of `./check C20` when the all-models driver does not build). -/
def dispatchC20 (model : String) : Option (Array String → Nat → Array String → Nat × Array String) :=
  if model == "C20" then some Driver.C20.handle else none

def main : IO Unit := driverMain dispatchC20
