import Driver.Util
import RxnModel.Model.Timers
/-!
Driver section for C11. Header: `M C11 <lateness> <maxBatch> <runners> <kgc>`.
Runs `Wm.Watermarker`/`Wm.runnerStep` and the operator event loop `Timers.Op` (the definitions the theorems of
Props/C11.lean are about).
-/
namespace Driver.C11
open Rxn Driver Rxn.Timers

structure St where
  kgc : Nat := 1
  w : Wm.Watermarker := Wm.Watermarker.new 0
  op : Op := ⟨Registry.new (Store.new [] 1 0 1 0) [], [], 1⟩
  -- the property's own reading, computed without the regenerated facts (C11.wm_eq_max_minus, composite_eq_min,
  -- handler_sees_composite say the model agrees); a deviating line is emitted as `#spec`
  lat : Int := 0
  maxSeen : Int := Wm.zeroTime
  -- the source runner's own watermarker (`&wmark.Watermarker{}`: no allowed lateness), driven through `sendOperatorEvent`
  rw : Wm.Watermarker := Wm.Watermarker.new 0
  rmaxSeen : Int := Wm.zeroTime
  -- the runner's event loop: the output stream so far, the batch size, how much the operator has been shown
  loopEvs : List Wm.REv := []
  loopN : Nat := 1
  loopShown : Nat := 0
  ids : List String := []
  msgs : List (String × Int) := []

def intOr (s : String) : Int := s.toInt?.getD 0

def initSt (hdr : List String) : St :=
  match hdr with
  | ["M", _, lat, maxBatch, runners, kgc] =>
    let ids := (List.range (natOr runners)).map fun i => s!"sr{i}"
    -- the operator owns the whole key space; its timer cache is `size.GB`
    let store := Store.new [] (natOr kgc) 0 (natOr kgc) 1073741824
    -- `NewEventBatcher`: `MaxSize == 0` means 1
    let mb := if natOr maxBatch = 0 then 1 else natOr maxBatch
    { w := Wm.Watermarker.new (intOr lat), op := ⟨Registry.new store ids, [], mb⟩, lat := intOr lat, ids := ids,
      loopN := natOr maxBatch, kgc := natOr kgc }
  | _ => {}

def showEv : HEv → String
  | .keyed k _ => s!"k{toHex k}"
  | .expired k t => s!"x{toHex k}@{t}"

def showReq (r : Req) : String := s!"[{r.told};{joinWith "," (r.events.map showEv)}]"

def showReqs (rs : List Req) : String := if rs.isEmpty then "-" else joinWith "" (rs.map showReq)

def parseInts (s : String) : List Int := if s == "-" then [] else (s.splitOn ",").map intOr

def withSpec (model spec : String) : String :=
  if model == spec then model else s!"{model} #spec {spec} #kf spec-deviation"

/-- minimum over all configured or reporting runners of the latest report (the epoch if none); `time.Time{}` before any message -/
def specComposite (ids : List String) (msgs : List (String × Int)) : Int :=
  match msgs with
  | [] => Wm.zeroTime
  | _ =>
    let runners := ids ++ msgs.map (·.1)
    match runners.map (fun id => ((msgs.reverse.find? (·.1 == id)).map (·.2)).getD 0) with
    | [] => Wm.zeroTime
    | v :: vs => vs.foldl (fun m x => if x < m then x else m) v

/-- every request of the step must carry the composite -/
def retold (c : Int) (rs : List Req) : List Req := rs.map fun r => { r with told := c }

def showSEv : Wm.SEv → String
  | .ev t => s!"k{t}"
  | .wm v => s!"w{v}"

/-- the property's own reading of a delivered stream: each watermark = largest event before it − 1 (the runner's
watermarker has no allowed lateness) -/
def respec (m : Int) : List Wm.SEv → List Wm.SEv
  | [] => []
  | .ev t :: s => .ev t :: respec (if t > m then t else m) s
  | .wm _ :: s => .wm (m - 1) :: respec m s

/-- one raw event of a read: `-` = keyed to nothing, `a+b` = keyed to events with these timestamps -/
def parseRaw (s : String) : Wm.REv := .events (if s == "-" then [] else (s.splitOn "+").map intOr)

/-- the operator-mode operations (`Timers.Op`: keyed events, watermark messages, source completions, redeployments);
also the operator mode of C10's driver section — it does not touch the watermarker definitions -/
def stepOp (st : St) : List String → St × String
  | ["keyed", _, k, ts] =>
    let r := st.op.keyed (hexOr k) (parseInts ts)
    let c := specComposite st.ids st.msgs
    ({ st with op := r.1 }, withSpec s!"c={r.1.reg.wm} {showReqs r.2}" s!"c={c} {showReqs (retold c r.2)}")
  | ["complete", i] =>
    -- `SourceComplete` of a runner: flushes the batch; the runner's latest watermark keeps counting
    let r := st.op.complete s!"sr{natOr i}"
    let c := specComposite st.ids st.msgs
    ({ st with op := r.1 }, withSpec s!"c={r.1.reg.wm} {showReqs r.2}" s!"c={c} {showReqs (retold c r.2)}")
  | ["redeploy"] =>
    -- `HandleDeploy` again on the same operator (fresh storage): new registry, no runner has reported
    ({ st with op := st.op.redeploy (Store.new [] st.kgc 0 st.kgc 1073741824) st.ids, msgs := [] }, "ok")
  | ["wm", i, t] =>
    let r := st.op.watermark s!"sr{natOr i}" (intOr t)
    let msgs := st.msgs ++ [(s!"sr{natOr i}", intOr t)]
    let c := specComposite st.ids msgs
    ({ st with op := r.1, msgs := msgs }, withSpec s!"c={r.1.reg.wm} {showReqs r.2}" s!"c={c} {showReqs (retold c r.2)}")
  | _ => (st, "bad-op")

def step (st : St) : List String → St × String
  | "lread" :: raws => ({ st with loopEvs := st.loopEvs ++ raws.map parseRaw }, "ok")
  | ["ltick"] => ({ st with loopEvs := st.loopEvs ++ [.tick] }, "ok")
  | ["ldrain"] =>
    let d := Wm.delivered st.loopN (Wm.Watermarker.new 0) st.loopEvs
    let line (l : List Wm.SEv) := if (l.drop st.loopShown).isEmpty then "-" else joinWith "," ((l.drop st.loopShown).map showSEv)
    ({ st with loopShown := d.length }, withSpec (line d) (line (respec Wm.zeroTime d)))
  | "evs" :: ts =>
    ({ st with w := (Wm.runnerStep st.w (.events (ts.map intOr))).1,
               maxSeen := (ts.map intOr).foldl (fun m x => if x > m then x else m) st.maxSeen }, "ok")
  | ["tick"] =>
    let spec := toString (st.maxSeen - (st.lat + 1))
    match Wm.runnerStep st.w .tick with
    | (w, some v) => ({ st with w := w }, withSpec (toString v) spec)
    | (w, none) => ({ st with w := w }, withSpec "none" spec)
  | "revs" :: ts =>
    ({ st with rw := (Wm.runnerStep st.rw (.events (ts.map intOr))).1,
               rmaxSeen := (ts.map intOr).foldl (fun m x => if x > m then x else m) st.rmaxSeen }, "ok")
  | ["rtick"] =>
    let spec := toString (st.rmaxSeen - 1)
    match Wm.runnerStep st.rw .tick with
    | (w, some v) => ({ st with rw := w }, withSpec (toString v) spec)
    | (w, none) => ({ st with rw := w }, withSpec "none" spec)
  | ws => stepOp st ws


def handle (lines : Array String) (i : Nat) (out : Array String) : Nat × Array String :=
  let hdr := if i = 0 then [] else words (lines.getD (i - 1) "")
  runLines step (initSt hdr) lines i out

end Driver.C11
