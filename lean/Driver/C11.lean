import Driver.Util
import RxnModel.Model.Timers
/-!
Driver section for C11. Header: `M C11 <lateness> <maxBatch> <runners> <kgc>`.
Runs `Wm.Watermarker`/`Wm.runnerStep` and the operator event loop `Timers.Op` (the definitions the theorems of
Props/C11.lean are about).
-/
namespace Driver.C11
open Rxn Driver Rxn.Timers

structure St where
  w : Wm.Watermarker := Wm.Watermarker.new 0
  op : Op := ⟨Registry.new (Store.new [] 1 0 1 0) [], [], 1⟩

def intOr (s : String) : Int := s.toInt?.getD 0

def initSt (hdr : List String) : St :=
  match hdr with
  | ["M", _, lat, maxBatch, runners, kgc] =>
    let ids := (List.range (natOr runners)).map fun i => s!"sr{i}"
    -- the operator owns the whole key space; its timer cache is `size.GB`
    let store := Store.new [] (natOr kgc) 0 (natOr kgc) 1073741824
    -- `NewEventBatcher`: `MaxSize == 0` means 1
    let mb := if natOr maxBatch = 0 then 1 else natOr maxBatch
    { w := Wm.Watermarker.new (intOr lat), op := ⟨Registry.new store ids, [], mb⟩ }
  | _ => {}

def showEv : HEv → String
  | .keyed k _ => s!"k{toHex k}"
  | .expired k t => s!"x{toHex k}@{t}"

def showReq (r : Req) : String := s!"[{r.told};{joinWith "," (r.events.map showEv)}]"

def showReqs (rs : List Req) : String := if rs.isEmpty then "-" else joinWith "" (rs.map showReq)

def parseInts (s : String) : List Int := if s == "-" then [] else (s.splitOn ",").map intOr

def step (st : St) : List String → St × String
  | "evs" :: ts =>
    ({ st with w := (Wm.runnerStep st.w (.events (ts.map intOr))).1 }, "ok")
  | ["tick"] =>
    match Wm.runnerStep st.w .tick with
    | (w, some v) => ({ st with w := w }, toString v)
    | (w, none) => ({ st with w := w }, "none")
  | ["keyed", _, k, ts] =>
    let r := st.op.keyed (hexOr k) (parseInts ts)
    ({ st with op := r.1 }, s!"c={r.1.reg.wm} {showReqs r.2}")
  | ["wm", i, t] =>
    let r := st.op.watermark s!"sr{natOr i}" (intOr t)
    ({ st with op := r.1 }, s!"c={r.1.reg.wm} {showReqs r.2}")
  | _ => (st, "bad-op")

def handle (lines : Array String) (i : Nat) (out : Array String) : Nat × Array String :=
  let hdr := if i = 0 then [] else words (lines.getD (i - 1) "")
  runLines step (initSt hdr) lines i out

end Driver.C11
