import Driver.Util
import RxnModel.Model.Timers
/-!
Driver section for C11. Header: `M C11 <lateness> <maxBatch> <runners> <kgc>`.
Runs `Wm.Watermarker`/`Wm.runnerStep` and the operator event loop `Timers.Op` (the definitions the theorems of
Props/C11.lean are about).
-/
namespace Driver.C11
open Rxn Driver Rxn.Timers

structure St where
  cache : Nat := 1073741824     -- timer cache bytes of the operator (`size.GB` unless the harness shrinks it)
  ckptDb : Option Timers.DB := none
  kgc : Nat := 1
  toldSpec : Bool := true   -- compare what the handler is told with the property's own reading
  w : Wm.Watermarker := Wm.Watermarker.new 0
  op : Op := ⟨Registry.new (Store.new [] 1 0 1 0) [], [], 1⟩
  -- the property's own reading, computed without the regenerated facts (C11.wm_eq_max_minus, composite_eq_min,
  -- handler_sees_composite say the model agrees); a deviating line is emitted as `#spec`
  lat : Int := 0
  maxSeen : Int := Wm.zeroTime
  -- the source runner's own watermarker (`&wmark.Watermarker{}`: no allowed lateness), driven through `sendOperatorEvent`
  rw : Wm.Watermarker := Wm.Watermarker.new 0
  rmaxSeen : Int := Wm.zeroTime
  -- the runner's event loop: the output stream so far, the batch size, how much the operator has been shown
  loopEvs : List Wm.REvK := []
  loopN : Nat := 1
  loopK : Nat := 1                       -- operators of the runner's cluster (header field `runners` in loop cases)
  loopW : Wm.Watermarker := Wm.Watermarker.new 0   -- the runner's watermarker when the current deployment started
  loopMax : Int := Wm.zeroTime           -- spec side: largest event timestamp forwarded in earlier deployments
  loopShown : List Nat := []
  loopStarted : Bool := false            -- the runner has been deployed (first loop operation seen)
  loopFirstEmpty : Bool := false         -- the first assignment round of a deployment is empty
  loopReading : Bool := true             -- the runner has been assigned a split (its source is being read)
  ids : List String := []
  msgs : List (String × Int) := []
  -- operator mode, specification side: the timer-set specification decides which timers may reach the handler
  sspec : Spec := Spec.new []
  squeue : List HEv := []                -- events the specification has produced and the handler has not been given yet
  sckpt : Option (List (Bytes × Int)) := none
  stale : Nat := 0                       -- events at the head of the operator's batch that were queued before the last (re)deployment
  tainted : Bool := false                -- the current deployment's state descends from handling such events (finding D45)
  ckptTainted : Bool := false            -- … and so does the last checkpoint
  aligned : List Nat := []               -- runners whose barrier of the current checkpoint has arrived

def intOr (s : String) : Int := s.toInt?.getD 0

def initSt (hdr : List String) : St :=
  match hdr with
  | "M" :: _ :: lat :: maxBatch :: runners :: kgc :: more =>
    let cache := match more with | c :: _ => natOr c | [] => 1073741824
    let ids := (List.range (natOr runners)).map fun i => s!"sr{i}"
    -- the operator owns the whole key space; its timer cache is `size.GB`
    let store := Store.new [] (natOr kgc) 0 (natOr kgc) cache
    -- `NewEventBatcher`: `MaxSize == 0` means 1
    let mb := if natOr maxBatch = 0 then 1 else natOr maxBatch
    { w := Wm.Watermarker.new (intOr lat), op := ⟨Registry.new store ids, [], mb⟩, lat := intOr lat, ids := ids,
      sspec := Spec.new ids,
      loopN := natOr maxBatch, loopK := natOr runners, kgc := natOr kgc, cache := cache }
  | _ => {}

def showEv : HEv → String
  | .keyed k _ => s!"k{toHex k}"
  | .expired k t => s!"x{toHex k}@{t}"

def showReq (r : Req) : String := s!"[{r.told};{joinWith "," (r.events.map showEv)}]"

def showReqs (rs : List Req) : String := if rs.isEmpty then "-" else joinWith "" (rs.map showReq)

def parseInts (s : String) : List Int := if s == "-" then [] else (s.splitOn ",").map intOr

def withSpecKf (kf model spec : String) : String :=
  if model == spec then model else s!"{model} #spec {spec} #kf {kf}"

def withSpec (model spec : String) : String := withSpecKf "spec-deviation" model spec

/-- the property's own reading: minimum over all configured or reporting runners of the latest report, the epoch for
a runner that has not reported — also when no runner has reported yet (finding D58, repaired: the code told `time.Time{}` then) -/
def specComposite (ids : List String) (msgs : List (String × Int)) : Int :=
  let runners := ids ++ msgs.map (·.1)
  match runners.map (fun id => ((msgs.reverse.find? (·.1 == id)).map (·.2)).getD 0) with
  | [] => 0
  | v :: vs => vs.foldl (fun m x => if x < m then x else m) v

/-- no deviation of what the handler is told is a recorded finding any more (D58 was repaired by 204a1f7) -/
def toldKf (_msgs : List (String × Int)) : String := "spec-deviation"

/-- every request of the step must carry the composite -/
def retold (c : Int) (rs : List Req) : List Req := rs.map fun r => { r with told := c }

def showSEv : Wm.SEv → String
  | .ev t => s!"k{t}"
  | .wm v => s!"w{v}"

/-- the property's own reading of the stream handed to the operators: each watermark = largest event timestamp
forwarded before it (to any operator, in any deployment of this runner) − 1 ns (the runner's watermarker has no
allowed lateness) -/
def respecTagged (m : Int) : List (Option Nat × Wm.SEv) → List (Option Nat × Wm.SEv)
  | [] => []
  | (d, .ev t) :: s => (d, .ev t) :: respecTagged (if t > m then t else m) s
  | (d, .wm _) :: s => (d, .wm (m - 1)) :: respecTagged m s

def maxEvTagged (m : Int) : List (Option Nat × Wm.SEv) → Int
  | [] => m
  | (_, .ev t) :: s => maxEvTagged (if t > m then t else m) s
  | (_, .wm _) :: s => maxEvTagged m s

/-- one raw event of a read: `-` = keyed to nothing, `t:key+t:key` = keyed to events with these timestamps and keys
(`t` alone: key `k`); the operator index is `KeySpace.RangeIndex` over 8 key groups and `k` operators -/
def parseRawK (k : Nat) (s : String) : Wm.REvK :=
  .events (if s == "-" then [] else (s.splitOn "+").map fun x =>
    match x.splitOn ":" with
    | [t, key] => (KeySpace.rangeIndex 8 (if k = 0 then 1 else k) (hexOr key), intOr t)
    | _ => (KeySpace.rangeIndex 8 (if k = 0 then 1 else k) [0x6b], intOr x))

def opLine (st : St) (kf model spec : String) : String := if st.toldSpec then withSpecKf kf model spec else model

/-- canonical order of fired timers in operator mode (one key group: the DB order is timestamp, then subject key) -/
def firedLe (a b : Bytes × Int) : Bool := a.2 < b.2 || (a.2 == b.2 && Bytes.cmp a.1 b.1 != .gt)
def insertFired (x : Bytes × Int) : List (Bytes × Int) → List (Bytes × Int)
  | [] => [x]
  | y :: ys => if firedLe x y then x :: y :: ys else y :: insertFired x ys

/-- the specification's reading of the requests of one operation. The batch boundaries are mechanism and are taken from
the model's requests; **which** events are handed over is the specification's: the next events of `squeue`, after
dropping the events that were queued before the last (re)deployment (`stale`; the code hands them to the new
deployment: finding D45). Returns the new state, the specification's requests and whether stale events were involved. -/
def specReqs (st : St) (c : Int) : List Req → St × List Req × Bool
  | [] => (st, [], false)
  | r :: rs =>
    let k := min st.stale r.events.length
    let m := r.events.length - k
    let evs := st.squeue.take m
    let st1 := { st with stale := st.stale - k, squeue := st.squeue.drop m, sspec := specHandle st.sspec evs,
                         tainted := st.tainted || decide (k > 0) }
    let rest := specReqs st1 c rs
    (rest.1, { events := evs, told := c } :: rest.2.1, decide (k > 0) || rest.2.2)

/-- one operator-mode line: model requests against the specification's -/
def opStep (st : St) (r : Op × List Req) (msgs : List (String × Int)) : St × String :=
  let c := specComposite st.ids msgs
  let sr := specReqs { st with op := r.1, msgs := msgs } c r.2
  let kf := if sr.2.2 || sr.1.tainted then "D45" else toldKf msgs
  (sr.1, opLine st kf s!"c={r.1.reg.wm} {showReqs r.2}" s!"c={c} {showReqs sr.2.1}")

/-- the operator-mode operations (`Timers.Op`: keyed events, watermark messages, source completions, barriers, recovery,
redeployments); also the operator mode of C10's driver section — it does not touch the watermarker definitions -/
def stepOp (st : St) : List String → St × String
  | ["keyed", _, k, ts] =>
    let st := { st with squeue := st.squeue ++ [.keyed (hexOr k) (parseInts ts)] }
    opStep st (st.op.keyed (hexOr k) (parseInts ts)) st.msgs
  | ["complete", i] =>
    -- `SourceComplete` of a runner: flushes the batch; the runner's latest watermark keeps counting
    opStep st (st.op.complete s!"sr{natOr i}") st.msgs
  | ["redeploy"] =>
    -- `HandleDeploy` again on the same operator (fresh storage): new registry, no runner has reported. What was still
    -- batched belongs to the abandoned deployment: the specification drops it, the code keeps it (D45)
    let op := st.op.redeploy (Store.new [] st.kgc 0 st.kgc st.cache) st.ids
    ({ st with op := op, msgs := [], sspec := Spec.new st.ids, squeue := [], stale := op.batch.length, tainted := false,
               aligned := [] }, "ok")
  | ["barrier"] =>
    -- barriers of all runners: the batch is flushed, then the DB is checkpointed
    let r := opStep st st.op.barrier st.msgs
    ({ r.1 with ckptDb := some r.1.op.reg.store.db, sckpt := some r.1.sspec.pending, ckptTainted := r.1.tainted, aligned := [] }, r.2)
  | ["bar", i] =>
    -- the barrier of one runner; the last one of an alignment flushes and checkpoints
    let al := if st.aligned.contains (natOr i) then st.aligned else natOr i :: st.aligned
    if al.length ≥ st.ids.length then
      let r := opStep st st.op.barrier st.msgs
      ({ r.1 with ckptDb := some r.1.op.reg.store.db, sckpt := some r.1.sspec.pending, ckptTainted := r.1.tainted, aligned := [] }, r.2)
    else
      let r := opStep st (st.op, []) st.msgs
      ({ r.1 with aligned := al }, r.2)
  | ["recover"] =>
    -- `HandleDeploy` again with the last checkpoint: fresh caches and registry over the checkpointed DB content
    match st.ckptDb with
    | none => (st, "nockpt")
    | some db =>
      let op := st.op.redeploy (Store.new db st.kgc 0 st.kgc st.cache) st.ids
      ({ st with op := op, msgs := [], sspec := { Spec.new st.ids with pending := st.sckpt.getD [] }, squeue := [],
                 stale := op.batch.length, tainted := st.ckptTainted, aligned := [] }, "ok")
  | ["wm", i, t] =>
    let sp := st.sspec.advance s!"sr{natOr i}" (intOr t)
    let fired := sp.2.foldr insertFired []
    let st := { st with sspec := sp.1, squeue := st.squeue ++ fired.map fun p => HEv.expired p.1 p.2 }
    opStep st (st.op.watermark s!"sr{natOr i}" (intOr t)) (st.msgs ++ [(s!"sr{natOr i}", intOr t)])
  | _ => (st, "bad-op")

def step (st : St) : List String → St × String
  | "lread" :: raws =>
    -- nothing can be read before the runner has a split (the harness answers without touching the runner)
    if !st.loopReading then ({ st with loopStarted := true }, "no-split") else
    ({ st with loopStarted := true, loopEvs := st.loopEvs ++ raws.map (parseRawK st.loopK) }, "ok")
  | ["ltick"] => ({ st with loopStarted := true, loopEvs := st.loopEvs ++ [.tick] }, "ok")
  -- a split-assignment round (`HandleAssignSplits`, empty or not) does not touch the watermarker: an idle runner's
  -- ticks are stamped like any other (`CurrentWatermark()` of what it has forwarded so far), so `wm_monotone_partial` applies
  | ["lassign", a] =>
    if !st.loopStarted then
      ({ st with loopStarted := true, loopFirstEmpty := a == "0", loopReading := a != "0" }, "ok")
    else ({ st with loopReading := st.loopReading || a != "0" }, "ok")
  | ["ldrain"] =>
    let k := if st.loopK = 0 then 1 else st.loopK
    let b := Wm.batchSize st.loopN
    let tagged := Wm.sentTagged st.loopW (Wm.sentPrefixK (Wm.rawCountK st.loopEvs / b * b) st.loopEvs)
    let spec := respecTagged st.loopMax tagged
    let ds := (List.range k).map fun j => Wm.deliveredTo st.loopN st.loopW st.loopEvs j
    let shown (j : Nat) := st.loopShown.getD j 0
    let line (l : List Wm.SEv) (j : Nat) := if (l.drop (shown j)).isEmpty then "-" else joinWith "," ((l.drop (shown j)).map showSEv)
    let model := joinWith " | " ((List.range k).map fun j => line (ds.getD j []) j)
    let specLine := joinWith " | " ((List.range k).map fun j => line ((Wm.streamOf j spec).take (ds.getD j []).length) j)
    ({ st with loopStarted := true, loopShown := ds.map (·.length) }, withSpec model specLine)
  | ["ldeploy"] =>
    -- `HandleDeploy` again on the same runner: new operator cluster (empty batchers), the watermarker is kept
    let b := Wm.batchSize st.loopN
    let tagged := Wm.sentTagged st.loopW (Wm.sentPrefixK (Wm.rawCountK st.loopEvs / b * b) st.loopEvs)
    ({ st with loopW := Wm.stateAfterSent st.loopN st.loopW st.loopEvs, loopMax := maxEvTagged st.loopMax tagged,
               loopEvs := [], loopShown := [], loopStarted := true, loopReading := !st.loopFirstEmpty }, "ok")
  | "evs" :: ts =>
    ({ st with w := (Wm.runnerStep st.w (.events (ts.map intOr))).1,
               maxSeen := (ts.map intOr).foldl (fun m x => if x > m then x else m) st.maxSeen }, "ok")
  | ["tick"] =>
    let spec := toString (st.maxSeen - (st.lat + 1))
    match Wm.runnerStep st.w .tick with
    | (w, some v) => ({ st with w := w }, withSpec (toString v) spec)
    | (w, none) => ({ st with w := w }, withSpec "none" spec)
  | "revs" :: ts =>
    ({ st with rw := (Wm.runnerStep st.rw (.events (ts.map intOr))).1,
               rmaxSeen := (ts.map intOr).foldl (fun m x => if x > m then x else m) st.rmaxSeen }, "ok")
  | ["rtick"] =>
    let spec := toString (st.rmaxSeen - 1)
    match Wm.runnerStep st.rw .tick with
    | (w, some v) => ({ st with rw := w }, withSpec (toString v) spec)
    | (w, none) => ({ st with rw := w }, withSpec "none" spec)
  | ws => stepOp st ws


def handle (lines : Array String) (i : Nat) (out : Array String) : Nat × Array String :=
  let hdr := if i = 0 then [] else words (lines.getD (i - 1) "")
  runLines step (initSt hdr) lines i out

end Driver.C11
