import Driver.Util
import RxnModel.Model.Timers
/-!
Driver section for C11. Header: `M C11 <lateness> <maxBatch> <runners> <kgc>`.
Runs `Wm.Watermarker`/`Wm.runnerStep` and the operator event loop `Timers.Op` (the definitions the theorems of
Props/C11.lean are about).
-/
namespace Driver.C11
open Rxn Driver Rxn.Timers

structure St where
  cache : Nat := 1073741824     -- timer cache bytes of the operator (`size.GB` unless the harness shrinks it)
  ckptDb : Option Timers.DB := none
  kgc : Nat := 1
  toldSpec : Bool := true   -- compare what the handler is told with the property's own reading
  w : Wm.Watermarker := Wm.Watermarker.new 0
  op : Op := ⟨Registry.new (Store.new [] 1 0 1 0) [], [], 1⟩
  -- the property's own reading, computed without the regenerated facts (C11.wm_eq_max_minus, composite_eq_min,
  -- handler_sees_composite say the model agrees); a deviating line is emitted as `#spec`
  lat : Int := 0
  maxSeen : Int := Wm.zeroTime
  -- the source runner's own watermarker (`&wmark.Watermarker{}`: no allowed lateness), driven through `sendOperatorEvent`
  rw : Wm.Watermarker := Wm.Watermarker.new 0
  rmaxSeen : Int := Wm.zeroTime
  -- the runner's event loop: the output stream so far, the batch size, how much the operator has been shown
  loopEvs : List Wm.REvK := []
  loopN : Nat := 1
  loopK : Nat := 1                       -- operators of the runner's cluster (header field `runners` in loop cases)
  loopW : Wm.Watermarker := Wm.Watermarker.new 0   -- the runner's watermarker when the current deployment started
  loopMax : Int := Wm.zeroTime           -- spec side: largest event timestamp forwarded in earlier deployments
  loopShown : List Nat := []
  ids : List String := []
  msgs : List (String × Int) := []

def intOr (s : String) : Int := s.toInt?.getD 0

def initSt (hdr : List String) : St :=
  match hdr with
  | "M" :: _ :: lat :: maxBatch :: runners :: kgc :: more =>
    let cache := match more with | c :: _ => natOr c | [] => 1073741824
    let ids := (List.range (natOr runners)).map fun i => s!"sr{i}"
    -- the operator owns the whole key space; its timer cache is `size.GB`
    let store := Store.new [] (natOr kgc) 0 (natOr kgc) cache
    -- `NewEventBatcher`: `MaxSize == 0` means 1
    let mb := if natOr maxBatch = 0 then 1 else natOr maxBatch
    { w := Wm.Watermarker.new (intOr lat), op := ⟨Registry.new store ids, [], mb⟩, lat := intOr lat, ids := ids,
      loopN := natOr maxBatch, loopK := natOr runners, kgc := natOr kgc, cache := cache }
  | _ => {}

def showEv : HEv → String
  | .keyed k _ => s!"k{toHex k}"
  | .expired k t => s!"x{toHex k}@{t}"

def showReq (r : Req) : String := s!"[{r.told};{joinWith "," (r.events.map showEv)}]"

def showReqs (rs : List Req) : String := if rs.isEmpty then "-" else joinWith "" (rs.map showReq)

def parseInts (s : String) : List Int := if s == "-" then [] else (s.splitOn ",").map intOr

def withSpecKf (kf model spec : String) : String :=
  if model == spec then model else s!"{model} #spec {spec} #kf {kf}"

def withSpec (model spec : String) : String := withSpecKf "spec-deviation" model spec

/-- the property's own reading: minimum over all configured or reporting runners of the latest report, the epoch for
a runner that has not reported — also when no runner has reported yet (finding D58, repaired: the code told `time.Time{}` then) -/
def specComposite (ids : List String) (msgs : List (String × Int)) : Int :=
  let runners := ids ++ msgs.map (·.1)
  match runners.map (fun id => ((msgs.reverse.find? (·.1 == id)).map (·.2)).getD 0) with
  | [] => 0
  | v :: vs => vs.foldl (fun m x => if x < m then x else m) v

/-- no deviation of what the handler is told is a recorded finding any more (D58 was repaired by 204a1f7) -/
def toldKf (_msgs : List (String × Int)) : String := "spec-deviation"

/-- every request of the step must carry the composite -/
def retold (c : Int) (rs : List Req) : List Req := rs.map fun r => { r with told := c }

def showSEv : Wm.SEv → String
  | .ev t => s!"k{t}"
  | .wm v => s!"w{v}"

/-- the property's own reading of the stream handed to the operators: each watermark = largest event timestamp
forwarded before it (to any operator, in any deployment of this runner) − 1 ns (the runner's watermarker has no
allowed lateness) -/
def respecTagged (m : Int) : List (Option Nat × Wm.SEv) → List (Option Nat × Wm.SEv)
  | [] => []
  | (d, .ev t) :: s => (d, .ev t) :: respecTagged (if t > m then t else m) s
  | (d, .wm _) :: s => (d, .wm (m - 1)) :: respecTagged m s

def maxEvTagged (m : Int) : List (Option Nat × Wm.SEv) → Int
  | [] => m
  | (_, .ev t) :: s => maxEvTagged (if t > m then t else m) s
  | (_, .wm _) :: s => maxEvTagged m s

/-- one raw event of a read: `-` = keyed to nothing, `t:key+t:key` = keyed to events with these timestamps and keys
(`t` alone: key `k`); the operator index is `KeySpace.RangeIndex` over 8 key groups and `k` operators -/
def parseRawK (k : Nat) (s : String) : Wm.REvK :=
  .events (if s == "-" then [] else (s.splitOn "+").map fun x =>
    match x.splitOn ":" with
    | [t, key] => (KeySpace.rangeIndex 8 (if k = 0 then 1 else k) (hexOr key), intOr t)
    | _ => (KeySpace.rangeIndex 8 (if k = 0 then 1 else k) [0x6b], intOr x))

def opLine (st : St) (kf model spec : String) : String := if st.toldSpec then withSpecKf kf model spec else model

def stepOp (st : St) : List String → St × String
  | ["keyed", _, k, ts] =>
    let r := st.op.keyed (hexOr k) (parseInts ts)
    let c := specComposite st.ids st.msgs
    ({ st with op := r.1 }, opLine st (toldKf st.msgs) s!"c={r.1.reg.wm} {showReqs r.2}" s!"c={c} {showReqs (retold c r.2)}")
  | ["complete", i] =>
    -- `SourceComplete` of a runner: flushes the batch; the runner's latest watermark keeps counting
    let r := st.op.complete s!"sr{natOr i}"
    let c := specComposite st.ids st.msgs
    ({ st with op := r.1 }, opLine st (toldKf st.msgs) s!"c={r.1.reg.wm} {showReqs r.2}" s!"c={c} {showReqs (retold c r.2)}")
  | ["redeploy"] =>
    -- `HandleDeploy` again on the same operator (fresh storage): new registry, no runner has reported
    ({ st with op := st.op.redeploy (Store.new [] st.kgc 0 st.kgc st.cache) st.ids, msgs := [] }, "ok")
  | ["barrier"] =>
    -- barriers of all runners: the batch is flushed, then the DB is checkpointed
    let r := st.op.barrier
    let c := specComposite st.ids st.msgs
    ({ st with op := r.1, ckptDb := some r.1.reg.store.db },
      opLine st (toldKf st.msgs) s!"c={r.1.reg.wm} {showReqs r.2}" s!"c={c} {showReqs (retold c r.2)}")
  | ["recover"] =>
    -- `HandleDeploy` again with the last checkpoint: fresh caches and registry over the checkpointed DB content
    match st.ckptDb with
    | none => (st, "nockpt")
    | some db => ({ st with op := st.op.redeploy (Store.new db st.kgc 0 st.kgc st.cache) st.ids, msgs := [] }, "ok")
  | ["wm", i, t] =>
    let r := st.op.watermark s!"sr{natOr i}" (intOr t)
    let msgs := st.msgs ++ [(s!"sr{natOr i}", intOr t)]
    let c := specComposite st.ids msgs
    ({ st with op := r.1, msgs := msgs }, opLine st (toldKf msgs) s!"c={r.1.reg.wm} {showReqs r.2}" s!"c={c} {showReqs (retold c r.2)}")
  | _ => (st, "bad-op")

def step (st : St) : List String → St × String
  | "lread" :: raws => ({ st with loopEvs := st.loopEvs ++ raws.map (parseRawK st.loopK) }, "ok")
  | ["ltick"] => ({ st with loopEvs := st.loopEvs ++ [.tick] }, "ok")
  | ["ldrain"] =>
    let k := if st.loopK = 0 then 1 else st.loopK
    let b := Wm.batchSize st.loopN
    let tagged := Wm.sentTagged st.loopW (Wm.sentPrefixK (Wm.rawCountK st.loopEvs / b * b) st.loopEvs)
    let spec := respecTagged st.loopMax tagged
    let ds := (List.range k).map fun j => Wm.deliveredTo st.loopN st.loopW st.loopEvs j
    let shown (j : Nat) := st.loopShown.getD j 0
    let line (l : List Wm.SEv) (j : Nat) := if (l.drop (shown j)).isEmpty then "-" else joinWith "," ((l.drop (shown j)).map showSEv)
    let model := joinWith " | " ((List.range k).map fun j => line (ds.getD j []) j)
    let specLine := joinWith " | " ((List.range k).map fun j => line ((Wm.streamOf j spec).take (ds.getD j []).length) j)
    ({ st with loopShown := ds.map (·.length) }, withSpec model specLine)
  | ["ldeploy"] =>
    -- `HandleDeploy` again on the same runner: new operator cluster (empty batchers), the watermarker is kept
    let b := Wm.batchSize st.loopN
    let tagged := Wm.sentTagged st.loopW (Wm.sentPrefixK (Wm.rawCountK st.loopEvs / b * b) st.loopEvs)
    ({ st with loopW := Wm.stateAfterSent st.loopN st.loopW st.loopEvs, loopMax := maxEvTagged st.loopMax tagged,
               loopEvs := [], loopShown := [] }, "ok")
  | "evs" :: ts =>
    ({ st with w := (Wm.runnerStep st.w (.events (ts.map intOr))).1,
               maxSeen := (ts.map intOr).foldl (fun m x => if x > m then x else m) st.maxSeen }, "ok")
  | ["tick"] =>
    let spec := toString (st.maxSeen - (st.lat + 1))
    match Wm.runnerStep st.w .tick with
    | (w, some v) => ({ st with w := w }, withSpec (toString v) spec)
    | (w, none) => ({ st with w := w }, withSpec "none" spec)
  | "revs" :: ts =>
    ({ st with rw := (Wm.runnerStep st.rw (.events (ts.map intOr))).1,
               rmaxSeen := (ts.map intOr).foldl (fun m x => if x > m then x else m) st.rmaxSeen }, "ok")
  | ["rtick"] =>
    let spec := toString (st.rmaxSeen - 1)
    match Wm.runnerStep st.rw .tick with
    | (w, some v) => ({ st with rw := w }, withSpec (toString v) spec)
    | (w, none) => ({ st with rw := w }, withSpec "none" spec)
  | ws => stepOp st ws


def handle (lines : Array String) (i : Nat) (out : Array String) : Nat × Array String :=
  let hdr := if i = 0 then [] else words (lines.getD (i - 1) "")
  runLines step (initSt hdr) lines i out

end Driver.C11
