import Driver.Loop
import Driver.C14
/-! Single-model driver for C14 (fallback of `./check C14` when the all-models driver does not build). -/
def dispatchC14 (model : String) : Option (Array String → Nat → Array String → Nat × Array String) :=
  if model == "C14" then some Driver.C14.handle else none

def main : IO Unit := driverMain dispatchC14
