import RxnModel.Base.Bytes
/-! Shared helpers for the line-protocol driver (core-only). -/
namespace Driver
open Rxn

def words (s : String) : List String :=
  (s.splitOn " ").filter (· ≠ "")

def hexOr (s : String) : Bytes := (fromHex s).getD []

def natOr (s : String) : Nat := s.toNat?.getD 0

def joinWith (sep : String) (xs : List String) : String := sep.intercalate xs

def optHex : Option Bytes → String
  | none => "none"
  | some b => "val " ++ toHex b

/-- A model handler consumes lines starting at index `i` (the line after its `M` header) and returns
the index of the first line it did not consume together with its output lines. -/
abbrev Handler := Array String → Nat → List String → (Nat × Array String)

/-- run a per-line stateful step function until the next `M` line or end of input -/
partial def runLines {σ : Type} (step : σ → List String → σ × String) (st : σ)
    (lines : Array String) (i : Nat) (out : Array String) : Nat × Array String :=
  if h : i < lines.size then
    let l := lines[i]
    if l.startsWith "M " then (i, out)
    else
      let (st', o) := step st (words l)
      runLines step st' lines (i + 1) (out.push o)
  else (i, out)

end Driver
