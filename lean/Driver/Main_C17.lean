import Driver.Loop
import Driver.C17
/-! Single-model driver for C17 (fallback of `./check C17` when the all-models driver does not build). -/
def dispatchC17 (model : String) : Option (Array String → Nat → Array String → Nat × Array String) :=
  if model == "C17" then some Driver.C17.handle else none

def main : IO Unit := driverMain dispatchC17
