import Driver.Loop
import Driver.C18
/-! Single-model driver for C18 (fallback of `./check C18` when the all-models driver does not build). -/
def dispatchC18 (model : String) : Option (Array String → Nat → Array String → Nat × Array String) :=
  if model == "C18" then some Driver.C18.handle else none

def main : IO Unit := driverMain dispatchC18
