import Driver.Loop
import Driver.C03
/-! Single-model driver for C03 (fallback of `./check C03` when the all-models driver does not build). -/
def dispatchC03 (model : String) : Option (Array String → Nat → Array String → Nat × Array String) :=
  if model == "C03" then some Driver.C03.handle else none

def main : IO Unit := driverMain dispatchC03
