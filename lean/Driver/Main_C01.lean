import Driver.Loop
import Driver.C01
/-! Single-model driver for C01 (fallback of `./check C01` when the all-models driver does not build). -/
def dispatchC01 (model : String) : Option (Array String → Nat → Array String → Nat × Array String) :=
  if model == "C01" then some Driver.C01.handle else none

def main : IO Unit := driverMain dispatchC01
