import RxnModel.Base.Bytes
/-! Plain data types shared by the generated function translations and the models. -/
namespace Rxn

/-- `partitioning.KeyGroupRange` (start inclusive, end exclusive) -/
structure KGRange where
  start : Nat
  stop : Nat
deriving Repr, DecidableEq, Inhabited

/-- `bytes.Compare` as the Go `int` it returns -/
def cmpInt (a b : Bytes) : Int :=
  match Bytes.cmp a b with
  | .lt => -1
  | .eq => 0
  | .gt => 1

/-- `bytes.Compare` only returns -1, 0 or 1 (used by the generated ties `Gen.f = GenSrc.f`, so that
`== 1` and `> 0` on a comparison result are recognised as the same test) -/
theorem cmpInt_cases (a b : Bytes) : cmpInt a b = -1 ∨ cmpInt a b = 0 ∨ cmpInt a b = 1 := by
  unfold cmpInt; split <;> simp

end Rxn
