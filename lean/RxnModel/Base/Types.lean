import RxnModel.Base.Bytes
/-! Plain data types shared by the generated function translations and the models. -/
namespace Rxn

/-- `partitioning.KeyGroupRange` (start inclusive, end exclusive) -/
structure KGRange where
  start : Nat
  stop : Nat
deriving Repr, DecidableEq, Inhabited

/-- `bytes.Compare` as the Go `int` it returns -/
def cmpInt (a b : Bytes) : Int :=
  match Bytes.cmp a b with
  | .lt => -1
  | .eq => 0
  | .gt => 1

end Rxn
