import RxnModel.Base.Bytes
/-!
Order theory of `Bytes.cmp` (`bytes.Compare`): a strict total order, and the interaction with `hasPrefix`.
Core-only.
-/
namespace Rxn.Bytes

theorem u8_lt_irrefl (a : UInt8) : ¬ a < a := by
  intro h; exact (Nat.lt_irrefl _ (UInt8.lt_iff_toNat_lt.mp h))

theorem u8_lt_trans {a b c : UInt8} (h1 : a < b) (h2 : b < c) : a < c :=
  UInt8.lt_iff_toNat_lt.mpr (Nat.lt_trans (UInt8.lt_iff_toNat_lt.mp h1) (UInt8.lt_iff_toNat_lt.mp h2))

theorem u8_lt_asymm {a b : UInt8} (h1 : a < b) : ¬ b < a := fun h2 => u8_lt_irrefl a (u8_lt_trans h1 h2)

theorem u8_eq_of_not_lt {a b : UInt8} (h1 : ¬ a < b) (h2 : ¬ b < a) : a = b := by
  apply UInt8.toNat_inj.mp
  rw [UInt8.lt_iff_toNat_lt] at h1 h2
  omega

@[simp] theorem cmp_self (a : Bytes) : cmp a a = .eq := by
  induction a with
  | nil => rfl
  | cons x xs ih => simp [cmp, ih]

theorem cmp_eq_iff {a b : Bytes} : cmp a b = .eq ↔ a = b := by
  constructor
  · intro h
    induction a generalizing b with
    | nil => cases b <;> simp_all [cmp]
    | cons x xs ih =>
      cases b with
      | nil => simp [cmp] at h
      | cons y ys =>
        simp only [cmp] at h
        split at h
        · cases h
        · split at h
          · cases h
          · rename_i h1 h2
            rw [u8_eq_of_not_lt h1 h2, ih h]
  · intro h; subst h; exact cmp_self a

theorem cmp_lt_iff_gt {a b : Bytes} : cmp a b = .lt ↔ cmp b a = .gt := by
  induction a generalizing b with
  | nil => cases b <;> simp [cmp]
  | cons x xs ih =>
    cases b with
    | nil => simp [cmp]
    | cons y ys =>
      simp only [cmp]
      by_cases h1 : x < y
      · simp [h1, u8_lt_asymm h1]
      · by_cases h2 : y < x
        · simp [h1, h2]
        · simp [h1, h2, ih]

theorem cmp_gt_iff_lt {a b : Bytes} : cmp a b = .gt ↔ cmp b a = .lt := (cmp_lt_iff_gt (a := b) (b := a)).symm

theorem cmp_lt_trans {a b c : Bytes} (h1 : cmp a b = .lt) (h2 : cmp b c = .lt) : cmp a c = .lt := by
  induction a generalizing b c with
  | nil =>
    cases b with
    | nil => simp [cmp] at h1
    | cons y ys => cases c with
      | nil => simp [cmp] at h2
      | cons z zs => simp [cmp]
  | cons x xs ih =>
    cases b with
    | nil => simp [cmp] at h1
    | cons y ys =>
      cases c with
      | nil => simp [cmp] at h2
      | cons z zs =>
        simp only [cmp] at h1 h2 ⊢
        by_cases hxy : x < y
        · by_cases hyz : y < z
          · simp [u8_lt_trans hxy hyz]
          · by_cases hzy : z < y
            · simp [hyz, hzy] at h2
            · have : y = z := u8_eq_of_not_lt hyz hzy
              subst this; simp [hxy]
        · by_cases hyx : y < x
          · simp [hxy, hyx] at h1
          · have hxy' : x = y := u8_eq_of_not_lt hxy hyx
            subst hxy'
            simp only [hxy, if_false] at h1
            by_cases hyz : x < z
            · simp [hyz]
            · by_cases hzy : z < x
              · simp [hyz, hzy] at h2
              · simp only [hyz, hzy, if_false] at h2 ⊢
                exact ih h1 h2

theorem lt_irrefl (a : Bytes) : lt a a = false := by simp [lt]

theorem lt_trans {a b c : Bytes} (h1 : lt a b = true) (h2 : lt b c = true) : lt a c = true := by
  simp only [lt, beq_iff_eq] at *
  exact cmp_lt_trans h1 h2

theorem lt_asymm {a b : Bytes} (h : lt a b = true) : lt b a = false := by
  simp only [lt, beq_iff_eq, beq_eq_false_iff_ne, ne_eq] at *
  intro h2
  have := cmp_lt_iff_gt.mp h
  rw [h2] at this; cases this

theorem lt_or_eq_or_gt (a b : Bytes) : lt a b = true ∨ a = b ∨ lt b a = true := by
  cases h : cmp a b with
  | lt => left; simp [lt, h]
  | eq => right; left; exact cmp_eq_iff.mp h
  | gt => right; right; simp [lt, cmp_gt_iff_lt.mp h]

@[simp] theorem hasPrefix_nil (b : Bytes) : hasPrefix b [] = true := by cases b <;> rfl

theorem hasPrefix_iff {b p : Bytes} : hasPrefix b p = true ↔ ∃ s, b = p ++ s := by
  induction p generalizing b with
  | nil => simp
  | cons x xs ih =>
    cases b with
    | nil => simp [hasPrefix]
    | cons y ys =>
      simp only [hasPrefix, Bool.and_eq_true, beq_iff_eq, ih, List.cons_append, List.cons.injEq]
      constructor
      · rintro ⟨rfl, s, rfl⟩; exact ⟨s, rfl, rfl⟩
      · rintro ⟨s, rfl, rfl⟩; exact ⟨rfl, s, rfl⟩

theorem hasPrefix_append (p s : Bytes) : hasPrefix (p ++ s) p = true := hasPrefix_iff.mpr ⟨s, rfl⟩

/-- a string is never below its own prefix -/
theorem prefix_le {b p : Bytes} (h : hasPrefix b p = true) : cmp p b ≠ .gt := by
  induction p generalizing b with
  | nil => cases b <;> simp [cmp]
  | cons x xs ih =>
    cases b with
    | nil => simp [hasPrefix] at h
    | cons y ys =>
      simp only [hasPrefix, Bool.and_eq_true, beq_iff_eq] at h
      obtain ⟨rfl, h⟩ := h
      simp only [cmp, u8_lt_irrefl, if_false]
      exact ih h

/-- keys sharing a prefix form an interval: anything between two of them also has the prefix -/
theorem prefix_interval {a b c p : Bytes} (ha : hasPrefix a p = true) (hc : hasPrefix c p = true)
    (hab : cmp a b ≠ .gt) (hbc : cmp b c ≠ .gt) : hasPrefix b p = true := by
  induction p generalizing a b c with
  | nil => simp
  | cons x xs ih =>
    cases a with
    | nil => simp [hasPrefix] at ha
    | cons a0 as =>
      cases c with
      | nil => simp [hasPrefix] at hc
      | cons c0 cs =>
        simp only [hasPrefix, Bool.and_eq_true, beq_iff_eq] at ha hc
        obtain ⟨e1, ha⟩ := ha
        obtain ⟨e2, hc⟩ := hc
        cases b with
        | nil => simp [cmp] at hab
        | cons b0 bs =>
          simp only [cmp] at hab hbc
          rw [e1] at hab
          rw [e2] at hbc
          by_cases h1 : x < b0
          · by_cases h2 : b0 < x
            · exact absurd h2 (u8_lt_asymm h1)
            · simp [h1, h2] at hbc
          · by_cases h2 : b0 < x
            · simp [h1, h2] at hab
            · have : x = b0 := u8_eq_of_not_lt h1 h2
              subst this
              simp only [u8_lt_irrefl, if_false] at hab hbc
              simp only [hasPrefix, beq_self_eq_true, Bool.true_and]
              exact ih ha hc hab hbc

end Rxn.Bytes
