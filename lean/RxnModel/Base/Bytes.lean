/-
Byte strings as the code sees them (`[]byte`), with `bytes.Compare` and `bytes.HasPrefix`.
Core-only: this file is imported by the executable driver.
-/
namespace Rxn

abbrev Bytes := List UInt8

namespace Bytes

/-- `bytes.Compare` -/
def cmp : Bytes → Bytes → Ordering
  | [], [] => .eq
  | [], _ :: _ => .lt
  | _ :: _, [] => .gt
  | a :: as, b :: bs => if a < b then .lt else if b < a then .gt else cmp as bs

/-- `bytes.HasPrefix b p` -/
def hasPrefix : Bytes → Bytes → Bool
  | _, [] => true
  | [], _ :: _ => false
  | a :: as, p :: ps => a == p && hasPrefix as ps

def lt (a b : Bytes) : Bool := cmp a b == .lt
def le (a b : Bytes) : Bool := cmp a b != .gt

/-- big-endian fixed width encodings used by the key encoders -/
def u16be (n : Nat) : Bytes := [UInt8.ofNat (n / 256 % 256), UInt8.ofNat (n % 256)]
def u32be (n : Nat) : Bytes :=
  [UInt8.ofNat (n / 16777216 % 256), UInt8.ofNat (n / 65536 % 256), UInt8.ofNat (n / 256 % 256), UInt8.ofNat (n % 256)]
def u64be (n : Nat) : Bytes := u32be (n / 4294967296 % 4294967296) ++ u32be (n % 4294967296)
def u32le (n : Nat) : Bytes := (u32be n).reverse
def u64le (n : Nat) : Bytes := (u64be n).reverse

/-- decode big-endian natural from bytes -/
def beNat (b : Bytes) : Nat := b.foldl (fun acc x => acc * 256 + x.toNat) 0
def leNat (b : Bytes) : Nat := beNat b.reverse

end Bytes

/-! hex helpers for the line protocol (`-` = empty) -/
def hexDigit (n : Nat) : Char :=
  if n < 10 then Char.ofNat (48 + n) else Char.ofNat (87 + n)

def toHex (b : Bytes) : String :=
  if b.isEmpty then "-" else
  String.ofList (b.flatMap fun x => [hexDigit (x.toNat / 16), hexDigit (x.toNat % 16)])

def hexVal (c : Char) : Option Nat :=
  if '0' ≤ c ∧ c ≤ '9' then some (c.toNat - 48)
  else if 'a' ≤ c ∧ c ≤ 'f' then some (c.toNat - 87)
  else if 'A' ≤ c ∧ c ≤ 'F' then some (c.toNat - 55)
  else none

def fromHexChars : List Char → Option Bytes
  | [] => some []
  | [_] => none
  | a :: b :: rest => do
    let x ← hexVal a
    let y ← hexVal b
    let r ← fromHexChars rest
    pure (UInt8.ofNat (x * 16 + y) :: r)

def fromHex (s : String) : Option Bytes :=
  if s == "-" then some [] else fromHexChars s.toList

end Rxn
