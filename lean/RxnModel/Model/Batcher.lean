/-!
# Model of `batching.EventBatcher` (batching/batching.go) with a `clocks.Timer`

Every method of the Go type is one mutex section (`b.mu`), so every method is one atomic action here.
The timer is the `clocks.Timer` parameter: `Set` remembers the callback (which captured the batch token
current at `Set` time), `Stop` forgets it.  `lastCb` additionally remembers the most recent callback even
after `Stop`: with `clocks.SystemTimer` (`time.AfterFunc`) a callback that already started cannot be
stopped, so a *stale* token may still be delivered on `BatchTimedOut`.
-/
namespace Rxn.Batcher

/-- `batching.BatchToken`: `CurrentBatch` (= -1) or a batch generation -/
inductive Tok where
  | cur
  | tok (n : Nat)
deriving Repr, DecidableEq, Inhabited

structure St (α : Type) where
  maxSize : Nat            -- `maxSize` (0 is replaced by 1 in `NewEventBatcher`)
  hasDelay : Bool          -- `maxDelay > 0`
  batch : List α := []     -- `batch`
  token : Nat := 0         -- `batchToken`
  armed : Option Nat := none   -- timer callback set and not stopped; holds the captured token
  lastCb : Option Nat := none  -- most recent callback ever set (stale delivery)

/-- `NewEventBatcher` -/
def new {α : Type} (maxSize : Nat) (hasDelay : Bool) : St α :=
  { maxSize := if maxSize = 0 then 1 else maxSize, hasDelay := hasDelay }

/-- `Add`: arm the timer when a new batch starts (only with a positive delay), append -/
def add {α : Type} (s : St α) (x : α) : St α :=
  if s.batch.isEmpty && s.hasDelay then
    { s with batch := s.batch ++ [x], armed := some s.token, lastCb := some s.token }
  else
    { s with batch := s.batch ++ [x] }

/-- `IsFull` -/
def isFull {α : Type} (s : St α) : Bool := decide (s.batch.length ≥ s.maxSize)

/-- the guard of `Flush`: nothing happens for an empty batch or a token of another batch -/
def flushes {α : Type} (s : St α) (t : Tok) : Bool :=
  match t with
  | .cur => !s.batch.isEmpty
  | .tok n => !s.batch.isEmpty && s.token == n

/-- `Flush(token)`: returns the new state and the batch handed out (`[]` = nil) -/
def flush {α : Type} (s : St α) (t : Tok) : St α × List α :=
  if flushes s t then
    ({ s with batch := [], token := s.token + 1, armed := none }, s.batch)
  else (s, [])

/-- timer expiry: the token delivered on `BatchTimedOut` (none: no callback is set) -/
def fire {α : Type} (s : St α) : Option Nat := s.armed

/-- a callback that raced with `Stop` -/
def stale {α : Type} (s : St α) : Option Nat := s.lastCb

/-! ## histories (for the property statements) -/

inductive Op (α : Type) where
  | add (x : α)
  | isFull
  | flush (t : Tok)
  | fire
deriving Repr

/-- one operation; the second component is the batch handed out (if any) -/
def step {α : Type} (s : St α) : Op α → St α × List α
  | .add x => (add s x, [])
  | .isFull => (s, [])
  | .flush t => flush s t
  | .fire => (s, [])

/-- run a history, collecting the batches handed out (empty ones included) -/
def run {α : Type} (s : St α) : List (Op α) → St α × List (List α)
  | [] => (s, [])
  | o :: os =>
    let (s1, b) := step s o
    let (s2, bs) := run s1 os
    (s2, b :: bs)

def added {α : Type} : List (Op α) → List α
  | [] => []
  | .add x :: os => x :: added os
  | _ :: os => added os

end Rxn.Batcher
