import RxnModel.Base.Types
/-!
`ziptree.ZipTree` (dkv/ziptree/ziptree.go).

The rank drawn by `rand.Uint32()` in `insert` is an explicit argument, so theorems quantify over every outcome.
`insert` is the functional form of the code's search-then-unzip loops (it is only called by `Put` after the key
was not found); `put` replaces in place keeping the old rank; `get` and `ascendPrefix` follow the code's walks.
Core-only.
-/
namespace Rxn.ZipTree

inductive Tree where
  | nil
  | node (l : Tree) (k v : Bytes) (rank : Nat) (r : Tree)
deriving Repr, Inhabited

open Tree

def size : Tree → Nat
  | nil => 0
  | node l _ _ _ r => size l + 1 + size r

/-- in-order contents -/
def toList : Tree → List (Bytes × Bytes)
  | nil => []
  | node l k v _ r => toList l ++ (k, v) :: toList r

/-- the "unzip" loops: split the subtree along the search path of `k` into keys below and keys above -/
def unzip (k : Bytes) : Tree → Tree × Tree
  | nil => (nil, nil)
  | node l ck cv cr r =>
    if Bytes.cmp ck k == .lt then
      let p := unzip k r
      (node l ck cv cr p.1, p.2)
    else
      let p := unzip k l
      (p.1, node p.2 ck cv cr r)

/-- `insert` with the drawn rank: descend while `rank < cur.rank || (rank == cur.rank && key > cur.Key)`,
then take the place of `cur` and unzip it -/
def insert (k v : Bytes) (rank : Nat) : Tree → Tree
  | nil => node nil k v rank nil
  | node l ck cv cr r =>
    if rank < cr || (rank == cr && Bytes.cmp k ck == .gt) then
      if Bytes.cmp k ck == .lt then node (insert k v rank l) ck cv cr r
      else node l ck cv cr (insert k v rank r)
    else
      let p := unzip k (node l ck cv cr r)
      node p.1 k v rank p.2

/-- `Get` -/
def get (k : Bytes) : Tree → Option Bytes
  | nil => none
  | node l ck cv _ r =>
    match Bytes.cmp k ck with
    | .gt => get k r
    | .lt => get k l
    | .eq => some cv

/-- the replacement branch of `Put`: same place, same rank, same children -/
def replace (k v : Bytes) : Tree → Tree
  | nil => nil
  | node l ck cv cr r =>
    match Bytes.cmp k ck with
    | .eq => node l k v cr r
    | .lt => node (replace k v l) ck cv cr r
    | .gt => node l ck cv cr (replace k v r)

/-- `Put`: returns the value of the replaced node (or `none` for an insert) and the new tree -/
def put (k v : Bytes) (rank : Nat) (t : Tree) : Option Bytes × Tree :=
  match get k t with
  | some old => (some old, replace k v t)
  | none => (none, insert k v rank t)

/-- first loop of `AscendPrefix`: the stack (top = head) of nodes to visit later -/
def seek (p : Bytes) : Tree → List Tree → List Tree
  | nil, s => s
  | node l k v rk r, s =>
    if k == p then node l k v rk r :: s
    else if Bytes.cmp p k == .lt then seek p l (node l k v rk r :: s)
    else seek p r s

/-- push the left spine of a subtree -/
def pushLeft : Tree → List Tree → List Tree
  | nil, s => s
  | node l k v rk r, s => pushLeft l (node l k v rk r :: s)

/-- second loop of `AscendPrefix`: pop, yield while the prefix matches, push the left spine of the right child -/
def walk (p : Bytes) : Nat → List Tree → List (Bytes × Bytes)
  | 0, _ => []
  | _ + 1, [] => []
  | fuel + 1, nil :: s => walk p fuel s
  | fuel + 1, node _ k v _ r :: s =>
    if Bytes.hasPrefix k p then (k, v) :: walk p fuel (pushLeft r s) else []

/-- `AscendPrefix(prefix)` fully consumed (one pop per node at most) -/
def ascendPrefix (t : Tree) (p : Bytes) : List (Bytes × Bytes) := walk p (size t + 1) (seek p t [])

/-- the second loop when the consumer stops at its `n`-th item (`yield` returns false there; `n ≥ 1`) -/
def walkN (p : Bytes) : Nat → Nat → List Tree → List (Bytes × Bytes)
  | 0, _, _ => []
  | _ + 1, _, [] => []
  | fuel + 1, n, nil :: s => walkN p fuel n s
  | fuel + 1, n, node _ k v _ r :: s =>
    if Bytes.hasPrefix k p then
      (if n ≤ 1 then [(k, v)] else (k, v) :: walkN p fuel (n - 1) (pushLeft r s))
    else []

/-- `for x := range AscendPrefix(p) { …; if seen == n { break } }` -/
def ascendPrefixN (t : Tree) (p : Bytes) (n : Nat) : List (Bytes × Bytes) := walkN p (size t + 1) n (seek p t [])

/-- in-place update through a retained reference: `n, ok := Get(k); n.Value = v; Put(n)` puts the very node the tree
already holds (the links copied onto it are its own); the returned "replaced" node is that same node, so its value
reads `v`. Nothing happens when the key is absent. -/
def reput (k v : Bytes) (t : Tree) : Option Bytes × Tree :=
  match get k t with
  | some _ => (some v, replace k v t)
  | none => (none, t)

/-- `for n := range AscendPrefix(p) { Put(NewKVEntry(n.Key, v)) }`: a replacement leaves the replaced node's links
in place, so the running iterator (which holds the replaced nodes) still walks the pre-state; what it yields is the
scan of the pre-state, and every yielded key is replaced. -/
def ascendPut (p v : Bytes) (t : Tree) : List (Bytes × Bytes) × Tree :=
  let es := ascendPrefix t p
  (es, es.foldl (fun t e => replace e.1 v t) t)

/-! ### structural mutation during a scan (outside the documented use: no in-repo caller does it)

Inserting a *fresh* key from inside a running `AscendPrefix` rewrites `left`/`right` of nodes the iterator still holds
(unzip). The iterator keeps node pointers; nodes of existing keys keep their identity under an insert, so a held node is
"the node of key `y` in the current tree", and the loop reads its *current* right link when it is popped. -/

/-- the node object of key `y` in the current tree -/
def nodeAt (y : Bytes) : Tree → Tree
  | nil => nil
  | node l k v rk r =>
    match Bytes.cmp y k with
    | .eq => node l k v rk r
    | .lt => nodeAt y l
    | .gt => nodeAt y r

def keyOf : Tree → Bytes
  | nil => []
  | node _ k _ _ _ => k

/-- left spine as held node identities (keys), top first after pushing -/
def pushLeftKeys : Tree → List Bytes → List Bytes
  | nil, s => s
  | node l k _ _ _, s => pushLeftKeys l (k :: s)

/-- the rest of the scan over the mutated tree `t`, the stack holding node identities -/
def walkKeys (p : Bytes) (t : Tree) : Nat → List Bytes → List (Bytes × Bytes)
  | 0, _ => []
  | _ + 1, [] => []
  | fuel + 1, y :: s =>
    match nodeAt y t with
    | nil => walkKeys p t fuel s
    | node _ k v _ r => if Bytes.hasPrefix k p then (k, v) :: walkKeys p t fuel (pushLeftKeys r s) else []

/-- `for n := range AscendPrefix(p) { if first { Put(fresh k) } }`: at the first yielded node a key that is not in the
tree is inserted with the given rank (nothing is done when the key exists); what the scan yields, and the tree -/
def ascendInsert (p k v : Bytes) (rank : Nat) (t : Tree) : List (Bytes × Bytes) × Tree :=
  match seek p t [] with
  | [] => ([], t)
  | top :: rest =>
    match top with
    | nil => ([], t)
    | node _ k0 v0 _ _ =>
      if Bytes.hasPrefix k0 p then
        let t' := match get k t with
          | some _ => t
          | none => insert k v rank t
        let stack := (match nodeAt k0 t' with
          | nil => []
          | node _ _ _ _ r => pushLeftKeys r []) ++ rest.map keyOf
        ((k0, v0) :: walkKeys p t' ((size t' + 1) * (rest.length + 2)) stack, t')
      else ([], t)

/-! specification: a strictly ascending association list -/
def specPut (k v : Bytes) : List (Bytes × Bytes) → List (Bytes × Bytes)
  | [] => [(k, v)]
  | (k', v') :: rest =>
    match Bytes.cmp k k' with
    | .lt => (k, v) :: (k', v') :: rest
    | .eq => (k, v) :: rest
    | .gt => (k', v') :: specPut k v rest

def specGet (k : Bytes) : List (Bytes × Bytes) → Option Bytes
  | [] => none
  | (k', v') :: rest => if k' == k then some v' else specGet k rest

/-- run a sequence of `Put(key, value)` with the ranks the random source produced -/
def run (ops : List (Bytes × Bytes × Nat)) : Tree :=
  ops.foldl (fun t o => (put o.1 o.2.1 o.2.2 t).2) nil

def specRun (ops : List (Bytes × Bytes × Nat)) : List (Bytes × Bytes) :=
  ops.foldl (fun l o => specPut o.1 o.2.1 l) []

/-- all operations the correspondence drives -/
inductive Op where
  | put (k v : Bytes) (rank : Nat)
  | reput (k v : Bytes)
  | ascPut (p v : Bytes)

def step (t : Tree) : Op → Tree
  | .put k v rank => (put k v rank t).2
  | .reput k v => (reput k v t).2
  | .ascPut p v => (ascendPut p v t).2

def specStep (l : List (Bytes × Bytes)) : Op → List (Bytes × Bytes)
  | .put k v _ => specPut k v l
  | .reput k v => if (specGet k l).isSome then specPut k v l else l
  | .ascPut p v => l.map (fun e => if Bytes.hasPrefix e.1 p then (e.1, v) else e)

def runOps (ops : List Op) : Tree := ops.foldl step nil
def specRunOps (ops : List Op) : List (Bytes × Bytes) := ops.foldl specStep []

/-- exact shape with ranks (compared with the real tree's dump now that the harness drives the ranks) -/
def showTree : Tree → String
  | nil => "."
  | node l k v rk r => "(" ++ toHex k ++ ":" ++ toString rk ++ "," ++ showTree l ++ "," ++ showTree r ++ ")"

/-! shape checks evaluated by the driver on the model tree (and by the harness on the real tree) -/
def keysAscending : List (Bytes × Bytes) → Bool
  | [] => true
  | [_] => true
  | a :: b :: rest => Bytes.lt a.1 b.1 && keysAscending (b :: rest)

def rankOf : Tree → Option Nat
  | nil => none
  | node _ _ _ rk _ => some rk

/-- zip-tree rank order: left child strictly lower rank, right child lower or equal -/
def ranksOk : Tree → Bool
  | nil => true
  | node l _ _ rk r =>
    (match rankOf l with | some x => decide (x < rk) | none => true) &&
    (match rankOf r with | some x => decide (x ≤ rk) | none => true) && ranksOk l && ranksOk r

end Rxn.ZipTree
