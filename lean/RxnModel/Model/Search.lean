import RxnModel.Base.Types
import RxnModel.Generated.Fns
/-!
`sliceu.SearchUnique` (util/sliceu/sliceu.go): half-open binary search that stops at the first hit.
`c x` stands for `cmp(x, target)`. Core-only (imported by the driver).
-/
namespace Rxn.Search

/-- the `for low < high` loop of `SearchUnique`; an index outside the slice is Go's panic (never reached) -/
def go {α : Type} (xs : Array α) (c : α → Int) (low high : Nat) : Option Nat :=
  if _h : low < high then
    let i := (low + high) / 2
    if hi : i < xs.size then
      let v := c xs[i]
      if v = 0 then some i
      else if v < 0 then go xs c (i + 1) high
      else go xs c low i
    else none
  else none
termination_by high - low
decreasing_by all_goals omega

/-- `SearchUnique(x, target, cmp)`; `none` = `(0, false)` -/
def searchUnique {α : Type} (xs : Array α) (c : α → Int) : Option Nat := go xs c 0 xs.size

/-- `SearchUnique(keys, target, bytes.Compare)` -/
def searchBytes (xs : Array Bytes) (t : Bytes) : Option Nat := searchUnique xs (fun x => cmpInt x t)

/-- the level lookup of `LevelList.AllTablesForKey`: `SearchUnique(levelTables, key, (*Table).RangeKeyCompare)`;
a table is its `(startKey, endKey)`; the compare function is regenerated from dkv/sst/table.go -/
def searchTables (ts : Array (Bytes × Bytes)) (key : Bytes) : Option Nat :=
  searchUnique ts (fun t => Gen.tblRangeKeyCompare t.1 t.2 key)

end Rxn.Search
