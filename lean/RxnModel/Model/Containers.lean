import RxnModel.Base.Types
/-!
`ds.SortedCache`, `ds.Set`, `ds.SortedMap` (util/ds). Core-only.

* SortedCache: `github.com/google/btree` is trusted and stands as a strictly ascending duplicate-free list;
  the `byteSize` counter is updated exactly where the code updates it (`uint64` modelled as `Nat` with truncated
  subtraction; under the proved invariant no subtraction truncates).
* Set: the Go map `m` is the list of its keys, `l` is the insertion-ordered slice.
* SortedMap: `list` is the key slice (appended to, sorted in place by `ensureSorted`), `m` the Go map as an
  association list without duplicate keys.
-/
namespace Rxn.SortedCache

structure Cache where
  items : List Bytes := []
  byteSize : Nat := 0
  maxSize : Nat := 0
deriving Repr, Inhabited

/-- `tree.ReplaceOrInsert`: the replaced item (if an equal one was present) and the new contents -/
def replaceOrInsert (k : Bytes) : List Bytes → Option Bytes × List Bytes
  | [] => (none, [k])
  | x :: xs =>
    match Bytes.cmp k x with
    | .lt => (none, k :: x :: xs)
    | .eq => (some x, k :: xs)
    | .gt => let r := replaceOrInsert k xs; (r.1, x :: r.2)

def push (c : Cache) (v : Bytes) : Cache :=
  let r := replaceOrInsert v c.items
  let b := match r.1 with
    | some old => c.byteSize - old.length
    | none => c.byteSize
  { c with items := r.2, byteSize := b + v.length }

def pop (c : Cache) : Option Bytes × Cache :=
  match c.items with
  | [] => (none, c)
  | x :: xs => (some x, { c with items := xs, byteSize := c.byteSize - x.length })

def popLast (c : Cache) : Option Bytes × Cache :=
  match c.items.getLast? with
  | none => (none, c)
  | some x => (some x, { c with items := c.items.dropLast, byteSize := c.byteSize - x.length })

def peek (c : Cache) : Option Bytes := c.items.head?
/-- `PeekLast` (added by the timer-cache repair): `tree.Max()` -/
def peekLast (c : Cache) : Option Bytes := c.items.getLast?

def delete (c : Cache) (k : Bytes) : Cache :=
  if c.items.contains k then { c with items := c.items.erase k, byteSize := c.byteSize - k.length } else c

def isEmpty (c : Cache) : Bool := c.items.isEmpty
def isFull (c : Cache) : Bool := decide (c.byteSize ≥ c.maxSize)

inductive Op where
  | push (v : Bytes) | pop | popLast | delete (k : Bytes)

def step (c : Cache) : Op → Cache
  | .push v => push c v
  | .pop => (pop c).2
  | .popLast => (popLast c).2
  | .delete k => delete c k

def run (maxSize : Nat) (ops : List Op) : Cache := ops.foldl step { maxSize := maxSize }

end Rxn.SortedCache

namespace Rxn.OSet

structure S where
  m : List Nat := []
  l : List Nat := []
deriving Repr, Inhabited

def has (s : S) (v : Nat) : Bool := s.m.contains v

def add1 (s : S) (v : Nat) : S := if has s v then s else { m := v :: s.m, l := s.l ++ [v] }

/-- `Add(v...)` (also `Added`, which works on a clone) -/
def add (s : S) (vs : List Nat) : S := vs.foldl add1 s

/-- `Without(vs...)` on a clone -/
def without (s : S) (vs : List Nat) : S :=
  { m := s.m.filter (fun e => !vs.contains e), l := s.l.filter (fun e => !vs.contains e) }

def size (s : S) : Nat := s.l.length

/-- `Diff(s2)` -/
def diff (s s2 : S) : S := (s.l.filter (fun e => !has s2 e)).foldl add1 {}

/-- operation sequences on one set (`Added` / `Without` work on clones; the result replaces the set) -/
inductive Op where
  | add (vs : List Nat) | without (vs : List Nat)

def step (s : S) : Op → S
  | .add vs => add s vs
  | .without vs => without s vs

def run (ops : List Op) : S := ops.foldl step {}

/-- reference: an insertion-ordered duplicate-free list -/
def specStep (l : List Nat) : Op → List Nat
  | .add vs => vs.foldl (fun l v => if v ∈ l then l else l ++ [v]) l
  | .without vs => l.filter (fun e => !vs.contains e)

def specRun (ops : List Op) : List Nat := ops.foldl specStep []

end Rxn.OSet

namespace Rxn.SortedMap

structure M where
  list : List Nat := []
  m : List (Nat × Nat) := []
deriving Repr, Inhabited

def lookup (m : List (Nat × Nat)) (k : Nat) : Option Nat := (m.find? (fun e => e.1 == k)).map (·.2)

def mapSet (m : List (Nat × Nat)) (k v : Nat) : List (Nat × Nat) := (k, v) :: m.filter (fun e => e.1 != k)

/-- `Set(k, v)`: returns whether the key is new -/
def set (s : M) (k v : Nat) : Bool × M :=
  let had := (lookup s.m k).isSome
  (!had, { list := if had then s.list else s.list ++ [k], m := mapSet s.m k v })

def get (s : M) (k : Nat) : Option Nat := lookup s.m k
def has (s : M) (k : Nat) : Bool := (lookup s.m k).isSome

/-- `ensureSorted` (always sorts: the `isSorted` flag is never set) -/
def ensureSorted (s : M) : M := { s with list := s.list.mergeSort (fun a b => decide (a ≤ b)) }

def keys (s : M) : List Nat × M := let s' := ensureSorted s; (s'.list, s')
def values (s : M) : List Nat × M := let s' := ensureSorted s; (s'.list.map (fun k => (lookup s'.m k).getD 0), s')
def all (s : M) : List (Nat × Nat) × M :=
  let s' := ensureSorted s; (s'.list.map (fun k => (k, (lookup s'.m k).getD 0)), s')

/-- `Delete(k)`: sort, binary search (stdlib, trusted: finds `k` iff present), remove from slice and map -/
def delete (s : M) (k : Nat) : Bool × M :=
  let s' := ensureSorted s
  if s'.list.contains k then (true, { list := s'.list.erase k, m := s'.m.filter (fun e => e.1 != k) }) else (false, s')

def size (s : M) : Nat := s.list.length

/-- operation sequences (`keys` stands for every reader that sorts the slice in place: Keys, Values, All) -/
inductive Op where
  | set (k v : Nat) | delete (k : Nat) | keys

def step (s : M) : Op → M
  | .set k v => (set s k v).2
  | .delete k => (delete s k).2
  | .keys => (keys s).2

def run (ops : List Op) : M := ops.foldl step {}

/-- reference: a finite map -/
def specStep (m : Nat → Option Nat) : Op → (Nat → Option Nat)
  | .set k v => fun k' => if k' = k then some v else m k'
  | .delete k => fun k' => if k' = k then none else m k'
  | .keys => m

def specRun (ops : List Op) : Nat → Option Nat := ops.foldl specStep (fun _ => none)

end Rxn.SortedMap
