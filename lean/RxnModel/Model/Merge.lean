import RxnModel.Model.Heap
/-!
`mergesort.Merge` (dkv/mergesort/merge.go) and `iteru.MergeSorted` (util/iteru/merge_sorted.go).

Both drive the same `ds.Heap` of (iterator, current item) pairs ordered by the item: pop the root, pull the next
item of that iterator and push it. `pops` is the sequence of popped items (this *is* `MergeSorted`'s output);
`Merge` feeds that sequence through its `prevItem` logic (`rstep`) and yields the last item at the end.
Iterators are fully consumed lists. Core-only.
-/
namespace Rxn.Merge
variable {α : Type}

structure St (α : Type) where
  heap : Array (Nat × α)      -- (iterator index, current item)
  rests : List (List α)       -- what each iterator has not yielded yet

/-- heap order: `cmp(a.item, b.item) < 0` -/
def hlt (cmp : α → α → Int) (a b : Nat × α) : Bool := decide (cmp a.2 b.2 < 0)

/-- constructor part: pull the first item of each iterator, push it if there is one -/
def initGo (cmp : α → α → Int) : List (List α) → Nat → St α → St α
  | [], _, s => s
  | [] :: rs, i, s => initGo cmp rs (i + 1) ⟨s.heap, s.rests ++ [[]]⟩
  | (x :: xs) :: rs, i, s => initGo cmp rs (i + 1) ⟨Heap.push (hlt cmp) s.heap (i, x), s.rests ++ [xs]⟩

def init (cmp : α → α → Int) (runs : List (List α)) : St α := initGo cmp runs 0 ⟨#[], []⟩

/-- the pop / pull-next / push loop; the popped items in order -/
def pops (cmp : α → α → Int) : Nat → St α → List α
  | 0, _ => []
  | fuel + 1, s =>
    match Heap.pop (hlt cmp) s.heap with
    | none => []
    | some (ix, h1) =>
      match s.rests.getD ix.1 [] with
      | [] => ix.2 :: pops cmp fuel ⟨h1, s.rests⟩
      | y :: ys => ix.2 :: pops cmp fuel ⟨Heap.push (hlt cmp) h1 (ix.1, y), s.rests.set ix.1 ys⟩

/-- the loop of `MergeSorted` when the consumer stops at its `n`-th item (`n ≥ 1`): nothing more is popped or pulled -/
def popsN (cmp : α → α → Int) : Nat → Nat → St α → List α
  | 0, _, _ => []
  | fuel + 1, n, s =>
    match Heap.pop (hlt cmp) s.heap with
    | none => []
    | some (ix, h1) =>
      if n ≤ 1 then [ix.2] else
      match s.rests.getD ix.1 [] with
      | [] => ix.2 :: popsN cmp fuel (n - 1) ⟨h1, s.rests⟩
      | y :: ys => ix.2 :: popsN cmp fuel (n - 1) ⟨Heap.push (hlt cmp) h1 (ix.1, y), s.rests.set ix.1 ys⟩

def total (runs : List (List α)) : Nat := (runs.map List.length).sum

/-- `iteru.MergeSorted(iters, compare)` fully consumed -/
def mergeSorted (cmp : α → α → Int) (runs : List (List α)) : List α :=
  pops cmp (total runs + 1) (init cmp runs)

/-- `Merge`'s loop state: `prevItem`, what was yielded, and whether `pick` returned a foreign value (panic) -/
structure RSt (α : Type) where
  prev : Option α := none
  out : List α := []
  panicked : Bool := false

def rstep [DecidableEq α] (cmp : α → α → Int) (pick : α → α → α) (s : RSt α) (x : α) : RSt α :=
  if s.panicked then s else
  match s.prev with
  | none => { s with prev := some x }
  | some p =>
    if cmp p x = 0 then
      if pick p x = p then s
      else if pick p x = x then { s with prev := some x }
      else { s with panicked := true }
    else { s with out := s.out ++ [p], prev := some x }

def finish (s : RSt α) : Option (List α) :=
  if s.panicked then none else some (s.out ++ s.prev.toList)

/-- the duplicate resolution of `Merge` applied to a popped sequence -/
def resolve [DecidableEq α] (cmp : α → α → Int) (pick : α → α → α) (xs : List α) : Option (List α) :=
  finish (xs.foldl (rstep cmp pick) {})

/-- `mergesort.Merge(iters, cmp, pick)` fully consumed; `none` = panic "pick must return one of the provided arguments" -/
def merge [DecidableEq α] (cmp : α → α → Int) (pick : α → α → α) (runs : List (List α)) : Option (List α) :=
  resolve cmp pick (mergeSorted cmp runs)

/-- `MergeSorted` consumed up to the `n`-th item -/
def mergeSortedN (cmp : α → α → Int) (runs : List (List α)) (n : Nat) : List α :=
  popsN cmp (total runs + 1) n (init cmp runs)

/-- `Merge`'s loop when the consumer stops at its `n`-th item (`n ≥ 1`): the loop returns right after that `yield`,
so later items are not processed (a panic they would cause does not happen) -/
def rstepN [DecidableEq α] (cmp : α → α → Int) (pick : α → α → α) (n : Nat) (s : RSt α) (x : α) : RSt α :=
  if s.out.length ≥ n then s else rstep cmp pick s x

def finishN (n : Nat) (s : RSt α) : Option (List α) :=
  if s.panicked then none else if s.out.length ≥ n then some (s.out.take n) else some (s.out ++ s.prev.toList)

def resolveN [DecidableEq α] (cmp : α → α → Int) (pick : α → α → α) (n : Nat) (xs : List α) : Option (List α) :=
  finishN n (xs.foldl (rstepN cmp pick n) {})

/-- `Merge` consumed up to the `n`-th item -/
def mergeN [DecidableEq α] (cmp : α → α → Int) (pick : α → α → α) (runs : List (List α)) (n : Nat) : Option (List α) :=
  resolveN cmp pick n (mergeSorted cmp runs)

/-! entries as merged by `kv.MergeEntries` -/
structure Entry where
  key : Bytes
  seq : Nat
  val : Bytes
deriving DecidableEq, Repr, Inhabited

end Rxn.Merge
