/-!
# Model of the whole pipeline: sources → runners → channels → operators → coordinator, with failures (C01)

An abstract dataflow system over the *specifications* of the components (each proved / validated on its own):

* a split `sp` is an infinite stream of records; record `i` of split `sp` has key `cfg.key sp i`
  (only a finite prefix is ever read);
* runner `r` of a deployment with `n` workers reads the splits with `cfg.assign n sp = r`; `read sp` takes the
  record at the split's cursor, advances the cursor and puts the record on the FIFO channel to the operator
  `cfg.route n key` (C16: cursor = emitted prefix; C04: runner→operator streams are FIFO, exactly once;
  C05: router and state ownership agree);
* `start` creates the single pending job checkpoint (C12: at most one pending); `barrier r` is the runner's
  barrier step: snapshot of the cursors of its splits, acknowledgement to the coordinator, barrier broadcast
  on all of its channels behind everything read before (`source_runner.go` `processEvents` barrier case);
* `deliver r o` is operator `o` consuming the record at the head of channel `r → o`: the user handler is called
  with the key's state and the record, the result replaces the key's state (C07/C03: keyed state is a map);
* `opCkpt o` is the aligned operator checkpoint (C02: the snapshot contains exactly what each sender delivered
  before its barrier): enabled when the head of *every* channel into `o` is the barrier; local snapshot = copy
  of the operator's state (C08), acknowledged to the coordinator;
* the acknowledgement that completes the pending checkpoint hands it to the asynchronous publication
  (`Store.finishSnapshot`): `writing`; `publish i` makes it durable/current (C13);
* `kill w` marks worker `w` as failed. It does not disable anything: a failed worker simply stops taking
  steps at some point, and the theorems hold even if it takes more;
* `restart n' job` (enabled in **every** state): the job redeploys on `n'` workers from the newest published
  checkpoint (C13), cursors := checkpointed cursors (C16), every key's state := the checkpointed state of the
  key's old owner, handed to the key's new owner (C06: restore = union filtered by ownership), all channels,
  the pending checkpoint and (if the job process itself died, `job = true`) the publications in progress
  are discarded. `restart` describes a deployment onto **fresh worker processes** (every node of the new
  assembly starts from the pristine state of a new process);
* `redeployLive n'` is the code as it is when the new assembly contains a node process that is still alive
  (a survivor of a partial failure, a transient loss of heartbeats, a retried deployment): the node is deployed
  again, but `SourceRunner.HandleDeploy` neither stops the previous deployment's event loop and output goroutine
  nor discards `outputStream` / the key-event fetcher / the operator's pending batch, so data in flight survives
  the redeploy and reaches the restored state (finding D39). The model keeps the channels; the real behaviour is
  at least this bad (two goroutines then drain one output stream, so records and barriers also overtake each
  other). The property theorems exclude this action (`…_partial`), `Props/C01.lean` has the counterexample.

Ghost state: `log o k` is the list of `(split, index)` operator `o` has applied to key `k` (restored together
with the state). Acknowledgements are synchronous calls in the code (`createCheckpoint`,
`handleCheckpointBarrier`), so they are part of the `barrier` / `opCkpt` steps; an acknowledgement of a worker
of a previous deployment that the coordinator would *accept* is not a step of this system (the trace validation
reports it).
-/
namespace Rxn.Pipeline

structure Entry where
  key : Nat
  split : Nat
  idx : Nat
deriving DecidableEq, Repr, Inhabited

inductive Item where
  | ev (e : Entry)
  | bar
deriving DecidableEq, Repr, Inhabited

/-- configuration: the input, the routing/assignment functions and the (arbitrary, deterministic) handler -/
structure Cfg (σ : Type) where
  key : Nat → Nat → Nat          -- split → index → key of the record
  route : Nat → Nat → Nat        -- worker count → key → owning operator
  assign : Nat → Nat → Nat       -- worker count → split → reading runner
  init : σ                       -- state of a key that was never written
  h : σ → Entry → σ              -- user handler: (state of the key, record) ↦ new state of the key

/-- routing and assignment stay inside the deployment -/
structure Cfg.WF {σ : Type} (cfg : Cfg σ) : Prop where
  route_lt : ∀ n k, 0 < n → cfg.route n k < n
  assign_lt : ∀ n sp, 0 < n → cfg.assign n sp < n

/-- a completed job checkpoint: per split cursor, per operator and key the state (and its ghost log) -/
structure Ckpt (σ : Type) where
  id : Nat
  n : Nat
  cursor : Nat → Nat
  log : Nat → Nat → List (Nat × Nat)
  st : Nat → Nat → σ

/-- the pending job checkpoint at the coordinator -/
structure Pend (σ : Type) where
  id : Nat
  rAck : List Nat
  oAck : List Nat
  cut : Nat → Nat
  slog : Nat → Nat → List (Nat × Nat)
  sst : Nat → Nat → σ

structure State (σ : Type) where
  n : Nat                                 -- workers of the current deployment (0: nothing deployed yet)
  cursor : Nat → Nat                      -- per split: next index to read
  queue : Nat → Nat → List Item           -- channel runner → operator
  log : Nat → Nat → List (Nat × Nat)      -- ghost: operator → key → applied (split, index)
  st : Nat → Nat → σ                      -- operator → key → state
  pending : Option (Pend σ)
  writing : List (Ckpt σ)                 -- complete, publication in progress
  published : List (Ckpt σ)
  nextId : Nat
  dead : List Nat

inductive Act where
  | read (sp : Nat)
  | start
  | barrier (r : Nat)
  | deliver (r o : Nat)
  | opCkpt (o : Nat)
  | publish (i : Nat)
  | kill (w : Nat)
  | restart (n : Nat) (job : Bool)
  | redeployLive (n : Nat)
deriving DecidableEq, Repr, Inhabited

/-- what the property talks about: the state handed to a handler invocation -/
structure Given (σ : Type) where
  op : Nat
  e : Entry
  state : σ

def init {σ : Type} (_cfg : Cfg σ) : State σ :=
  { n := 0, cursor := fun _ => 0, queue := fun _ _ => [], log := fun _ _ => [], st := fun _ _ => _cfg.init,
    pending := none, writing := [], published := [], nextId := 1, dead := [] }

/-- the published checkpoint with the largest id (`LoadCheckpoint` / `CurrentCheckpoint`) -/
def newest {σ : Type} : List (Ckpt σ) → Option (Ckpt σ)
  | [] => none
  | c :: cs =>
    match newest cs with
    | none => some c
    | some d => if d.id < c.id then some c else some d

def dropBar : List Item → List Item
  | Item.bar :: t => t
  | l => l

def Pend.complete {σ : Type} (p : Pend σ) (n : Nat) : Bool :=
  (List.range n).all (fun i => decide (i ∈ p.rAck)) && (List.range n).all (fun i => decide (i ∈ p.oAck))

def Pend.toCkpt {σ : Type} (p : Pend σ) (n : Nat) : Ckpt σ :=
  { id := p.id, n := n, cursor := p.cut, log := p.slog, st := p.sst }

/-- after an acknowledgement: a complete pending checkpoint is handed to the publication (`finishSnapshot`) -/
def settle {σ : Type} (s : State σ) (p : Pend σ) : State σ :=
  if p.complete s.n then { s with pending := none, writing := p.toCkpt s.n :: s.writing }
  else { s with pending := some p }

/-- the state every worker starts from after a redeploy on `n'` workers from checkpoint `c` -/
def restore {σ : Type} (cfg : Cfg σ) (s : State σ) (c : Option (Ckpt σ)) (n' : Nat) (job : Bool) : State σ :=
  { n := n'
    cursor := match c with | some c => c.cursor | none => fun _ => 0
    queue := fun _ _ => []
    log := fun o k => match c with
      | some c => if cfg.route n' k = o then c.log (cfg.route c.n k) k else []
      | none => []
    st := fun o k => match c with
      | some c => if cfg.route n' k = o then c.st (cfg.route c.n k) k else cfg.init
      | none => cfg.init
    pending := none
    writing := if job then [] else s.writing
    published := s.published
    nextId := if job then (match c with | some c => c.id + 1 | none => 1) else s.nextId
    dead := [] }

/-- one step; `none` = the action is not enabled -/
def step {σ : Type} (cfg : Cfg σ) (s : State σ) : Act → Option (State σ × List (Given σ))
  | .read sp =>
    if 0 < s.n then
      let i := s.cursor sp
      let e : Entry := ⟨cfg.key sp i, sp, i⟩
      let r := cfg.assign s.n sp
      let o := cfg.route s.n e.key
      some ({ s with
        cursor := fun x => if x = sp then i + 1 else s.cursor x
        queue := fun a b => if a = r ∧ b = o then s.queue r o ++ [Item.ev e] else s.queue a b }, [])
    else none
  | .start =>
    match s.pending with
    | some _ => none
    | none =>
      if 0 < s.n then
        some ({ s with
          pending := some { id := s.nextId, rAck := [], oAck := [], cut := fun _ => 0,
                            slog := fun _ _ => [], sst := fun _ _ => cfg.init }
          nextId := s.nextId + 1 }, [])
      else none
  | .barrier r =>
    match s.pending with
    | none => none
    | some p =>
      if r < s.n ∧ r ∉ p.rAck then
        let p' : Pend σ := { p with
          rAck := r :: p.rAck
          cut := fun sp => if cfg.assign s.n sp = r then s.cursor sp else p.cut sp }
        let s' : State σ := { s with
          queue := fun a b => if a = r then s.queue a b ++ [Item.bar] else s.queue a b }
        some (settle s' p', [])
      else none
  | .deliver r o =>
    match s.queue r o with
    | Item.ev e :: rest =>
      some ({ s with
        queue := fun a b => if a = r ∧ b = o then rest else s.queue a b
        log := fun a k => if a = o ∧ k = e.key then s.log o e.key ++ [(e.split, e.idx)] else s.log a k
        st := fun a k => if a = o ∧ k = e.key then cfg.h (s.st o e.key) e else s.st a k },
        [⟨o, e, s.st o e.key⟩])
    | _ => none
  | .opCkpt o =>
    match s.pending with
    | none => none
    | some p =>
      if o < s.n ∧ o ∉ p.oAck ∧ (List.range s.n).all (fun r => (s.queue r o).head? == some Item.bar) then
        let p' : Pend σ := { p with
          oAck := o :: p.oAck
          slog := fun a k => if a = o then s.log o k else p.slog a k
          sst := fun a k => if a = o then s.st o k else p.sst a k }
        let s' : State σ := { s with
          queue := fun a b => if b = o then dropBar (s.queue a b) else s.queue a b }
        some (settle s' p', [])
      else none
  | .publish i =>
    match s.writing[i]? with
    | some c => some ({ s with writing := s.writing.eraseIdx i, published := c :: s.published }, [])
    | none => none
  | .kill w => some ({ s with dead := w :: s.dead }, [])
  | .restart n' job =>
    if 0 < n' then some (restore cfg s (newest s.published) n' job, []) else none
  | .redeployLive n' =>
    if 0 < n' then some ({ restore cfg s (newest s.published) n' false with queue := s.queue }, []) else none

/-- run an action list; `none` as soon as an action is not enabled -/
def runFrom {σ : Type} (cfg : Cfg σ) (s : State σ) : List Act → Option (State σ × List (Given σ))
  | [] => some (s, [])
  | a :: as =>
    match step cfg s a with
    | none => none
    | some (s', o) =>
      match runFrom cfg s' as with
      | none => none
      | some (s'', o') => some (s'', o ++ o')

def run {σ : Type} (cfg : Cfg σ) (as : List Act) : Option (State σ × List (Given σ)) :=
  runFrom cfg (init cfg) as

/-! ## vocabulary of the theorems -/

/-- indices of split `sp` in a key's ghost log, in order -/
def idxOf (sp : Nat) (l : List (Nat × Nat)) : List Nat :=
  l.filterMap fun p => if p.1 = sp then some p.2 else none

def Item.proj (k sp : Nat) : Item → Option Nat
  | .ev e => if e.key = k ∧ e.split = sp then some e.idx else none
  | .bar => none

/-- indices of the records of key `k`, split `sp` on a channel, in order -/
def projI (k sp : Nat) (q : List Item) : List Nat := q.filterMap (Item.proj k sp)

/-- the same, up to the first barrier -/
def preProj (k sp : Nat) : List Item → List Nat
  | [] => []
  | Item.bar :: _ => []
  | Item.ev e :: t => (if e.key = k ∧ e.split = sp then [e.idx] else []) ++ preProj k sp t

def countBar (q : List Item) : Nat := q.count Item.bar

/-- the indices `< c` of split `sp` whose record has key `k`: what a failure-free consumer of the first `c`
records of the split applies to key `k`, in this order -/
def routed {σ : Type} (cfg : Cfg σ) (k sp c : Nat) : List Nat :=
  (List.range c).filter fun i => cfg.key sp i = k

/-- fold of the handler over a key's ghost log -/
def foldLog {σ : Type} (cfg : Cfg σ) (k : Nat) (l : List (Nat × Nat)) : σ :=
  l.foldl (fun s p => cfg.h s ⟨k, p.1, p.2⟩) cfg.init

/-- **Consistent**: for every key and split, what the key's owner has applied followed by what is still on the
channel to it is exactly the prefix of the split that has been read, restricted to the key — in order, nothing
missing, nothing twice; and nobody but the owner holds anything for the key. -/
def Consistent {σ : Type} (cfg : Cfg σ) (s : State σ) : Prop :=
  (∀ k sp, idxOf sp (s.log (cfg.route s.n k) k) ++ projI k sp (s.queue (cfg.assign s.n sp) (cfg.route s.n k))
      = routed cfg k sp (s.cursor sp)) ∧
  (∀ o k, cfg.route s.n k ≠ o → s.log o k = [])

/-- a checkpoint is a consistent cut: per key and split the owner's snapshot contains exactly the records below
the checkpointed cursor (`consumedAt C o sp = C.cursor sp`), and the snapshotted state is the fold over them -/
def CkptOK {σ : Type} (cfg : Cfg σ) (c : Ckpt σ) : Prop :=
  0 < c.n ∧
  (∀ k sp, idxOf sp (c.log (cfg.route c.n k) k) = routed cfg k sp (c.cursor sp)) ∧
  (∀ k, c.st (cfg.route c.n k) k = foldLog cfg k (c.log (cfg.route c.n k) k))

/-- nothing is in flight -/
def Quiescent {σ : Type} (s : State σ) : Prop := ∀ r o e, Item.ev e ∉ s.queue r o

def Act.isFailure : Act → Bool
  | .kill _ => true
  | .restart _ _ => true
  | .redeployLive _ => true
  | _ => false

/-- deployments that reuse a live node process (finding D39) -/
def Act.isLiveRedeploy : Act → Bool
  | .redeployLive _ => true
  | _ => false

end Rxn.Pipeline
