import RxnModel.Base.Types
/-!
`ds.Heap` (util/ds/heap.go) and `ds.PartitionedPriorityQueue` (util/ds/partitioned_priority_queue.go).
The heap is the code's slice with `up`, `down`, `Fix`; `lt a b` stands for `compare(a, b) < 0`
(so `compare(a, b) >= 0` is `!lt a b`). Core-only.
-/
namespace Rxn.Heap
variable {α : Type}

/-- `up(i)`: swap with the parent while strictly smaller -/
def up (lt : α → α → Bool) (a : Array α) (i : Nat) : Array α :=
  if _h0 : i = 0 then a else
  if hi : i < a.size then
    if lt a[i] a[(i - 1) / 2] then up lt (a.swap i ((i - 1) / 2)) ((i - 1) / 2) else a
  else a
termination_by i
decreasing_by omega

/-- the smaller child of `i` (the left one on ties), as chosen in `down` -/
def minChild (lt : α → α → Bool) (a : Array α) (i : Nat) (h : 2 * i + 1 < a.size) : Nat :=
  if hr : 2 * i + 2 < a.size then (if lt a[2 * i + 2] a[2 * i + 1] then 2 * i + 2 else 2 * i + 1) else 2 * i + 1

theorem minChild_bounds (lt : α → α → Bool) (a : Array α) (i : Nat) (h : 2 * i + 1 < a.size) :
    minChild lt a i h < a.size ∧ i < minChild lt a i h ∧
    (minChild lt a i h = 2 * i + 1 ∨ minChild lt a i h = 2 * i + 2) := by
  unfold minChild
  split
  · split <;> omega
  · omega

/-- `down(i)`: returns the array and the final position (`down` reports `final > i`) -/
def down (lt : α → α → Bool) (a : Array α) (i : Nat) : Array α × Nat :=
  if hl : 2 * i + 1 < a.size then
    have hb := minChild_bounds lt a i hl
    if lt (a[minChild lt a i hl]'hb.1) (a[i]'(by omega)) then
      down lt (a.swap i (minChild lt a i hl) (by omega) hb.1) (minChild lt a i hl)
    else (a, i)
  else (a, i)
termination_by a.size - i
decreasing_by
  simp only [Array.size_swap]
  omega

/-- `Push` -/
def push (lt : α → α → Bool) (a : Array α) (x : α) : Array α := up lt (a.push x) a.size

/-- `Pop`: root out, last element to the root, truncate, `down(0)` when anything is left -/
def pop (lt : α → α → Bool) (a : Array α) : Option (α × Array α) :=
  if h : 0 < a.size then
    let a1 := (a.set 0 (a[a.size - 1]'(by omega))).pop
    some (a[0], if 0 < a.size - 1 then (down lt a1 0).1 else a1)
  else none

/-- `Peek` -/
def peek (a : Array α) : Option α := a[0]?

/-- `Fix(i)`: `if !down(i) { up(i) }` -/
def fix (lt : α → α → Bool) (a : Array α) (i : Nat) : Array α :=
  let r := down lt a i
  if r.2 > i then r.1 else up lt r.1 i

end Rxn.Heap

/-! ### the heap together with the index assigner

`SetIndexAssigner(f)`: the code calls `f(x, n)` in `Push` (new slot), `Pop` (`-1` for the removed element, `0` for the
element moved to the root when one is left) and after every `swap` (both slots). The elements are pointers whose
stored index the callback overwrites; here the stored indices are a map from the element's identity (`key`) to
the last assigned value. `…I` functions do exactly what the plain ones do on the array (`Proofs/HeapIdx.lean`). -/
namespace Rxn.HeapI
variable {α κ : Type} [DecidableEq κ]

/-- `assignIndex(x, n)` -/
def assign (key : α → κ) (s : κ → Int) (x : α) (n : Int) : κ → Int := fun k => if k = key x then n else s k

/-- `swap(i, j)`: exchange, then `assignIndex(data[i], i); assignIndex(data[j], j)` -/
def swapI (key : α → κ) (a : Array α) (s : κ → Int) (i j : Nat) (hi : i < a.size) (hj : j < a.size) :
    Array α × (κ → Int) :=
  (a.swap i j hi hj,
   assign key (assign key s ((a.swap i j hi hj)[i]'(by simpa using hi)) i) ((a.swap i j hi hj)[j]'(by simpa using hj)) j)

def upI (key : α → κ) (lt : α → α → Bool) (a : Array α) (s : κ → Int) (i : Nat) : Array α × (κ → Int) :=
  if _h0 : i = 0 then (a, s) else
  if hi : i < a.size then
    if lt a[i] a[(i - 1) / 2] then
      upI key lt (swapI key a s i ((i - 1) / 2) hi (by omega)).1 (swapI key a s i ((i - 1) / 2) hi (by omega)).2 ((i - 1) / 2)
    else (a, s)
  else (a, s)
termination_by i
decreasing_by omega

def downI (key : α → κ) (lt : α → α → Bool) (a : Array α) (s : κ → Int) (i : Nat) : (Array α × (κ → Int)) × Nat :=
  if hl : 2 * i + 1 < a.size then
    have hb := Heap.minChild_bounds lt a i hl
    if lt (a[Heap.minChild lt a i hl]'hb.1) (a[i]'(by omega)) then
      downI key lt (swapI key a s i (Heap.minChild lt a i hl) (by omega) hb.1).1
        (swapI key a s i (Heap.minChild lt a i hl) (by omega) hb.1).2 (Heap.minChild lt a i hl)
    else ((a, s), i)
  else ((a, s), i)
termination_by a.size - i
decreasing_by
  simp only [swapI, Array.size_swap]
  omega

/-- `Push` -/
def pushI (key : α → κ) (lt : α → α → Bool) (a : Array α) (s : κ → Int) (x : α) : Array α × (κ → Int) :=
  upI key lt (a.push x) (assign key s x a.size) a.size

/-- `Pop` (with the D33 repair: the moved element is re-assigned only when one is left) -/
def popI (key : α → κ) (lt : α → α → Bool) (a : Array α) (s : κ → Int) : Option (α × (Array α × (κ → Int))) :=
  if h : 0 < a.size then
    let last := a[a.size - 1]'(by omega)
    let a1 := (a.set 0 last).pop
    let s1 := assign key s a[0] (-1)
    let s2 := if 0 < a.size - 1 then assign key s1 last 0 else s1
    some (a[0], if 0 < a.size - 1 then (downI key lt a1 s2 0).1 else (a1, s2))
  else none

/-- `Fix(i)` with the stored index: `if i == -1 { return }; if !down(i) { up(i) }` -/
def fixI (key : α → κ) (lt : α → α → Bool) (a : Array α) (s : κ → Int) (i : Int) : Array α × (κ → Int) :=
  if i < 0 then (a, s) else
  let r := downI key lt a s i.toNat
  if r.2 > i.toNat then r.1 else upI key lt r.1.1 r.1.2 i.toNat

end Rxn.HeapI

/-! ### heap of (priority, id) items as driven by the correspondence harness -/
namespace Rxn.HeapItems

structure Item where
  prio : Nat
  id : Nat
deriving DecidableEq, Repr, Inhabited

def ilt (a b : Item) : Bool := decide (a.prio < b.prio)

/-- the heap with the items' stored `index` fields (by item id; `-1` = not in the heap) -/
structure H where
  data : Array Item := #[]
  idx : Nat → Int := fun _ => -1

instance : Inhabited H := ⟨{}⟩

def push (h : H) (x : Item) : H :=
  let r := HeapI.pushI Item.id ilt h.data h.idx x
  { data := r.1, idx := r.2 }

def pop (h : H) : Option Item × H :=
  match HeapI.popI Item.id ilt h.data h.idx with
  | none => (none, h)
  | some (x, r) => (some x, { data := r.1, idx := r.2 })

/-- what the harness reads from `item.index` (`none` when negative) -/
def indexOf (h : H) (id : Nat) : Option Nat := if h.idx id < 0 then none else some (h.idx id).toNat

/-- harness op: change the priority of the item object `id` (wherever it is), then `Fix(item.index)`;
nothing happens when the stored index is negative -/
def reprio (h : H) (id newPrio : Nat) : H :=
  if h.idx id < 0 then h else
  let data := h.data.map (fun x => if x.id = id then { x with prio := newPrio } else x)
  let r := HeapI.fixI Item.id ilt data h.idx (h.idx id)
  { data := r.1, idx := r.2 }

inductive Op where
  | push (prio id : Nat) | pop | fix (id prio : Nat)

def step (h : H) : Op → H
  | .push p id => push h ⟨p, id⟩
  | .pop => (pop h).2
  | .fix id p => reprio h id p

def out (h : H) : Op → Option Item
  | .pop => (pop h).1
  | _ => none

def run (ops : List Op) : H := ops.foldl step {}

end Rxn.HeapItems

/-! ### PartitionedPriorityQueue -/
namespace Rxn.PPQ

/-- queued item: priority (the comparator looks only at this), owning partition, identity -/
structure Item where
  prio : Nat
  part : Nat
  id : Nat
deriving DecidableEq, Repr, Inhabited

/-- a partition is a priority queue; the harness supplies sorted-slice partitions: insert after equal priorities -/
def insertSorted (x : Item) : List Item → List Item
  | [] => [x]
  | y :: ys => if x.prio < y.prio then x :: y :: ys else y :: insertSorted x ys

structure Q where
  parts : Array (List Item)
  heap : Array Nat          -- partition ids
  idx : Nat → Int           -- the index each partition stored through `AssignIndex`; `Index()` returns it

instance : Inhabited Q := ⟨⟨#[], #[], fun _ => -1⟩⟩

def headOf (parts : Array (List Item)) (p : Nat) : Option Item := (parts.getD p []).head?

/-- `heapCompare(a, b) < 0`: empty partitions sort to the end -/
def partLt (parts : Array (List Item)) (a b : Nat) : Bool :=
  match headOf parts a, headOf parts b with
  | none, _ => false
  | some _, none => true
  | some x, some y => decide (x.prio < y.prio)

/-- `NewPartitionedPriorityQueue`: push every partition (the partitions may already hold items) -/
def new (parts : Array (List Item)) : Q :=
  let r := (List.range parts.size).foldl
    (fun (h : Array Nat × (Nat → Int)) p => HeapI.pushI id (partLt parts) h.1 h.2 p) (#[], fun _ => -1)
  { parts := parts, heap := r.1, idx := r.2 }

def peek (q : Q) : Option Item :=
  match Heap.peek q.heap with
  | none => none
  | some p => headOf q.parts p

def isEmpty (q : Q) : Bool :=
  match Heap.peek q.heap with
  | none => true
  | some p => (headOf q.parts p).isNone

/-- after partition `p` changed: `heap.Fix(partition.Index())` under the new order -/
def refix (parts : Array (List Item)) (heap : Array Nat) (idx : Nat → Int) (p : Nat) : Array Nat × (Nat → Int) :=
  HeapI.fixI id (partLt parts) heap idx (idx p)

def pop (q : Q) : Option Item × Q :=
  match Heap.peek q.heap with
  | none => (none, q)
  | some p =>
    match q.parts.getD p [] with
    | [] => (none, q)
    | x :: rest =>
      let parts := q.parts.setIfInBounds p rest
      let r := refix parts q.heap q.idx p
      (some x, { parts := parts, heap := r.1, idx := r.2 })

def push (q : Q) (x : Item) : Q :=
  let parts := q.parts.setIfInBounds x.part (insertSorted x (q.parts.getD x.part []))
  let r := refix parts q.heap q.idx x.part
  { parts := parts, heap := r.1, idx := r.2 }

def delete (q : Q) (x : Item) : Q :=
  let parts := q.parts.setIfInBounds x.part ((q.parts.getD x.part []).erase x)
  let r := refix parts q.heap q.idx x.part
  { parts := parts, heap := r.1, idx := r.2 }

/-- operation sequences (an item whose partition index addresses no partition makes the code panic before any
change; the state is then unchanged) -/
inductive Op where
  | push (x : Item) | delete (x : Item) | pop

def step (q : Q) : Op → Q
  | .push x => if x.part < q.parts.size then push q x else q
  | .delete x => if x.part < q.parts.size then delete q x else q
  | .pop => (pop q).2

/-- runs start from `NewPartitionedPriorityQueue(parts)` for any initial partition contents -/
def runFrom (parts : Array (List Item)) (ops : List Op) : Q := ops.foldl step (new parts)

def run (n : Nat) (ops : List Op) : Q := runFrom (Array.replicate n []) ops

end Rxn.PPQ
