import RxnModel.Base.Types
/-!
`ds.Heap` (util/ds/heap.go) and `ds.PartitionedPriorityQueue` (util/ds/partitioned_priority_queue.go).
The heap is the code's slice with `up`, `down`, `Fix`; `lt a b` stands for `compare(a, b) < 0`
(so `compare(a, b) >= 0` is `!lt a b`). Core-only.
-/
namespace Rxn.Heap
variable {α : Type}

/-- `up(i)`: swap with the parent while strictly smaller -/
def up (lt : α → α → Bool) (a : Array α) (i : Nat) : Array α :=
  if _h0 : i = 0 then a else
  if hi : i < a.size then
    if lt a[i] a[(i - 1) / 2] then up lt (a.swap i ((i - 1) / 2)) ((i - 1) / 2) else a
  else a
termination_by i
decreasing_by omega

/-- the smaller child of `i` (the left one on ties), as chosen in `down` -/
def minChild (lt : α → α → Bool) (a : Array α) (i : Nat) (h : 2 * i + 1 < a.size) : Nat :=
  if hr : 2 * i + 2 < a.size then (if lt a[2 * i + 2] a[2 * i + 1] then 2 * i + 2 else 2 * i + 1) else 2 * i + 1

theorem minChild_bounds (lt : α → α → Bool) (a : Array α) (i : Nat) (h : 2 * i + 1 < a.size) :
    minChild lt a i h < a.size ∧ i < minChild lt a i h ∧
    (minChild lt a i h = 2 * i + 1 ∨ minChild lt a i h = 2 * i + 2) := by
  unfold minChild
  split
  · split <;> omega
  · omega

/-- `down(i)`: returns the array and the final position (`down` reports `final > i`) -/
def down (lt : α → α → Bool) (a : Array α) (i : Nat) : Array α × Nat :=
  if hl : 2 * i + 1 < a.size then
    have hb := minChild_bounds lt a i hl
    if lt (a[minChild lt a i hl]'hb.1) (a[i]'(by omega)) then
      down lt (a.swap i (minChild lt a i hl) (by omega) hb.1) (minChild lt a i hl)
    else (a, i)
  else (a, i)
termination_by a.size - i
decreasing_by
  simp only [Array.size_swap]
  omega

/-- `Push` -/
def push (lt : α → α → Bool) (a : Array α) (x : α) : Array α := up lt (a.push x) a.size

/-- `Pop`: root out, last element to the root, truncate, `down(0)` when anything is left -/
def pop (lt : α → α → Bool) (a : Array α) : Option (α × Array α) :=
  if h : 0 < a.size then
    let a1 := (a.set 0 (a[a.size - 1]'(by omega))).pop
    some (a[0], if 0 < a.size - 1 then (down lt a1 0).1 else a1)
  else none

/-- `Peek` -/
def peek (a : Array α) : Option α := a[0]?

/-- `Fix(i)`: `if !down(i) { up(i) }` -/
def fix (lt : α → α → Bool) (a : Array α) (i : Nat) : Array α :=
  let r := down lt a i
  if r.2 > i then r.1 else up lt r.1 i

end Rxn.Heap

/-! ### heap of (priority, id) items as driven by the correspondence harness -/
namespace Rxn.HeapItems

structure Item where
  prio : Nat
  id : Nat
deriving DecidableEq, Repr, Inhabited

def ilt (a b : Item) : Bool := decide (a.prio < b.prio)

/-- position of the item with identity `id` (what the index assigner recorded), `none` when not in the heap -/
def indexOf (a : Array Item) (id : Nat) : Option Nat := a.toList.findIdx? (fun x => x.id == id)

/-- harness op: change the priority of a stored item, then `Fix(item.index)` -/
def reprio (a : Array Item) (id newPrio : Nat) : Array Item :=
  match indexOf a id with
  | none => a
  | some i =>
    if h : i < a.size then Heap.fix ilt (a.set i { prio := newPrio, id := id }) i else a

end Rxn.HeapItems

/-! ### PartitionedPriorityQueue -/
namespace Rxn.PPQ

/-- queued item: priority (the comparator looks only at this), owning partition, identity -/
structure Item where
  prio : Nat
  part : Nat
  id : Nat
deriving DecidableEq, Repr, Inhabited

/-- a partition is a priority queue; the harness supplies sorted-slice partitions: insert after equal priorities -/
def insertSorted (x : Item) : List Item → List Item
  | [] => [x]
  | y :: ys => if x.prio < y.prio then x :: y :: ys else y :: insertSorted x ys

structure Q where
  parts : Array (List Item)
  heap : Array Nat          -- partition ids; `Index()` of partition p is its position here
deriving Repr, Inhabited

def headOf (parts : Array (List Item)) (p : Nat) : Option Item := (parts.getD p []).head?

/-- `heapCompare(a, b) < 0`: empty partitions sort to the end -/
def partLt (parts : Array (List Item)) (a b : Nat) : Bool :=
  match headOf parts a, headOf parts b with
  | none, _ => false
  | some _, none => true
  | some x, some y => decide (x.prio < y.prio)

/-- `partition.Index()` as maintained by the index assigner -/
def indexOf (heap : Array Nat) (p : Nat) : Nat := heap.toList.idxOf p

/-- `NewPartitionedPriorityQueue`: push every partition -/
def new (parts : Array (List Item)) : Q :=
  { parts := parts, heap := (List.range parts.size).foldl (fun h p => Heap.push (partLt parts) h p) #[] }

def peek (q : Q) : Option Item :=
  match Heap.peek q.heap with
  | none => none
  | some p => headOf q.parts p

def isEmpty (q : Q) : Bool :=
  match Heap.peek q.heap with
  | none => true
  | some p => (headOf q.parts p).isNone

/-- after partition `p` changed: `heap.Fix(partition.Index())` under the new order -/
def refix (parts : Array (List Item)) (heap : Array Nat) (p : Nat) : Array Nat :=
  Heap.fix (partLt parts) heap (indexOf heap p)

def pop (q : Q) : Option Item × Q :=
  match Heap.peek q.heap with
  | none => (none, q)
  | some p =>
    match q.parts.getD p [] with
    | [] => (none, q)
    | x :: rest =>
      let parts := q.parts.setIfInBounds p rest
      (some x, { parts := parts, heap := refix parts q.heap p })

def push (q : Q) (x : Item) : Q :=
  let parts := q.parts.setIfInBounds x.part (insertSorted x (q.parts.getD x.part []))
  { parts := parts, heap := refix parts q.heap x.part }

def delete (q : Q) (x : Item) : Q :=
  let parts := q.parts.setIfInBounds x.part ((q.parts.getD x.part []).erase x)
  { parts := parts, heap := refix parts q.heap x.part }

/-- operation sequences (an item whose partition index addresses no partition makes the code panic before any
change; the state is then unchanged) -/
inductive Op where
  | push (x : Item) | delete (x : Item) | pop

def step (q : Q) : Op → Q
  | .push x => if x.part < q.parts.size then push q x else q
  | .delete x => if x.part < q.parts.size then delete q x else q
  | .pop => (pop q).2

def run (n : Nat) (ops : List Op) : Q := ops.foldl step (new (Array.replicate n []))

end Rxn.PPQ
