import RxnModel.Generated.Facts
/-!
# Job FSM — executable model of `jobs.Job` with its snapshot store and the operators' in-flight checkpoint record

Anchors: `jobs/job.go` (serial task queue, `evaluateClusterStatus`, asynchronous `start`), `jobs/registry.go`
(`NewAssembly`, `Purge`), `jobs/liveness.go`, `jobs/assembly.go` (`Healthy`, `Deploy`), `storage/snapshots/store.go`
(`CreateCheckpoint`, `AddOperatorSnapshot`, `AddSourceSnapshot`, `RegisterSourceSplitter`, pending snapshot),
`workers/operator/operator.go` (`HandleDeploy`, `handleCheckpointBarrier`), `workers/operator/checkpoint.go`.

Node ids are `Nat` (the harness uses the strings `n0`..`n9`, whose order is the numeric one).  Time is in seconds.
Every constructor of `Act` is one atomic action: a task of the job's serial queue (together with the prefix of the
start goroutine it spawns, which runs until its `Deploy` calls are out), the result of a deployment, a tick of the
checkpoint ticker, an acknowledgement arriving at the store, or one barrier handled by an operator.

The model describes the code after the repair of D15 (`RegisterSourceSplitter` replaces the splitter and abandons the
pending snapshot of the previous deployment; `HandleDeploy` drops the operator's in-flight checkpoint record).
-/
namespace Rxn.JobFsm

inductive Status | init | paused | starting | running
  deriving DecidableEq, Repr

/-- `snapshots.jobSnapshot` while pending: expected members and those that have not acknowledged yet -/
structure Pending where
  id : Nat
  expOps : List Nat
  expSrs : List Nat
  waitOps : List Nat
  waitSrs : List Nat
  sp : Bool := false   -- `isSavepoint`: a savepoint was requested for this snapshot
  deriving DecidableEq, Repr

/-- `snapshots.storeState`: id counter, pending snapshot, newest published snapshot -/
structure Store where
  counter : Nat
  pending : Option Pending
  current : Option Nat
  writing : List Nat := []   -- completed snapshots whose file is being written (`finishSnapshotAsync` before its lock)
  deriving DecidableEq, Repr

/-- what an operator process keeps between calls: `status.IsReady`, `sourceRunners.all`, `checkpoint` -/
structure OpProc where
  deployed : Bool := false
  srcs : List Nat := []
  inflight : Option (Nat × List Nat) := none   -- checkpoint id, source runners whose barrier is still missing
  epoch : Nat := 0                             -- ghost: number of HandleDeploy calls so far
  batch : List (Nat × Nat) := []               -- eventBatcher: (event tag, ghost: epoch in which it arrived)

/-- the local state of one run of the checkpoint ticker callback (`jobs/job.go`, the closure given to `clock.Every`):
the operator ids it read from `j.assembly`, and — after `CreateCheckpoint` — the id and the source runners of the
`j.assembly` it read for `StartCheckpoint` -/
structure Tick where
  ops : List Nat
  start : Option (Nat × List Nat) := none
  sp : Bool := false   -- the run is `HandleCreateSavepoint` (an RPC goroutine), not the ticker callback
  deriving DecidableEq, Repr

structure St where
  w : Nat                     -- config.WorkerCount
  bmax : Nat := 3             -- EventBatcherParams.MaxSize of the operators
  d : Nat                     -- heartbeat deadline
  now : Nat                   -- clock
  ops : List Nat              -- registry.operators (ascending ids)
  srs : List Nat              -- registry.runners
  live : Nat → Option Nat     -- LivenessTracker.m
  status : Status
  asmOps : List Nat           -- job.assembly
  asmSrs : List Nat
  ticker : Bool               -- a checkpoint ticker exists and has not been stopped
  startCk : Option Nat        -- checkpoint read by the start goroutine that is in flight
  store : Store
  procs : Nat → OpProc
  tk : Option Tick := none    -- a checkpoint ticker callback that is in flight (it runs OUTSIDE the task queue)
  ser : Bool := true          -- ghost: no ticker callback / savepoint request has been run in pieces so far

def init (w d c0 : Nat) (bmax : Nat := 3) : St :=
  { w := w, bmax := bmax, d := d, now := 1000, ops := [], srs := [], live := fun _ => none, status := .init,
    asmOps := [], asmSrs := [], ticker := false, startCk := none,
    store := { counter := c0, pending := none, current := if c0 = 0 then none else some c0 },
    procs := fun _ => {} }

/-- `SortedMap.Set` followed by the sort that `Values` performs -/
def ins (i : Nat) : List Nat → List Nat
  | [] => [i]
  | x :: xs => if i < x then i :: x :: xs else if i = x then x :: xs else x :: ins i xs

/-- the expiry test of `LivenessTracker.Purge`, `hb.Before(lt.clock.Now().Add(-lt.deadline))`, as extracted from the
source (`Generated/Facts.lean`): comparison 0 = After, 1 = Before, +2 = negated; the deadline is subtracted or added -/
def expired (d now hb : Nat) : Bool :=
  let limit : Int := if Facts.livenessMinusDeadline = 1 then (now : Int) - d else (now : Int) + d
  match Facts.livenessCond with
  | 0 => decide ((hb : Int) > limit)
  | 1 => decide ((hb : Int) < limit)
  | 2 => !decide ((hb : Int) > limit)
  | _ => !decide ((hb : Int) < limit)

def dead (s : St) (i : Nat) : Bool :=
  match s.live i with
  | some hb => expired s.d s.now hb
  | none => false

/-- `Registry.Purge` -/
def purge (s : St) : St :=
  { s with ops := s.ops.filter (fun i => !dead s i), srs := s.srs.filter (fun i => !dead s i),
           live := fun i => match s.live i with
             | some hb => if expired s.d s.now hb then none else some hb
             | none => none }

/-- `Assembly.Healthy` -/
def healthy (s : St) : Bool :=
  s.asmSrs.all (fun i => s.srs.contains i) && s.asmOps.all (fun i => s.ops.contains i)

structure Dep where
  ops : List Nat
  srs : List Nat
  ck : Option Nat
  deriving DecidableEq, Repr

/-- the `StatusInit, StatusPaused` arm of `evaluateClusterStatus` together with the prefix of the start goroutine it
spawns: `NewAssembly`, read the current checkpoint, register the splitter with the store (abandons the pending
snapshot), send `Deploy` to the whole assembly -/
def spawn (s : St) : St × Option Dep :=
  if s.srs.length < s.w || s.ops.length < s.w then (s, none)
  else
    ({ s with status := .starting, asmOps := s.ops.take s.w, asmSrs := s.srs.take s.w, startCk := s.store.current,
              store := { s.store with pending := none } },
     some { ops := s.ops.take s.w, srs := s.srs.take s.w, ck := s.store.current })

def evalStatus (s : St) : St × Option Dep :=
  match s.status with
  | .running => if healthy s then (s, none) else ({ s with status := .paused, ticker := false }, none)
  | .starting => (s, none)
  | .init => spawn s
  | .paused => spawn s

/-- `evaluateClusterStatus` -/
def evaluate (s : St) : St × Option Dep := evalStatus (purge s)

inductive AckRes
  | ok (pub : Option Nat) | nopending | mismatch | unknown
  deriving DecidableEq, Repr

/-- when every expected member has acknowledged the snapshot is complete: `finishSnapshot` hands it to a goroutine
that writes the file and only then (action `.publish`) makes it the current checkpoint -/
def finish (st : Store) (p : Pending) : Store × AckRes :=
  if p.waitOps.isEmpty && p.waitSrs.isEmpty then
    ({ st with pending := none, writing := st.writing ++ [p.id] }, .ok (some p.id))
  else ({ st with pending := some p }, .ok none)

/-- `Store.AddSourceSnapshot` -/
def ackS (st : Store) (i id : Nat) : Store × AckRes :=
  match st.pending with
  | none => (st, .nopending)
  | some p =>
    if p.id ≠ id then (st, .mismatch)
    else if !p.expSrs.contains i then (st, .unknown)
    else finish st { p with waitSrs := p.waitSrs.filter (· ≠ i) }

/-- `Store.AddOperatorSnapshot` (an unexpected or repeated operator is only logged) -/
def ackO (st : Store) (i id : Nat) : Store × AckRes :=
  match st.pending with
  | none => (st, .nopending)
  | some p =>
    if p.id ≠ id then (st, .mismatch)
    else if p.expOps.contains i then finish st { p with waitOps := p.waitOps.filter (· ≠ i) }
    else finish st p

/-- a snapshot being written was completed under an id the counter has reached, before any pending one -/
def canPublish (st : Store) (n : Nat) : Bool :=
  st.writing.contains n && decide (n ≤ st.counter) &&
    (match st.pending with
     | some p => decide (n < p.id)
     | none => true)

/-- `finishSnapshotAsync` under the lock: a newer snapshot that was published earlier stays the current one -/
def pubCurrent (cur : Option Nat) (n : Nat) : Option Nat :=
  match cur with
  | some c => if c < n then some n else some c
  | none => some n

inductive Act
  | regO (i : Nat) | regS (i : Nat) | deregO (i : Nat) | deregS (i : Nat) | adv (n : Nat)
  | deployOk | deployFail (k : Nat)
  | tick | ackS (i id : Nat) | ackO (i id : Nat) | bar (i s id : Nat)
  | ev (i s tag : Nat) | flush (i : Nat)
  -- the checkpoint ticker callback in the three pieces between which tasks of the job's queue can run (the callback is
  -- not a task): read `j.assembly` for the operator ids; read it for the runner ids, `CreateCheckpoint`, read it again
  -- for `StartCheckpoint`; the `StartCheckpoint` calls arrive
  | tickA | tickB | tickC
  -- `HandleCreateSavepoint` as one step, and its first piece (status check, read `j.assembly` for the operator ids);
  -- its other two pieces are `tickB`/`tickC` (same code shape as the ticker callback: it runs off the task queue too)
  | savepoint | spA
  -- the file of completed snapshot `n` has been written: `finishSnapshotAsync` takes the lock and makes it current
  | publish (n : Nat)
  deriving DecidableEq, Repr

/-- the actions of a schedule in which every ticker callback runs without a task of the queue in between (then it is
the single action `.tick`). The code has no lock that enforces this: finding D57. -/
def Act.serial : Act → Bool
  | .tickA | .tickB | .tickC | .spA => false
  | _ => true

/-- the tasks that change the registry (each ends with `evaluateClusterStatus`) -/
def Act.membership : Act → Bool
  | .regO _ | .regS _ | .deregO _ | .deregS _ => true
  | _ => false

inductive Out
  | status (st : Status) (dep : Option Dep)
  | done
  | nostart
  | started (st : Status) (ck : Option Nat) (assigned : List Nat) (stalePending : Bool) (staleRecs : List Nat)
      (staleBatch : List Nat)
  | stopped | retry | ckpt (id : Nat) (srs : List Nat)
  | ack (r : AckRes)
  | barRefused   -- the sender is not a source runner of the operator's current deployment (repair D69)
  | barOk | barAcked (pub : Option Nat) (flushed : List (Nat × Nat)) (epoch : Nat)
  | barAckErr (r : AckRes) (flushed : List (Nat × Nat)) (epoch : Nat) | barMismatch | barBlocked | barNotReady
  | tickRead (ops : List Nat) | ckptCreated (id : Nat) | noTick
  | published (n : Nat) (cur : Option Nat) (notified : List Nat) | nothing
  | spNotRunning | spBusy | spJoined (id : Nat)
  | queueStuck   -- the job's serial queue is blocked inside an RPC to a member that does not answer
  | evQueued | processed (batch : List (Nat × Nat)) (epoch : Nat) | flushEmpty
  deriving DecidableEq, Repr

def Out.dep? : Out → Option Dep
  | .status _ d => d
  | _ => none

def setProc (f : Nat → OpProc) (i : Nat) (p : OpProc) : Nat → OpProc := fun j => if j = i then p else f j

/-- `HandleDeploy` on every operator of the assembly except the unreachable one. The in-flight checkpoint record is
dropped (D15, D43); the event batcher is not touched, so events of the previous deployment stay queued (finding D45) -/
def deployProcs (s : St) (skip : Option Nat) : Nat → OpProc :=
  fun j => if s.asmOps.contains j && skip != some j then
      { deployed := true, srcs := s.asmSrs, inflight := none, epoch := (s.procs j).epoch + 1, batch := (s.procs j).batch }
    else s.procs j

def withStatus (r : St × Option Dep) : St × Out := (r.1, .status r.1.status r.2)

/-- `alignSender`: a sender whose barrier is already in (or that the record does not expect) parks until the record
completes -/
def parked (r : Option (Nat × List Nat)) (sr : Nat) : Bool :=
  match r with
  | some (_, waiting) => !waiting.contains sr && !waiting.isEmpty
  | none => false

/-- `registerBarrier` on the record `(rid, waiting)` and, once every barrier is in: flush the event batch, take the
DKV checkpoint, acknowledge to the job. A rejected acknowledgement leaves the completed record in place. -/
def register (s : St) (i sr id rid : Nat) (waiting : List Nat) : St × Out :=
  if rid ≠ id then (s, .barMismatch)
  else if (waiting.filter (· ≠ sr)).isEmpty then
    match ackO s.store i rid with
    | (st', .ok pub) =>
      ({ s with store := st', procs := setProc s.procs i { (s.procs i) with inflight := none, batch := [] } },
       .barAcked pub (s.procs i).batch (s.procs i).epoch)
    | (_, r) =>
      ({ s with procs := setProc s.procs i { (s.procs i) with inflight := some (rid, []), batch := [] } },
       .barAckErr r (s.procs i).batch (s.procs i).epoch)
  else
    ({ s with procs := setProc s.procs i { (s.procs i) with inflight := some (rid, waiting.filter (· ≠ sr)) } }, .barOk)

/-- `HandleEvent` with a checkpoint barrier: ready check, sender check (only runners of the current deployment are
heard), `alignSender`, then `handleCheckpointBarrier` -/
def barrier (s : St) (i sr id : Nat) : St × Out :=
  if !(s.procs i).deployed then (s, .barNotReady)
  else if !(s.procs i).srcs.contains sr then (s, .barRefused)
  else if parked (s.procs i).inflight sr then (s, .barBlocked)
  else register s i sr id ((s.procs i).inflight.getD (id, (s.procs i).srcs)).1
         ((s.procs i).inflight.getD (id, (s.procs i).srcs)).2

/-- `HandleEvent` with a keyed event: `alignSender`, then `handleUserEvent` (add to the batcher, process when full) -/
def event (s : St) (i sr tag : Nat) : St × Out :=
  if !(s.procs i).deployed then (s, .barNotReady)
  else if !(s.procs i).srcs.contains sr then (s, .barRefused)
  else if parked (s.procs i).inflight sr then (s, .barBlocked)
  else if s.bmax ≤ (s.procs i).batch.length + 1 then
    ({ s with procs := setProc s.procs i { (s.procs i) with batch := [] } },
     .processed ((s.procs i).batch ++ [(tag, (s.procs i).epoch)]) (s.procs i).epoch)
  else
    ({ s with procs := setProc s.procs i { (s.procs i) with batch := (s.procs i).batch ++ [(tag, (s.procs i).epoch)] } },
     .evQueued)

/-- the batcher's timer fires: `processEventBatch` of whatever is queued -/
def flushBatch (s : St) (i : Nat) : St × Out :=
  if (s.procs i).batch.isEmpty then (s, .flushEmpty)
  else ({ s with procs := setProc s.procs i { (s.procs i) with batch := [] } },
        .processed (s.procs i).batch (s.procs i).epoch)

def step (s : St) : Act → St × Out
  | .regO i => withStatus (evaluate { s with live := fun j => if j = i then some s.now else s.live j, ops := ins i s.ops })
  | .regS i => withStatus (evaluate { s with live := fun j => if j = i then some s.now else s.live j, srs := ins i s.srs })
  | .deregO i => withStatus (evaluate { s with ops := s.ops.filter (· ≠ i) })
  | .deregS i => withStatus (evaluate { s with srs := s.srs.filter (· ≠ i) })
  | .adv n => ({ s with now := s.now + n }, .done)
  | .deployOk =>
      if s.status ≠ .starting then (s, .nostart)
      else
        -- every Deploy returned nil; the splitter starts from the checkpoint read earlier and assigns splits;
        -- then the task that sets Running, creates the ticker and evaluates the cluster
        let s1 := { s with procs := deployProcs s none, status := .running, ticker := true }
        let s2 := (evaluate s1).1
        (s2, .started s2.status s.startCk s.asmSrs s2.store.pending.isSome
               (s2.asmOps.filter fun i => (s2.procs i).inflight.isSome)
               (s2.asmOps.filter fun i => !(s2.procs i).batch.isEmpty))
  | .deployFail k =>
      if s.status ≠ .starting then (s, .nostart)
      else
        let v := k % (s.asmOps.length + s.asmSrs.length)
        let s1 := { s with procs := deployProcs s (s.asmOps[v]?), status := .paused, ticker := false }
        withStatus (evaluate s1)
  | .tick =>
      if !s.ticker then (s, .stopped)
      else match s.store.pending with
        | some _ => (s, .retry)
        | none =>
          let n := s.store.counter + 1
          let p : Pending := { id := n, expOps := s.asmOps, expSrs := s.asmSrs, waitOps := s.asmOps, waitSrs := s.asmSrs }
          ({ s with store := { s.store with counter := n, pending := some p } }, .ckpt n s.asmSrs)
  | .ackS i id => let (st', r) := ackS s.store i id; ({ s with store := st' }, .ack r)
  | .ackO i id => let (st', r) := ackO s.store i id; ({ s with store := st' }, .ack r)
  | .bar i sr id => barrier s i sr id
  | .ev i sr tag => event s i sr tag
  | .flush i => flushBatch s i
  | .publish n =>
      if canPublish s.store n then
        ({ s with store := { s.store with writing := s.store.writing.erase n, current := pubCurrent s.store.current n } },
         -- an older snapshot became obsolete: the retained-ids goroutine (off the queue) reads `j.assembly` and tells
         -- its operators to retain only `n`
         .published n (pubCurrent s.store.current n)
           (match s.store.current with | some c => if c < n then s.asmOps else [] | none => []))
      else (s, .nothing)
  | .tickA =>
      if !s.ticker then (s, .stopped)
      else if s.tk.isSome then (s, .noTick)
      else ({ s with tk := some { ops := s.asmOps }, ser := false }, .tickRead s.asmOps)
  | .savepoint =>
      if s.status != .running then (s, .spNotRunning)
      else match s.store.pending with
        | some p =>
          if p.sp then (s, .spBusy)
          else ({ s with store := { s.store with pending := some { p with sp := true } } }, .spJoined p.id)
        | none =>
          let n := s.store.counter + 1
          let p : Pending := { id := n, expOps := s.asmOps, expSrs := s.asmSrs, waitOps := s.asmOps, waitSrs := s.asmSrs, sp := true }
          ({ s with store := { s.store with counter := n, pending := some p } }, .ckpt n s.asmSrs)
  | .spA =>
      if s.status != .running then (s, .spNotRunning)
      else if s.tk.isSome then (s, .noTick)
      else ({ s with tk := some { ops := s.asmOps, sp := true }, ser := false }, .tickRead s.asmOps)
  | .tickB =>
      match s.tk with
      | some { ops := ops, start := none, sp := sp } =>
        (match s.store.pending with
        | some p =>
          if !sp then ({ s with tk := none, ser := false }, .retry)
          else if p.sp then ({ s with tk := none, ser := false }, .spBusy)
          else ({ s with tk := none, ser := false, store := { s.store with pending := some { p with sp := true } } },
                .spJoined p.id)
        | none =>
          let n := s.store.counter + 1
          let p : Pending := { id := n, expOps := ops, expSrs := s.asmSrs, waitOps := ops, waitSrs := s.asmSrs, sp := sp }
          ({ s with store := { s.store with counter := n, pending := some p }, ser := false,
                    tk := some { ops := ops, start := some (n, s.asmSrs), sp := sp } }, .ckptCreated n))
      | _ => (s, .noTick)
  | .tickC =>
      match s.tk with
      | some { ops := _, start := some (n, srs), sp := _ } => ({ s with tk := none, ser := false }, .ckpt n srs)
      | _ => (s, .noTick)

def run (s : St) : List Act → St × List Out
  | [] => (s, [])
  | a :: as =>
    let (s1, o) := step s a
    let (s2, os) := run s1 as
    (s2, o :: os)

/-! ### unresponsive members

`step` describes the job when every RPC to a member returns. Which RPCs can block the job's serial queue when a member
stops answering (the clients have no timeout and the calls use `context.Background()`): `Deploy` runs in the start
goroutine (the deployment simply stays in flight: no `deployOk`/`deployFail`), `StartCheckpoint` in the ticker callback
or the savepoint RPC, `UpdateRetainedCheckpoints` in the retained-ids goroutine — none of them on the queue. But
`AssignSplits` is posted as a TASK (`start()`, the splitter hook) and waits for every runner: a runner that does not
answer it blocks the queue for ever. `stepQ` adds exactly that to `step`. -/

structure QSt where
  s : St
  hungS : List Nat := []      -- source runners that no longer answer `AssignSplits`
  hungO : List Nat := []      -- operators that no longer answer `UpdateRetainedCheckpoints`
  stuck : Bool := false       -- the queue's current task waits for such a runner
  retainStuck : Bool := false -- the retained-ids goroutine waits for such an operator

/-- the actions that are (or end in) a task of the job's serial queue -/
def Act.usesQueue : Act → Bool
  | .regO _ | .regS _ | .deregO _ | .deregS _ | .deployOk | .deployFail _ => true
  | _ => false

def stepQ (q : QSt) (a : Act) : QSt × Out :=
  match a with
  | .deployOk =>
      if q.stuck then (q, .nostart)   -- no deployment is in flight: the last one never got past AssignSplits
      else if q.s.status == .starting && q.s.asmSrs.any (fun i => q.hungS.contains i) then
        -- every HandleDeploy returned; the AssignSplits task never does; the Running task waits behind it
        ({ q with s := { q.s with procs := deployProcs q.s none }, stuck := true }, .queueStuck)
      else let (s', o) := step q.s a; ({ q with s := s' }, o)
  | .publish n =>
      let (s', o) := step q.s a
      match o with
      | .published m cur l =>
        if q.retainStuck then ({ q with s := s' }, .published m cur [])
        else ({ q with s := s', retainStuck := l.any (fun i => q.hungO.contains i) }, .published m cur l)
      | o => ({ q with s := s' }, o)
  | .deployFail k =>
      if q.stuck then (q, .nostart) else let (s', o) := step q.s (.deployFail k); ({ q with s := s' }, o)
  | a =>
      if q.stuck && a.usesQueue then (q, .queueStuck)
      else let (s', o) := step q.s a; ({ q with s := s' }, o)

def hang (q : QSt) (op : Bool) (i : Nat) : QSt :=
  if op then { q with hungO := i :: q.hungO } else { q with hungS := i :: q.hungS }

def runQ (q : QSt) : List Act → QSt × List Out
  | [] => (q, [])
  | a :: as =>
    let (q1, o) := stepQ q a
    let (q2, os) := runQ q1 as
    (q2, o :: os)

/-- one complete checkpoint round of the current assembly: the ticker fires, every source runner acknowledges, and
every operator receives the barrier of every source runner, the snapshot file is written -/
def progressActs (s : St) : List Act :=
  Act.tick :: ((s.asmSrs.map fun x => Act.ackS x (s.store.counter + 1)) ++
    (s.asmOps.flatMap fun i => s.asmSrs.map fun x => Act.bar i x (s.store.counter + 1))) ++
    [Act.publish (s.store.counter + 1)]

/-- the states of all traces from all initial configurations in which every ticker callback and savepoint request runs
as ONE step (`.tick`, `.savepoint`). The code does not enforce such schedules (finding D57); theorems that need them
carry `_partial`. -/
def ReachableSerial (s : St) : Prop :=
  ∃ w d c0 bmax acts, (∀ a ∈ acts, a.serial = true) ∧ s = (run (init w d c0 bmax) acts).1

/-- the states of ALL traces from all initial configurations: ticker callbacks and savepoint requests may also run in
their pieces (`.tickA/.tickB/.tickC`, `.spA`) with any tasks in between, as the code allows -/
def ReachableAll (s : St) : Prop := ∃ w d c0 bmax acts, s = (run (init w d c0 bmax) acts).1

/-- registered with an unexpired heartbeat -/
def alive (s : St) (i : Nat) : Prop := ∃ hb, s.live i = some hb ∧ expired s.d s.now hb = false

end Rxn.JobFsm
