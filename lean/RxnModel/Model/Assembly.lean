import RxnModel.Model.KeySpace
/-!
Deployment level of C05: who is told what, and what each side builds from it.

* `jobs/registry.go` (`Registry`, over `util/ds/sorted_map.go`): registered node ids, `NewAssembly`.
* `jobs/assembly.go` `Assembly.Deploy`: the request every source runner and every operator is sent.
* `workers/sourcerunner/source_runner.go` `HandleDeploy` + `operator_cluster.go` `routeEvent`: the runner's router.
* `workers/operator/operator.go` `HandleDeploy`: own index, key space, own range, ownership test, encoders.

Node ids are byte strings (Go `string`, compared bytewise by `cmp.Compare`). Only the fields that decide
routing and ownership are modelled (checkpoint hand-out of `Deploy` is C06's `AssignRanges` model).
Also here: the `[]uint16` lookup table of `NewKeySpace` on a Lean `Array` (what the driver executes),
and `KeyGroupRange.KeyGroups`.
-/
namespace Rxn

/-- `KeyGroupRange.KeyGroups()`: `Size()` consecutive groups from `Start` -/
def KGRange.keyGroups (r : KGRange) : List Nat := List.range' r.start r.size

namespace KeySpace

/-- `fillRange` on an array (in place when the array is not shared) -/
def fillRangeA (tbl : Array Nat) (i : Nat) : (count j : Nat) → Array Nat
  | 0, _ => tbl
  | c + 1, j => fillRangeA (tbl.setIfInBounds j (i % 65536)) i c (j + 1)

def fillAllA (tbl : Array Nat) : (i : Nat) → List KGRange → Array Nat
  | _, [] => tbl
  | i, r :: rs => fillAllA (fillRangeA tbl i (r.stop - r.start) r.start) (i + 1) rs

/-- `rangeLookup` of `NewKeySpace` as an array; equal to `lookupTable` (`C05.lookupTableA_eq`) -/
def lookupTableA (kgc n : Nat) : Array Nat := fillAllA (Array.replicate kgc 0) 0 (ranges kgc n)

/-- `KeySpace.RangeIndex` over the array table; equal to `rangeIndex` (`C05.rangeIndexA_eq`) -/
def rangeIndexA (tbl : Array Nat) (kgc : Nat) (key : Bytes) : Nat := tbl.getD (keyGroup kgc key % 65536) 0

end KeySpace

namespace Assembly
abbrev NodeId := Bytes

/-! ### Registry -/

/-- the key lists of the two `SortedMap`s (insertion order; sorted when read) -/
structure Reg where
  ops : List NodeId := []
  srs : List NodeId := []
deriving Repr

inductive RegStep where
  | regOp (id : NodeId) | regSr (id : NodeId) | deregOp (id : NodeId) | deregSr (id : NodeId)

/-- `SortedMap.Set`: only a key not yet present is appended -/
def setKey (keys : List NodeId) (id : NodeId) : List NodeId := if keys.contains id then keys else keys ++ [id]

def Reg.step (r : Reg) : RegStep → Reg
  | .regOp id => { r with ops := setKey r.ops id }
  | .regSr id => { r with srs := setKey r.srs id }
  | .deregOp id => { r with ops := r.ops.erase id }
  | .deregSr id => { r with srs := r.srs.erase id }

def Reg.run (steps : List RegStep) : Reg := steps.foldl Reg.step {}

/-- `SortedMap.Values()`: keys in `cmp.Compare` order -/
def sortedIds (keys : List NodeId) : List NodeId := keys.mergeSort (fun a b => Bytes.le a b)

/-- `Registry.NewAssembly`: the first `taskCount` operators and runners in id order, or `ErrNotEnoughResources` -/
def newAssembly (taskCount : Nat) (r : Reg) : Option (List NodeId × List NodeId) :=
  if r.srs.length < taskCount ∨ r.ops.length < taskCount then none
  else some ((sortedIds r.ops).take taskCount, (sortedIds r.srs).take taskCount)

/-! ### Assembly.Deploy -/

/-- `workerpb.DeploySourceRunnerRequest` (routing-relevant fields) -/
structure SrReq where
  operators : List NodeId
  kgc : Nat
deriving Repr, DecidableEq

/-- `workerpb.DeployOperatorRequest` (ownership-relevant fields) -/
structure OpReq where
  operators : List NodeId
  srIds : List NodeId
  kgc : Nat
deriving Repr, DecidableEq

/-- what `Deploy` sends: one request per source runner and per operator, with the receiver's id -/
structure Deployment where
  srReqs : List (NodeId × SrReq)
  opReqs : List (NodeId × OpReq)
deriving Repr

/-- `Assembly.Deploy(cfg, ckpt)` with `cfg.KeyGroupCount = kgc`, `cfg.WorkerCount = wc`.
`none` = the call panics: `cfg.KeySpace()` rejects the counts, or `opCkptAssignments[i]` is indexed beyond
`WorkerCount`. (`int32(kgc)` and back is the identity below 2^31, and `kgc ≤ 65535` here.) -/
def deploy (kgc wc : Nat) (ops srs : List NodeId) : Option Deployment :=
  if kgc < 1 ∨ kgc > 65535 ∨ wc < 1 ∨ ops.length > wc then none
  else some { srReqs := srs.map fun s => (s, ⟨ops, kgc⟩), opReqs := ops.map fun o => (o, ⟨ops, srs, kgc⟩) }

/-! ### Source runner side -/

structure SrState where
  kgc : Nat
  ops : List NodeId      -- `operatorCluster.operators`, one client per identity in request order
  tbl : Array Nat        -- `operatorCluster.keySpace.rangeLookup`
deriving Repr

/-- `SourceRunner.HandleDeploy`: `newOperatorCluster(keyGroupCount, ops)` with `NewKeySpace(keyGroupCount, len(ops))`;
`none` = `NewKeySpace` panics -/
def srHandleDeploy (req : SrReq) : Option SrState :=
  if req.kgc < 1 ∨ req.kgc > 65535 ∨ req.operators.length < 1 then none
  else some ⟨req.kgc, req.operators, KeySpace.lookupTableA req.kgc req.operators.length⟩

/-- `operatorCluster.routeEvent`: the node the event for `key` is handed to -/
def srRoute (st : SrState) (key : Bytes) : Option NodeId :=
  st.ops[KeySpace.rangeIndexA st.tbl st.kgc key]?

/-! ### Operator side -/

structure OpState where
  kgc : Nat
  n : Nat
  idx : Nat
  range : KGRange
deriving Repr

/-- `Operator.HandleDeploy`: own index = first position of the own id (`slices.IndexFunc`), `NewKeySpace(kgc, len)`,
own range = `KeyGroupRanges()[ownIndex]`. `none` = panic (id not in the list, or counts rejected). -/
def opHandleDeploy (me : NodeId) (req : OpReq) : Option OpState :=
  let i := req.operators.idxOf me
  if i ≥ req.operators.length ∨ req.kgc < 1 ∨ req.kgc > 65535 then none
  else some ⟨req.kgc, req.operators.length, i, (KeySpace.ranges req.kgc req.operators.length).getD i ⟨0, 0⟩⟩

/-- what the deployed operator persists for a key, and whether its `OperatorPartition` owns it -/
def OpState.dbKey (st : OpState) (k ns d : Bytes) : Bytes := Keys.dbKey st.kgc k ns d
def OpState.timerKey (st : OpState) (k : Bytes) (t : Nat) : Bytes := Keys.timerKey st.kgc k t
def OpState.owns (st : OpState) (persisted : Bytes) : Bool := Keys.ownsKey st.range persisted

/-- `NewTimerStore(db, keySpace, keyGroupRange, …)`: queue `i` is `NewKeyGroupPriorityQueue(db, KeyGroups()[i], …)`, the
key group it loads from and persists under -/
def OpState.timerQueues (st : OpState) : List Nat := st.range.keyGroups

/-- `getPartitionIndex` of the timer store: `keyGroupRange.IndexOf(KeyGroupFromBytes(key[0:2]))` for the timer of `k` at `t`
(Go computes `int(kg) - Start`, which may be negative for a key the operator does not own; here truncated) -/
def OpState.timerQueueIndex (st : OpState) (k : Bytes) (t : Nat) : Nat :=
  Gen.kgIndexOf st.range (Bytes.beNat ((st.timerKey k t).take 2))

end Assembly
end Rxn
