import RxnModel.Model.Sst
/-!
The JSON form of `sst.TableDocument` as `encoding/json` writes it into the checkpoint document (`dkv/recovery`) and
reads it back (the D30 site): field order of the struct, `[]byte` keys as padded standard base64 (`null` for a nil
key), unsigned integers in decimal, the URI as a plain string. `jsonDoc` is the encoder, `parseDoc` a decoder for
exactly that canonical form. (A `[]byte` that is empty but not nil is written `""` by Go and read back as empty;
`Bytes` cannot tell the two apart and the table writer only produces nil for "no key".)
-/
namespace Rxn.Sst
open Rxn

def b64Alphabet : List Char :=
  ['A','B','C','D','E','F','G','H','I','J','K','L','M','N','O','P','Q','R','S','T','U','V','W','X','Y','Z',
   'a','b','c','d','e','f','g','h','i','j','k','l','m','n','o','p','q','r','s','t','u','v','w','x','y','z',
   '0','1','2','3','4','5','6','7','8','9','+','/']

def b64Char (n : Nat) : Char := b64Alphabet.getD n 'A'

def b64Val (c : Char) : Option Nat :=
  let i := b64Alphabet.findIdx (· == c)
  if i < 64 then some i else none

/-- `base64.StdEncoding.EncodeToString` -/
def b64Enc : Bytes → List Char
  | [] => []
  | [a] => [b64Char (a.toNat / 4), b64Char (a.toNat % 4 * 16), '=', '=']
  | [a, b] => [b64Char (a.toNat / 4), b64Char (a.toNat % 4 * 16 + b.toNat / 16), b64Char (b.toNat % 16 * 4), '=']
  | a :: b :: c :: rest =>
    b64Char (a.toNat / 4) :: b64Char (a.toNat % 4 * 16 + b.toNat / 16) ::
      b64Char (b.toNat % 16 * 4 + c.toNat / 64) :: b64Char (c.toNat % 64) :: b64Enc rest

/-- decoder for padded standard base64 (what `json.Unmarshal` applies to a `[]byte` field) -/
def b64Dec : List Char → Option Bytes
  | [] => some []
  | w :: x :: y :: z :: rest =>
    match b64Val w, b64Val x with
    | some a, some b =>
      if y = '=' then
        if z = '=' ∧ rest = [] then some [UInt8.ofNat (a * 4 + b / 16)] else none
      else match b64Val y with
        | none => none
        | some c =>
          if z = '=' then
            if rest = [] then some [UInt8.ofNat (a * 4 + b / 16), UInt8.ofNat (b % 16 * 16 + c / 4)] else none
          else match b64Val z with
            | none => none
            | some d =>
              match b64Dec rest with
              | none => none
              | some bs => some (UInt8.ofNat (a * 4 + b / 16) :: UInt8.ofNat (b % 16 * 16 + c / 4) ::
                  UInt8.ofNat (c % 4 * 64 + d) :: bs)
    | _, _ => none
  | _ => none

/-- decimal digits, most significant first (`strconv.AppendUint`) -/
def decDigits (n : Nat) : List Nat :=
  if _h : n < 10 then [n] else decDigits (n / 10) ++ [n % 10]
termination_by n
decreasing_by omega

def digitChar (d : Nat) : Char := Char.ofNat (48 + d)
def isDigit (c : Char) : Bool := 48 ≤ c.toNat && c.toNat ≤ 57

def jNat (n : Nat) : List Char := (decDigits n).map digitChar

def nullLit : List Char := ['n', 'u', 'l', 'l']

/-- a `[]byte` field -/
def jBytes (b : Bytes) : List Char := if b.isEmpty then nullLit else '"' :: (b64Enc b ++ ['"'])

def kStart : List Char := "{\"StartKey\":".toList
def kEnd : List Char := ",\"EndKey\":".toList
def kSize : List Char := ",\"Size\":".toList
def kEntries : List Char := ",\"EntriesSize\":".toList
def kUri : List Char := ",\"URI\":\"".toList
def kStartSeq : List Char := "\",\"StartSeqNum\":".toList
def kEndSeq : List Char := ",\"EndSeqNum\":".toList
def kClose : List Char := ['}']

/-- `json.Marshal(TableDocument{…})`; `uri` must need no escaping (`PlainUri`) -/
def jsonDoc (d : Doc) (uri : List Char) : List Char :=
  kStart ++ (jBytes d.startKey ++ (kEnd ++ (jBytes d.endKey ++ (kSize ++ (jNat d.size ++ (kEntries ++
    (jNat d.entriesSize ++ (kUri ++ (uri ++ (kStartSeq ++ (jNat d.startSeq ++ (kEndSeq ++ (jNat d.endSeq ++ kClose)))))))))))))

/-- characters `encoding/json` writes verbatim inside a string -/
def plainChar (c : Char) : Bool :=
  32 ≤ c.toNat && c.toNat < 127 && c != '"' && c != '\\' && c != '<' && c != '>' && c != '&'

def PlainUri (uri : List Char) : Prop := ∀ c ∈ uri, plainChar c = true

def stripPrefix : List Char → List Char → Option (List Char)
  | [], s => some s
  | _ :: _, [] => none
  | p :: ps, c :: cs => if p = c then stripPrefix ps cs else none

def pBytes (s : List Char) : Option (Bytes × List Char) :=
  match stripPrefix nullLit s with
  | some r => some ([], r)
  | none =>
    match s with
    | '"' :: r =>
      let body := r.takeWhile (· != '"')
      match b64Dec body, r.drop body.length with
      | some b, '"' :: r' => some (b, r')
      | _, _ => none
    | _ => none

def pNat (s : List Char) : Option (Nat × List Char) :=
  let ds := s.takeWhile isDigit
  if ds.isEmpty then none
  else some (ds.foldl (fun acc c => acc * 10 + (c.toNat - 48)) 0, s.drop ds.length)

/-- the body of a string without escapes, up to the closing quote (which the next key literal consumes) -/
def pPlain (s : List Char) : List Char × List Char :=
  (s.takeWhile (· != '"'), s.drop (s.takeWhile (· != '"')).length)

/-- `json.Unmarshal` on the canonical form: the document and the URI -/
def parseDoc (s : List Char) : Option (Doc × List Char) :=
  match stripPrefix kStart s with
  | none => none
  | some r0 =>
  match pBytes r0 with
  | none => none
  | some (sk, r1) =>
  match stripPrefix kEnd r1 with
  | none => none
  | some r2 =>
  match pBytes r2 with
  | none => none
  | some (ek, r3) =>
  match stripPrefix kSize r3 with
  | none => none
  | some r4 =>
  match pNat r4 with
  | none => none
  | some (size, r5) =>
  match stripPrefix kEntries r5 with
  | none => none
  | some r6 =>
  match pNat r6 with
  | none => none
  | some (esz, r7) =>
  match stripPrefix kUri r7 with
  | none => none
  | some r8 =>
  match stripPrefix kStartSeq (pPlain r8).2 with
  | none => none
  | some r9 =>
  match pNat r9 with
  | none => none
  | some (sseq, r10) =>
  match stripPrefix kEndSeq r10 with
  | none => none
  | some r11 =>
  match pNat r11 with
  | none => none
  | some (eseq, r12) =>
  match stripPrefix kClose r12 with
  | some [] => some (⟨sk, ek, size, esz, sseq, eseq⟩, (pPlain r8).1)
  | _ => none

end Rxn.Sst
