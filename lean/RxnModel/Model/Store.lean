/-!
# Model of `storage/snapshots` `Store` acknowledgement bookkeeping (C12)

One `step` per public call of `snapshots.Store`; every call is one `stateMu` critical section in the code
(`CreateCheckpoint`, `CreateSavepoint`, `AddOperatorSnapshot`, `AddSourceSnapshot`, `RegisterSourceSplitter`), so the sequential
composition of steps is every schedule of concurrent callers. The per-node completion maps of
`jobSnapshot` (`map[string]bool`) are association lists with distinct keys; node names are numbers
(the harness maps `op<k>`/`sr<k>`). `Snap.srAcks` is a history variable: the accepted source-runner
acknowledgements in arrival order (`splitStates` is what the code keeps).

Code as it is after the D12 repair: a repeated source-runner acknowledgement is ignored
(`addSourceRunnerSnapshot` returns before appending).
Core-only (imported by the compiled driver).
-/
namespace Rxn.Store

structure OpEntry where
  op : Nat
  cp : Nat
  tag : Nat
deriving DecidableEq, Repr, Inhabited

/-- `jobSnapshot` -/
structure Snap where
  id : Nat
  ops : List (Nat × Bool)          -- operatorIDsComplete
  srs : List (Nat × Bool)          -- sourceRunnerIDsComplete
  opEntries : List OpEntry         -- operatorCheckpoints, in acknowledgement order
  srAcks : List (Nat × List Nat)   -- history: accepted source-runner acks (runner, its split states)
  splitStates : List Nat           -- splitStates (concatenated)
  isSavepoint : Bool
deriving Repr, Inhabited

/-- the distinct keys of a Go map filled from `ids` (order is immaterial for a map) -/
def dedup : List Nat → List Nat
  | [] => []
  | x :: xs => if x ∈ xs then dedup xs else x :: dedup xs

/-- `make(map) ; for id in ids { m[id] = false }` -/
def mkFlags (ids : List Nat) : List (Nat × Bool) := (dedup ids).map (·, false)

def setFlag (m : List (Nat × Bool)) (k : Nat) : List (Nat × Bool) :=
  m.map fun e => if e.1 = k then (e.1, true) else e

/-- `newJobSnapshot` -/
def newSnap (id : Nat) (ops srs : List Nat) (sp : Bool) : Snap :=
  { id, ops := mkFlags ops, srs := mkFlags srs, opEntries := [], srAcks := [], splitStates := [], isSavepoint := sp }

/-- `isComplete` -/
def Snap.isComplete (p : Snap) : Bool := p.srs.all (·.2) && p.ops.all (·.2)

def Snap.expectedOps (p : Snap) : List Nat := p.ops.map (·.1)
def Snap.expectedSrs (p : Snap) : List Nat := p.srs.map (·.1)

/-- `storeState` without `completedSnapshots` (that part is `Model/Publish.lean`) -/
structure St where
  pending : Option Snap
  cid : Nat                         -- checkpointID: the last id handed out
deriving Repr, Inhabited

def St.init : St := ⟨none, 0⟩

/-- a new `Store` after `LoadCheckpoint` with a savepoint URI (code after the D49 repair): the id counter is
the maximum of the loaded savepoint's id and the highest id among the job snapshot files in the local storage
(`localMax`, 0 if there is none); the shape `max(loadedCheckpoint.Id, newestLocalID)` is regenerated as
`Facts.c12LoadCounterMaxLocal` -/
def loadFromSavepoint (id localMax : Nat) : St := ⟨none, max id localMax⟩

/-- the rule of the unrepaired code (D49): the counter is the savepoint's id, local files are ignored -/
def loadFromSavepointOld (id : Nat) : St := ⟨none, id⟩

inductive Call where
  | create (ops srs : List Nat)
  | savepoint (ops srs : List Nat)
  | opAck (op cp tag : Nat)
  | srAck (sr cp : Nat) (splits : List Nat)
  | redeploy                -- RegisterSourceSplitter: a new deployment begins
deriving Repr, DecidableEq

inductive Res where
  | id (n : Nat)            -- CreateCheckpoint: new id
  | inProgress              -- ErrCheckpointInProgress
  | spExisting (n : Nat)    -- CreateSavepoint folded into the pending checkpoint (created = false)
  | spCreated (n : Nat)
  | spAlready               -- "savepoint already in-progress"
  | ok
  | errNoPending
  | errWrongId
  | errUnknown              -- unknown source runner (operators: only logged)
deriving Repr, DecidableEq

/-- `jobSnapshot.addOperatorSnapshot` (its error is only logged by the caller) -/
def addOp (p : Snap) (op cp tag : Nat) : Snap :=
  match p.ops.lookup op with
  | some false => { p with ops := setFlag p.ops op, opEntries := p.opEntries ++ [⟨op, cp, tag⟩] }
  | _ => p

/-- `jobSnapshot.addSourceRunnerSnapshot`; `none` = error returned to the caller -/
def addSr (p : Snap) (sr : Nat) (splits : List Nat) : Option Snap :=
  match p.srs.lookup sr with
  | none => none
  | some true => some p
  | some false => some { p with srs := setFlag p.srs sr, srAcks := p.srAcks ++ [(sr, splits)],
                                splitStates := p.splitStates ++ splits }

/-- `addSourceRunnerSnapshot` of the unrepaired code (D12): a repeated acknowledgement is only logged -/
def addSrOld (p : Snap) (sr : Nat) (splits : List Nat) : Option Snap :=
  match p.srs.lookup sr with
  | none => none
  | some _ => some { p with srs := setFlag p.srs sr, srAcks := p.srAcks ++ [(sr, splits)],
                            splitStates := p.splitStates ++ splits }

/-- the common tail of both `Add…Snapshot` methods: `if isComplete { finishSnapshot; pending = nil }` -/
def finishIfComplete (s : St) (p : Snap) : St × Res × Option Snap :=
  if p.isComplete then ({ s with pending := none }, .ok, some p)
  else ({ s with pending := some p }, .ok, none)

/-- one public call; the third component is the snapshot handed to the publisher (`finishSnapshot`) -/
def step (s : St) : Call → St × Res × Option Snap
  | .create ops srs =>
    match s.pending with
    | some _ => (s, .inProgress, none)
    | none => (⟨some (newSnap (s.cid + 1) ops srs false), s.cid + 1⟩, .id (s.cid + 1), none)
  | .savepoint ops srs =>
    match s.pending with
    | some p =>
      if p.isSavepoint then (s, .spAlready, none)
      else ({ s with pending := some { p with isSavepoint := true } }, .spExisting p.id, none)
    | none => (⟨some (newSnap (s.cid + 1) ops srs true), s.cid + 1⟩, .spCreated (s.cid + 1), none)
  | .opAck op cp tag =>
    match s.pending with
    | none => (s, .errNoPending, none)
    | some p =>
      if p.id ≠ cp then (s, .errWrongId, none)
      else finishIfComplete s (addOp p op cp tag)
  | .srAck sr cp splits =>
    match s.pending with
    | none => (s, .errNoPending, none)
    | some p =>
      if p.id ≠ cp then (s, .errWrongId, none)
      else match addSr p sr splits with
        | none => (s, .errUnknown, none)
        | some p' => finishIfComplete s p'
  | .redeploy =>
    -- `RegisterSourceSplitter`: the splitter is replaced and a pending snapshot is abandoned;
    -- the id counter is untouched (an abandoned id is never handed out again)
    ({ s with pending := none }, .ok, none)

/-- checkpoints abandoned by redeployments while running `calls` from `s` -/
def abandoned : St → List Call → Nat
  | _, [] => 0
  | s, c :: cs => (if c = .redeploy ∧ s.pending.isSome then 1 else 0) + abandoned (step s c).1 cs

/-- snapshots handed to the publisher while running `calls` from `s`, in order -/
def published : St → List Call → List Snap
  | _, [] => []
  | s, c :: cs => (step s c).2.2.toList ++ published (step s c).1 cs

/-- the id a call handed out, if it started a new checkpoint -/
def Res.created : Res → List Nat
  | .id n => [n]
  | .spCreated n => [n]
  | _ => []

/-- ids handed out by `CreateCheckpoint`/`CreateSavepoint(created)` while running `calls` from `s` -/
def createdIds : St → List Call → List Nat
  | _, [] => []
  | s, c :: cs => (step s c).2.1.created ++ createdIds (step s c).1 cs

def finalState : St → List Call → St
  | s, [] => s
  | s, c :: cs => finalState (step s c).1 cs

end Rxn.Store
