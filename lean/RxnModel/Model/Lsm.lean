import RxnModel.Base.Bytes
import RxnModel.Base.Types
import RxnModel.Generated.Fns
/-!
# The DKV as a transition system (`dkv/db.go`, `dkv/memtable/*`, `dkv/sst/level_list.go`, `dkv/sst/compaction.go`)

One constructor of `Act` = one mutex-protected section or pointer snapshot of the code:

* `put`/`del`      foreground write: `seq+1`, insert into the active memtable (`DB.Put/Delete`)
* `rotate`         `memtable.List.Rotate` (when it happens is decided by byte accounting: a free action here,
                   so every MemTableSize / MaxWALSize setting is covered)
* `flushBegin`     the flush task snapshots the sealed memtables (`mtables.Sealed()`) and writes one table each
* `flushCommit`    under `db.mu`: tables appended to level 0, sealed memtables dequeued
* `flushAbort`     the flush task returns with an error before its commit section: no change except that the task is over
* `compact`        under `db.mu`: a change set (removed table ids, target level, added runs) applied by identity
                   (`NewWithChangeSet`); which change sets the compactor produces is C18's subject, here every
                   change set that passes the executable `safeCS` test is allowed
* reads            `get`/`scan` in one step, or in two (`getA` = memtable phase, `getB` = sstable phase) with any
                   background commits in between (`DB.Get` reads the memtables first, then snapshots the sstables)

Abstractions (each verified elsewhere): a memtable (zip tree) is its sorted run (C19); a table file is its sorted
run and `Table.Get` = lookup in it (C17); the k-way heap merge with `keepNewest` is `merge2` folded (C19);
the binary search over a sorted non-overlapping level is `find?` on the range test (C19 `SearchUnique`).
-/
namespace Rxn.Lsm
open Rxn

structure Entry where
  key : Bytes
  seq : Nat
  del : Bool
  val : Bytes
deriving DecidableEq, Repr, Inhabited

abbrev Run := List Entry

namespace Run

/-- first entry with the key (runs hold one entry per key) -/
def lookup : Run → Bytes → Option Entry
  | [], _ => none
  | e :: es, k => if e.key = k then some e else lookup es k

/-- zip-tree `Put`: insert in key order, replacing an entry with an equal key -/
def insert : Run → Entry → Run
  | [], e => [e]
  | x :: xs, e =>
    match Bytes.cmp e.key x.key with
    | .lt => e :: x :: xs
    | .eq => e :: xs
    | .gt => x :: insert xs e

def keys (r : Run) : List Bytes := r.map (·.key)

end Run

/-- `kv.keepNewest` -/
def keepNewest (a b : Entry) : Entry := if a.seq > b.seq then a else b

/-- two-way sorted merge resolving equal keys with `keepNewest` (what `kv.MergeEntries` computes) -/
def merge2 : Run → Run → Run
  | [], b => b
  | a :: as, [] => a :: as
  | x :: xs, y :: ys =>
    match Bytes.cmp x.key y.key with
    | .lt => x :: merge2 xs (y :: ys)
    | .gt => y :: merge2 (x :: xs) ys
    | .eq => keepNewest x y :: merge2 xs ys
termination_by a b => a.length + b.length

def mergeAll (rs : List Run) : Run := rs.foldr merge2 []

structure Tbl where
  id : Nat
  run : Run
deriving Repr, Inhabited

namespace Tbl
def startKey (t : Tbl) : Bytes := (t.run.head?.map (·.key)).getD []
def endKey (t : Tbl) : Bytes := (t.run.getLast?.map (·.key)).getD []
/-- `Table.RangeContainsKey` (regenerated translation) -/
def rangeContainsKey (t : Tbl) (k : Bytes) : Bool := Gen.tblRangeContainsKey t.startKey t.endKey k
def rangeContainsPrefix (t : Tbl) (p : Bytes) : Bool := Gen.tblRangeContainsPrefix t.startKey t.endKey p
/-- `Table.Get`: bloom filter (no false negatives) + index search + scan = lookup in the run (C17) -/
def get (t : Tbl) (k : Bytes) : Option Entry := if t.rangeContainsKey k then t.run.lookup k else none
def scan (t : Tbl) (p : Bytes) : Run := t.run.filter (fun e => Bytes.hasPrefix e.key p)
end Tbl

structure State where
  seq : Nat := 0
  /-- oldest first; the last one is the active memtable -/
  mems : List Run := [[]]
  /-- level 0 in insertion order (oldest first); deeper levels in stored order -/
  levels : List (List Tbl) := [[], [], [], [], [], []]
  nextId : Nat := 0
  /-- sealed memtables snapshotted by the running flush task -/
  flushing : Option (List Run) := none
  /-- a `Get` between its two phases: key and the memtable phase's answer -/
  reading : Option (Bytes × Option Entry) := none
deriving Repr, Inhabited

def firstSome {α β : Type} (f : α → Option β) : List α → Option β
  | [] => none
  | x :: xs => match f x with
    | some y => some y
    | none => firstSome f xs

/-- `memtable.List.Get`: newest memtable first -/
def memGet (mems : List Run) (k : Bytes) : Option Entry := firstSome (·.lookup k) mems.reverse

/-- level 0: newest table first among those whose range contains the key -/
def l0Get (tbls : List Tbl) (k : Bytes) : Option Entry := firstSome (·.get k) tbls.reverse

/-- a deeper level: the one table whose range contains the key (`SearchUnique` over `RangeKeyCompare`) -/
def deepGet (tbls : List Tbl) (k : Bytes) : Option Entry :=
  match tbls.find? (·.rangeContainsKey k) with
  | some t => t.run.lookup k
  | none => none

/-- `LevelList.Get` -/
def levelsGet (levels : List (List Tbl)) (k : Bytes) : Option Entry :=
  match levels with
  | [] => none
  | l0 :: deeper =>
    match l0Get l0 k with
    | some e => some e
    | none => firstSome (fun l => deepGet l k) deeper

/-- `DB.Get` in one step -/
def get (s : State) (k : Bytes) : Option Entry :=
  match memGet s.mems k with
  | some e => some e
  | none => levelsGet s.levels k

def prefixRun (p : Bytes) (r : Run) : Run := r.filter (fun e => Bytes.hasPrefix e.key p)

/-- `DB.ScanPrefix`: merge of all memtables (delete markers kept) merged with the merge of all tables, markers
dropped at the very end -/
def scanRaw (s : State) (p : Bytes) : Run :=
  merge2 (mergeAll (s.mems.map (prefixRun p))) (mergeAll ((s.levels.flatten).map (·.scan p)))

def scan (s : State) (p : Bytes) : Run := (scanRaw s p).filter (fun e => !e.del)

inductive Act where
  | put (k v : Bytes)
  | del (k : Bytes)
  | rotate
  /-- the flush task snapshots the `n` oldest memtables, all sealed (the snapshot is taken when the task starts running, possibly before later rotations) -/
  | flushBegin (n : Nat)
  | flushCommit
  /-- the flush task fails while writing a table (`tableWriter.Write` returns an error, `db.go` returns from the task
  before the commit section): nothing is committed — the sealed memtables stay queued, the level list is unchanged,
  the tables already written are garbage — and the task is over, so a later flush task snapshots the sealed
  memtables again (the union) -/
  | flushAbort
  /-- removed table ids, target level, added runs (in the order they are appended) -/
  | compact (rm : List Nat) (lvl : Nat) (add : List Run)
  | getA (k : Bytes)
  | getB
deriving Repr

def removeIds (rm : List Nat) (levels : List (List Tbl)) : List (List Tbl) :=
  levels.map (fun l => l.filter (fun t => !rm.contains t.id))

def mkTables (start : Nat) (runs : List Run) : List Tbl :=
  (List.range runs.length).zipWith (fun i r => ⟨start + i, r⟩) runs

def addAt (levels : List (List Tbl)) (lvl : Nat) (ts : List Tbl) : List (List Tbl) :=
  levels.modify lvl (· ++ ts)

/-- position of every table in read order: (level, index from newest); used by the safety test -/
def removedTables (rm : List Nat) (levels : List (List Tbl)) : List Tbl :=
  (levels.flatten).filter (fun t => rm.contains t.id)

/-- `ll.At(0)` newest first, then the deeper levels top-down: the order in which lookups visit tables -/
def readOrder (levels : List (List Tbl)) : List Tbl :=
  match levels with
  | [] => []
  | l0 :: deeper => l0.reverse ++ deeper.flatten

/--
Executable safety test for a change set against the current layout (the "safe family" of C18):
1. the added runs are exactly the merge of the removed tables (newest first), cut into non-empty chunks
   (an empty single chunk is allowed when nothing remains);
2. within level 0 no table that stays is *older* (earlier in insertion order) than a removed table that shares a
   key with it (an insertion-order prefix satisfies this; so does the age-ordered pick on a level 0 appended from
   several checkpoints, whose sources hold disjoint keys);
3. every level strictly between the shallowest removed level and the target is removed entirely, the target
   level is removed entirely (so the added tables form the whole target level, sorted and disjoint), and every
   non-removed table above the target that lies below a removed one cannot exist by (2)/(3);
4. the target level is at least as deep as every removed table.
-/
def safeCS (levels : List (List Tbl)) (rm : List Nat) (lvl : Nat) (add : List Run) : Bool :=
  let removed := (readOrder levels).filter (fun t => rm.contains t.id)
  let merged := mergeAll (removed.map (·.run))
  let l0 := levels.headD []
  let shallow := (List.range levels.length).find? (fun i => (levels.getD i []).any (fun t => rm.contains t.id))
  match shallow with
  | none => add.isEmpty
  | some sh =>
    decide (add.flatten = merged) &&
    (add.all (fun r => !r.isEmpty) || decide (add = [[]])) &&
    -- level 0: no kept table older than a removed one shares a key with it
    decide (l0.Pairwise (fun older newer => rm.contains newer.id = true → rm.contains older.id = false →
      ∀ en ∈ newer.run, ∀ eo ∈ older.run, en.key ≠ eo.key)) &&
    -- target not above any removed table, target ≥ 1
    decide (1 ≤ lvl) && decide (lvl < levels.length) &&
    (List.range levels.length).all (fun i =>
      let l := levels.getD i []
      if i > lvl then !(l.any (fun t => rm.contains t.id))
      else if i == 0 then true
      else if sh < i || i == lvl then l.all (fun t => rm.contains t.id)   -- fully taken below the shallowest, and the target
      else if i < sh then true
      else true)

/-- a foreground write numbered `seq+1` into the active memtable; reads and writes share one goroutine, so no
write happens while a read is between its two phases -/
def write (s : State) (e : Entry) : Option State :=
  if s.reading.isSome then none else
  match s.mems.reverse with
  | [] => none
  | active :: sealedRev => some { s with seq := s.seq + 1, mems := (active.insert e :: sealedRev).reverse }

def step (s : State) : Act → Option State
  | .put k v => write s ⟨k, s.seq + 1, false, v⟩
  | .del k => write s ⟨k, s.seq + 1, true, []⟩
  | .rotate => some { s with mems := s.mems ++ [[]] }
  | .flushBegin n =>
    match s.flushing with
    | some _ => none
    | none => if n < s.mems.length then some { s with flushing := some (s.mems.take n) } else none
  | .flushCommit =>
    match s.flushing with
    | none => none
    | some snap =>
      if s.mems.take snap.length = snap ∧ snap.length < s.mems.length then
        some { s with
          levels := addAt s.levels 0 (mkTables s.nextId snap),
          nextId := s.nextId + snap.length,
          mems := s.mems.drop snap.length,
          flushing := none }
      else none
  | .flushAbort =>
    match s.flushing with
    | none => none
    | some _ => some { s with flushing := none }
  | .compact rm lvl add =>
    if safeCS s.levels rm lvl add then
      some { s with
        levels := addAt (removeIds rm s.levels) lvl (mkTables s.nextId add),
        nextId := s.nextId + add.length }
    else none
  | .getA k =>
    match s.reading with
    | some _ => none
    | none => some { s with reading := some (k, memGet s.mems k) }
  | .getB =>
    match s.reading with
    | none => none
    | some _ => some { s with reading := none }

/-- the answer of a two-phase `Get` completed in state `s` -/
def getBResult (s : State) : Option Entry :=
  match s.reading with
  | none => none
  | some (_, some e) => some e
  | some (k, none) => levelsGet s.levels k

def run (s : State) : List Act → Option State
  | [] => some s
  | a :: as => match step s a with
    | some s' => run s' as
    | none => none


/-! ## The specification: a plain map from keys to the last written entry -/

/-- the spec state: association list, newest binding first -/
abbrev Spec := List Entry

def Spec.get (m : Spec) (k : Bytes) : Option Entry := Run.lookup m k

def specStep (m : Spec) (seq : Nat) : Act → Spec
  | .put k v => ⟨k, seq + 1, false, v⟩ :: m
  | .del k => ⟨k, seq + 1, true, []⟩ :: m
  | _ => m

/-- implementation state and specification map advanced together -/
def runBoth (s : State) (m : Spec) : List Act → Option (State × Spec)
  | [] => some (s, m)
  | a :: as => match step s a with
    | some s' => runBoth s' (specStep m s.seq a) as
    | none => none

/-- observable answer of a point read: the value, or absent (deleted or never written) -/
def answer : Option Entry → Option Bytes
  | some e => if e.del then none else some e.val
  | none => none

end Rxn.Lsm
