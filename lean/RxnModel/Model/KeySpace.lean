import RxnModel.Model.Murmur
import RxnModel.Generated.Fns
/-!
`partitioning/key_space.go`, `key_group_range.go`, `key_group.go`.
Integers are `Nat` (Go `int` values here are bounded by 65535 and the operator count).
-/
namespace Rxn

namespace KGRange
/-- `IncludesKeyGroup`, `Overlaps`, `Contains`, `Size`: the regenerated translations of the Go one-liners -/
def includes (r : KGRange) (kg : Nat) : Bool := Gen.kgIncludes r kg
def overlaps (r o : KGRange) : Bool := Gen.kgOverlaps r o
def contains (r o : KGRange) : Bool := Gen.kgContains r o
def size (r : KGRange) : Nat := Gen.kgSize r
end KGRange

namespace KeySpace

/-- the loop of `keyGroupRanges`: `i` is the range index, `kg` the running `kgIndex` -/
def rangesLoop (minKG bigger : Nat) : (fuel i kg : Nat) → List KGRange
  | 0, _, _ => []
  | fuel + 1, i, kg =>
    let e := kg + minKG + (if i < bigger then 1 else 0)
    ⟨kg, e⟩ :: rangesLoop minKG bigger fuel (i + 1) e

/-- `keyGroupRanges(keyGroupCount, rangeCount)` -/
def ranges (kgc n : Nat) : List KGRange := rangesLoop (kgc / n) (kgc % n) n 0 0

/-- inner loop of `NewKeySpace`: `for j := r.Start; j < r.End; j++ { rangeLookup[j] = uint16(i) }` -/
def fillRange (tbl : List Nat) (i : Nat) : (count j : Nat) → List Nat
  | 0, _ => tbl
  | c + 1, j => fillRange (tbl.set j (i % 65536)) i c (j + 1)

/-- outer loop of `NewKeySpace` -/
def fillAll (tbl : List Nat) : (i : Nat) → List KGRange → List Nat
  | _, [] => tbl
  | i, r :: rs => fillAll (fillRange tbl i (r.stop - r.start) r.start) (i + 1) rs

/-- `rangeLookup` table of `NewKeySpace` -/
def lookupTable (kgc n : Nat) : List Nat := fillAll (List.replicate kgc 0) 0 (ranges kgc n)

/-- `KeySpace.KeyGroup` -/
def keyGroup (kgc : Nat) (key : Bytes) : Nat := (Murmur.hash key 0).toNat % kgc

/-- `KeySpace.RangeIndex` (the `uint16(kg)` narrowing is the identity because `kg < kgc ≤ 65535`) -/
def rangeIndex (kgc n : Nat) (key : Bytes) : Nat := (lookupTable kgc n).getD (keyGroup kgc key % 65536) 0

/-- closed form of the range starts -/
def startOf (kgc n i : Nat) : Nat := i * (kgc / n) + min i (kgc % n)

end KeySpace

/-! Key encoders of `keyed_state_store.go` and `timer_store.go`, ownership test of `operator_partition.go` -/
namespace Keys
open Bytes

def subjectKey (kgc : Nat) (k : Bytes) : Bytes :=
  u16be (KeySpace.keyGroup kgc k) ++ [UInt8.ofNat Facts.schemaState] ++ u32be k.length ++ k

def dbKey (kgc : Nat) (k ns d : Bytes) : Bytes :=
  subjectKey kgc k ++ [UInt8.ofNat (ns.length % 256)] ++ ns ++ d

def timerKey (kgc : Nat) (k : Bytes) (t : Nat) : Bytes :=
  u16be (KeySpace.keyGroup kgc k) ++ [UInt8.ofNat Facts.schemaTimer] ++ u64be t ++ k

/-- `OperatorPartition.OwnsKey`: reads the first two bytes back as a big-endian key group -/
def ownsKey (r : KGRange) (key : Bytes) : Bool := r.includes (beNat (key.take 2))

end Keys
end Rxn
