/-!
# RunnerProc — the part of a source runner process that C15 needs (finding D48)

Anchors: `workers/sourcerunner/source_runner.go`: `HandleStartCheckpoint` (puts the request into the `checkpointBarrier`
channel, capacity 1), `processEvents` (one event loop per `HandleDeploy`; a loop takes a queued request, asks the reader
for its positions and acknowledges to the job; an acknowledgement error ends THAT loop), `HandleDeploy` (starts a new
loop; as the code is it neither stops the loops of earlier deployments (D39) nor drains the channel).

State: loops that can take a request (`free`), loops stuck inside a source read (`held`), the queued request, what the
job currently accepts. A loop that is free takes a request at once (the harness waits for it), so `queue ≠ none`
implies `free = 0` after every action.
-/
namespace Rxn.RunnerProc

structure St where
  deployed : Bool := false
  free : Nat := 0              -- event loops able to take a request
  held : Nat := 0              -- event loops inside a source read that does not return
  queue : Option Nat := none   -- `checkpointBarrier` (capacity 1)
  pending : Option Nat := none -- the id the job accepts an acknowledgement for
  diedStale : Bool := false    -- a loop ended because it acknowledged a request of an earlier deployment
  queuedAt : Nat := 0          -- ghost: number of deployments when the queued request arrived
  deploys : Nat := 0
  readerHeld : Bool := false   -- the current deployment's reader is already blocked inside a read (it serves one read at a time)
  deriving DecidableEq, Repr

inductive Act
  | deploy | hold | start (id : Nat) | pend (id : Nat)
  deriving DecidableEq, Repr

inductive Out
  | deployed (taken : Option (Nat × Bool)) | held | nothingToHold
  | queued | full | acked (id : Nat) | refused (id : Nat) | notDeployed | ok
  deriving DecidableEq, Repr

/-- a free loop takes the queued request: `createCheckpoint` acknowledges it; a refusal ends the loop -/
def take (s : St) : St × Option (Nat × Bool) :=
  match s.queue with
  | some id =>
    if s.free = 0 then (s, none)
    else if s.pending = some id then ({ s with queue := none }, some (id, true))
    else ({ s with queue := none, free := s.free - 1, diedStale := s.diedStale || decide (s.queuedAt < s.deploys) },
          some (id, false))
  | none => (s, none)

def step (s : St) : Act → St × Out
  | .deploy =>
      let (s', t) := take { s with deployed := true, free := s.free + 1, deploys := s.deploys + 1, diedStale := false,
                                       readerHeld := false }
      (s', .deployed t)
  | .hold =>
      if s.free = 0 || s.readerHeld then (s, .nothingToHold)
      else ({ s with free := s.free - 1, held := s.held + 1, readerHeld := true }, .held)
  | .start id =>
      if s.queue.isSome then (s, .full)   -- the caller would block on the channel
      else
        let (s', t) := take { s with queue := some id, queuedAt := s.deploys }
        (s', match t with
          | some (i, true) => .acked i
          | some (i, false) => .refused i
          | none => .queued)
  | .pend id => ({ s with pending := some id }, .ok)

def run (s : St) : List Act → St × List Out
  | [] => (s, [])
  | a :: as =>
    let (s1, o) := step s a
    let (s2, os) := run s1 as
    (s2, o :: os)

end Rxn.RunnerProc
