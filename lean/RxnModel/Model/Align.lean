import RxnModel.Base.Bytes
import RxnModel.Generated.Facts
/-!
# Model of the operator's barrier alignment (C02)

Anchors: `workers/operator/operator.go` (`HandleEvent`, `handleUserEvent`, `handleWatermark`,
`handleCheckpointBarrier`, `processEventBatch`, `processEvents`), `workers/operator/checkpoint.go`
(`newCheckpoint`, `registerBarrier`, `hasAllBarriers`, `alignSender`), `batching/batching.go`
(`Add`, `IsFull`, `Flush`, the timeout token), `workers/operator/timer_registry.go`
(`SetTimer` guard, `AdvanceWatermark` loop).

Granularity of actions = the code's atomic sections:
* `align sr it`  — the `RLock` section of `HandleEvent` for sender `sr` carrying item `it`: the sender
  either passes (and then waits at the gate in front of `o.events <- …`) or parks on `allBarriersReceived`.
* `go sr`        — the rendezvous on the unbuffered `o.events` channel together with the event function the
  single consumer runs for it (user event → batcher/flush; watermark → timers; barrier → `registerBarrier`,
  and on the last barrier: flush pending, DKV checkpoint, ack to the job, reset, parked senders released).
* `tick`/`stale` — the batcher's timeout callback delivering the token captured by the latest / the
  previous `timer.Set` on `BatchTimedOut`.
  An item may also be `done` (`SourceComplete`): flush, deactivate the sender, stop the operator when none is left.
* `cancel sr`    — the context of sender `sr`'s call in flight is cancelled (client gave up): neither the wait on
  `allBarriersReceived` nor the hand-over to the consumer looks at the context, so nothing changes.
* `armDbFail`    — environment: the next `db.Checkpoint` fails (storage unavailable): like a failed ack, but no
  DKV checkpoint exists and the job is not called.
* `armFail`      — environment: the next `OperatorCheckpointComplete` call fails (job unreachable).
* `redeploy`     — `HandleDeploy` on the running operator (fresh storage, no checkpoints to restore): the
  half-aligned checkpoint of the previous deployment is abandoned, its parked senders are turned away with an
  error (fixes D15 + D43); the event batcher and calls already past alignment survive, as in the code.
The scripts of the senders are not fixed in advance: every `align` action carries its item, so quantifying
over all action lists quantifies over every per-sender sequence and every interleaving at once.

The user handler is the reference handler of the harness: per key it appends one record per event
(`[p]` for a keyed event with payload `p`, `[0xff, ts]` for an expired timer) and asks for a timer at `t`
when a keyed event carries `t ≠ 0`.  The DKV is a plain map (verified separately, C07/C08).
The sender index inside `Entry` is ghost information (who caused the entry); it is never printed.
-/
namespace Rxn.Align

inductive Item where
  | ev (key : Bytes) (p t : Nat)
  | wm (ts : Nat)
  | bar (id : Nat)
  | done                      -- `SourceComplete`
deriving DecidableEq, Repr, Inhabited

/-- what the event batcher holds / the handler receives -/
inductive Entry where
  | user (sr : Nat) (key : Bytes) (p t : Nat)
  | timer (sr : Nat) (key : Bytes) (ts : Nat)
deriving DecidableEq, Repr, Inhabited

def Entry.key : Entry → Bytes
  | .user _ k _ _ => k
  | .timer _ k _ => k

/-- the record the reference handler appends to the key's state -/
def Entry.record : Entry → Bytes
  | .user _ _ p _ => [UInt8.ofNat p]
  | .timer _ _ ts => [0xff, UInt8.ofNat ts]

abbrev KVf := Bytes → Bytes

def emptyKV : KVf := fun _ => []

/-- handler + `ApplyMutations`: append the record to the key's state -/
def applyRec (kv : KVf) (e : Entry) : KVf :=
  fun k => if k = e.key then kv k ++ e.record else kv k

abbrev Timers := List (Nat × Bytes)

def timerLt (a b : Nat × Bytes) : Bool :=
  a.1 < b.1 || (a.1 == b.1 && Bytes.lt a.2 b.2)

/-- the timer store as an ordered set (timestamp, then key) -/
def insertTimer (x : Nat × Bytes) : Timers → Timers
  | [] => [x]
  | y :: r => if x = y then y :: r else if timerLt x y then x :: y :: r else y :: insertTimer x r

/-- `TimerRegistry.SetTimer` for the timers the handler asks for: a no-op unless `watermark < t` -/
def setTimer (w : Nat) (ts : Timers) : Entry → Timers
  | .user _ key _ t => if t ≠ 0 ∧ w < t then insertTimer (t, key) ts else ts
  | .timer _ _ _ => ts

inductive Obs where
  | aligned (sr : Nat) (passed : Bool)
  | busy (sr : Nat)
  | proc (sr : Nat) (it : Item)                             -- the consumer took sender `sr`'s item
  | handler (es : List Entry) (w : Nat) (given : List (Bytes × Bytes)) -- one `ProcessEventBatch` call (events, watermark, key states)
  | fired (key : Bytes) (ts : Nat)                          -- ghost: `AdvanceWatermark` removed a due timer from the store
  | reg (sr : Nat) (id : Nat)                               -- barrier accepted by `registerBarrier`
  | reject (sr : Nat) (got have_ : Nat)                     -- checkpoint id mismatch
  | snap (id : Nat) (kv : KVf) (timers : Timers)            -- contents of the DKV checkpoint
  | ack (id : Nat)                                          -- `OperatorCheckpointComplete`
  | released (srs : List Nat)                               -- senders woken by `close(allBarriersReceived)`
  | ackfail (id : Nat)                                      -- `OperatorCheckpointComplete` returned an error
  | completed (sr : Nat)                                    -- `SourceComplete` handled
  | stopped                                                 -- no active source left: `o.stop()`
  | redeployed (aborted : List Nat)                         -- `HandleDeploy`; parked senders turned away

structure St where
  k : Nat
  /-- further sender ids that may call although they are not among the deployed `SourceRunnerIds` (runners of a
  previous deployment that are still alive): senders `k … k+z-1` -/
  z : Nat := 0
  maxSize : Nat
  /-- per sender: the item of the `HandleEvent` call in flight and whether it passed alignment (`false` = parked) -/
  slots : Nat → Option (Item × Bool)
  pending : List Entry
  token : Nat
  lastSet : Option Nat
  prevSet : Option Nat
  /-- `o.checkpoint`: id and the senders whose barrier is still missing -/
  ckpt : Option (Nat × List Nat)
  kv : KVf
  timers : Timers
  wms : Nat → Nat
  /-- undeployed senders that sent a watermark: `AdvanceWatermark` adds them to `r.upstreams` -/
  ups : List Nat := []
  watermark : Nat
  /-- environment: the completion of the next checkpoint fails (the ack to the job, or already `db.Checkpoint`) -/
  ackFails : Bool
  /-- …and it is `db.Checkpoint` that fails: no DKV checkpoint is written, the job is not called -/
  dbFails : Bool := false
  /-- `o.sourceRunners.active` -/
  active : List Nat
  stopped : Bool

def init (k maxSize : Nat) : St :=
  { k := k, maxSize := maxSize, slots := fun _ => none, pending := [], token := 0, lastSet := none,
    prevSet := none, ckpt := none, kv := emptyKV, timers := [], wms := fun _ => 0, watermark := 0,
    ackFails := false, active := List.range k, stopped := false }

/-- how many callers outside `SourceRunnerIds` the operator of the current source admits: none when
`Operator.HandleEvent` turns them away before the alignment decision (`Facts.c02SenderChecked`, regenerated from
workers/operator/operator.go on every run; repair of D69), otherwise everyone who calls -/
def admittedZ (z : Nat) : Nat := if Facts.c02SenderChecked = 1 then 0 else z

/-- the freshly started operator of the current source with `k` deployed runners while `z` further senders call -/
def codeInit (k maxSize z : Nat) : St := { init k maxSize with z := admittedZ z }

/-- the key states handed to the handler: one per distinct key of the batch, read before the batch is applied -/
def givenOf (kv : KVf) (es : List Entry) : List (Bytes × Bytes) :=
  (es.map Entry.key).eraseDups.map fun k => (k, kv k)

/-- `processEventBatch(CurrentBatch)` -/
def flush (s : St) : St × List Obs :=
  if s.pending.isEmpty then (s, [])
  else
    ({ s with kv := s.pending.foldl applyRec s.kv,
              timers := s.pending.foldl (setTimer s.watermark) s.timers,
              pending := [], token := s.token + 1 },
     [.handler s.pending s.watermark (givenOf s.kv s.pending)])

/-- `eventBatcher.Add`: append; a new batch arms the timeout timer with the current token -/
def push (s : St) (e : Entry) : St :=
  if s.pending.isEmpty then { s with pending := [e], prevSet := s.lastSet, lastSet := some s.token }
  else { s with pending := s.pending ++ [e] }

/-- `if eventBatcher.IsFull() { processEventBatch(CurrentBatch) }` -/
def maybeFlush (s : St) : St × List Obs :=
  if s.maxSize ≤ s.pending.length then flush s else (s, [])

def addEntry (s : St) (e : Entry) : St × List Obs := maybeFlush (push s e)

/-- `iteru.MinFunc(maps.Values(r.upstreams))` -/
def minWm (l : List Nat) (wms : Nat → Nat) : Nat :=
  l.foldl (fun m i => min m (wms i)) (wms 0)

/-- `AdvanceWatermark`: record the sender's watermark (an undeployed sender becomes a new upstream entry) and
recompute the composite watermark -/
def wmState (s : St) (sr ts : Nat) : St :=
  let wms := fun i => if i = sr then ts else s.wms i
  let ups := if sr < s.k || s.ups.contains sr then s.ups else sr :: s.ups
  { s with wms := wms, ups := ups, watermark := minWm (List.range s.k ++ ups) wms }

/-- the loop of `handleWatermark` over `AdvanceWatermark` (earliest timer first, stop at the first one after the
composite watermark). Fuel = number of stored timers on entry (timers set inside the loop are never due). -/
def fireLoop (sr w : Nat) : Nat → St → List Obs → St × List Obs
  | 0, s, o => (s, o)
  | n + 1, s, o =>
    match s.timers with
    | [] => (s, o)
    | (ts, key) :: rest =>
      if w < ts then (s, o)
      else
        let r := addEntry { s with timers := rest } (.timer sr key ts)
        fireLoop sr w n r.1 (o ++ .fired key ts :: r.2)

def release (slots : Nat → Option (Item × Bool)) : Nat → Option (Item × Bool) :=
  fun i => (slots i).map fun x => (x.1, true)

def isParked (s : St) (i : Nat) : Bool :=
  match s.slots i with
  | some (_, false) => true
  | _ => false

def parkedList (s : St) : List Nat := (List.range (s.k + s.z)).filter (isParked s)

/-- `if o.checkpoint == nil { o.checkpoint = newCheckpoint(barrier.CheckpointId, o.sourceRunners.all) }` -/
def virtCk (s : St) (id : Nat) : Nat × List Nat := s.ckpt.getD (id, List.range s.k)

/-- `handleCheckpointBarrier` -/
def barrier (s : St) (sr id : Nat) : St × List Obs :=
  let c := virtCk s id
  if id ≠ c.1 then ({ s with ckpt := some c }, [.reject sr id c.1])
  else
    let missing := c.2.filter (· ≠ sr)
    if missing.isEmpty then
      let r := flush s
      if s.ackFails then
        -- the DKV checkpoint exists but the job never hears of it; the completed record stays in place
        ({ r.1 with ckpt := some (c.1, []), slots := release r.1.slots, ackFails := false, dbFails := false },
         [.reg sr id] ++ r.2 ++ (if s.dbFails then [] else [.snap c.1 r.1.kv r.1.timers]) ++
           [.ackfail c.1, .released (parkedList s)])
      else
        ({ r.1 with ckpt := none, slots := release r.1.slots },
         [.reg sr id] ++ r.2 ++ [.snap c.1 r.1.kv r.1.timers, .ack c.1, .released (parkedList s)])
    else ({ s with ckpt := some (c.1, missing) }, [.reg sr id])

/-- `handleCheckpointBarrier` for a sender that is not among the deployed runners: `registerBarrier` checks the id
and deletes nothing, so the barrier starts (or keeps) the checkpoint record but never completes it — unless no
barrier is missing any more (completed record left by a failed ack), where the handler runs its completion again -/
def barrierU (s : St) (sr id : Nat) : St × List Obs :=
  let c := virtCk s id
  if id ≠ c.1 then ({ s with ckpt := some c }, [.reject sr id c.1])
  else if c.2.isEmpty then barrier s sr id
  else ({ s with ckpt := some c }, [])

/-- the event function the consumer runs -/
def process (s : St) (sr : Nat) : Item → St × List Obs
  | .ev key p t => addEntry s (.user sr key p t)
  | .wm ts => fireLoop sr (wmState s sr ts).watermark s.timers.length (wmState s sr ts) []
  | .bar id => if sr < s.k then barrier s sr id else barrierU s sr id
  | .done =>
    -- `handleSourceComplete`: flush, deactivate, stop when no source is active any more
    let r := flush s
    let act := r.1.active.filter (· ≠ sr)
    ({ r.1 with active := act, stopped := act.isEmpty },
     r.2 ++ .completed sr :: (if act.isEmpty then [.stopped] else []))

/-- the batcher's timeout callback delivered to `processEvents` -/
def timeout (s : St) : Option Nat → St × List Obs
  | some t => if t = s.token then flush s else (s, [])
  | none => (s, [])

inductive Act where
  | align (sr : Nat) (it : Item)
  | go (sr : Nat)
  | tick
  | stale
  | armFail
  | armDbFail
  | cancel (sr : Nat)
  | redeploy
deriving Repr

/-- `alignSender`: pass iff there is no checkpoint or the sender's barrier is still missing; a sender that
waits on a checkpoint whose channel is already closed (all barriers arrived, record still in place after a
failed ack) continues at once -/
def passes (s : St) (sr : Nat) : Bool :=
  match s.ckpt with
  | none => true
  | some (_, m) => m.contains sr || m.isEmpty

/-- `HandleDeploy` (no checkpoints to restore, fresh storage) -/
def redeploy (s : St) : St × List Obs :=
  ({ s with ckpt := none,
            slots := fun i => match s.slots i with
              | some (_, false) => none      -- woken with `errCheckpointAbandoned`
              | x => x,
            kv := emptyKV, timers := [], wms := fun _ => 0, ups := [], watermark := 0, active := List.range s.k },
   [.redeployed (parkedList s)])

/-- what the property asks of a redeploy (spec, not the code: open finding D45): nothing of the previous deployment
reaches the new one — the event batcher is emptied and every call in flight is turned away, not only the parked ones -/
def redeploySpec (s : St) : St × List Obs :=
  ({ (redeploy s).1 with slots := fun _ => none, pending := [] },
   [.redeployed ((List.range (s.k + s.z)).filter fun i => (s.slots i).isSome)])

def stepLive (s : St) : Act → St × List Obs
  | .align sr it =>
    if sr < s.k + s.z then
      match s.slots sr with
      | some _ => (s, [.busy sr])
      | none =>
        ({ s with slots := fun i => if i = sr then some (it, passes s sr) else s.slots i },
         [.aligned sr (passes s sr)])
    else (s, [])
  | .go sr =>
    if sr < s.k + s.z then
      match s.slots sr with
      | some (it, true) =>
        let r := process s sr it
        ({ r.1 with slots := fun i => if i = sr then none else r.1.slots i }, .proc sr it :: r.2)
      | _ => (s, [])
    else (s, [])
  | .tick => timeout s s.lastSet
  | .stale => timeout s s.prevSet
  | .armFail => ({ s with ackFails := true }, [])
  | .armDbFail => ({ s with ackFails := true, dbFails := true }, [])
  | .cancel _ => (s, [])
  | .redeploy => redeploy s

/-- after `o.stop()` the consumer is gone: nothing happens any more -/
def step (s : St) (a : Act) : St × List Obs := if s.stopped then (s, []) else stepLive s a

/-- run a schedule, accumulating the observations -/
def runFrom (s : St) (acc : List Obs) : List Act → St × List Obs
  | [] => (s, acc)
  | a :: as => runFrom (step s a).1 (acc ++ (step s a).2) as

def run (k maxSize : Nat) (as : List Act) : St × List Obs := runFrom (init k maxSize) [] as

/-! ## the consumer held inside the last barrier's handler

`handleCheckpointBarrier` wakes the parked senders (`registerBarrier` closes `allBarriersReceived`) *before* it
flushes the batch and captures the DKV checkpoint. `hold sr` stops the consumer at the start of that flush (the
`batcher.flush` hook): the woken senders run on. In the code the only thing they can do is pass the gate and
block on the unbuffered `o.events` channel, because its single consumer is busy (`go x` while held = "queued",
nothing else happens); every other entry point needs `o.mu` or the consumer and blocks outright (refused).
`resume` lets the consumer finish the barrier handler (flush, capture, ack, reset) and then serve the queue.
The harness queues at most one sender, and only with a keyed event or watermark, per hold, and starts at most one
new call per hold (which must block on the read lock until the handler returns). -/

structure HSt where
  s : St
  held : Option Nat := none
  queue : List Nat := []
  /-- a new `HandleEvent` call started while the consumer is held: it blocks on `o.mu.RLock` (the barrier handler
  holds the write lock) before any alignment decision -/
  blocked : List (Nat × Item) := []

inductive HAct where
  | base (a : Act)
  | hold (sr : Nat)
  | resume
deriving Repr

/-- sender `sr` stands at the gate with the barrier that completes the checkpoint -/
def completing (s : St) (sr : Nat) : Bool :=
  !s.stopped && decide (sr < s.k) &&
  match s.slots sr with
  | some (.bar id, true) => id == (virtCk s id).1 && ((virtCk s id).2.filter (· ≠ sr)).isEmpty
  | _ => false

/-- may sender `x` run on while the consumer is held: it has a call in flight carrying a keyed event or watermark -/
def queueable (s : St) (x : Nat) : Bool :=
  decide (x < s.k) &&
  match s.slots x with
  | some (.ev _ _ _, _) => true
  | some (.wm _, _) => true
  | _ => false

def hstep (h : HSt) : HAct → HSt × List Obs
  | .base a =>
    match h.held with
    | none => ({ h with s := (step h.s a).1 }, (step h.s a).2)
    | some sr0 =>
      match a with
      | .go x =>
        if h.queue.isEmpty && x != sr0 && queueable h.s x then ({ h with queue := [x] }, []) else (h, [])
      | .align sr it =>
        -- the call waits for the read lock; its alignment is decided only after the handler returned
        if h.blocked.isEmpty && decide (sr < h.s.k) && (h.s.slots sr).isNone then ({ h with blocked := [(sr, it)] }, [])
        else (h, [])
      | _ => (h, [])          -- blocks on `o.mu` / the busy consumer: refused by the harness
  | .hold sr =>
    match h.held with
    | none =>
      if completing h.s sr then ({ h with held := some sr }, [])
      else ({ h with s := (step h.s (.go sr)).1 }, (step h.s (.go sr)).2)
    | some _ => (h, [])
  | .resume =>
    match h.held with
    | none => (h, [])
    | some sr0 =>
      let r := runFrom h.s [] (.go sr0 :: h.queue.map .go ++ h.blocked.map fun x => .align x.1 x.2)
      ({ s := r.1, held := none, queue := [], blocked := [] }, r.2)

def hrunFrom (h : HSt) (acc : List Obs) : List HAct → HSt × List Obs
  | [] => (h, acc)
  | a :: as => hrunFrom (hstep h a).1 (acc ++ (hstep h a).2) as

end Rxn.Align
