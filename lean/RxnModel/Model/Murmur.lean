import RxnModel.Base.Bytes
import RxnModel.Generated.Facts
/-!
MurmurHash3 x86_32 as written in `util/murmur/murmur.go`, over `UInt32` (wrap-around
arithmetic is what the algorithm is about). Constants come from the regenerated Facts.
-/
namespace Rxn.Murmur
open Rxn

def c1 : UInt32 := UInt32.ofNat Facts.murmurC1
def c2 : UInt32 := UInt32.ofNat Facts.murmurC2

def rotl (x : UInt32) (r : Nat) : UInt32 :=
  (x <<< UInt32.ofNat r) ||| (x >>> UInt32.ofNat (32 - r))

def mixK (k : UInt32) : UInt32 := rotl (k * c1) Facts.murmurR1 * c2

def word (a b c d : UInt8) : UInt32 :=
  a.toUInt32 ||| (b.toUInt32 <<< 8) ||| (c.toUInt32 <<< 16) ||| (d.toUInt32 <<< 24)

/-- body loop + tail -/
def body : Bytes → UInt32 → UInt32
  | a :: b :: c :: d :: rest, h =>
    let h := h ^^^ mixK (word a b c d)
    let h := rotl h Facts.murmurR2
    body rest (h * UInt32.ofNat Facts.murmurM + UInt32.ofNat Facts.murmurN)
  | [a, b, c], h => h ^^^ mixK ((c.toUInt32 <<< 16) ^^^ (b.toUInt32 <<< 8) ^^^ a.toUInt32)
  | [a, b], h => h ^^^ mixK ((b.toUInt32 <<< 8) ^^^ a.toUInt32)
  | [a], h => h ^^^ mixK a.toUInt32
  | [], h => h ^^^ mixK 0

def fmix (h : UInt32) : UInt32 :=
  let h := h ^^^ (h >>> UInt32.ofNat Facts.murmurS1)
  let h := h * UInt32.ofNat Facts.murmurF1
  let h := h ^^^ (h >>> UInt32.ofNat Facts.murmurS2)
  let h := h * UInt32.ofNat Facts.murmurF2
  h ^^^ (h >>> UInt32.ofNat Facts.murmurS3)

def hash (data : Bytes) (seed : Nat) : UInt32 :=
  fmix (body data (UInt32.ofNat seed) ^^^ UInt32.ofNat data.length)

end Rxn.Murmur
