import RxnModel.Model.KeySpace
import RxnModel.Model.Watermark
/-!
`workers/operator/timer_store.go` (`KeyGroupPriorityQueue`, `TimerStore`), `workers/operator/timer_registry.go`,
`util/ds/sorted_cache.go`, the timer part of `util/binu/binu.go`, and the watermark/timer path of
`workers/operator/operator.go` (`handleUserEvent`, `handleWatermark`, `processEventBatch`).

* `SortedCache` = sorted duplicate-free list of byte strings (the btree is trusted, DESIGN §5) with the code's byte accounting.
* the DKV is a sorted duplicate-free list of keys with prefix scan (verified separately: C07/C08).
* `ds.PartitionedPriorityQueue` (a heap of the partitions ordered by their `Peek`) is represented by its specification,
  "the partition whose earliest element has the smallest timestamp" (`Store.earliest`; the heap itself is C19's). The
  heap's comparisons call `Peek` on arbitrary partitions, which reloads their caches: that is the free action `Store.touch`.
* the code modelled is the code after the D11 repair (`Push` admits an item only below the cache maximum while the DB holds
  uncached items; `loadFromDB` sets `allDataInCache` only when the scan was exhausted).
-/
namespace Rxn.Timers
open Rxn

/-- `btree.ReplaceOrInsert` on a sorted duplicate-free list (also `dkv.DB.Put` on the key set) -/
def sinsert (k : Bytes) : List Bytes → List Bytes
  | [] => [k]
  | x :: xs =>
    match Bytes.cmp k x with
    | .lt => k :: x :: xs
    | .eq => k :: xs
    | .gt => x :: sinsert k xs

/-! ### `ds.SortedCache` -/

structure Cache where
  items : List Bytes
  byteSize : Nat
  maxSize : Nat
deriving Repr, DecidableEq

namespace Cache
def new (maxSize : Nat) : Cache := ⟨[], 0, maxSize⟩
/-- `Push`: a replaced item's size is subtracted first (D10 repair) -/
def push (c : Cache) (k : Bytes) : Cache :=
  { c with items := sinsert k c.items,
           byteSize := (if c.items.contains k then c.byteSize - k.length else c.byteSize) + k.length }
def pop (c : Cache) : Option Bytes × Cache :=
  match c.items with
  | [] => (none, c)
  | x :: xs => (some x, { c with items := xs, byteSize := c.byteSize - x.length })
def popLast (c : Cache) : Cache :=
  match c.items.getLast? with
  | none => c
  | some x => { c with items := c.items.dropLast, byteSize := c.byteSize - x.length }
def peek (c : Cache) : Option Bytes := c.items.head?
def peekLast (c : Cache) : Option Bytes := c.items.getLast?
def delete (c : Cache) (k : Bytes) : Cache :=
  if c.items.contains k then { c with items := c.items.erase k, byteSize := c.byteSize - k.length } else c
def isEmpty (c : Cache) : Bool := c.items.isEmpty
def isFull (c : Cache) : Bool := decide (c.byteSize ≥ c.maxSize)
end Cache

/-! ### the DKV as seen by the timer store: a sorted set of keys -/

abbrev DB := List Bytes
def DB.put (db : DB) (k : Bytes) : DB := sinsert k db
def DB.delete (db : DB) (k : Bytes) : DB := db.erase k
def DB.scan (db : DB) (p : Bytes) : List Bytes := db.filter (Bytes.hasPrefix · p)

/-! ### `KeyGroupPriorityQueue` -/

structure KGPQ where
  cache : Cache
  pfx : Bytes          -- 2 key-group bytes + schema byte, as built in `loadFromDB`
  allData : Bool       -- `allDataInCache`
deriving Repr, DecidableEq

def kgPrefix (kg : Nat) : Bytes := Bytes.u16be kg ++ [UInt8.ofNat Facts.schemaTimer]

def KGPQ.new (kg cacheSize : Nat) : KGPQ := ⟨Cache.new cacheSize, kgPrefix kg, false⟩

/-- the scan loop of `loadFromDB`: returns the cache and whether the scan was exhausted -/
def loadLoop : List Bytes → Cache → Cache × Bool
  | [], c => (c, true)
  | k :: ks, c => if c.isFull && !c.isEmpty then (c, false) else loadLoop ks (c.push k)

/-- `loadFromDB` -/
def KGPQ.load (q : KGPQ) (db : DB) : KGPQ :=
  if !q.cache.isEmpty || q.allData then q else
    let r := loadLoop (db.scan q.pfx) q.cache
    { q with cache := r.1, allData := r.2 }

/-- the eviction loop of `Push`: `for cache.IsFull() && !cache.IsEmpty() { cache.PopLast(); allDataInCache = false }` -/
def evictLoop : Nat → Cache × Bool → Cache × Bool
  | 0, s => s
  | n + 1, (c, a) => if c.isFull && !c.isEmpty then evictLoop n (c.popLast, false) else (c, a)

/-- the admission test of `Push` (D11 repair): everything is cached, or the item does not sort after the last cached item -/
def KGPQ.fits (q : KGPQ) (k : Bytes) : Bool :=
  q.allData ||
    (match q.cache.peekLast with
     | some last => Bytes.cmp k last != .gt
     | none => false)

/-- `Push` -/
def KGPQ.push (q : KGPQ) (db : DB) (k : Bytes) : KGPQ × DB :=
  let q := q.load db
  let q := if q.fits k then
      let c := q.cache.push k
      let r := evictLoop (c.items.length + 1) (c, q.allData)
      { q with cache := r.1, allData := r.2 }
    else q
  (q, db.put k)

/-- `Delete` -/
def KGPQ.delete (q : KGPQ) (db : DB) (k : Bytes) : KGPQ × DB :=
  let q := q.load db
  ({ q with cache := q.cache.delete k }, db.delete k)

/-- `Pop` -/
def KGPQ.pop (q : KGPQ) (db : DB) : Option Bytes × KGPQ × DB :=
  let q := q.load db
  match q.cache.pop with
  | (some m, c) => (some m, { q with cache := c }, db.delete m)
  | (none, c) => (none, { q with cache := c }, db)

/-- the result of `Peek` (which also leaves the partition loaded: `KGPQ.load`) -/
def KGPQ.peekView (q : KGPQ) (db : DB) : Option Bytes := (q.load db).cache.peek

/-! ### `TimerStore` -/

structure Store where
  parts : List KGPQ     -- partition `i` serves key group `start + i`
  db : DB
  kgc : Nat             -- key group count of the key space
  start : Nat           -- `keyGroupRange.Start`
deriving Repr

/-- `NewTimerStore(db, keySpace, [start, stop), maxCacheSize)`: every partition gets `maxCacheSize / size` bytes -/
def Store.new (db : DB) (kgc start stop maxCache : Nat) : Store :=
  { parts := (List.range (stop - start)).map fun i => KGPQ.new (start + i) (maxCache / (stop - start)),
    db := db, kgc := kgc, start := start }

/-- `getPartitionIndex`: `keyGroupRange.IndexOf(KeyGroupFromBytes(key[0:2]))` -/
def Store.partIdx (s : Store) (key : Bytes) : Nat := Gen.kgIndexOf ⟨s.start, 0⟩ (Bytes.beNat (key.take 2))

def Store.onPart (s : Store) (i : Nat) (f : KGPQ → DB → KGPQ × DB) : Store :=
  match s.parts[i]? with
  | none => s
  | some q => let r := f q s.db; { s with parts := s.parts.set i r.1, db := r.2 }

/-- `priorityQueue.Push(key)` -/
def Store.pushKey (s : Store) (key : Bytes) : Store := s.onPart (s.partIdx key) fun q db => q.push db key
/-- `priorityQueue.Delete(key)` -/
def Store.deleteKey (s : Store) (key : Bytes) : Store := s.onPart (s.partIdx key) fun q db => q.delete db key
/-- a heap comparison peeking at partition `i` (reloads its cache if it is drained) -/
def Store.touch (s : Store) (i : Nat) : Store := s.onPart i fun q db => (q.load db, db)

/-- the bytes `compare` looks at: `a[3:11]` -/
def tsBytes (k : Bytes) : Bytes := (k.drop 3).take 8

/-- choose between the best so far and the next partition's earliest element (the earlier partition wins ties) -/
def better (best : Option Bytes) (r : Option Bytes) : Option Bytes :=
  match best, r with
  | none, r => r
  | some b, none => some b
  | some b, some k => if Bytes.cmp (tsBytes k) (tsBytes b) == .lt then some k else some b

/-- `priorityQueue.Peek()`: the earliest element over all partitions by timestamp bytes -/
def Store.earliest (s : Store) : Option Bytes :=
  s.parts.foldl (fun best q => better best (q.peekView s.db)) none

/-- `binu.PutTimeBytes`: `uint64(t.UnixNano())` -/
def encTs (t : Int) : Nat := (t % 18446744073709551616).toNat
/-- `binu.TimeFromBytes`: `time.Unix(0, int64(u))` -/
def decTs (b : Bytes) : Int :=
  let n := Bytes.beNat b
  if n < 9223372036854775808 then (n : Int) else (n : Int) - 18446744073709551616

/-- `timerFromBytes`: subject key and timestamp -/
def timerOf (k : Bytes) : Bytes × Int := (k.drop 11, decTs (tsBytes k))

/-- `TimerStore.Put` -/
def Store.put (s : Store) (subject : Bytes) (t : Int) : Store := s.pushKey (Keys.timerKey s.kgc subject (encTs t))

/-- does the store's key-group range contain the subject key's group (otherwise `Put` panics in Go) -/
def Store.owns (s : Store) (subject : Bytes) : Bool :=
  let g := KeySpace.keyGroup s.kgc subject
  decide (s.start ≤ g) && decide (g < s.start + s.parts.length)

/-- all timer keys of the store's partitions currently in the DB -/
def Store.timerKeys (s : Store) : List Bytes := s.parts.flatMap fun q => s.db.scan q.pfx

/-! ### `TimerRegistry` -/

structure Registry where
  store : Store
  ups : Wm.Ups
  wm : Int              -- `watermark`, starts as `Wm.regInit` (the epoch since the D58 repair)
deriving Repr

def Registry.new (store : Store) (ids : List String) : Registry := ⟨store, Wm.Ups.init ids, Wm.regInit⟩

/-- `SetTimer` -/
def Registry.setTimer (r : Registry) (key : Bytes) (t : Int) : Registry :=
  if Wm.timeCond Facts.timerGuardCond r.wm t then r else { r with store := r.store.put key t }

/-- the loop of `AdvanceWatermark`, consumed completely -/
def fireLoop (comp : Int) : Nat → Store → Store × List (Bytes × Int)
  | 0, s => (s, [])
  | n + 1, s =>
    match s.earliest with
    | none => (s, [])
    | some k =>
      if Wm.timeCond Facts.fireStopCond (timerOf k).2 comp then (s, [])
      else
        let r := fireLoop comp n (s.deleteKey k)
        (r.1, timerOf k :: r.2)

/-- `AdvanceWatermark(senderID, wm)` with the returned iterator drained -/
def Registry.advance (r : Registry) (sender : String) (wm : Int) : Registry × List (Bytes × Int) :=
  let u := r.ups.report sender wm
  let f := fireLoop u.2 (r.store.db.length + 1) r.store
  ({ store := f.1, ups := u.1, wm := u.2 }, f.2)

/-! ### specification: a set of pending timers -/

structure Spec where
  pending : List (Bytes × Int)    -- duplicate free
  ups : Wm.Ups
  wm : Int
deriving Repr

def Spec.new (ids : List String) : Spec := ⟨[], Wm.Ups.init ids, Wm.regInit⟩

/-- a timer later than the watermark becomes pending (once); others are ignored -/
def Spec.setTimer (s : Spec) (key : Bytes) (t : Int) : Spec :=
  if t > s.wm ∧ (key, t) ∉ s.pending then { s with pending := (key, t) :: s.pending } else s

/-- every pending timer at or before the new composite watermark fires; the rest stays pending -/
def Spec.advance (s : Spec) (sender : String) (wm : Int) : Spec × List (Bytes × Int) :=
  let u := s.ups.report sender wm
  ({ pending := s.pending.filter (fun p => decide (p.2 > u.2)), ups := u.1, wm := u.2 },
   s.pending.filter (fun p => decide (p.2 ≤ u.2)))

/-! ### histories of the registry -/

/-- one action on the registry; `touch i` is a peek of the partition heap at partition `i` (it happens inside the
heap's comparisons at moments and on partitions the model leaves open) -/
inductive ROp where
  | set (key : Bytes) (t : Int)
  | adv (sender : String) (wm : Int)
  | touch (i : Nat)
deriving Repr

/-- what the theorems quantify over: timers of owned keys; `t < 2^63` is Go's own restriction (`time.Time.UnixNano` is
undefined when the nanoseconds do not fit an `int64`: dates before 1678 or after 2262); `0 ≤ t` is the exclusion of finding D51 -/
def ROp.valid (kgc start stop : Nat) : ROp → Prop
  | .set key t => start ≤ KeySpace.keyGroup kgc key ∧ KeySpace.keyGroup kgc key < stop ∧ 0 ≤ t ∧ t < 9223372036854775808
  | _ => True

def Registry.step (r : Registry) : ROp → Registry × List (Bytes × Int)
  | .set k t => (r.setTimer k t, [])
  | .adv s v => r.advance s v
  | .touch i => ({ r with store := r.store.touch i }, [])

def Spec.step (sp : Spec) : ROp → Spec × List (Bytes × Int)
  | .set k t => (sp.setTimer k t, [])
  | .adv s v => sp.advance s v
  | .touch _ => (sp, [])

/-- final state and the timers fired by each action -/
def Registry.run (r : Registry) : List ROp → Registry × List (List (Bytes × Int))
  | [] => (r, [])
  | op :: ops => let a := r.step op; let b := Registry.run a.1 ops; (b.1, a.2 :: b.2)

def Spec.run (sp : Spec) : List ROp → Spec × List (List (Bytes × Int))
  | [] => (sp, [])
  | op :: ops => let a := sp.step op; let b := Spec.run a.1 ops; (b.1, a.2 :: b.2)

/-! ### the operator's event loop, as far as watermarks and timers are concerned -/

/-- what the handler is given -/
inductive HEv where
  | keyed (key : Bytes) (timers : List Int)   -- a keyed event; the reference handler answers it with these new timers for the key
  | expired (key : Bytes) (t : Int)           -- `TimerExpired`
deriving Repr, DecidableEq

/-- one `ProcessEventBatchRequest` -/
structure Req where
  events : List HEv
  told : Int                                  -- the `Watermark` field
deriving Repr

structure Op where
  reg : Registry
  batch : List HEv
  maxBatch : Nat
deriving Repr

/-- the handler's answer to the events of one request, on the specification: every keyed event registers its timers -/
def specHandle (sp : Spec) (evs : List HEv) : Spec :=
  evs.foldl (fun sp e => match e with
    | .keyed k ts => ts.foldl (fun sp t => sp.setTimer k t) sp
    | .expired _ _ => sp) sp

/-- what the property quantifies over, for an event the operator holds: keyed events of owned keys, timers `0 ≤ t < 2^63` -/
def HEv.valid (kgc start stop : Nat) : HEv → Prop
  | .keyed k ts => start ≤ KeySpace.keyGroup kgc k ∧ KeySpace.keyGroup kgc k < stop ∧
      ∀ t ∈ ts, 0 ≤ t ∧ t < 9223372036854775808
  | .expired _ _ => True

/-- `processEventBatch(CurrentBatch)`: the handler is told `timerRegistry.watermark`; its new timers go through `SetTimer` -/
def Op.flush (o : Op) : Op × List Req :=
  if o.batch.isEmpty then (o, []) else
    let reg := o.batch.foldl (fun r e =>
      match e with
      | .keyed k ts => ts.foldl (fun r t => r.setTimer k t) r
      | .expired _ _ => r) o.reg
    ({ o with reg := reg, batch := [] }, [{ events := o.batch, told := o.reg.wm }])

/-- `eventBatcher.Add(e); if eventBatcher.IsFull() { processEventBatch }` -/
def Op.add (o : Op) (e : HEv) : Op × List Req :=
  let o := { o with batch := o.batch ++ [e] }
  if o.batch.length ≥ o.maxBatch then o.flush else (o, [])

/-- `handleUserEvent` -/
def Op.keyed (o : Op) (key : Bytes) (timers : List Int) : Op × List Req := o.add (.keyed key timers)

/-- the loop of `handleWatermark` over the iterator of `AdvanceWatermark` (batches may be flushed, and timers set, between two firings) -/
def Op.fireLoop (comp : Int) : Nat → Op → Op × List Req
  | 0, o => (o, [])
  | n + 1, o =>
    match o.reg.store.earliest with
    | none => (o, [])
    | some k =>
      if Wm.timeCond Facts.fireStopCond (timerOf k).2 comp then (o, [])
      else
        let o1 := { o with reg := { o.reg with store := o.reg.store.deleteKey k } }
        let a := o1.add (.expired (timerOf k).1 (timerOf k).2)
        let r := Op.fireLoop comp n a.1
        (r.1, a.2 ++ r.2)

/-- `handleWatermark` -/
def Op.watermark (o : Op) (sender : String) (wm : Int) : Op × List Req :=
  let u := o.reg.ups.report sender wm
  let o1 := { o with reg := { o.reg with ups := u.1, wm := u.2 } }
  Op.fireLoop u.2 (o.reg.store.db.length + 1) o1

/-- what reaches the operator: events from its upstream runners, and a (re)deployment by the job -/
inductive OpEv where
  | keyed (key : Bytes) (timers : List Int)
  | wmark (sender : String) (wm : Int)
  | redeploy (store : Store) (ids : List String)   -- `HandleDeploy` on the same operator: fresh DB, timer store and registry
  | complete (sender : String)                     -- `SourceComplete` of a runner
  | barrier                                        -- the last checkpoint barrier of an alignment arrives
deriving Repr

/-- `HandleDeploy`: `timerRegistry = NewTimerRegistry(NewTimerStore(db, ...), req.SourceRunnerIds)`; the event batcher
(created in `Start`) and whatever it still holds are kept -/
def Op.redeploy (o : Op) (store : Store) (ids : List String) : Op := { o with reg := Registry.new store ids }

/-- `handleSourceComplete`: the current batch is flushed and the runner is marked inactive in `sourceRunners`; the
registry's upstream map is untouched, so the completed runner's latest watermark keeps bounding the composite
(the operator stops once no runner is active: histories end there) -/
def Op.complete (o : Op) (_sender : String) : Op × List Req := o.flush

/-- `handleCheckpointBarrier` once all barriers are there: the pending batch is flushed, then the DB is checkpointed
(the DB content at that moment is `(o.barrier).1.reg.store.db`; restoring it is `Op.redeploy` over that content) -/
def Op.barrier (o : Op) : Op × List Req := o.flush

def Op.step (o : Op) : OpEv → Op × List Req
  | .keyed k ts => o.keyed k ts
  | .wmark s v => o.watermark s v
  | .redeploy st ids => (o.redeploy st ids, [])
  | .complete s => o.complete s
  | .barrier => o.barrier

def Op.runState (o : Op) : List OpEv → Op
  | [] => o
  | e :: es => Op.runState (o.step e).1 es

/-- the current deployment's runner ids and the watermark messages received since it was deployed, in arrival order -/
def epochOf : List String × List (String × Int) → List OpEv → List String × List (String × Int)
  | s, [] => s
  | s, .keyed _ _ :: es => epochOf s es
  | (ids, ms), .wmark s v :: es => epochOf (ids, ms ++ [(s, v)]) es
  | _, .redeploy _ ids :: es => epochOf (ids, []) es
  | s, .complete _ :: es => epochOf s es     -- a completed runner's reports still count
  | s, .barrier :: es => epochOf s es

end Rxn.Timers
