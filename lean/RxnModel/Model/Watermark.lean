import RxnModel.Generated.Facts
/-!
`workers/wmark/watermarks.go`, the watermark path of `workers/sourcerunner/source_runner.go`
(`sendOperatorEvent`) and the upstream map / composite watermark of `workers/operator/timer_registry.go`.

Times are `Int` nanoseconds relative to the Unix epoch. `time.Time{}` (the zero value both `Watermarker.maxTimestamp`
and `TimerRegistry.watermark` start with) is the fixed constant `zeroTime`. The comparisons of the one-line
decisions and the slack constant come from `Generated/Facts.lean` (tools/gofacts/facts_c11.go), so the theorems
are re-checked against what the source says now.
-/
namespace Rxn.Wm

/-- `time.Time{}`: 0001-01-01T00:00:00Z in nanoseconds relative to the Unix epoch -/
def zeroTime : Int := -62135596800000000000

/-- the comparison codes extracted by gofacts: 0 `x.After(y)`, 1 `x.Before(y)`, 2 `!x.After(y)`, 3 `!x.Before(y)` -/
def timeCond (code : Nat) (x y : Int) : Bool :=
  match code with
  | 0 => decide (x > y)
  | 1 => decide (x < y)
  | 2 => !decide (x > y)
  | _ => !decide (x < y)

/-- `wmark.Watermarker` -/
structure Watermarker where
  maxTs : Int
  lateness : Int
deriving Repr, DecidableEq

/-- `&wmark.Watermarker{allowedLateness: l}` -/
def Watermarker.new (lateness : Int) : Watermarker := ⟨zeroTime, lateness⟩

/-- `Watermarker.AdvanceTime` -/
def Watermarker.advanceTime (w : Watermarker) (t : Int) : Watermarker :=
  if timeCond Facts.wmAdvanceCond t w.maxTs then { w with maxTs := t } else w

/-- `Watermarker.CurrentWatermark` -/
def Watermarker.current (w : Watermarker) : Int := w.maxTs - (w.lateness + (Facts.wmSlackNs : Int))

/-- what `sendOperatorEvent` takes off the runner's output stream, as far as watermarks are concerned:
the resolved batch of a keyed-event placeholder (every event advances the watermarker, then is routed),
or a watermark placeholder, stamped with `CurrentWatermark()` at the moment it is *sent* -/
inductive REv where
  | events (ts : List Int)
  | tick
deriving Repr

def runnerStep (w : Watermarker) : REv → Watermarker × Option Int
  | .events ts => (ts.foldl Watermarker.advanceTime w, none)
  | .tick => (w, some w.current)

/-- watermarker state after a stream prefix -/
def runnerState (w : Watermarker) : List REv → Watermarker
  | [] => w
  | e :: es => runnerState (runnerStep w e).1 es

/-- the watermarks broadcast while sending a stream -/
def runnerRun (w : Watermarker) : List REv → List Int
  | [] => []
  | e :: es =>
    match (runnerStep w e).2 with
    | some v => v :: runnerRun (runnerStep w e).1 es
    | none => runnerRun (runnerStep w e).1 es

/-- all event timestamps forwarded by a stream prefix, in order -/
def forwarded : List REv → List Int
  | [] => []
  | .events ts :: es => ts ++ forwarded es
  | .tick :: es => forwarded es

/-- running maximum -/
def maxOf (m : Int) (ts : List Int) : Int := ts.foldl max m

/-! ### upstream map and composite watermark of `TimerRegistry` -/

/-- `map[string]time.Time` as an association list with unique keys (iteration order is irrelevant: only the
minimum of the values is used) -/
abbrev Ups := List (String × Int)

/-- `upstreams[id] = v` -/
def Ups.set : Ups → String → Int → Ups
  | [], id, v => [(id, v)]
  | (k, x) :: rest, id, v => if k = id then (k, v) :: rest else (k, x) :: Ups.set rest id v

def Ups.get? : Ups → String → Option Int
  | [], _ => none
  | (k, x) :: rest, id => if k = id then some x else Ups.get? rest id

/-- the `time.Unix(sec, nsec)` every configured runner starts with in `NewTimerRegistry` -/
def upstreamInit : Int := (Facts.upstreamInitSec : Int) * 1000000000 + (Facts.upstreamInitNsec : Int)

/-- `NewTimerRegistry`: `for _, id := range srIDs { upstreams[id] = time.Unix(0, 0) }` -/
def Ups.init (ids : List String) : Ups := ids.foldl (fun u id => u.set id upstreamInit) []

/-- `iteru.MinFunc(maps.Values(upstreams), time.Time.Compare)` (panics on an empty map in Go; the map is never empty
where it is called because the sender's entry was just assigned; the model returns `zeroTime` there) -/
def Ups.composite : Ups → Int
  | [] => zeroTime
  | (_, v) :: rest => (rest.map (·.2)).foldl min v

/-- the first two lines of `AdvanceWatermark`: record the sender's watermark, recompute the composite -/
def Ups.report (u : Ups) (sender : String) (wm : Int) : Ups × Int :=
  let u' := u.set sender wm
  (u', u'.composite)

/-- upstream map and composite watermark after a sequence of watermark messages `(sender, watermark)`;
`TimerRegistry.watermark` starts as `time.Time{}` -/
def reportAll : Ups × Int → List (String × Int) → Ups × Int
  | s, [] => s
  | s, (id, v) :: ms => reportAll (s.1.report id v) ms

/-- the latest watermark of runner `id` in a message sequence, `d` if it has not reported -/
def lastOrFrom (d : Int) : List (String × Int) → String → Int
  | [], _ => d
  | (k, v) :: ms, id => lastOrFrom (if k = id then v else d) ms id

/-- the latest watermark of runner `id`, the initial value (the epoch) if it has not reported yet -/
def lastOr (msgs : List (String × Int)) (id : String) : Int := lastOrFrom upstreamInit msgs id

end Rxn.Wm
