import RxnModel.Generated.Facts
/-!
`workers/wmark/watermarks.go`, the watermark path of `workers/sourcerunner/source_runner.go`
(`sendOperatorEvent`) and the upstream map / composite watermark of `workers/operator/timer_registry.go`.

Times are `Int` nanoseconds relative to the Unix epoch. `time.Time{}` (the zero value both `Watermarker.maxTimestamp`
and `TimerRegistry.watermark` start with) is the fixed constant `zeroTime`. The comparisons of the one-line
decisions and the slack constant come from `Generated/Facts.lean` (tools/gofacts/facts_c11.go), so the theorems
are re-checked against what the source says now.
-/
namespace Rxn.Wm

/-- `time.Time{}`: 0001-01-01T00:00:00Z in nanoseconds relative to the Unix epoch -/
def zeroTime : Int := -62135596800000000000

/-- the comparison codes extracted by gofacts: 0 `x.After(y)`, 1 `x.Before(y)`, 2 `!x.After(y)`, 3 `!x.Before(y)` -/
def timeCond (code : Nat) (x y : Int) : Bool :=
  match code with
  | 0 => decide (x > y)
  | 1 => decide (x < y)
  | 2 => !decide (x > y)
  | _ => !decide (x < y)

/-- `wmark.Watermarker` -/
structure Watermarker where
  maxTs : Int
  lateness : Int
deriving Repr, DecidableEq

/-- `&wmark.Watermarker{allowedLateness: l}` -/
def Watermarker.new (lateness : Int) : Watermarker := ⟨zeroTime, lateness⟩

/-- `Watermarker.AdvanceTime` -/
def Watermarker.advanceTime (w : Watermarker) (t : Int) : Watermarker :=
  if timeCond Facts.wmAdvanceCond t w.maxTs then { w with maxTs := t } else w

/-- `Watermarker.CurrentWatermark` -/
def Watermarker.current (w : Watermarker) : Int := w.maxTs - (w.lateness + (Facts.wmSlackNs : Int))

/-- what `sendOperatorEvent` takes off the runner's output stream, as far as watermarks are concerned:
the resolved batch of a keyed-event placeholder (every event advances the watermarker, then is routed),
or a watermark placeholder, stamped with `CurrentWatermark()` at the moment it is *sent* -/
inductive REv where
  | events (ts : List Int)
  | tick
deriving Repr

def runnerStep (w : Watermarker) : REv → Watermarker × Option Int
  | .events ts => (ts.foldl Watermarker.advanceTime w, none)
  | .tick => (w, some w.current)

/-- watermarker state after a stream prefix -/
def runnerState (w : Watermarker) : List REv → Watermarker
  | [] => w
  | e :: es => runnerState (runnerStep w e).1 es

/-- the watermarks broadcast while sending a stream -/
def runnerRun (w : Watermarker) : List REv → List Int
  | [] => []
  | e :: es =>
    match (runnerStep w e).2 with
    | some v => v :: runnerRun (runnerStep w e).1 es
    | none => runnerRun (runnerStep w e).1 es

/-- all event timestamps forwarded by a stream prefix, in order -/
def forwarded : List REv → List Int
  | [] => []
  | .events ts :: es => ts ++ forwarded es
  | .tick :: es => forwarded es

/-- running maximum -/
def maxOf (m : Int) (ts : List Int) : Int := ts.foldl max m

/-! ### the stream an operator receives from a runner -/

/-- what an operator receives: a keyed event (its timestamp) or a watermark (its value **as delivered**) -/
inductive SEv where
  | ev (t : Int)
  | wm (v : Int)
deriving Repr, DecidableEq

/-- everything `sendOperatorEvent` hands to the operator batcher for a stream, in order: the keyed events of each
resolved placeholder, and one freshly stamped watermark per watermark placeholder -/
def sentStream (w : Watermarker) : List REv → List SEv
  | [] => []
  | .events ts :: es => ts.map SEv.ev ++ sentStream (ts.foldl Watermarker.advanceTime w) es
  | .tick :: es => SEv.wm w.current :: sentStream w es

/-- the part of the output stream that can be sent: placeholders are sent in order, and a keyed-event placeholder only
once its key-event batch was fetched (`resolved` = number of raw events whose batch is complete) -/
def sentPrefix : Nat → List REv → List REv
  | _, [] => []
  | 0, .events _ :: _ => []
  | r + 1, .events ts :: es => .events ts :: sentPrefix r es
  | r, .tick :: es => .tick :: sentPrefix r es

def rawCount : List REv → Nat
  | [] => 0
  | .events _ :: es => rawCount es + 1
  | .tick :: es => rawCount es

/-- `EventBatcherParams.MaxSize` (0 means 1) -/
def batchSize (n : Nat) : Nat := if n = 0 then 1 else n

/-- what the operator has received after the runner's event loop produced the stream `evs`, with key-event batches and
operator batches of `n` items and no batch timeout: whole batches only -/
def delivered (n : Nat) (w : Watermarker) (evs : List REv) : List SEv :=
  let b := batchSize n
  let s := sentStream w (sentPrefix (rawCount evs / b * b) evs)
  s.take (s.length / b * b)

/-- the property as the operator sees it: every watermark in the stream equals the largest event timestamp received
before it (`m` so far) minus (lateness + 1ns) -/
def streamOK (lat : Int) : Int → List SEv → Prop
  | _, [] => True
  | m, .ev t :: s => streamOK lat (max m t) s
  | m, .wm v :: s => v = m - (lat + 1) ∧ streamOK lat m s

/-! ### several operators: keyed events are routed, watermarks are broadcast -/

/-- like `REv`, with the index of the operator each keyed event is routed to -/
inductive REvK where
  | events (kts : List (Nat × Int))
  | tick
deriving Repr

def REvK.erase : REvK → REv
  | .events kts => .events (kts.map (·.2))
  | .tick => .tick

/-- what `sendOperatorEvent` hands to the operator cluster: `(some j, ev t)` goes to operator `j`'s batcher,
`(none, wm v)` to every operator's batcher (the same stamped watermark) -/
def sentTagged (w : Watermarker) : List REvK → List (Option Nat × SEv)
  | [] => []
  | .events kts :: es =>
    kts.map (fun kt => (some kt.1, SEv.ev kt.2)) ++ sentTagged ((kts.map (·.2)).foldl Watermarker.advanceTime w) es
  | .tick :: es => (none, SEv.wm w.current) :: sentTagged w es

/-- what reaches operator `j`'s batcher -/
def streamOf (j : Nat) (s : List (Option Nat × SEv)) : List SEv :=
  (s.filter fun p => p.1 == none || p.1 == some j).map (·.2)

def sentPrefixK : Nat → List REvK → List REvK
  | _, [] => []
  | 0, .events _ :: _ => []
  | r + 1, .events kts :: es => .events kts :: sentPrefixK r es
  | r, .tick :: es => .tick :: sentPrefixK r es

def rawCountK : List REvK → Nat
  | [] => 0
  | .events _ :: es => rawCountK es + 1
  | .tick :: es => rawCountK es

/-- what operator `j` has received (whole batches of its own batcher), the runner's watermarker being `w` when the
deployment started (it is created once per runner and survives `HandleDeploy`) -/
def deliveredTo (n : Nat) (w : Watermarker) (evs : List REvK) (j : Nat) : List SEv :=
  let b := batchSize n
  let s := streamOf j (sentTagged w (sentPrefixK (rawCountK evs / b * b) evs))
  s.take (s.length / b * b)

/-- the watermarker after everything that could be sent was sent (the state a redeployment of the runner starts from) -/
def stateAfterSent (n : Nat) (w : Watermarker) (evs : List REvK) : Watermarker :=
  runnerState w ((sentPrefixK (rawCountK evs / batchSize n * batchSize n) evs).map REvK.erase)

def watermarksOf : List SEv → List Int
  | [] => []
  | .ev _ :: s => watermarksOf s
  | .wm v :: s => v :: watermarksOf s

/-! ### two consumers of the output stream (after a live redeploy of the runner: finding D39) -/

/-- `HandleDeploy` on a live runner starts a second `for opEvent := range r.outputStream` goroutine and does not stop the
first one. Both call `sendOperatorEvent` on the one shared watermarker: for a watermark placeholder a consumer reads
`CurrentWatermark()` (`stamp`) and broadcasts the stamped message in a later step (`send`); in between the other
consumer may forward events and stamp and send its own watermark. -/
inductive Act2 where
  | forward (ts : List Int)     -- either consumer forwards a resolved keyed-event batch
  | stamp (second : Bool)       -- consumer `second` stamps the watermark placeholder it took
  | send (second : Bool)        -- consumer `second` broadcasts its stamped watermark
deriving Repr

structure St2 where
  w : Watermarker
  held0 : Option Int := none
  held1 : Option Int := none

def step2 (s : St2) : Act2 → St2 × Option Int
  | .forward ts => ({ s with w := ts.foldl Watermarker.advanceTime s.w }, none)
  | .stamp false => ({ s with held0 := some s.w.current }, none)
  | .stamp true => ({ s with held1 := some s.w.current }, none)
  | .send false => ({ s with held0 := none }, s.held0)
  | .send true => ({ s with held1 := none }, s.held1)

/-- the watermarks broadcast, in the order the operators receive them -/
def run2 (s : St2) : List Act2 → List Int
  | [] => []
  | a :: as => match (step2 s a).2 with
    | some v => v :: run2 (step2 s a).1 as
    | none => run2 (step2 s a).1 as

/-! ### upstream map and composite watermark of `TimerRegistry` -/

/-- `map[string]time.Time` as an association list with unique keys (iteration order is irrelevant: only the
minimum of the values is used) -/
abbrev Ups := List (String × Int)

/-- `upstreams[id] = v` -/
def Ups.set : Ups → String → Int → Ups
  | [], id, v => [(id, v)]
  | (k, x) :: rest, id, v => if k = id then (k, v) :: rest else (k, x) :: Ups.set rest id v

def Ups.get? : Ups → String → Option Int
  | [], _ => none
  | (k, x) :: rest, id => if k = id then some x else Ups.get? rest id

/-- the `time.Unix(sec, nsec)` every configured runner starts with in `NewTimerRegistry` -/
def upstreamInit : Int := (Facts.upstreamInitSec : Int) * 1000000000 + (Facts.upstreamInitNsec : Int)

/-- the initial value of `TimerRegistry.watermark` in `NewTimerRegistry`: the `time.Unix(sec, nsec)` of the returned literal
(`Facts.regInit*`), or `time.Time{}` if the field is not set (`Facts.regInitZero = 1`, the code before the D58 repair) -/
def regInit : Int :=
  if Facts.regInitZero = 1 then zeroTime else (Facts.regInitSec : Int) * 1000000000 + (Facts.regInitNsec : Int)

/-- `NewTimerRegistry`: `for _, id := range srIDs { upstreams[id] = time.Unix(0, 0) }` -/
def Ups.init (ids : List String) : Ups := ids.foldl (fun u id => u.set id upstreamInit) []

/-- `iteru.MinFunc(maps.Values(upstreams), time.Time.Compare)` (panics on an empty map in Go; the map is never empty
where it is called because the sender's entry was just assigned; the model returns `zeroTime` there) -/
def Ups.composite : Ups → Int
  | [] => zeroTime
  | (_, v) :: rest => (rest.map (·.2)).foldl min v

/-- the first two lines of `AdvanceWatermark`: record the sender's watermark, recompute the composite -/
def Ups.report (u : Ups) (sender : String) (wm : Int) : Ups × Int :=
  let u' := u.set sender wm
  (u', u'.composite)

/-- upstream map and composite watermark after a sequence of watermark messages `(sender, watermark)`;
`TimerRegistry.watermark` starts as `time.Time{}` -/
def reportAll : Ups × Int → List (String × Int) → Ups × Int
  | s, [] => s
  | s, (id, v) :: ms => reportAll (s.1.report id v) ms

/-- the latest watermark of runner `id` in a message sequence, `d` if it has not reported -/
def lastOrFrom (d : Int) : List (String × Int) → String → Int
  | [], _ => d
  | (k, v) :: ms, id => lastOrFrom (if k = id then v else d) ms id

/-- the latest watermark of runner `id`, the initial value (the epoch) if it has not reported yet -/
def lastOr (msgs : List (String × Int)) (id : String) : Int := lastOrFrom upstreamInit msgs id

end Rxn.Wm
