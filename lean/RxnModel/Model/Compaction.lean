import RxnModel.Model.Lsm
/-!
# The compactor (`dkv/sst/compaction.go`) and the family of safe change sets

Built on `Model/Lsm.lean` (tables, levels, `levelsGet`, `removeIds`/`addAt`, `safeCS`).

* `compact`: `Compactor.Compact` / `majorCompaction` / `minorCompaction` statement by statement. Every comparison of
  sizes is answered by an `Oracle` (all fields are free), so whatever is proved about `compact` holds for every
  table size, every `SmallestLevelSize`, `MaxSizeAmplificationPercent`, `L0RunNumCompactionTrigger`,
  `TargetTableSize` and for the `float64` rounding inside `SAR.Percentage`. Where `WriteRun` cuts the merged run
  into tables is an oracle too (`cuts`); `chunk` turns any list of cut lengths into non-empty pieces.
* `LayoutValid`: what `LevelList.Get`/`ScanPrefix` rely on.
* `SafeCS`: the safe family of change sets (semantic form: no table that stays lies beneath a removed table that
  shares a key with it; the target level is rewritten as a whole; nothing below the target is touched).
* `Sys`: compaction running next to flushes (change set computed on a snapshot, applied later).
-/
namespace Rxn.Compaction
open Rxn Rxn.Lsm

abbrev Levels := List (List Tbl)

/-! ## Layout validity -/

/-- strictly ascending keys -/
def SortedRun (r : Run) : Prop := r.Pairwise (fun a b => Bytes.lt a.key b.key = true)

/-- `a` holds only newer versions than `b` of every key they share -/
def Newer (a b : Run) : Prop := ∀ ea ∈ a, ∀ eb ∈ b, ea.key = eb.key → eb.seq < ea.seq

def DisjointKeys (a b : Run) : Prop := ∀ ea ∈ a, ∀ eb ∈ b, ea.key ≠ eb.key

/-- concatenation of the runs of a list of tables (a level in stored order) -/
def cat (l : List Tbl) : Run := l.flatMap (·.run)

/--
What reads rely on:
* every table is a sorted run;
* every deeper level is stored in key order and its tables do not overlap (the last key of a table is below the
  first key of every later table);
* newer above: of two tables holding the same key the one visited first by a lookup (`readOrder`) holds the
  larger sequence number.
-/
structure LayoutValid (L : Levels) : Prop where
  sorted : ∀ t ∈ L.flatten, SortedRun t.run
  ordered : ∀ l ∈ L.tail, l.Pairwise (fun a b => Bytes.lt a.endKey b.startKey = true)
  newer : (readOrder L).Pairwise (fun a b => Newer a.run b.run)

instance (r : Run) : Decidable (SortedRun r) := by unfold SortedRun; infer_instance
instance (a b : Run) : Decidable (Newer a b) := by unfold Newer; infer_instance
instance (a b : Run) : Decidable (DisjointKeys a b) := by unfold DisjointKeys; infer_instance

theorem layoutValid_iff (L : Levels) : LayoutValid L ↔
    ((∀ t ∈ L.flatten, SortedRun t.run) ∧
     (∀ l ∈ L.tail, l.Pairwise (fun a b => Bytes.lt a.endKey b.startKey = true)) ∧
     (readOrder L).Pairwise (fun a b => Newer a.run b.run)) :=
  ⟨fun h => ⟨h.sorted, h.ordered, h.newer⟩, fun h => ⟨h.1, h.2.1, h.2.2⟩⟩

instance (L : Levels) : Decidable (LayoutValid L) := decidable_of_iff _ (layoutValid_iff L).symm

/-- the sstable side of `DB.ScanPrefix` (`LevelList.ScanPrefixWithTombstones`): delete markers kept -/
def scanView (L : Levels) (p : Bytes) : Run := mergeAll (L.flatten.map (·.scan p))

/-! ## Change sets -/

structure ChangeSet where
  /-- ids of the removed tables -/
  rm : List Nat
  /-- level the new tables are added to -/
  lvl : Nat
  /-- the new tables in the order they are appended -/
  add : List Run
deriving Repr, DecidableEq, Inhabited

def rmP (rm : List Nat) (t : Tbl) : Bool := rm.contains t.id

/-- `LevelList.NewWithChangeSet`. The code appends the additions and then drops the removals by pointer identity;
new tables are never among the removals, so this is removal by id followed by appending. -/
def applyCS (L : Levels) (nextId : Nat) (cs : ChangeSet) : Levels :=
  addAt (removeIds cs.rm L) cs.lvl (mkTables nextId cs.add)

/-- the flush change set: tables appended to level 0 -/
def applyFlush (L : Levels) (ts : List Tbl) : Levels := addAt L 0 ts

/--
The safe family. With `rm` the removed ids, `lvl` the target level and `add` the new tables:
* the target is a deeper level that exists, it is removed entirely, nothing beneath it is touched;
* **no table that stays lies beneath a removed table sharing a key with it** (within the levels above the target,
  in the order lookups visit tables);
* the new tables are the merge (newest version per key, delete markers kept) of the removed tables cut into
  non-empty pieces (one empty piece when the merge is empty).
-/
structure SafeCS (L : Levels) (rm : List Nat) (lvl : Nat) (add : List Run) : Prop where
  lvl_pos : 1 ≤ lvl
  lvl_lt : lvl < L.length
  target_all : ∀ t ∈ L.getD lvl [], rmP rm t = true
  below_none : ∀ t ∈ (L.drop (lvl + 1)).flatten, rmP rm t = false
  no_kept_below_removed :
    (readOrder (L.take lvl)).Pairwise (fun x y => rmP rm x = true → rmP rm y = false → DisjointKeys x.run y.run)
  added : add.flatten = mergeAll (((readOrder L).filter (rmP rm)).map (·.run))
  chunks : (∀ r ∈ add, r ≠ []) ∨ add = [[]]

theorem safeCS_iff (L : Levels) (rm : List Nat) (lvl : Nat) (add : List Run) : SafeCS L rm lvl add ↔
    (1 ≤ lvl ∧ lvl < L.length ∧ (∀ t ∈ L.getD lvl [], rmP rm t = true) ∧
     (∀ t ∈ (L.drop (lvl + 1)).flatten, rmP rm t = false) ∧
     (readOrder (L.take lvl)).Pairwise (fun x y => rmP rm x = true → rmP rm y = false → DisjointKeys x.run y.run) ∧
     add.flatten = mergeAll (((readOrder L).filter (rmP rm)).map (·.run)) ∧ ((∀ r ∈ add, r ≠ []) ∨ add = [[]])) :=
  ⟨fun h => ⟨h.lvl_pos, h.lvl_lt, h.target_all, h.below_none, h.no_kept_below_removed, h.added, h.chunks⟩,
   fun h => ⟨h.1, h.2.1, h.2.2.1, h.2.2.2.1, h.2.2.2.2.1, h.2.2.2.2.2.1, h.2.2.2.2.2.2⟩⟩

instance (L : Levels) (rm : List Nat) (lvl : Nat) (add : List Run) : Decidable (SafeCS L rm lvl add) :=
  decidable_of_iff _ (safeCS_iff L rm lvl add).symm

/-! ## The compactor -/

structure Compactor where
  /-- `minorCompactionLevel`: cursor of the multi-step minor compaction, kept between `Compact` calls -/
  minorLevel : Nat := 0
deriving Repr, DecidableEq, Inhabited

/-- Answers to every question about sizes the compactor asks. All fields are free. -/
structure Oracle where
  /-- `levels.At(0).tables.Size() < c.L0RunNumCompactionTrigger` -/
  l0Few : Bool
  /-- `sar.Percentage() > c.MaxSizeAmplificationPercent` -/
  overAmp : Bool
  /-- `sar.Percentage() < c.MaxSizeAmplificationPercent` after subtracting the first `n` candidates -/
  goalMet : Nat → Bool
  /-- `level.ByteSize > c.SmallestLevelSize*int64(level.Num)` for the level with this number -/
  levelOver : Nat → Bool
  /-- where `WriteRun` cuts the merged run: number of entries of each table written -/
  cuts : List Nat

/-- `Table.Age()` = `startSeqNum` = sequence number of the first key of the table -/
def age (t : Tbl) : Nat := (t.run.head?.map (·.seq)).getD 0

def insertByAge (t : Tbl) : List Tbl → List Tbl
  | [] => [t]
  | x :: xs => if age t ≤ age x then t :: x :: xs else x :: insertByAge t xs

/-- `slices.SortedFunc(level.AllTables(), OrderOldToNew)` -/
def sortByAge (l : List Tbl) : List Tbl := l.foldr insertByAge []

/-- the candidate loop of `majorCompaction` inside one level: `n` candidates were taken before; returns the tables
taken here and whether the goal was met (the `break`) -/
def takeUntil (met : Nat → Bool) : Nat → List Tbl → List Tbl × Bool
  | _, [] => ([], false)
  | n, t :: ts =>
    if met (n + 1) then ([t], true)
    else
      let r := takeUntil met (n + 1) ts
      (t :: r.1, r.2)

/-- the level loop of `majorCompaction` over `AscendLevels(1)` (deepest non-base level first). Once the goal is met
no further level is visited (`break pickTables`). `order` is what `slices.SortedFunc(level.AllTables(), OrderOldToNew)`
returns: some arrangement of the level by age (the sort is not stable, so tables of equal age come in any order). -/
def majorPickWith (order : List Tbl → List Tbl) (met : Nat → Bool) : Nat → List (List Tbl) → List Tbl
  | _, [] => []
  | n, l :: ls =>
    let r := takeUntil met n (order l)
    if r.2 then r.1 else r.1 ++ majorPickWith order met (n + r.1.length) ls

/-- with the stable arrangement (what the sort gives for up to 12 tables, and whenever ages are distinct) -/
def majorPick (met : Nat → Bool) (n : Nat) (ls : List (List Tbl)) : List Tbl := majorPickWith sortByAge met n ls

/-- an arrangement of every level by age: a permutation in which ages never decrease -/
structure OrderOK (order : List Tbl → List Tbl) : Prop where
  perm : ∀ l, (order l).Perm l
  sorted : ∀ l, (order l).Pairwise (fun a b => age a ≤ age b)

/-- cut a run into pieces of the given lengths (a length 0 counts as 1, the rest is the last piece): every list of
cuts gives non-empty pieces whose concatenation is the run. An empty run gives one empty piece: `WriteRun` writes a
table even when it is given no entries. -/
def chunkNE : List Nat → Run → List Run
  | _, [] => []
  | [], r => [r]
  | c :: cs, e :: r => (e :: r.take (c - 1)) :: chunkNE cs (r.drop (c - 1))
termination_by _ r => r.length
decreasing_by simp only [List.length_drop, List.length_cons]; omega

def chunk (cuts : List Nat) (r : Run) : List Run := if r.isEmpty then [[]] else chunkNE cuts r

/-- `kv.MergeEntries` over the scans of the tables in the given order, written by `WriteRun` -/
def mergeWrite (o : Oracle) (ts : List Tbl) : List Run := chunk o.cuts (mergeAll (ts.map (·.run)))

def majorCompactionWith (order : List Tbl → List Tbl) (L : Levels) (o : Oracle) : ChangeSet :=
  let picked := majorPickWith order o.goalMet 0 L.dropLast.reverse
  let tablesToMerge := picked ++ L.getLastD []
  { rm := tablesToMerge.map (·.id), lvl := L.length - 1, add := mergeWrite o tablesToMerge }

def majorCompaction (L : Levels) (o : Oracle) : ChangeSet := majorCompactionWith sortByAge L o

/-- the loop `for c.minorCompactionLevel < len(levels.levels)-1` of `minorCompaction`; `fuel` bounds the iterations -/
def minorDeep (L : Levels) (o : Oracle) : Nat → Nat → Option ChangeSet × Compactor
  | 0, _ => (none, { minorLevel := 0 })
  | fuel + 1, cur =>
    if cur < L.length - 1 then
      if o.levelOver cur then
        let mergeTables := L.getD cur [] ++ L.getD (cur + 1) []
        (some { rm := mergeTables.map (·.id), lvl := cur + 1, add := mergeWrite o mergeTables }, { minorLevel := cur + 1 })
      else minorDeep L o fuel (cur + 1)
    else (none, { minorLevel := 0 })

def minorCompaction (c : Compactor) (L : Levels) (o : Oracle) : Option ChangeSet × Compactor :=
  if c.minorLevel = 0 then
    let inputTables := L.getD 0 [] ++ L.getD 1 []
    (some { rm := inputTables.map (·.id), lvl := 1, add := mergeWrite o inputTables }, { minorLevel := 1 })
  else minorDeep L o L.length c.minorLevel

/-- `Compactor.Compact`, with the arrangement by age the sort returns as a parameter -/
def compactWith (order : List Tbl → List Tbl) (c : Compactor) (L : Levels) (o : Oracle) : Option ChangeSet × Compactor :=
  if c.minorLevel = 0 ∧ o.l0Few then (none, c)
  else if o.overAmp then (some (majorCompactionWith order L o), c)
  else minorCompaction c L o

/-- `Compactor.Compact` -/
def compact (c : Compactor) (L : Levels) (o : Oracle) : Option ChangeSet × Compactor := compactWith sortByAge c L o

/-! ### The picker as it was before the repair of D22 (kept as the regression witness) -/

/-- the inner `break` only left the candidate loop: every upper level was visited and gave at least one table -/
def majorPickD22 (met : Nat → Bool) : Nat → List (List Tbl) → List Tbl
  | _, [] => []
  | n, l :: ls =>
    let r := takeUntil met n (sortByAge l)
    r.1 ++ majorPickD22 met (n + r.1.length) ls

def majorCompactionD22 (L : Levels) (o : Oracle) : ChangeSet :=
  let picked := majorPickD22 o.goalMet 0 L.dropLast.reverse
  let tablesToMerge := picked ++ L.getLastD []
  { rm := tablesToMerge.map (·.id), lvl := L.length - 1, add := mergeWrite o tablesToMerge }

/-! ## Hypotheses of `compact_is_safe` -/

/-- table ids are pairwise distinct and below the next id to hand out (`TableWriter.id`) -/
def IdsFresh (L : Levels) (nextId : Nat) : Prop :=
  (L.flatten.map (·.id)).Nodup ∧ ∀ t ∈ L.flatten, t.id < nextId

/-- level 0 in insertion order has strictly increasing ages: what flushes of successive memtables produce (their
sequence number ranges are disjoint and increasing), and what makes `OrderOldToNew` the insertion order there -/
def L0AgeOrdered (L : Levels) : Prop := (L.headD []).Pairwise (fun a b => age a < age b)

/-- the per-source form: two level-0 tables **that share a key** are age-ordered in insertion order. This is what a
level 0 loaded from several checkpoints still satisfies (`recovery.LoadCheckpointList` appends the handles' level-0
lists; sources own disjoint key groups; sequence numbers of different sources are unrelated). -/
def L0KeyAgeOrdered (L : Levels) : Prop :=
  (L.headD []).Pairwise (fun a b => ¬ DisjointKeys a.run b.run → age a < age b)

/-- The thresholds are not negative and the level-0 trigger is at least 1 (`dkv.New` turns 0 into
`Facts.dkvDefaultL0Trigger`): a "big enough" answer is only given about something that holds a table. Needed only
to know that a change set removes at least one table (an empty pick would make `WriteRun` add one empty table). -/
structure OracleSane (c : Compactor) (L : Levels) (o : Oracle) : Prop where
  /-- `L0RunNumCompactionTrigger ≥ 1` -/
  l0 : c.minorLevel = 0 → o.l0Few = false → L.getD 0 [] ≠ []
  /-- `SmallestLevelSize ≥ 0`: a level whose `ByteSize` exceeds `SmallestLevelSize*Num` holds a table -/
  level : ∀ i, o.levelOver i = true → L.getD i [] ≠ []
  /-- `MaxSizeAmplificationPercent ≥ 0`: `Percentage() > Max` needs bytes above the base level -/
  amp : o.overAmp = true → L.dropLast.flatten ≠ []

instance (L : Levels) : Decidable (L0AgeOrdered L) := by unfold L0AgeOrdered; infer_instance
instance (L : Levels) : Decidable (L0KeyAgeOrdered L) := by unfold L0KeyAgeOrdered; infer_instance

/-! ## Compaction next to flushes -/

structure Sys where
  L : Levels
  nextId : Nat
  c : Compactor := {}
  /-- a change set computed by the compaction task and not yet applied (`dkv.compact.commit` not reached) -/
  pending : Option ChangeSet := none

inductive Act where
  /-- the compaction task calls `Compact` on the current level list -/
  | compactBegin (o : Oracle)
  /-- under `db.mu`: the pending change set is applied to the current level list -/
  | compactCommit
  /-- under `db.mu`: a flush appends tables written from sealed memtables to level 0 -/
  | flush (runs : List Run)

/-- a flushed memtable: not empty, sorted, and every entry is newer than everything the tables hold for its key
and than the first key of every level-0 table (sequence numbers only grow) -/
def FlushOK (L : Levels) (runs : List Run) : Prop :=
  (∀ r ∈ runs, r ≠ [] ∧ SortedRun r) ∧
  runs.Pairwise (fun older newer => ∀ e ∈ newer, ∀ e' ∈ older, e'.seq < e.seq) ∧
  (∀ r ∈ runs, ∀ t ∈ L.flatten, Newer r t.run) ∧
  (∀ r ∈ runs, ∀ t ∈ L.headD [], ∀ e ∈ r, age t < e.seq)

/-- side condition of an action: flushes are well formed (the oracle answers of a compaction are free) -/
def ActOK (s : Sys) : Act → Prop
  | .compactBegin _ => True
  | .compactCommit => True
  | .flush runs => FlushOK s.L runs

def Sys.step (s : Sys) : Act → Option Sys
  | .compactBegin o =>
    match s.pending with
    | some _ => none
    | none =>
      let r := compact s.c s.L o
      some { s with c := r.2, pending := r.1 }
  | .compactCommit =>
    match s.pending with
    | none => none
    | some cs => some { s with L := applyCS s.L s.nextId cs, nextId := s.nextId + cs.add.length, pending := none }
  | .flush runs =>
    some { s with L := applyFlush s.L (mkTables s.nextId runs), nextId := s.nextId + runs.length }

/-- `Reach s as s'`: the history `as` leads from `s` to `s'` and every action met its side condition -/
inductive Reach : Sys → List Act → Sys → Prop
  | nil (s : Sys) : Reach s [] s
  | cons {s s1 s2 : Sys} {a : Act} {as : List Act} : ActOK s a → s.step a = some s1 → Reach s1 as s2 → Reach s (a :: as) s2

def Act.isFlush : Act → Bool
  | .flush _ => true
  | _ => false

/-! ## The compactor inside the DKV transition system of C07 -/

def isCompact : Lsm.Act → Bool
  | .compact .. => true
  | _ => false

/-- `dkv.DB`: the state of the DKV system (`Lsm.State`), the compactor's cursor and the change set the compaction
task has computed and not yet committed -/
structure DB where
  s : Lsm.State := {}
  c : Compactor := {}
  pending : Option ChangeSet := none

inductive DAct where
  /-- any action of the DKV system except a compaction commit: put, delete, rotate, flush begin/commit, read phases -/
  | fg (a : Lsm.Act)
  /-- the compaction task calls `Compact` on the current level list (arbitrary answers to the size questions) -/
  | compactBegin (o : Oracle)
  /-- under `db.mu`: the pending change set is applied; this is `Lsm.step (.compact ..)`, guarded by `Lsm.safeCS` -/
  | compactCommit
  /-- a `Compact` call that would have produced a change set but whose table write (or a table scan) failed: the
  task returns the error, no change set exists, the level list is not touched; the cursor has moved where the code
  increments it before writing (`c.minorCompactionLevel++` precedes `WriteRun`) -/
  | compactFail (o : Oracle)

def DB.step (d : DB) : DAct → Option DB
  | .fg a => if isCompact a then none else (Lsm.step d.s a).map (fun s' => { d with s := s' })
  | .compactBegin o =>
    match d.pending with
    | some _ => none
    | none => some { d with c := (compact d.c d.s.levels o).2, pending := (compact d.c d.s.levels o).1 }
  | .compactCommit =>
    match d.pending with
    | none => none
    | some cs => (Lsm.step d.s (.compact cs.rm cs.lvl cs.add)).map (fun s' => { d with s := s', pending := none })
  | .compactFail o =>
    match d.pending with
    | some _ => none
    | none =>
      if (compact d.c d.s.levels o).1.isSome then some { d with c := (compact d.c d.s.levels o).2 } else none

/-- the specification map follows the foreground writes -/
def DB.specStep (d : DB) (m : Lsm.Spec) : DAct → Lsm.Spec
  | .fg a => Lsm.specStep m d.s.seq a
  | _ => m

def DB.run (d : DB) (m : Lsm.Spec) : List DAct → Option (DB × Lsm.Spec)
  | [] => some (d, m)
  | a :: as => match d.step a with
    | some d' => DB.run d' (d.specStep m a) as
    | none => none

/-- side condition of a step: the oracle answers of a `Compact` call are sane (trigger ≥ 1, thresholds ≥ 0) -/
def DB.actOK (d : DB) : DAct → Prop
  | .compactBegin o => OracleSane d.c d.s.levels o
  | _ => True

def DB.runOK (d : DB) : List DAct → Prop
  | [] => True
  | a :: as => d.actOK a ∧ match d.step a with
    | some d' => DB.runOK d' as
    | none => True

/-- the DKV actions of a history with everything the compaction task does erased -/
def foreground : List DAct → List Lsm.Act
  | [] => []
  | .fg a :: as => a :: foreground as
  | _ :: as => foreground as

/-- a history of the DKV system with its compaction commits erased -/
def dropCompactions (as : List Lsm.Act) : List Lsm.Act := as.filter (fun a => !isCompact a)

/-- what the sequence numbers give the picker: level-0 tables sharing a key are age-ordered in insertion order;
the memtables are separated in time (everything in an older one is numbered below everything in a newer one); and
every memtable entry is numbered above every entry of every level-0 table. Holds in every state reached from the
empty database, and also right after a restore from several checkpoints (the instance continues above the largest
loaded sequence number; level 0 by `composite_level0`). -/
def ChronSep (s : Lsm.State) : Prop :=
  L0KeyAgeOrdered s.levels ∧
  s.mems.Pairwise (fun older newer => ∀ e ∈ older, ∀ e' ∈ newer, e.seq < e'.seq) ∧
  (∀ t ∈ s.levels.headD [], ∀ r ∈ s.mems, ∀ e ∈ t.run, ∀ e' ∈ r, e.seq < e'.seq)

end Rxn.Compaction
