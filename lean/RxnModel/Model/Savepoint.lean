import RxnModel.Generated.Facts
/-!
# C14 — savepoint artifacts (storage/snapshots/savepoint_artifact.go, store.go, dkv/recovery/list_files.go)

Executable model of
* `recovery.ListCheckpointFiles` (and the former `ListFiles` = "last entry", kept as `Lister.last`, the D26 behaviour),
* `snapshots.CreateSavepointArtifact` (per operator: read the `checkpoints` document, list the files of the
  operator's checkpoint, copy each + the document under `savepoints/<seg id>/dkv/<dir>/<base>`, then copy the job
  snapshot to `savepoints/<seg id>/job.savepoint`), including the partial effects of a failing creation,
* `snapshots.RestoreCheckpointFromSavepointArtifact` / `Store.LoadCheckpoint` with a savepoint URI (read the job
  savepoint, per operator read the document *from the artifact*, list, copy back to the original URIs),
* what `dkv.Open` reads for a `CheckpointHandle` (`recovery.LoadCheckpointList`: the entry with the handle's id,
  its WAL files, its table files),
* the part of `Store` that matters for savepoints: one pending snapshot, `CreateCheckpoint`, `CreateSavepoint`
  (fold into the pending checkpoint), acknowledgements, publication.

Storage is one flat name space (a `StorageLocation`), modelled as an association list from `Path` to `Content`.
`Path` has three disjoint shapes. The artifact path of a file is computed from the file's own URI (`artPath`: directory and base name, as
`parseDKVURI` + `filepath.Join` do); its injectivity is a theorem (`C14.artPath_injective`), not an assumption.
What remains assumed about names: `pathSegment` is injective (C13), `filepath.Join` does not identify two different
directories of DKV URIs (they are already clean), and no working URI lies under `savepoints/`;
the harness checks this on every generated storage (`collision` / `?path` in the listings), for a local-directory-like
location and for the S3 location. Creation and restore must compute the same name: before the D38 repair restore
ran an `s3://` savepoint URI through `filepath.Dir/Join` and looked under a different key, so every restore from S3
failed (the `load` observation of the `cfg=s3` cases).
A copy is a copy of the CONTENT (`copyAll` writes the value read): the destination is independent of later writes
to the source. For the real `StorageLocation.Copy` implementations (LocalDirectory `cp`, S3 CopyObject) this is tied
by the roll-back cases of the harness on the real LocalDirectory and the S3 double (a hard link would share the
inode with `checkpoints/job-<id>.snapshot`, which `Write` rewrites in place). What the job may do to the storage
after a savepoint is `JobAct`/`jobRun`; `C14.savepoint_survives_job_life` and `C14.savepoint_stays_restorable`.
File bytes of WAL and table files are opaque tokens: nothing in this code looks inside them.
-/
namespace Rxn.Savepoint

/-- a file URI as `parseDKVURI` (`path.Split`) sees it: everything up to and including the last slash, and the
base file name. `dir ++ base` is the URI. -/
structure URI where
  dir : String
  base : String
  deriving DecidableEq, Repr

def URI.str (u : URI) : String := u.dir ++ u.base

/-- one entry of an operator's `checkpoints` document (`recovery.checkpointDocument`) -/
structure CkDoc where
  id : Nat
  wals : List URI
  levels : List (List URI)
  deriving DecidableEq, Repr

/-- `checkpointDocument.fileURIs`: WAL URIs then table URIs level by level -/
def CkDoc.files (c : CkDoc) : List URI := c.wals ++ c.levels.flatten

/-- `snapshotpb.OperatorCheckpoint`: operator, its checkpoint id, URI of its `checkpoints` document -/
structure OpCkpt where
  op : String
  ckptId : Nat
  uri : URI
  deriving DecidableEq, Repr

/-- the job snapshot: id, operator checkpoints in acknowledgement order, source state (opaque) -/
structure JobSnap where
  id : Nat
  ops : List OpCkpt
  src : String
  deriving DecidableEq, Repr

inductive Content
  | doc (cks : List CkDoc)      -- a parseable `checkpoints` document
  | job (s : JobSnap)           -- a job snapshot / savepoint file
  | blob (tok : String)         -- WAL or table bytes (opaque)
  | junk                        -- anything else
  deriving DecidableEq, Repr

inductive Path
  | work (u : URI)                   -- a file of the working storage at its own URI (DKV files, job snapshots)
  | sp (id : Nat) (dir base : String) -- savepoints/<seg id>/dkv/<dir>/<base>
  | spJob (id : Nat)                 -- savepoints/<seg id>/job.savepoint
  deriving DecidableEq, Repr

def Path.isWork : Path → Bool
  | .work _ => true
  | _ => false

/-- does the path lie in the savepoint directory of `id` -/
def Path.inSp (id : Nat) : Path → Bool
  | .sp i _ _ => i == id
  | .spJob i => i == id
  | .work _ => false

/-- where a DKV file goes inside the savepoint directory of `id`: `parseDKVURI(file)` splits the file's OWN URI and
`filepath.Join(savepointsPath, pathSegment(id), "dkv", dir, base)` keeps both parts. Files with equal base names
in different directories (an operator redeployed in a new directory still references tables of the previous
instance; table numbering restarts at 000000.sst) therefore stay apart: `C14.artPath_injective`. -/
def artPath (id : Nat) (u : URI) : Path := .sp id u.dir u.base

/-- the layout that keeps only the base name under the directory of the operator's document — NOT what the code
does; kept for the witness `C14.flat_layout_restores_wrong_table` -/
def artPathFlat (id : Nat) (docDir : String) (u : URI) : Path := .sp id docDir u.base

abbrev FS := List (Path × Content)

def read : FS → Path → Option Content
  | [], _ => none
  | (q, c) :: r, p => if q = p then some c else read r p

def write (p : Path) (c : Content) (fs : FS) : FS := (p, c) :: fs

def remove (p : Path) : FS → FS
  | [] => []
  | (q, c) :: r => if q = p then remove p r else (q, c) :: remove p r

/-- all working storage is lost; savepoint directories survive -/
def wipe (fs : FS) : FS := fs.filter (fun e => !e.1.isWork)

/-- which checkpoint of the document is listed -/
inductive Lister
  | byId    -- `ListCheckpointFiles`: the entry with the given id (what `LoadCheckpointList` looks up)
  | last    -- the former `ListFiles`: always the last entry (D26)
  deriving DecidableEq, Repr

def findCk (cks : List CkDoc) (id : Nat) : Option CkDoc := cks.find? (fun c => c.id == id)

def listFiles : Lister → List CkDoc → Nat → Option (List URI)
  | .byId, cks, id => (findCk cks id).map CkDoc.files
  | .last, cks, _ => cks.getLast?.map CkDoc.files

/-- the files handled for one operator: those listed from its document (read at `docPath`) and the document itself -/
def opFiles (L : Lister) (fs : FS) (docPath : Path) (o : OpCkpt) : Option (List URI) :=
  match read fs docPath with
  | some (.doc cks) => (listFiles L cks o.ckptId).map (· ++ [o.uri])
  | _ => none

/-- `for file in files { fs.Copy(src file, dst file) }`, stopping at the first missing source -/
def copyAll (src dst : URI → Path) (fs : FS) : List URI → FS × Bool
  | [] => (fs, true)
  | u :: r =>
    match read fs (src u) with
    | none => (fs, false)
    | some c => copyAll src dst (write (dst u) c fs) r

/-- the per-operator loop shared by creation and restore: read the operator's document at `src o.uri`, list the
files of its checkpoint, copy them and the document from `src` to `dst` -/
def copyOps (L : Lister) (src dst : URI → Path) (fs : FS) : List OpCkpt → FS × Bool
  | [] => (fs, true)
  | o :: r =>
    match opFiles L fs (src o.uri) o with
    | none => (fs, false)
    | some files =>
      match copyAll src dst fs files with
      | (fs', false) => (fs', false)
      | (fs', true) => copyOps L src dst fs' r

/-- loop of `CreateSavepointArtifact`: working URIs → savepoint directory of `sid` -/
def createOps (L : Lister) (sid : Nat) (fs : FS) (ops : List OpCkpt) : FS × Bool :=
  copyOps L .work (artPath sid) fs ops

/-- `CreateSavepointArtifact(fs, savepointsPath, checkpointURI, snapshot)`; the Bool is "no error" -/
def createArtifact (L : Lister) (fs : FS) (jobURI : URI) (snap : JobSnap) : FS × Bool :=
  match createOps L snap.id fs snap.ops with
  | (fs', false) => (fs', false)
  | (fs', true) =>
    match read fs' (.work jobURI) with
    | none => (fs', false)
    | some c => (write (.spJob snap.id) c fs', true)

/-- loop of `RestoreCheckpointFromSavepointArtifact`: savepoint directory of `sid` → original URIs -/
def restoreOps (L : Lister) (sid : Nat) (fs : FS) (ops : List OpCkpt) : FS × Bool :=
  copyOps L (artPath sid) .work fs ops

/-- `Store.LoadCheckpoint` with `savepointURI = savepoints/<seg sid>/job.savepoint`: the loaded job snapshot
(`none` = error) and the storage after `RestoreCheckpointFromSavepointArtifact` -/
def loadFromSavepoint (L : Lister) (fs : FS) (sid : Nat) : FS × Option JobSnap :=
  match read fs (.spJob sid) with
  | some (.job s) =>
    match restoreOps L sid fs s.ops with
    | (fs', true) => (fs', some s)
    | (fs', false) => (fs', none)
  | _ => (fs, none)

def readAll (fs : FS) : List URI → Option (List Content)
  | [] => some []
  | u :: r =>
    match read fs (.work u), readAll fs r with
    | some c, some cs => some (c :: cs)
    | _, _ => none

def readLevels (fs : FS) : List (List URI) → Option (List (List Content))
  | [] => some []
  | l :: r =>
    match readAll fs l, readLevels fs r with
    | some c, some cs => some (c :: cs)
    | _, _ => none

/-- everything `dkv.Open` + a full scan reads for a handle: the document entry with the handle's id and the
contents of its WAL and table files, in document order. Every view of the restored DKV is a function of this. -/
structure Image where
  ck : CkDoc
  wals : List Content
  levels : List (List Content)
  deriving DecidableEq, Repr

def openDB (fs : FS) (o : OpCkpt) : Option Image :=
  match read fs (.work o.uri) with
  | some (.doc cks) =>
    match findCk cks o.ckptId with
    | some ck =>
      match readAll fs ck.wals, readLevels fs ck.levels with
      | some ws, some ls => some ⟨ck, ws, ls⟩
      | _, _ => none
    | none => none
  | _ => none

/-! ## the snapshot store, as far as savepoints are concerned -/

structure Pending where
  id : Nat
  isSp : Bool
  nOps : Nat
  acks : List OpCkpt
  src : Option String
  deriving DecidableEq, Repr

def Pending.complete (p : Pending) : Bool := p.acks.length == p.nOps && p.src.isSome

structure Store where
  pending : Option Pending := none
  ckptId : Nat := 0
  deriving DecidableEq, Repr

inductive CreateRes
  | ckpt (id : Nat)            -- CreateCheckpoint started checkpoint id
  | inProgress                 -- ErrCheckpointInProgress
  | sp (id : Nat) (created : Bool)
  | spAlready                  -- "savepoint already in-progress"
  deriving DecidableEq, Repr

def createCheckpoint (s : Store) (nOps : Nat) : Store × CreateRes :=
  match s.pending with
  | some _ => (s, .inProgress)
  | none => ({ pending := some ⟨s.ckptId + 1, false, nOps, [], none⟩, ckptId := s.ckptId + 1 }, .ckpt (s.ckptId + 1))

def createSavepoint (s : Store) (nOps : Nat) : Store × CreateRes :=
  match s.pending with
  | some p =>
    if p.isSp then (s, .spAlready)
    else ({ s with pending := some { p with isSp := true } }, .sp p.id false)
  | none => ({ pending := some ⟨s.ckptId + 1, true, nOps, [], none⟩, ckptId := s.ckptId + 1 }, .sp (s.ckptId + 1) true)

/-- a finished snapshot handed to the publisher: the job snapshot and whether a savepoint artifact is wanted -/
abbrev Published := JobSnap × Bool

def finishIfComplete (s : Store) (p : Pending) : Store × Option Published :=
  if p.complete then ({ s with pending := none }, some (⟨p.id, p.acks, p.src.getD ""⟩, p.isSp))
  else ({ s with pending := some p }, none)

/-- `AddOperatorSnapshot` of a well-formed acknowledgement (expected operator, first time, pending id) -/
def ackOp (s : Store) (a : OpCkpt) : Store × Option Published :=
  match s.pending with
  | none => (s, none)
  | some p => if a.ckptId = p.id then finishIfComplete s { p with acks := p.acks ++ [a] } else (s, none)

/-- `AddSourceSnapshot` of the (single) source runner, first time -/
def ackSrc (s : Store) (id : Nat) (st : String) : Store × Option Published :=
  match s.pending with
  | none => (s, none)
  | some p => if id = p.id then finishIfComplete s { p with src := some st } else (s, none)

/-- `finishSnapshotAsync` on the storage: write the job snapshot, then create the artifact if it is a savepoint -/
def publish (L : Lister) (fs : FS) (jobURI : URI) (pub : Published) : FS × Bool :=
  let fs1 := write (.work jobURI) (.job pub.1) fs
  if pub.2 then createArtifact L fs1 jobURI pub.1 else (fs1, true)

/-- where `finishSnapshotAsync` writes the job snapshot of checkpoint `id`:
`<checkpointsPath>/job-<pathSegment id>.snapshot`, a working-storage file -/
def jobURI (id : Nat) : URI := ⟨"job:", Nat.repr id⟩

/-- `checkpointIDFromFilePath`: the checkpoint id a file name encodes, if it is a job snapshot file name -/
def jobIdOf (u : URI) : Option Nat := if u.dir = "job:" then u.base.toNat? else none

/-- the highest checkpoint id among the job snapshot files that are in the job's file store (0 if there is none):
the loop over `fileStore.List()` in the savepoint branch of `Store.LoadCheckpoint` -/
def newestLocalId : FS → Nat
  | [] => 0
  | (.work u, _) :: r =>
    match jobIdOf u with
    | some id => max id (newestLocalId r)
    | none => newestLocalId r
  | _ :: r => newestLocalId r

/-- the highest id among the savepoints that exist in the file store (those with a `job.savepoint`; 0 if none) -/
def newestSavepointId : FS → Nat
  | [] => 0
  | (.spJob id, _) :: r => max id (newestSavepointId r)
  | _ :: r => newestSavepointId r

/-- does `LoadCheckpoint` also keep the id counter above the ids of existing savepoints (their directories are named by
the checkpoint id alone)? Regenerated: `Facts.savepointIdsCounted` (0 = the code as it is) -/
def countSavepoints : Bool := Facts.savepointIdsCounted = 1

/-- the id counter a job started from savepoint snapshot `s` on storage `fs` begins with -/
def startCounter (cs : Bool) (fs : FS) (s : JobSnap) : Nat :=
  max s.id (max (newestLocalId fs) (if cs then newestSavepointId fs else 0))

/-- `Store.LoadCheckpoint` with a savepoint URI, including the store it leaves: the loaded snapshot is the completed
one and the id counter is `max(savepoint id, newest job snapshot id still in the file store)` (D49: job snapshots
written after the savepoint may still be there, their ids are not handed out again), with `cs` also the newest
existing savepoint id -/
def startStoreWith (cs : Bool) (L : Lister) (fs : FS) (sid : Nat) : FS × Option (JobSnap × Store) :=
  match loadFromSavepoint L fs sid with
  | (fs', some s) => (fs', some (s, { pending := none, ckptId := startCounter cs fs' s }))
  | (fs', none) => (fs', none)

def startStore (L : Lister) (fs : FS) (sid : Nat) : FS × Option (JobSnap × Store) :=
  startStoreWith countSavepoints L fs sid

/-- removal of the obsolete job snapshot files after a publication: the paths are recomputed from the obsolete
ids (`filepath.Join(checkpointsPath, "job-"+pathSegment(id)+".snapshot")`), whatever file the snapshot was loaded
from — in particular never the `job.savepoint` a restored job was started from -/
def cleanup (fs : FS) : List Nat → FS
  | [] => fs
  | id :: r => cleanup (remove (.work (jobURI id)) fs) r

/-- anything the running job, its operators or an administrator may do to the working storage -/
inductive WorkOp
  | put (u : URI) (c : Content)
  | del (u : URI)

def applyWork (fs : FS) : List WorkOp → FS
  | [] => fs
  | .put u c :: r => applyWork (write (.work u) c fs) r
  | .del u :: r => applyWork (remove (.work u) fs) r

def WorkOp.uri : WorkOp → URI
  | .put u _ => u
  | .del u => u

/-! ### creation is not atomic: the running job acts between its storage calls

`CreateSavepointArtifact` runs in the publisher goroutine while the job goes on: operators take further checkpoints
and apply retention updates (`DB.UpdateRetainedCheckpoints` rewrites the `checkpoints` document and deletes the WALs
of dropped checkpoints), the store publishes the next checkpoint and removes obsolete job snapshots. A `Sched` gives,
for every storage call of the creation in order (`fs.Read` of a document, every `fs.Copy`), what the environment
does to the working storage just before it. -/
abbrev Sched := List (List WorkOp)

def Sched.step (fs : FS) : Sched → FS × Sched
  | [] => (fs, [])
  | e :: r => (applyWork fs e, r)

def copyAllS (src dst : URI → Path) (fs : FS) (sch : Sched) : List URI → FS × Bool × Sched
  | [] => (fs, true, sch)
  | u :: r =>
    match read (Sched.step fs sch).1 (src u) with
    | none => ((Sched.step fs sch).1, false, (Sched.step fs sch).2)
    | some c => copyAllS src dst (write (dst u) c (Sched.step fs sch).1) (Sched.step fs sch).2 r

/-- how the operator's document reaches the artifact -/
inductive DocMode
  | copyFile    -- the code as it is: the document FILE is copied last, with whatever it holds by then (D53)
  | writeRead   -- proposed repair: the content read at the start (the one the file list came from) is written
  deriving DecidableEq, Repr

/-- what the source does now (regenerated: `Facts.savepointDocFromRead`, tools/gofacts/facts_c14.go) -/
def docMode : DocMode := if Facts.savepointDocFromRead = 1 then .writeRead else .copyFile

def createOpsS (L : Lister) (m : DocMode) (sid : Nat) (fs : FS) (sch : Sched) : List OpCkpt → FS × Bool × Sched
  | [] => (fs, true, sch)
  | o :: r =>
    match read (Sched.step fs sch).1 (.work o.uri) with
    | some (.doc cks) =>
      match listFiles L cks o.ckptId with
      | none => ((Sched.step fs sch).1, false, (Sched.step fs sch).2)
      | some files =>
        match m with
        | .copyFile =>
          match copyAllS .work (artPath sid) (Sched.step fs sch).1 (Sched.step fs sch).2 (files ++ [o.uri]) with
          | (fs', false, sch') => (fs', false, sch')
          | (fs', true, sch') => createOpsS L m sid fs' sch' r
        | .writeRead =>
          match copyAllS .work (artPath sid) (Sched.step fs sch).1 (Sched.step fs sch).2 files with
          | (fs', false, sch') => (fs', false, sch')
          | (fs', true, sch') => createOpsS L m sid (write (artPath sid o.uri) (.doc cks) (Sched.step fs' sch').1) (Sched.step fs' sch').2 r
    | _ => ((Sched.step fs sch).1, false, (Sched.step fs sch).2)

/-- `CreateSavepointArtifact` with the environment acting between its storage calls -/
def createArtifactS (L : Lister) (m : DocMode) (fs : FS) (jobURI : URI) (snap : JobSnap) (sch : Sched) : FS × Bool :=
  match createOpsS L m snap.id fs sch snap.ops with
  | (fs', false, _) => (fs', false)
  | (fs', true, sch') =>
    match read (Sched.step fs' sch').1 (.work jobURI) with
    | none => ((Sched.step fs' sch').1, false)
    | some c => (write (.spJob snap.id) c (Sched.step fs' sch').1, true)

/-- how the job snapshot reaches the artifact as `job.savepoint` (always the last step) -/
inductive JobMode
  | copyFile    -- the code as it is: the job checkpoint FILE is copied (the next publication's cleanup may have removed it: D65)
  | fromBytes   -- proposed repair: the content that was written as the job checkpoint is written again from memory
  deriving DecidableEq, Repr

/-- what the source does now (regenerated: `Facts.savepointJobFromBytes`) -/
def jobMode : JobMode := if Facts.savepointJobFromBytes = 1 then .fromBytes else .copyFile

/-- the environment's moves on `u` taken out of a schedule / those moves alone -/
def Sched.protect (u : URI) (sch : Sched) : Sched := sch.map (fun e => e.filter (fun w => w.uri != u))
def Sched.movesOn (u : URI) (sch : Sched) : List WorkOp := sch.flatten.filter (fun w => w.uri == u)

/-- `CreateSavepointArtifact` with the environment acting between its storage calls, for either way of producing
`job.savepoint`: written from memory, the creation is not affected by what happens to the job checkpoint file (which
still happens to the working storage) -/
def createArtifactSJ (L : Lister) (m : DocMode) (jm : JobMode) (fs : FS) (jobURI : URI) (snap : JobSnap) (sch : Sched) :
    FS × Bool :=
  match jm with
  | .copyFile => createArtifactS L m fs jobURI snap sch
  | .fromBytes =>
    ((applyWork (createArtifactS L m fs jobURI snap (Sched.protect jobURI sch)).1 (Sched.movesOn jobURI sch)),
     (createArtifactS L m fs jobURI snap (Sched.protect jobURI sch)).2)

/-- what a job does to the storage over its life, including restarts from savepoints: operators and the store
write and delete working files, snapshots are published (with artifact creation for savepoints and removal of
obsolete job snapshots), the job is started from a savepoint -/
inductive JobAct
  | work (ops : List WorkOp)
  | publish (pub : Published) (obsolete : List Nat)
  | startFrom (sid : Nat)
  | wipe

def jobStep (L : Lister) (fs : FS) : JobAct → FS
  | .work ops => applyWork fs ops
  | .publish pub obsolete => cleanup (publish L fs (jobURI pub.1.id) pub).1 obsolete
  | .startFrom sid => (loadFromSavepoint L fs sid).1
  | .wipe => wipe fs

def jobRun (L : Lister) (fs : FS) : List JobAct → FS
  | [] => fs
  | a :: r => jobRun L (jobStep L fs a) r

/-- the savepoint ids for which an artifact is (re)created during the run -/
def JobAct.savepointId : JobAct → Option Nat
  | .publish pub _ => if pub.2 then some pub.1.id else none
  | _ => none

end Rxn.Savepoint
