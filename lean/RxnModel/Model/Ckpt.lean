import RxnModel.Model.Lsm
import RxnModel.Model.Wal
/-!
# DKV checkpoints and restore (`dkv/db.go` Checkpoint / Start / UpdateRetainedCheckpoints, `dkv/wal/writer.go`,
`dkv/recovery/checkpoint_list.go`, `dkv/recovery/checkpoint.go`, `dkv/sst/level_list.go` LatestSeqNum)

The C07 transition system (`Rxn.Lsm`) extended with

* the WAL writer (`Rxn.Wal.Writer`, C17): every write is logged with its sequence number, a memtable rotation
  cuts a segment, a flush commit truncates up to `LevelList.LatestSeqNum`;
* `latest` = `LevelList.LatestSeqNum` of the current level list: running maximum of the tables' `endSeqNum`
  (`endSeqNum` = the largest sequence number in the table, after repair D6);
* the checkpoint list (`recovery.CheckpointList`): captured level list, the id of the WAL file the checkpoint owns,
  `after` (= `LatestSeqNum` at the call), the records of the sealed WAL writer;
* the persistent files: table files, saved WAL files and the single `checkpoints` document, overwritten on every
  save (`CheckpointList.Save`), WAL files of dropped checkpoints deleted after the save;
* the two asynchronous halves of `DB.Checkpoint` (`saveWal`, `saveDoc`) as separate actions, `retain`
  (`UpdateRetainedCheckpoints`), `crash` (all volatile state is lost: afterwards only `open` is possible) and
  `open id rots` (`dkv.Open` from the handle of checkpoint `id` on the same files: load the document entry, level
  list from the table files, `seq := LatestSeqNum` recomputed from the loaded tables, table numbering continued
  above the loaded tables (repair D28), WAL id continued, replay of the WAL file from `after` through the
  ordinary write path; `rots` = the replayed sequence numbers after which the memtable filled up and rotated —
  a free parameter, so every memtable size is covered).

File names: table files are keyed by table id (`%06d.sst`), WAL files by WAL id (`%06d.wal`). Table ids are taken
from the `Lsm` allocator `nextId` when a flush / compaction commits (the code reserves the number when it starts
writing the file; only freshness matters here). Directories are not modelled: one flat name space (a restore
into a fresh directory has fewer name collisions than the model, never more).
-/
namespace Rxn.Ckpt
open Rxn Rxn.Lsm

/-- a logged write as a memtable entry -/
def recEntry (r : Wal.Rec) : Entry := ⟨r.key, r.seq, r.del, r.val⟩

/-- `Table.endSeqNum` (repaired, D6): the largest sequence number in the table -/
def runMaxSeq : Run → Nat
  | [] => 0
  | e :: es => max e.seq (runMaxSeq es)

def runsMaxSeq : List Run → Nat
  | [] => 0
  | r :: rs => max (runMaxSeq r) (runsMaxSeq rs)

/-- `NewLevelListOfTables`: `LatestSeqNum` recomputed from the tables of a document -/
def tablesMaxSeq : List Tbl → Nat
  | [] => 0
  | t :: ts => max (runMaxSeq t.run) (tablesMaxSeq ts)

/-- `Checkpoint.NextTableID` (repair D28): one above the largest table file number referenced -/
def tablesNextId : List Tbl → Nat
  | [] => 0
  | t :: ts => max (t.id + 1) (tablesNextId ts)

/-- `recovery.Checkpoint` -/
structure Ckpt where
  id : Nat
  levels : List (List Tbl)
  walId : Nat
  after : Nat
  lastSeq : Nat
  /-- the records of the sealed WAL writer the checkpoint owns (= the content of its WAL file once saved) -/
  recs : List Wal.Rec
deriving Repr

/-- `checkpointDocument` -/
structure CkptDoc where
  id : Nat
  levels : List (List Nat)
  walId : Nat
  after : Nat
  lastSeq : Nat
deriving Repr, DecidableEq

def Ckpt.doc (c : Ckpt) : CkptDoc := ⟨c.id, c.levels.map (·.map (·.id)), c.walId, c.after, c.lastSeq⟩

/-- first binding of a key in an association list (a file system directory: the latest write of a name wins) -/
def assoc {α : Type} : List (Nat × α) → Nat → Option α
  | [], _ => none
  | (k, v) :: rest, x => if k = x then some v else assoc rest x

structure Files where
  tables : List (Nat × Run) := []
  wals : List (Nat × List Wal.Rec) := []
  doc : Option (List CkptDoc) := none
deriving Repr

/-- the asynchronous part of `DB.Checkpoint` still to run for a checkpoint -/
structure Task where
  id : Nat
  walId : Nat
  recs : List Wal.Rec
  walSaved : Bool
deriving Repr

structure State where
  db : Lsm.State := {}
  wal : Wal.Writer := Wal.Writer.new 0 0
  /-- `db.sstables.LatestSeqNum` -/
  latest : Nat := 0
  ckpts : List Ckpt := []
  /-- `checkpointsPendingRemoval` -/
  pending : List Ckpt := []
  tasks : List Task := []
  /-- checkpoints whose handle has been returned to the caller (or from whose handle this instance was opened) -/
  done : List Nat := []
  /-- checkpoint ids used by this instance ("this ID must not be repeated between checkpoints") -/
  used : List Nat := []
  files : Files := {}
  alive : Bool := true
  /-- the records `DB.Start` still has to replay (non-empty only between `openBegin` and the last `replayOne`) -/
  replaying : List Wal.Rec := []
deriving Repr

inductive Act where
  /-- `DB.Put` / `DB.Delete`; `rot` = the write filled the memtable or the WAL (`rotateMemtable`) -/
  | write (del : Bool) (k v : Bytes) (rot : Bool)
  | flushBegin (n : Nat)
  | flushCommit
  | compact (rm : List Nat) (lvl : Nat) (add : List Run)
  | checkpoint (id : Nat)
  | saveWal (id : Nat)
  | saveDoc (id : Nat)
  | retain (ids : List Nat)
  /-- `CheckpointList.Save` without a checkpoint task: the second half of `UpdateRetainedCheckpoints` -/
  | saveList
  /-- the loop at the end of `Save`: delete the WAL file of one checkpoint pending removal -/
  | destroy
  /-- a table file appears under a number not yet committed: a flush or compaction task wrote its output and has not
  committed (or never will: crash, abandoned instance) -/
  | orphan (id : Nat) (run : Run)
  | crash
  | open (id : Nat) (rots : List Nat)
  /-- `dkv.Open` up to the start of the replay loop of `DB.Start` (`open` = `openBegin` + all `replayOne` at once) -/
  | openBegin (id : Nat)
  /-- one iteration of the replay loop: `Put`/`Delete` of the next record; flush and compaction tasks started by
  earlier iterations may begin and commit in between, and the process may crash in between -/
  | replayOne (rot : Bool)
deriving Repr

def writeTables (f : Files) (ts : List Tbl) : Files :=
  { f with tables := ts.map (fun t => (t.id, t.run)) ++ f.tables }

/-- `DB.Put` / `DB.Delete` (+ `rotateMemtable`: `mtables.Rotate`, `wal.Cut`) -/
def writeStep (s : State) (del : Bool) (k v : Bytes) (rot : Bool) : Option State :=
  match Lsm.step s.db (if del then .del k else .put k v) with
  | none => none
  | some db1 =>
    let w1 := if del then s.wal.delete k (s.db.seq + 1) else s.wal.put k v (s.db.seq + 1)
    if rot then some { s with db := { db1 with mems := db1.mems ++ [[]] }, wal := w1.cut }
    else some { s with db := db1, wal := w1 }

def maxId : List Nat → Nat
  | [] => 0
  | i :: is => max i (maxId is)

/-- `RetainOnly`: a checkpoint stays if its id is listed, or if it is newer than every listed id (it belongs to a job
checkpoint that is still being completed or published) -/
def keeps (ids : List Nat) (id : Nat) : Bool := ids.contains id || decide (maxId ids < id)

/-- `CheckpointList.Save`, first storage operation: the `checkpoints` document is overwritten with the current list.
(The whole of `Save` is one critical section of the list mutex — fact `c08SaveUnderListLock` — so no other list
operation interleaves; a crash can still fall between its storage operations, which are separate model steps.) -/
def writeDoc (s : State) : State :=
  { s with files := { s.files with doc := some (s.ckpts.map Ckpt.doc) } }

/-- `Save`, following storage operations: the WAL file of the first checkpoint pending removal is deleted -/
def destroyOne (s : State) : Option State :=
  match s.pending with
  | [] => none
  | p :: ps =>
    some { s with files := { s.files with wals := s.files.wals.filter (fun q => !([p.walId]).contains q.1) },
                  pending := ps }

def loadTables (tables : List (Nat × Run)) : List Nat → Option (List Tbl)
  | [] => some []
  | i :: is =>
    match assoc tables i, loadTables tables is with
    | some r, some ts => some (⟨i, r⟩ :: ts)
    | _, _ => none

def loadLevels (tables : List (Nat × Run)) : List (List Nat) → Option (List (List Tbl))
  | [] => some []
  | l :: ls =>
    match loadTables tables l, loadLevels tables ls with
    | some ts, some lv => some (ts :: lv)
    | _, _ => none

/-- `LoadCheckpointList` for one handle: the entry with the handle's id in the document, tables and WAL opened by name -/
def loadCkpt (f : Files) (id : Nat) : Option Ckpt :=
  match f.doc with
  | none => none
  | some d =>
    match d.find? (fun cd => cd.id == id) with
    | none => none
    | some cd =>
      match loadLevels f.tables cd.levels, assoc f.wals cd.walId with
      | some lv, some recs => some ⟨cd.id, lv, cd.walId, cd.after, cd.lastSeq, recs⟩
      | _, _ => none

/-- `wal.Reader.All` at record level (C17 `wal_reader_after` ties it to the bytes): skip `after + 1 - first`
records; a gap between `after` and the first record is refused, running off the end is an error -/
def walRead : List Wal.Rec → Nat → Option (List Wal.Rec)
  | [], _ => some []
  | r :: rs, after =>
    if after + 1 < r.seq then none
    else if after + 1 - r.seq ≤ (r :: rs).length then some ((r :: rs).drop (after + 1 - r.seq))
    else none

/-- the replay loop of `DB.Start`: every record goes through `Put` / `Delete` with a fresh sequence number -/
def replay (s : State) : List Wal.Rec → List Nat → Option State
  | [], _ => some s
  | r :: rs, rots =>
    match writeStep s r.del r.key r.val (rots.contains (s.db.seq + 1)) with
    | none => none
    | some s' => replay s' rs rots

/-- `dkv.New` + the first half of `DB.Start` for a loaded checkpoint -/
def restoreBase (files : Files) (c : Ckpt) : State :=
  { db := { seq := tablesMaxSeq c.levels.flatten, mems := [[]], levels := c.levels,
            nextId := tablesNextId c.levels.flatten, flushing := none, reading := none },
    wal := Wal.Writer.new (c.walId + 1) 0,
    latest := tablesMaxSeq c.levels.flatten,
    ckpts := [c], pending := [], tasks := [], done := [c.id], used := [c.id],
    files := files, alive := true }

/-- `dkv.Open` from a checkpoint whose document entry, tables and WAL are `c` -/
def restore (files : Files) (c : Ckpt) (rots : List Nat) : Option State :=
  match walRead c.recs c.after with
  | none => none
  | some recs => replay (restoreBase files c) recs rots

/-- while `DB.Start` is replaying, its caller has no database yet: only the background tasks, the replay itself
and a crash can happen -/
def blocked (s : State) : Act → Bool
  | .flushBegin _ | .flushCommit | .compact .. | .orphan .. | .crash | .replayOne _ => false
  | _ => !s.replaying.isEmpty

def step (s : State) : Act → Option State
  | .open id rots =>
    match loadCkpt s.files id with
    | none => none
    | some c => restore s.files c rots
  | .openBegin id =>
    match loadCkpt s.files id with
    | none => none
    | some c =>
      match walRead c.recs c.after with
      | none => none
      | some recs => some { restoreBase s.files c with replaying := recs }
  | a =>
    if !s.alive || blocked s a then none else
    match a with
    | .write del k v rot => writeStep s del k v rot
    | .flushBegin n =>
      match Lsm.step s.db (.flushBegin n) with
      | none => none
      | some db' => some { s with db := db' }
    | .flushCommit =>
      match s.db.flushing, Lsm.step s.db .flushCommit with
      | some snap, some db' =>
        let latest' := max s.latest (runsMaxSeq snap)
        some { s with db := db', latest := latest', wal := s.wal.truncate latest',
                      files := writeTables s.files (mkTables s.db.nextId snap) }
      | _, _ => none
    | .compact rm lvl add =>
      match Lsm.step s.db (.compact rm lvl add) with
      | none => none
      | some db' =>
        some { s with db := db', latest := max s.latest (runsMaxSeq add),
                      files := writeTables s.files (mkTables s.db.nextId add) }
    | .checkpoint id =>
      if s.used.contains id then none else
      some { s with
        wal := s.wal.rotate,
        ckpts := s.ckpts ++ [⟨id, s.db.levels, s.wal.id, s.latest, s.db.seq, s.wal.entries⟩],
        tasks := s.tasks ++ [⟨id, s.wal.id, s.wal.entries, false⟩],
        used := id :: s.used }
    | .saveWal id =>
      match s.tasks.find? (fun t => t.id == id && !t.walSaved) with
      | none => none
      | some t =>
        some { s with
          files := { s.files with wals := (t.walId, t.recs) :: s.files.wals },
          tasks := s.tasks.map (fun t' => if t'.id == id then { t' with walSaved := true } else t') }
    | .saveDoc id =>
      match s.tasks.find? (fun t => t.id == id && t.walSaved) with
      | none => none
      | some _ =>
        let s1 := writeDoc s
        some { s1 with tasks := s1.tasks.filter (fun t => !(t.id == id)), done := id :: s1.done }
    | .retain ids =>
      -- `RetainOnly` (its own critical section of the list mutex; the `Save` that follows is `.saveList`)
      let kept := s.ckpts.filter (fun c => keeps ids c.id)
      if kept.isEmpty then none else
      some { s with ckpts := kept, pending := s.pending ++ s.ckpts.filter (fun c => !keeps ids c.id) }
    | .saveList => some (writeDoc s)
    | .destroy => destroyOne s
    | .orphan id run =>
      if id < s.db.nextId then none else
      some { s with files := { s.files with tables := (id, run) :: s.files.tables } }
    | .crash => some { s with alive := false }
    | .replayOne rot =>
      match s.replaying with
      | [] => none
      | r :: rs =>
        match writeStep s r.del r.key r.val rot with
        | none => none
        | some s' => some { s' with replaying := rs }
    | .open _ _ => none
    | .openBegin _ => none

def run (s : State) : List Act → Option State
  | [] => some s
  | a :: as => match step s a with
    | some s' => run s' as
    | none => none

/-! ### the specification carried along a history

The map a user of the database expects: all writes of the current instance on top of the map its ancestor had at
the `Checkpoint` call it was restored from. -/

structure SpecSt where
  /-- the expected map (newest write first, as in `Lsm.Spec`) -/
  m : Spec := []
  /-- the expected map at each `Checkpoint` call, newest call first -/
  saved : List (Nat × Spec) := []
  /-- the handles the user of the database holds and has not given up. The user — the job — decides retention: a handle is
  added when `Checkpoint` returns it and removed only by a retention update that does not keep its id (or replaced by a
  new `Checkpoint` call with the same id). Restarting the database from any checkpoint removes nothing. -/
  handles : List Nat := []
  /-- handles of checkpoints the running instance does not list: every other handle at the moment the database was
  reopened from one of them (`LoadCheckpointList` loads one entry of the document) -/
  unlisted : List Nat := []
  /-- D50 situation: unlisted handles at a moment the running instance wrote the `checkpoints` document (the write drops
  their entries) -/
  lost : List Nat := []
  /-- D67 situation: handles newer than a checkpoint the database was reopened from (the reopened instance numbers its
  table and WAL files above the opened checkpoint's only, and may overwrite theirs) -/
  over : List Nat := []

def specAt (saved : List (Nat × Spec)) (id : Nat) : Spec := ((saved.find? (fun p => p.1 == id)).map (·.2)).getD []

/-- the handle of checkpoint `id` was returned and the checkpoint is still retained by the running lineage -/
def retainedDone (s : State) (id : Nat) : Bool := s.done.contains id && s.ckpts.any (fun c => c.id == id)

def stepSpec (s : State) (sp : SpecSt) : Act → SpecSt
  | .write del k v _ => { sp with m := specStep sp.m s.db.seq (if del then .del k else .put k v) }
  | .checkpoint id =>
    { sp with saved := (id, sp.m) :: sp.saved,
              handles := sp.handles.filter (fun h => h != id), unlisted := sp.unlisted.filter (fun h => h != id),
              lost := sp.lost.filter (fun h => h != id), over := sp.over.filter (fun h => h != id) }
  | .saveDoc id =>
    { sp with handles := if s.ckpts.any (fun c => c.id == id) then id :: sp.handles else sp.handles,
              lost := sp.lost ++ sp.unlisted }
  | .saveList => { sp with lost := sp.lost ++ sp.unlisted }
  | .retain ids =>
    { sp with handles := sp.handles.filter (keeps ids), unlisted := sp.unlisted.filter (keeps ids),
              lost := sp.lost.filter (keeps ids), over := sp.over.filter (keeps ids) }
  | .open id _ | .openBegin id =>
    { sp with m := specAt sp.saved id,
              unlisted := sp.unlisted ++ sp.handles.filter (fun h => h != id),
              over := sp.over ++ sp.handles.filter (fun h => decide (id < h)) }
  | _ => sp

/-- an instance is only ever opened from a completed handle of a checkpoint that is still retained (what a job does) -/
def guardOk (s : State) : Act → Bool
  | .open id _ | .openBegin id => retainedDone s id
  | _ => true

/-- histories with their specification -/
def runSpec (s : State) (sp : SpecSt) : List Act → Option (State × SpecSt)
  | [] => some (s, sp)
  | a :: as =>
    if guardOk s a then
      match step s a with
      | some s' => runSpec s' (stepSpec s sp a) as
      | none => none
    else none

/-- the `recovery.Checkpoint` that `DB.Checkpoint(id)` records in state `s` -/
def capture (s : State) (id : Nat) : Ckpt := ⟨id, s.db.levels, s.wal.id, s.latest, s.db.seq, s.wal.entries⟩

/-! ### the code before repair D28 (regression witness): a restored instance numbers its tables from 0 -/

def restoreD28 (files : Files) (c : Ckpt) (rots : List Nat) : Option State :=
  match walRead c.recs c.after with
  | none => none
  | some recs =>
    let b := restoreBase files c
    replay { b with db := { b.db with nextId := 0 } } recs rots

end Rxn.Ckpt
