import RxnModel.Model.KeySpace
/-!
# Keyed state store (`workers/operator/keyed_state_store.go`) and the operator's batch rule
# (`workers/operator/operator.go` `processEventBatch`)

The DKV underneath is its specification, a sorted map (`KV`, strictly ascending keys, live entries only);
that the real LSM refines it is C07's subject. The composite-key encoders are the ones of `Model/KeySpace.lean`
(`Keys.subjectKey`, `Keys.dbKey`, `Keys.timerKey`, schema bytes regenerated from the source). Core-only.
-/
namespace Rxn.KeyedState
open Rxn

/-- sorted-map specification of the DKV: `(key, value)` pairs in strictly ascending key order -/
abbrev KV := List (Bytes × Bytes)

namespace KV

/-- `DB.Put` -/
def put : KV → Bytes → Bytes → KV
  | [], k, v => [(k, v)]
  | (k', v') :: rest, k, v =>
    match Bytes.cmp k k' with
    | .lt => (k, v) :: (k', v') :: rest
    | .eq => (k, v) :: rest
    | .gt => (k', v') :: put rest k v

/-- `DB.Delete` -/
def del : KV → Bytes → KV
  | [], _ => []
  | (k', v') :: rest, k =>
    match Bytes.cmp k k' with
    | .lt => (k', v') :: rest
    | .eq => rest
    | .gt => (k', v') :: del rest k

/-- `DB.Get` -/
def get : KV → Bytes → Option Bytes
  | [], _ => none
  | (k', v') :: rest, k => if k' = k then some v' else get rest k

/-- `DB.ScanPrefix`: the live entries whose key has the prefix, in key order -/
def scan (kv : KV) (p : Bytes) : KV := kv.filter (fun e => Bytes.hasPrefix e.1 p)

/-- a write as the DKV sees it: `some v` = put, `none` = delete -/
def write (kv : KV) (w : Bytes × Option Bytes) : KV :=
  match w.2 with
  | some v => put kv w.1 v
  | none => del kv w.1

end KV

/-- `handlerpb.StateMutation`: put or delete of one entry key -/
inductive Mut where
  | put (key val : Bytes)
  | del (key : Bytes)
deriving DecidableEq, Repr, Inhabited

def Mut.key : Mut → Bytes
  | .put k _ => k
  | .del k => k

def Mut.val : Mut → Option Bytes
  | .put _ v => some v
  | .del _ => none

/-- `handlerpb.StateMutationNamespace`: a namespace and its mutations in order -/
abbrev NsMuts := Bytes × List Mut

/-- `KeyedStateStore.ApplyMutations`: namespaces in order, mutations in order, one `db.Put`/`db.Delete` each -/
def applyMutations (kgc : Nat) (kv : KV) (subj : Bytes) (nss : List NsMuts) : KV :=
  nss.foldl (fun kv nm =>
    nm.2.foldl (fun kv m => KV.write kv (Keys.dbKey kgc subj nm.1 m.key, m.val)) kv) kv

/-- how `decodeKey` reads a length field (`binary.Read(r, binary.BigEndian, &x)`; byte order regenerated from the source) -/
def readLen (b : Bytes) : Nat := if Facts.ksDecodeBigEndian = 1 then Bytes.beNat b else Bytes.leNat b

/-- `KeyedStateStore.decodeKey`: skip key group and schema, read the subject-key length and skip the subject key, read
the namespace length and the namespace; the rest is the entry key. Skip count and field widths are the regenerated
facts `ksDecodeSkip` (`compositeKey[3:]`), `ksDecodeLenBits` (`uint32`), `ksDecodeNsBits` (`uint8`).
(The Go code panics on a short key; the model is total, which only matters for keys no encoder produces.) -/
def decodeKey (ck : Bytes) : Bytes × Bytes :=
  let r := ck.drop Facts.ksDecodeSkip
  let w := Facts.ksDecodeLenBits / 8
  let n := readLen (r.take w)
  let r := (r.drop w).drop n
  let nw := Facts.ksDecodeNsBits / 8
  let nl := readLen (r.take nw)
  let r := r.drop nw
  (r.take nl, r.drop nl)

/-- one namespace of the state handed to the handler: `(namespace, [(entry key, value)])` -/
abbrev NsState := Bytes × List (Bytes × Bytes)

/-- one step of the grouping loop of `GetState`, read from the back: an entry joins the group that follows it when the
namespaces are equal, otherwise it starts a new `StateEntryNamespace` -/
def push (x : Bytes × Bytes × Bytes) : List NsState → List NsState
  | [] => [(x.1, [(x.2.1, x.2.2)])]
  | (ns', es) :: gs =>
    if x.1 = ns' then (x.1, (x.2.1, x.2.2) :: es) :: gs else (x.1, [(x.2.1, x.2.2)]) :: (ns', es) :: gs

/-- the grouping loop of `GetState`: maximal runs of consecutive scan results with the same namespace share one
`StateEntryNamespace` (`currentItem.Namespace != string(ns)` starts a new one) -/
def group : List (Bytes × Bytes × Bytes) → List NsState
  | [] => []
  | x :: rest => push x (group rest)

/-- scan results decoded to `(namespace, entry key, value)`, in scan order -/
def decodedOf (es : KV) : List (Bytes × Bytes × Bytes) :=
  es.map (fun e => ((decodeKey e.1).1, (decodeKey e.1).2, e.2))

/-- decoded scan results `(namespace, entry key, value)` in scan order -/
def decoded (kgc : Nat) (kv : KV) (subj : Bytes) : List (Bytes × Bytes × Bytes) :=
  decodedOf (kv.scan (Keys.subjectKey kgc subj))

/-- `KeyedStateStore.GetState` -/
def getState (kgc : Nat) (kv : KV) (subj : Bytes) : List NsState := group (decoded kgc kv subj)

/-! ## everything that writes to the operator's DKV -/

/-- `apply` = `ApplyMutations`; `timerPut`/`timerDel` = the timer store's write-through `db.Put(timerKey, nil)` /
`db.Delete(timerKey)` into the same database -/
inductive Act where
  | apply (subj : Bytes) (nss : List NsMuts)
  | timerPut (subj : Bytes) (t : Nat)
  | timerDel (subj : Bytes) (t : Nat)
deriving Repr, Inhabited

def step (kgc : Nat) (kv : KV) : Act → KV
  | .apply subj nss => applyMutations kgc kv subj nss
  | .timerPut subj t => KV.put kv (Keys.timerKey kgc subj t) []
  | .timerDel subj t => KV.del kv (Keys.timerKey kgc subj t)

def run (kgc : Nat) (kv : KV) (acts : List Act) : KV := acts.foldl (step kgc) kv

/-! ## specification: a per-key, per-namespace map controlled by the returned mutations only -/

/-- a mutation as the handler means it: `(subject key, namespace, entry key, some value | none)` -/
abbrev LWrite := Bytes × Bytes × Bytes × Option Bytes

def nsWrites (subj : Bytes) (nm : NsMuts) : List LWrite := nm.2.map (fun m => (subj, nm.1, m.key, m.val))

/-- the mutations an action carries, in application order; timer actions carry none -/
def Act.lwrites : Act → List LWrite
  | .apply subj nss => nss.flatMap (nsWrites subj)
  | .timerPut _ _ => []
  | .timerDel _ _ => []

/-- the composite-key write a mutation turns into -/
def encW (kgc : Nat) (w : LWrite) : Bytes × Option Bytes := (Keys.dbKey kgc w.1 w.2.1 w.2.2.1, w.2.2.2)

/-- the writes an action issues to the DKV (`db.Put` / `db.Delete`), in order -/
def Act.rawWrites (kgc : Nat) : Act → List (Bytes × Option Bytes)
  | .apply subj nss => (Act.apply subj nss).lwrites.map (encW kgc)
  | .timerPut subj t => [(Keys.timerKey kgc subj t, some [])]
  | .timerDel subj t => [(Keys.timerKey kgc subj t, none)]

/-- per-key map specification: the value of `(subject key, namespace, entry key)` after replaying the mutations
is what the last mutation naming exactly that triple said -/
def specLookup (ws : List LWrite) (subj ns ek : Bytes) : Option Bytes :=
  ws.foldl (fun cur w => if w.1 = subj ∧ w.2.1 = ns ∧ w.2.2.1 = ek then w.2.2.2 else cur) none

/-- What a mutation with an over-long namespace really addresses: `uint8(len(namespace))` keeps the length modulo 256,
so the first `len % 256` bytes act as the namespace and the rest is read back as the head of the entry key.
The identity on namespaces of at most 255 bytes. -/
def normW (w : LWrite) : LWrite :=
  (w.1, w.2.1.take (w.2.1.length % 256), w.2.1.drop (w.2.1.length % 256) ++ w.2.2.1, w.2.2.2)

/-- subject keys the 4-byte length field can represent -/
def Act.KeysOK (a : Act) : Prop := ∀ w ∈ a.lwrites, w.1.length < 4294967296

/-- the namespace precondition, local to one subject key: the mutations returned FOR `k` use namespaces of at most
255 bytes (what other keys' mutations use does not matter) -/
def NsOKFor (k : Bytes) (ws : List LWrite) : Prop := ∀ w ∈ ws, w.1 = k → w.2.1.length ≤ 255

/-- namespace as it is laid out inside the composite key: one length byte, then the bytes -/
def nsEnc (ns : Bytes) : Bytes := UInt8.ofNat (ns.length % 256) :: ns

/-- order in which namespaces come out of the scan -/
def nsLt (a b : Bytes) : Prop := Bytes.cmp (nsEnc a) (nsEnc b) = .lt

/-- `st` is exactly the map `m` grouped by namespace: same content, every namespace once (strictly ascending in
encoded order), no empty group, entries of a group strictly ascending by entry key (hence every entry key once) -/
structure Matches (st : List NsState) (m : Bytes → Bytes → Option Bytes) : Prop where
  content : ∀ ns ek v, (∃ es, (ns, es) ∈ st ∧ (ek, v) ∈ es) ↔ m ns ek = some v
  nsOnce : st.Pairwise (fun g h => nsLt g.1 h.1)
  nonempty : ∀ g ∈ st, g.2 ≠ []
  entriesAsc : ∀ g ∈ st, g.2.Pairwise (fun a b => Bytes.cmp a.1 b.1 = .lt)

/-! ## the operator's batch rule -/

/-- `handlerpb.KeyResult`: timers that pass `SetTimer`'s guard, then the state mutations -/
structure KeyResult where
  key : Bytes
  timers : List Nat
  muts : List NsMuts
deriving Repr, Inhabited

/-- what `processEventBatch` does with one key result: `SetTimer` for every timer, then `ApplyMutations` -/
def KeyResult.acts (kr : KeyResult) : List Act :=
  kr.timers.map (Act.timerPut kr.key) ++ [Act.apply kr.key kr.muts]

/-- one handler invocation: timers popped by the watermark since the previous invocation (`fired`), the keys of the
batched events in order, and the handler's response -/
structure Batch where
  fired : List (Bytes × Nat)
  events : List Bytes
  resp : List KeyResult
deriving Repr, Inhabited

def Batch.firedActs (b : Batch) : List Act := b.fired.map (fun f => Act.timerDel f.1 f.2)
def Batch.respActs (b : Batch) : List Act := b.resp.flatMap KeyResult.acts
def Batch.acts (b : Batch) : List Act := b.firedActs ++ b.respActs

/-- keys the 4-byte length field can represent: the event keys and the keys of the results -/
def Batch.KeysOK (b : Batch) : Prop :=
  (∀ k ∈ b.events, k.length < 4294967296) ∧ ∀ kr ∈ b.resp, kr.key.length < 4294967296

/-- `keyStateMap`: state is fetched for the first event of each key only -/
def distinctKeys : List Bytes → List Bytes
  | [] => []
  | k :: ks => k :: (distinctKeys ks).filter (· ≠ k)

/-- `processEventBatch`: fetch the state of every distinct key, call the handler once, then apply its results in order.
Returns the new database and the `KeyStates` of the request (in order of first occurrence; the Go map iteration order
is not an observable) -/
def processBatch (kgc : Nat) (kv : KV) (b : Batch) : KV × List (Bytes × List NsState) :=
  let kv1 := run kgc kv b.firedActs
  let states := (distinctKeys b.events).map (fun k => (k, getState kgc kv1 k))
  (run kgc kv1 b.respActs, states)

def runBatches (kgc : Nat) : KV → List Batch → List (List (Bytes × List NsState))
  | _, [] => []
  | kv, b :: bs => (processBatch kgc kv b).2 :: runBatches kgc (processBatch kgc kv b).1 bs

/-! ## checkpoint and restore of the operator -/

/-- what happens to an operator between deployments: handler invocations, checkpoints (`db.Checkpoint(id)` at a
barrier, after the pending batch was flushed) and a redeploy from ANY retained checkpoint id (`HandleDeploy` with that
checkpoint's handle — recovery uses the newest checkpoint every operator completed and the job published, which may be
older than the operator's own latest one). The DKV is reopened from it; that the reopened database holds exactly the
map at that `Checkpoint` call is C08's subject. Checkpoints newer than the restored one belong to the abandoned
timeline; older ones are dropped by the code as well (`keepOnly`). A redeploy from an id that was never taken starts from an empty database. -/
inductive OpStep where
  | batch (b : Batch)
  | ckpt (id : Nat)
  | restore (id : Nat)
deriving Repr, Inhabited

/-- the retained checkpoints, newest first -/
def lookupCkpt {α : Type} (saved : List (Nat × α)) (id : Nat) : Option α :=
  (saved.find? (fun p => p.1 == id)).map (·.2)

/-- `recovery.LoadCheckpointList` builds the reopened database's checkpoint list from the named checkpoint alone
("short term: just pull out the one checkpoint ID"), and the next `Save` rewrites the one `checkpoints` document: after a
restore only the restored checkpoint and the ones taken afterwards can be restored -/
def keepOnly {α : Type} (saved : List (Nat × α)) (id : Nat) : List (Nat × α) := saved.filter (fun p => p.1 == id)

structure OpState where
  kv : KV := []
  saved : List (Nat × KV) := []
deriving Repr, Inhabited

def opStep (kgc : Nat) (s : OpState) : OpStep → OpState × Option (List (Bytes × List NsState))
  | .batch b => ({ s with kv := (processBatch kgc s.kv b).1 }, some (processBatch kgc s.kv b).2)
  | .ckpt id => ({ s with saved := (id, s.kv) :: s.saved }, none)
  | .restore id => ({ kv := (lookupCkpt s.saved id).getD [], saved := keepOnly s.saved id }, none)

/-- observations of a whole operator history: the `KeyStates` of every invocation (`none` for the other steps) -/
def runOps (kgc : Nat) : OpState → List OpStep → List (Option (List (Bytes × List NsState)))
  | _, [] => []
  | s, x :: xs => (opStep kgc s x).2 :: runOps kgc (opStep kgc s x).1 xs

/-- specification side: the invocations whose results are part of the current state (`.1`) and of each retained
checkpoint (`.2`). A restore forgets the invocations after the restored checkpoint; the ones before it stay. -/
abbrev Eff := List Batch × List (Nat × List Batch)

def effStep (e : Eff) : OpStep → Eff
  | .batch b => (e.1 ++ [b], e.2)
  | .ckpt id => (e.1, (id, e.1) :: e.2)
  | .restore id => ((lookupCkpt e.2 id).getD [], keepOnly e.2 id)

def effective (steps : List OpStep) : Eff := steps.foldl effStep ([], [])

end Rxn.KeyedState
