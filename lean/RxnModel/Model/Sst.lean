import RxnModel.Model.Murmur
/-!
Byte-level model of `dkv/fields`, `dkv/bloom`, `dkv/sst` (table writer, footer, sparse search index,
`Table.Get`, `Table.ScanPrefix`, `TableDocument`) and of the bounded cursor of `dkv/storage/cursor.go`.

A file is a `Bytes`; a cursor is the list of bytes that remain readable (`data.take bound |>.drop off`).
All widths/constants are the regenerated `Facts`. The model describes the code after the repairs
D19 (search clamps at the first index), D29 (an empty bounded range is empty), D30 (document keys are bytes)
and D31 (no trailing empty table).
-/
namespace Rxn.Sst
open Rxn

/-! ## `dkv/fields`: fixed-width little-endian integers, length-prefixed bytes, tombstone byte -/

def lenW : Nat := Facts.fieldLenWidth
def u64W : Nat := Facts.fieldU64Width
def u32W : Nat := Facts.fieldU32Width
def tombW : Nat := Facts.fieldTombWidth
/-- the byte `writeTombstone` writes for a delete and `ReadTombstone` compares with -/
def tombMark : Nat := Facts.fieldTombMark
/-- `uint32(offset)` in `IndexOffset` -/
def offMod : Nat := 2 ^ Facts.sstOffsetBits

/-- `binary.LittleEndian.PutUintNN` into a `w`-byte slice (truncates like the Go conversion `uintNN(n)`) -/
def leBytes : Nat → Nat → Bytes
  | 0, _ => []
  | w + 1, n => UInt8.ofNat (n % 256) :: leBytes w (n / 256)

/-- `binary.LittleEndian.UintNN` -/
def leVal : Bytes → Nat
  | [] => 0
  | b :: bs => b.toNat + 256 * leVal bs

/-- `io.ReadFull` of `w` bytes from what remains readable -/
def readN (w : Nat) (r : Bytes) : Option (Bytes × Bytes) :=
  if w ≤ r.length then some (r.take w, r.drop w) else none

def readNat (w : Nat) (r : Bytes) : Option (Nat × Bytes) :=
  match readN w r with
  | some (b, r') => some (leVal b, r')
  | none => none

/-- `fields.ReadVarBytes` (and `SkipVarBytes`, which discards the same bytes) -/
def readVar (r : Bytes) : Option (Bytes × Bytes) :=
  match readNat lenW r with
  | some (n, r') => readN n r'
  | none => none

/-- `fields.MustWriteVarBytes` -/
def encVar (b : Bytes) : Bytes := leBytes lenW b.length ++ b

/-- `fields.MustWriteTombstone` -/
def encTomb (d : Bool) : Bytes := leBytes tombW (if d then tombMark else 0)

def readNats (w : Nat) : Nat → Bytes → Option (List Nat × Bytes)
  | 0, r => some ([], r)
  | n + 1, r =>
    match readNat w r with
    | none => none
    | some (x, r1) =>
      match readNats w n r1 with
      | none => none
      | some (xs, r2) => some (x :: xs, r2)

def encNats (w : Nat) (xs : List Nat) : Bytes := xs.flatMap (leBytes w)

/-! ## entries -/

structure Entry where
  key : Bytes
  seq : Nat
  del : Bool
  val : Bytes
deriving DecidableEq, Repr, Inhabited

/-- `writeEntry`: key, seqNum, tombstone flag, value (absent for tombstones) -/
def encEntry (e : Entry) : Bytes :=
  encVar e.key ++ (leBytes u64W e.seq ++ (encTomb e.del ++ (if e.del then [] else encVar e.val)))

def encEntries : List Entry → Bytes
  | [] => []
  | e :: es => encEntry e ++ encEntries es

/-- one row as `Table.Get` / `Table.ScanPrefix` consume it: key, seqNum, tombstone, then the value only when
the row is not a tombstone. (`Get` skips instead of reading the value when the key differs; both consume
the same bytes and fail on the same inputs.) -/
def decEntry (r : Bytes) : Option (Entry × Bytes) :=
  match readVar r with
  | none => none
  | some (k, r1) =>
    match readNat u64W r1 with
    | none => none
    | some (s, r2) =>
      match readNat tombW r2 with
      | none => none
      | some (t, r3) =>
        if t = tombMark then some (⟨k, s, true, []⟩, r3)
        else match readVar r3 with
          | none => none
          | some (v, r4) => some (⟨k, s, false, v⟩, r4)

/-- `FlushSize` -/
def flushSize (e : Entry) : Nat := (Facts.sstEntryOverhead + e.key.length + e.val.length) % 2 ^ Facts.sstFlushSizeBits

/-! ## `dkv/bloom` -/

def wordBits : Nat := Facts.bloomWordBits

structure Bloom where
  size : Nat
  hashes : Nat
  words : List Nat
deriving DecidableEq, Repr

namespace Bloom

def new (size hashes : Nat) : Bloom := ⟨size, hashes, List.replicate ((size + (wordBits - 1)) / wordBits) 0⟩

/-- `murmur.Hash(data, i) % bf.size` -/
def index (size : Nat) (data : Bytes) (i : Nat) : Nat := (Murmur.hash data i).toNat % size

def setBit (ws : List Nat) (pos : Nat) : List Nat :=
  ws.set (pos / wordBits) (ws.getD (pos / wordBits) 0 ||| (1 <<< (pos % wordBits)))

def getBit (ws : List Nat) (pos : Nat) : Bool :=
  (ws.getD (pos / wordBits) 0) &&& (1 <<< (pos % wordBits)) != 0

def addWords (size : Nat) (data : Bytes) : Nat → List Nat → List Nat
  | 0, ws => ws
  | n + 1, ws => setBit (addWords size data n ws) (index size data n)

/-- `Filter.Add` (bits are set for seeds `0 .. hashes-1`; the order of setting is immaterial) -/
def add (b : Bloom) (data : Bytes) : Bloom := { b with words := addWords b.size data b.hashes b.words }

def addAll (b : Bloom) : List Bytes → Bloom
  | [] => b
  | k :: ks => addAll (b.add k) ks

def hasAll (size : Nat) (ws : List Nat) (data : Bytes) : Nat → Bool
  | 0 => true
  | n + 1 => hasAll size ws data n && getBit ws (index size data n)

/-- `Filter.MightHave` -/
def mightHave (b : Bloom) (data : Bytes) : Bool := hasAll b.size b.words data b.hashes

/-- `Filter.Encode` -/
def encode (b : Bloom) : Bytes := leBytes u32W b.size ++ (leBytes u32W b.hashes ++ encNats u64W b.words)

/-- `bloom.Decode` -/
def decode (r : Bytes) : Option (Bloom × Bytes) :=
  match readNat u32W r with
  | none => none
  | some (size, r1) =>
    match readNat u32W r1 with
    | none => none
    | some (h, r2) =>
      match readNats u64W ((size + (wordBits - 1)) / wordBits) r2 with
      | none => none
      | some (ws, r3) => some (⟨size, h, ws⟩, r3)

end Bloom

/-! ## sparse search index (`search_index.go`) -/

def spacing : Nat := Facts.sstIndexSpacing

/-- `IndexOffset` called once per written entry: `items` = `itemsWritten`, `off` = table size so far -/
def indexOffsets : (items off : Nat) → List Entry → List Nat
  | _, _, [] => []
  | items, off, e :: es =>
    (if items % spacing = 0 then [off % offMod] else []) ++ indexOffsets (items + 1) (off + (encEntry e).length) es

/-- `SearchIndex.Encode` -/
def encIndex (offs : List Nat) : Bytes := leBytes u32W offs.length ++ encNats u32W offs

/-- `SearchIndexDecode` -/
def decIndex (r : Bytes) : Option (List Nat × Bytes) :=
  match readNat u32W r with
  | none => none
  | some (n, r1) => readNats u32W n r1

/-- result of a step of the real code that can fail with an error value or by panicking -/
inductive Outcome (α : Type) where
  | ok (a : α)
  | err
  | panic
deriving DecidableEq, Repr

/-- the loop of `slices.BinarySearchFunc` with the comparison callback of `Search`: a failed `readKey` makes the
callback remember the error and return 0 ("found": the search continues to the left, `bad` = `searchErr != nil`);
a panicking `readKey` unwinds -/
def bsLoop (cmpAt : Nat → Outcome Ordering) : (fuel lo hi : Nat) → (bad : Bool) → Outcome (Nat × Bool)
  | 0, lo, _, bad => .ok (lo, bad)
  | fuel + 1, lo, hi, bad =>
    if lo < hi then
      match cmpAt ((lo + hi) / 2) with
      | .panic => .panic
      | .err => bsLoop cmpAt fuel lo ((lo + hi) / 2) true
      | .ok .lt => bsLoop cmpAt fuel ((lo + hi) / 2 + 1) hi bad
      | .ok _ => bsLoop cmpAt fuel lo ((lo + hi) / 2) bad
    else .ok (lo, bad)

inductive SearchRes where
  | range (start : Nat) (stop : Option Nat)   -- `stop = none` is `math.MaxInt64`
  | err
  | panic
deriving DecidableEq, Repr

/-- the comparison callback of `Search`: `bytes.Compare(key, targetKey)` on what `readKey` returned -/
def cmpKey (target : Bytes) : Outcome Bytes → Outcome Ordering
  | .ok k => .ok (Bytes.cmp k target)
  | .err => .err
  | .panic => .panic

/-- `SearchIndex.Search` (after D19: an inexact hit at index 0 stays at index 0) -/
def search (offsets : List Nat) (readKey : Nat → Outcome Bytes) (target : Bytes) : SearchRes :=
  if offsets.isEmpty then .range 0 none else
  let cmpAt := fun i => cmpKey target (readKey (offsets.getD i 0))
  match bsLoop cmpAt offsets.length 0 offsets.length false with
  | .err => .err
  | .panic => .panic
  | .ok (i, bad) =>
    -- `BinarySearchFunc` probes the result once more for exactness before `Search` looks at `searchErr`
    match (if i < offsets.length then cmpAt i else .ok .lt) with
    | .err => .err
    | .panic => .panic
    | .ok o =>
      if bad then .err else
      let found := if o = .eq then i else if 0 < i then i - 1 else i
      .range (offsets.getD found 0)
        (if found + 1 = offsets.length then none else some (offsets.getD (found + 1) 0))

/-! ## tables -/

/-- what a `Table` knows besides the file: the `TableDocument` fields -/
structure Doc where
  startKey : Bytes
  endKey : Bytes
  size : Nat
  entriesSize : Nat
  startSeq : Nat
  endSeq : Nat
deriving DecidableEq, Repr

/-- in-memory metadata (`filter`, `searchIndex`) -/
structure Meta where
  bloom : Bloom
  offsets : List Nat
deriving DecidableEq, Repr

def keysOf (es : List Entry) : List Bytes := es.map (·.key)

def bloomOf (es : List Entry) : Bloom := (Bloom.new Facts.bloomBits Facts.bloomHashes).addAll (keysOf es)

def metaOf (es : List Entry) : Meta := ⟨bloomOf es, indexOffsets 0 0 es⟩

/-- `writeFooter` -/
def encFooter (m : Meta) (entriesSize : Nat) : Bytes :=
  m.bloom.encode ++ (encIndex m.offsets ++ (leBytes u64W entriesSize ++ leBytes u32W Facts.sstVersion))

/-- the file written by `TableWriter.Write` -/
def encTable (es : List Entry) : Bytes :=
  encEntries es ++ encFooter (metaOf es) (encEntries es).length

/-- `Table.Document()` of a freshly written table (`endSeqNum` is the maximum seqNum written: rows arrive in key
order, not in write order) -/
def docOf (es : List Entry) : Doc :=
  { startKey := (es.head?.map (·.key)).getD [], endKey := (es.getLast?.map (·.key)).getD [],
    size := (encTable es).length, entriesSize := (encEntries es).length,
    startSeq := (es.head?.map (·.seq)).getD 0, endSeq := es.foldl (fun acc e => max acc e.seq) 0 }

/-- `loadFooter`: an unbounded cursor at `size - footerLen` reads the meta offset, then the two meta blocks -/
def loadFooter (size : Nat) (data : Bytes) : Option Meta :=
  match readNat u64W (data.drop (size - Facts.sstFooterLen)) with
  | none => none
  | some (metaOff, _) =>
    match Bloom.decode (data.drop metaOff) with
    | none => none
    | some (b, r) =>
      match decIndex r with
      | none => none
      | some (offs, _) => some ⟨b, offs⟩

inductive GetRes where
  | found (e : Entry)
  | notFound
  | err
  | panic          -- `Cursor.Move` beyond the entries block (only with an index that the writer did not produce)
deriving DecidableEq, Repr

/-- `cur.Offset() < end` -/
def beforeStop (stop : Option Nat) (off : Nat) : Bool :=
  match stop with
  | some e => decide (off < e)
  | none => true

/-- the scan loop of `Table.Get`: `r` = bytes still readable by the bounded cursor, `off` = `cur.Offset()` -/
def scanGet (key : Bytes) (stop : Option Nat) : (fuel : Nat) → (r : Bytes) → (off : Nat) → GetRes
  | 0, _, _ => .notFound
  | fuel + 1, r, off =>
    if beforeStop stop off then
      if r.isEmpty then .notFound            -- `io.EOF` on the key length: end of the entries block
      else match decEntry r with
        | none => .err
        | some (e, r') => if e.key = key then .found e else scanGet key stop fuel r' (off + (r.length - r'.length))
    else .notFound

/-- the `readKey` closure of `Table.Get`: `cur.Move(offset)` on the cursor bounded by the entries block panics beyond
the bound ("cursor move to … after end bound"), then `fields.ReadVarBytes` -/
def readKeyAt (ent : Bytes) (bound : Nat) (off : Nat) : Outcome Bytes :=
  if bound < off then .panic
  else match readVar (ent.drop off) with
    | some (k, _) => .ok k
    | none => .err

/-- `Table.Get` on a table with loaded metadata -/
def get (m : Meta) (entriesSize : Nat) (data : Bytes) (key : Bytes) : GetRes :=
  if !m.bloom.mightHave key then .notFound else
  let ent := data.take entriesSize
  match search m.offsets (readKeyAt ent entriesSize) key with
  | .err => .err
  | .panic => .panic
  | .range start stop =>
    if entriesSize < start then .panic        -- `cur.Move(start)`
    else scanGet key stop ((ent.drop start).length + 1) (ent.drop start) start

/-- all rows of the entries block in file order; `none` = a read error -/
def scanAll : (fuel : Nat) → Bytes → Option (List Entry)
  | 0, _ => some []
  | fuel + 1, r =>
    if r.isEmpty then some []
    else match decEntry r with
      | none => none
      | some (e, r') =>
        match scanAll fuel r' with
        | none => none
        | some es => some (e :: es)

/-- `Table.ScanPrefix` (tombstones are yielded) -/
def scanPrefix (entriesSize : Nat) (data : Bytes) (pfx : Bytes) : Option (List Entry) :=
  match scanAll ((data.take entriesSize).length + 1) (data.take entriesSize) with
  | none => none
  | some es => some (es.filter (fun e => e.key.hasPrefix pfx))

/-- `NewTableFromDocument` followed by `ensureMetadataLoaded` -/
def openDoc (d : Doc) (data : Bytes) : Option Meta := loadFooter d.size data

/-- the lookup the property speaks about -/
def lookup (es : List Entry) (key : Bytes) : Option Entry := es.find? (fun e => e.key = key)

def GetRes.ofOption : Option Entry → GetRes
  | some e => .found e
  | none => .notFound

/-! ## `WriteRun`: chunking at the target size with a look-ahead up to `floor(1.5 × target)` -/

/-- `int(math.Floor(float64(targetSize) * 1.5))` -/
def maxBuffer (target : Nat) : Nat := target * Facts.sstMaxFactorNum / Facts.sstMaxFactorDen

/-- The loop of `WriteRun`. `cut = none`: filling up to `target` (buffer = `buf`); `cut = some (chunk, chunkSize)`:
look-ahead phase after `buffer.cut()` (buffer = `chunk ++ buf`). `size` = `buffer.size`, `have` = a table was
already written. Returns the entry lists passed to `Write`, in order. Out of fuel (every iteration consumes an
entry or changes phase, so this is not reached with the fuel given by `writeRun`) what is left is one table. -/
def runLoop (target maxSz : Nat) : (fuel : Nat) → (cut : Option (List Entry × Nat)) → (buf : List Entry) →
    (size : Nat) → (have_ : Bool) → (input : List Entry) → List (List Entry)
  | 0, cut, buf, _, _, input =>
    if ((cut.map (·.1)).getD [] ++ buf ++ input).isEmpty then [] else [(cut.map (·.1)).getD [] ++ buf ++ input]
  | fuel + 1, none, buf, size, have_, input =>
    if size < target then
      match input with
      | [] => if buf.isEmpty && have_ then [] else [buf]
      | e :: rest => runLoop target maxSz fuel none (buf ++ [e]) (size + flushSize e) have_ rest
    else runLoop target maxSz fuel (some (buf, size)) [] size have_ input
  | fuel + 1, some (chunk, chunkSize), buf, size, have_, input =>
    if size < maxSz then
      match input with
      | [] => [chunk ++ buf]
      | e :: rest => runLoop target maxSz fuel (some (chunk, chunkSize)) (buf ++ [e]) (size + flushSize e) have_ rest
    else chunk :: runLoop target maxSz fuel none buf (size - chunkSize) true input

/-- `TableWriter.WriteRun`: the chunks written as consecutive tables -/
def writeRun (target : Nat) (es : List Entry) : List (List Entry) :=
  runLoop target (maxBuffer target) (3 * es.length + 3) none [] 0 false es

/-- FNV-1a 64 of a file, used by the driver to compare whole files with the real writer's output -/
def fnv64 (b : Bytes) : UInt64 :=
  b.foldl (fun h x => (h ^^^ x.toUInt64) * 1099511628211) 14695981039346656037

end Rxn.Sst

namespace Rxn.Sst

/-- what the writers accept without truncation: lengths fit the length prefix, seqNum fits its field, and a
tombstone carries no value (`Table.Get`/`ScanPrefix` cannot return one) -/
structure Entry.WF (e : Entry) : Prop where
  key : e.key.length < 256 ^ lenW
  val : e.val.length < 256 ^ lenW
  seq : e.seq < 256 ^ u64W
  tomb : e.del = true → e.val = []

/-- strictly ascending keys (`bytes.Compare`) -/
def SortedKeys (es : List Entry) : Prop := es.Pairwise (fun a b => Bytes.lt a.key b.key = true)

end Rxn.Sst
