import RxnModel.Model.Batcher
import RxnModel.Model.KeySpace
/-!
# Model of the source runner's delivery path (workers/sourcerunner/source_runner.go, operator_cluster.go)

Goroutines of the code and their actions here (one action per mutex section / channel operation):
* **read loop** (`processEvents`): `fetch` (the select picks a read function and calls it: the reader's cursor moves
  past the whole read), `enq` (`sendKeyEvent` for the next record of that read: placeholder on `outputStream`, then
  `keyEventChannel.Add`; may take long under back-pressure), and — only between two reads, because they are cases of the
  same select — `tick` (watermark placeholder) and `barrier` (`sourceReader.Checkpoint()` snapshots the cursor, then the
  checkpoint barrier placeholder) — all on one
  goroutine, so `logical` (the read order) is simply the order of these actions;
* **reorder fetcher** (`keyEventChannel`): abstracted by what C20 proves about it (`C20.reorder_prefix`,
  `C20.reorder_complete`): the results appear on `Output` one per record, in `Add` order, after an arbitrary delay
  — action `rfEmit` moves the oldest pending result to `Output`;
* **sender** (`for opEvent := range r.outputStream { sendOperatorEvent }`): `sTake` (next placeholder; a record
  placeholder takes one result from `Output`), then per target operator `sAdd` (`batcher.Add`), `sIsFull`,
  `sFlush` (`batcher.Flush(CurrentBatch)`), `sSend` (`o.batches <- batch`, needs the operator goroutine in its select);
* **operator goroutine** of `batchingOperator` (one per operator): `oTok` (token from `BatchTimedOut`), `oTFlush`
  (`batcher.Flush(token)` then `HandleEventBatch`), receiving a batch (`sSend`), `oDone` (`HandleEventBatch`
  returned: operator back-pressure);
* **timer callbacks** of the operator batchers: `fire`, `stale` (see `Model/Batcher.lean`).
-/
namespace Rxn.Runner
open Rxn

/-- a keyed event produced by the user's `KeyEvent` for one source record -/
structure KEv where
  key : Bytes
  src : Nat      -- id of the source record it came from
  idx : Nat      -- position among the keyed events of that record
deriving Repr, DecidableEq

/-- element of the read order -/
inductive Item (ρ : Type) where
  | record (r : ρ)
  | wm
  | barrier (id : Nat)
deriving Repr

/-- what an operator is handed -/
inductive Ev where
  | keyed (e : KEv)
  | wm
  | barrier (id : Nat)
deriving Repr, DecidableEq

/-- configuration: number of operators, routing (C05: `KeySpace.rangeIndex`), the user's key function -/
structure Cfg (ρ : Type) where
  nOps : Nat
  route : Bytes → Nat
  keyOf : ρ → List KEv
  /-- `false` = the code: `batches` is an unbuffered channel, the router blocks in `o.batches <- batch` until the
  operator goroutine takes the batch. `true` = a one-slot channel (kept only for the negative witness in C04). -/
  handoffBuffered : Bool := false

/-- the events an element of the read order stands for -/
def expand1 {ρ : Type} (c : Cfg ρ) : Item ρ → List Ev
  | .record r => (c.keyOf r).map .keyed
  | .wm => [.wm]
  | .barrier id => [.barrier id]

def expand {ρ : Type} (c : Cfg ρ) (l : List (Item ρ)) : List Ev := (l.map (expand1 c)).flatten

/-- operator `o` is handed keyed events routed to it and every broadcast -/
def keep {ρ : Type} (c : Cfg ρ) (o : Nat) : Ev → Bool
  | .keyed e => c.route e.key == o
  | _ => true

/-- the specification: operator `o`'s stream is the read order, expanded, restricted to what is meant for `o` -/
def project {ρ : Type} (c : Cfg ρ) (o : Nat) (l : List (Item ρ)) : List Ev := (expand c l).filter (keep c o)

/-- the (operator, event) pairs `sendOperatorEvent` produces for one placeholder, in order -/
def targetsOf {ρ : Type} (c : Cfg ρ) (res : List KEv) : Item ρ → List (Nat × Ev)
  | .record _ => res.map (fun e => (c.route e.key, .keyed e))
  | .wm => (List.range c.nOps).map (fun o => (o, .wm))
  | .barrier id => (List.range c.nOps).map (fun o => (o, .barrier id))

inductive SPc where
  | idle                              -- between `HandleEvent` calls / placeholders
  | added (o : Nat)                   -- after `batcher.Add`, before `IsFull`
  | full (o : Nat)                    -- `IsFull` was true, before `Flush(CurrentBatch)`
  | handoff (o : Nat) (batch : List Ev)  -- blocked in `o.batches <- batch`
deriving Repr

inductive OPc where
  | idle                  -- in its select
  | gotTok (tok : Nat)    -- received a time-out token, before `batcher.Flush(token)`
  | handling              -- inside `HandleEventBatch`
deriving Repr

structure OpSt where
  b : Batcher.St Ev
  pc : OPc := .idle
  tokens : List Nat := []           -- timer callbacks blocked sending their token
  slot : Option (List Ev) := none   -- contents of `batches` if it had a buffer (never used by the code as it is)
  recv : List (List Ev) := []       -- arguments of `HandleEventBatch` so far

structure St (ρ : Type) where
  logical : List (Item ρ) := []     -- ghost: everything the read loop enqueued, in order
  cursor : Nat := 0                 -- the source reader's position: records handed out by `ReadEvents` so far
  readBuf : List ρ := []            -- records of the current read not yet enqueued
  ckpts : List (Nat × Nat) := []    -- (checkpoint id, cursor snapshotted by `Checkpoint()`), in order
  stream : List (Item ρ) := []      -- `outputStream`
  rfPending : List (List KEv) := [] -- results the reorder fetcher has not emitted yet (oldest first)
  rfOut : List (List KEv) := []     -- `keyEventChannel.Output`
  todo : List (Nat × Ev) := []      -- remaining `HandleEvent` calls of the current placeholder
  spc : SPc := .idle
  ops : Nat → OpSt

def init {ρ : Type} (maxSize : Nat) (hasDelay : Bool) : St ρ :=
  { ops := fun _ => { b := Batcher.new maxSize hasDelay } }

inductive Act (ρ : Type) where
  | fetch (rs : List ρ)   -- `readFunc()`: the source reader hands out one read
  | enq                   -- `sendKeyEvent` for the next record of the current read
  | tick
  | barrier (id : Nat)
  | rfEmit
  | sTake
  | sAdd
  | sIsFull
  | sFlush
  | sSend
  | fire (o : Nat)
  | stale (o : Nat)
  | staleTok (o t : Nat)  -- any earlier batch's callback that raced with `Stop` (every token up to the last one set was armed once)
  | oTok (o : Nat)
  | oTFlush (o : Nat)
  | oDone (o : Nat)
  | oRecv (o : Nat)     -- only with a buffered hand-off: the operator goroutine takes the queued batch
deriving Repr

def setOp {ρ : Type} (s : St ρ) (o : Nat) (x : OpSt) : St ρ :=
  { s with ops := fun i => if i = o then x else s.ops i }

def step {ρ : Type} (c : Cfg ρ) (s : St ρ) : Act ρ → Option (St ρ)
  | .fetch rs =>
    match s.readBuf with
    | [] => some { s with readBuf := rs, cursor := s.cursor + rs.length }
    | _ => none
  | .enq =>
    match s.readBuf with
    | r :: rest =>
      some { s with readBuf := rest, logical := s.logical ++ [.record r], stream := s.stream ++ [.record r],
                    rfPending := s.rfPending ++ [c.keyOf r] }
    | [] => none
  | .tick =>
    match s.readBuf with
    | [] => some { s with logical := s.logical ++ [.wm], stream := s.stream ++ [.wm] }
    | _ => none
  | .barrier id =>
    match s.readBuf with
    | [] => some { s with logical := s.logical ++ [.barrier id], stream := s.stream ++ [.barrier id],
                          ckpts := s.ckpts ++ [(id, s.cursor)] }
    | _ => none
  | .rfEmit =>
    match s.rfPending with
    | [] => none
    | x :: rest => some { s with rfPending := rest, rfOut := s.rfOut ++ [x] }
  | .sTake =>
    match s.spc, s.todo, s.stream with
    | .idle, [], .record r :: rest =>
      match s.rfOut with
      | [] => none                                  -- blocked on `<-keyEventChannel.Output`
      | res :: outRest => some { s with stream := rest, rfOut := outRest, todo := targetsOf c res ((.record r)) }
    | .idle, [], it :: rest => some { s with stream := rest, todo := targetsOf c [] it }
    | _, _, _ => none
  | .sAdd =>
    match s.spc, s.todo with
    | .idle, (o, e) :: rest =>
      some { setOp s o { s.ops o with b := Batcher.add (s.ops o).b e } with todo := rest, spc := .added o }
    | _, _ => none
  | .sIsFull =>
    match s.spc with
    | .added o => some { s with spc := if Batcher.isFull (s.ops o).b then .full o else .idle }
    | _ => none
  | .sFlush =>
    match s.spc with
    | .full o =>
      let r := Batcher.flush (s.ops o).b .cur
      some { setOp s o { s.ops o with b := r.1 } with spc := .handoff o r.2 }
    | _ => none
  | .sSend =>
    if c.handoffBuffered then
      match s.spc with
      | .handoff o batch =>
        match (s.ops o).slot with
        | none => some { setOp s o { s.ops o with slot := some batch } with spc := .idle }
        | some _ => none
      | _ => none
    else
    match s.spc with
    | .handoff o batch =>
      match (s.ops o).pc with
      | .idle => some { setOp s o { s.ops o with pc := .handling, recv := (s.ops o).recv ++ [batch] } with spc := .idle }
      | _ => none
    | _ => none
  | .fire o =>
    match Batcher.fire (s.ops o).b with
    | some t => some (setOp s o { s.ops o with tokens := (s.ops o).tokens ++ [t] })
    | none => none
  | .stale o =>
    match Batcher.stale (s.ops o).b with
    | some t => some (setOp s o { s.ops o with tokens := (s.ops o).tokens ++ [t] })
    | none => none
  | .staleTok o t =>
    match Batcher.stale (s.ops o).b with
    | some l => if t ≤ l then some (setOp s o { s.ops o with tokens := (s.ops o).tokens ++ [t] }) else none
    | none => none
  | .oTok o =>
    match (s.ops o).pc, (s.ops o).tokens with
    | .idle, t :: rest => some (setOp s o { s.ops o with pc := .gotTok t, tokens := rest })
    | _, _ => none
  | .oTFlush o =>
    match (s.ops o).pc with
    | .gotTok t =>
      let r := Batcher.flush (s.ops o).b (.tok t)
      some (setOp s o { s.ops o with b := r.1, pc := .handling, recv := (s.ops o).recv ++ [r.2] })
    | _ => none
  | .oDone o =>
    match (s.ops o).pc with
    | .handling => some (setOp s o { s.ops o with pc := .idle })
    | _ => none
  | .oRecv o =>
    if c.handoffBuffered then
      match (s.ops o).pc, (s.ops o).slot with
      | .idle, some batch =>
        some (setOp s o { s.ops o with pc := .handling, slot := none, recv := (s.ops o).recv ++ [batch] })
      | _, _ => none
    else none

def exec {ρ : Type} (c : Cfg ρ) : St ρ → List (Act ρ) → Option (St ρ)
  | s, [] => some s
  | s, a :: as =>
    match step c s a with
    | none => none
    | some s' => exec c s' as

/-- the records the source reader handed out, in order, as a function of the schedule -/
def fetchedOf {ρ : Type} : List (Act ρ) → List ρ
  | [] => []
  | .fetch rs :: as => rs ++ fetchedOf as
  | _ :: as => fetchedOf as

def recOf {ρ : Type} : Item ρ → Option ρ
  | .record r => some r
  | _ => none

/-- the records of a stretch of the read order -/
def recordsOf {ρ : Type} (l : List (Item ρ)) : List ρ := l.filterMap recOf

/-- for every barrier of a read order: (checkpoint id, number of records before it), counting from `n` -/
def cutsOf {ρ : Type} : List (Item ρ) → Nat → List (Nat × Nat)
  | [], _ => []
  | .record _ :: l, n => cutsOf l (n + 1)
  | .wm :: l, n => cutsOf l n
  | .barrier id :: l, n => (id, n) :: cutsOf l n

/-- everything operator `o` has been handed so far -/
def delivered {ρ : Type} (s : St ρ) (o : Nat) : List Ev := (s.ops o).recv.flatten

/-- events of operator `o` that are inside the runner: in the sender's hand, in `o`'s batcher, waiting in the current
placeholder's work list -/
def inHand {ρ : Type} (s : St ρ) (o : Nat) : List Ev :=
  match s.spc with
  | .handoff o' batch => if o' = o then batch else []
  | _ => []

def pendingFor {ρ : Type} (s : St ρ) (o : Nat) : List Ev :=
  inHand s o ++ (s.ops o).b.batch ++ (s.todo.filter (fun p => p.1 == o)).map (·.2)

/-- nothing in flight anywhere -/
def quiescent {ρ : Type} (s : St ρ) : Prop :=
  s.stream = [] ∧ s.todo = [] ∧ (match s.spc with | .idle => True | _ => False) ∧ ∀ o, (s.ops o).b.batch = []

end Rxn.Runner
