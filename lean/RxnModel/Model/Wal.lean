import RxnModel.Model.Sst
/-!
Model of `dkv/wal/writer.go` and `dkv/wal/reader.go` (self-contained API for C08).

* `Wal.Rec`        one logged operation (`Put`/`Delete` with its sequence number)
* `Wal.Writer`     `new / put / delete / cut / truncate / rotate / save`, `Writer.entries` (what a save would contain)
* `Wal.encRecs`    the bytes of a saved file, `Wal.readAll` the `Reader.All()` loop

A segment buffer is kept as the list of records written into it; its bytes are `encRecs` of that list
(`encRecs` distributes over `++`, so concatenating segment buffers is `encRecs` of the concatenation).
`rotate` models the code after repair D27: carried-over segments keep their `latestSeqNum`, and the former
active segment is sealed with the writer's `latestSeqNum`. `rotateD27` is the unrepaired version.
-/
namespace Rxn.Wal
open Rxn Rxn.Sst

structure Rec where
  seq : Nat
  key : Bytes
  del : Bool
  val : Bytes
deriving DecidableEq, Repr, Inhabited

/-- `Writer.Put` / `Writer.Delete` record layout: seqNum, key, tombstone, value (puts only) -/
def encRec (e : Rec) : Bytes :=
  leBytes u64W e.seq ++ (encVar e.key ++ (encTomb e.del ++ (if e.del then [] else encVar e.val)))

def encRecs : List Rec → Bytes
  | [] => []
  | e :: es => encRec e ++ encRecs es

structure Seg where
  recs : List Rec
  latest : Nat            -- `bufferSegment.latestSeqNum`
deriving DecidableEq, Repr

structure Writer where
  id : Nat
  active : List Rec
  sealed : List Seg       -- `sealedBuffers`, oldest first
  latest : Nat            -- `latestSeqNum`
  maxSize : Nat
deriving DecidableEq, Repr

namespace Writer

def new (id maxSize : Nat) : Writer := ⟨id, [], [], 0, maxSize⟩

/-- `len(buf.buf) >= w.maxSize` after the write -/
def full (w : Writer) : Bool := decide ((encRecs w.active).length ≥ w.maxSize)

def put (w : Writer) (key val : Bytes) (seq : Nat) : Writer :=
  { w with active := w.active ++ [⟨seq, key, false, val⟩], latest := seq }

def delete (w : Writer) (key : Bytes) (seq : Nat) : Writer :=
  { w with active := w.active ++ [⟨seq, key, true, []⟩], latest := seq }

/-- `Cut` -/
def cut (w : Writer) : Writer :=
  { w with sealed := w.sealed ++ [⟨w.active, w.latest⟩], active := [] }

/-- the loop of `Truncate`: drop segments up to the first one with `latestSeqNum > seqNum` (all if none) -/
def dropFlushed (seq : Nat) : List Seg → List Seg
  | [] => []
  | s :: ss => if s.latest > seq then s :: ss else dropFlushed seq ss

/-- `Truncate` -/
def truncate (w : Writer) (seq : Nat) : Writer := { w with sealed := dropFlushed seq w.sealed }

/-- `Rotate` (repaired, D27): the next writer; `w` itself is what gets saved -/
def rotate (w : Writer) : Writer :=
  { id := w.id + 1, active := [], sealed := w.sealed ++ [⟨w.active, w.latest⟩], latest := w.latest, maxSize := w.maxSize }

/-- `Rotate` as it was before D27: the carried segments lose their `latestSeqNum` -/
def rotateD27 (w : Writer) : Writer :=
  { id := w.id + 1, active := [], sealed := (w.sealed.map fun s => ⟨s.recs, 0⟩) ++ [⟨w.active, 0⟩], latest := w.latest, maxSize := w.maxSize }

/-- every record a `Save` of this writer would contain, in file order -/
def entries (w : Writer) : List Rec := (w.sealed.map (·.recs)).flatten ++ w.active

/-- `Save`: the bytes of the file -/
def save (w : Writer) : Bytes := encRecs w.entries

end Writer

/-! ## reader -/

/-- what `Reader.All` yields for one record: deletes carry no value and (as in the code) no sequence number -/
structure Read where
  key : Bytes
  val : Bytes
  seq : Nat
  del : Bool
deriving DecidableEq, Repr

def Rec.toRead (e : Rec) : Read := if e.del then ⟨e.key, [], 0, true⟩ else ⟨e.key, e.val, e.seq, false⟩

/-- one record as the reader consumes it (the skip loop consumes the same bytes) -/
def decRec (r : Bytes) : Option (Rec × Bytes) :=
  match readNat u64W r with
  | none => none
  | some (s, r1) =>
    match readVar r1 with
    | none => none
    | some (k, r2) =>
      match readNat tombW r2 with
      | none => none
      | some (t, r3) =>
        if t = tombMark then some (⟨s, k, true, []⟩, r3)
        else match readVar r3 with
          | none => none
          | some (v, r4) => some (⟨s, k, false, v⟩, r4)

/-- skip loop: `n` records; `none` = a read error (including running off the end of the file) -/
def skipRecs : Nat → Bytes → Option Bytes
  | 0, r => some r
  | n + 1, r =>
    match decRec r with
    | none => none
    | some (_, r') => skipRecs n r'

/-- read loop: until a clean end of file; the `Bool` reports a trailing read error -/
def readRecs : (fuel : Nat) → Bytes → List Read × Bool
  | 0, _ => ([], false)
  | fuel + 1, r =>
    if r.isEmpty then ([], false)
    else match decRec r with
      | none => ([], true)
      | some (e, r') => let (es, bad) := readRecs fuel r'; (e.toRead :: es, bad)

inductive ReadRes where
  | ok (es : List Read)
  | err (es : List Read)      -- entries yielded before the error
  | panic                     -- "WAL reader is supposed to start after seqNum … but firstSeqNum in WAL file is …"
deriving DecidableEq, Repr

/-- arithmetic on the start marker wraps at the width of its Go type (`Reader.startAfter uint64`) -/
def seqMod : Nat := 2 ^ Facts.walSeqBits

/-- `Reader.All()` on the bytes of an existing file with start marker `after` (`after < seqMod`) -/
def readAll (data : Bytes) (after : Nat) : ReadRes :=
  if data.isEmpty then .ok [] else
  match readNat u64W data with
  | none => .err []
  | some (first, _) =>
    -- Go computes in the marker's unsigned type: `(startAfter + 1) < first`, `startAfter - first + 1`
    if (after + 1) % seqMod < first then .panic else
    match skipRecs ((after + seqMod - first + 1) % seqMod) data with
    | none => .err []
    | some r =>
      match readRecs (r.length + 1) r with
      | (es, false) => .ok es
      | (es, true) => .err es

end Rxn.Wal

namespace Rxn.Wal
open Rxn Rxn.Sst

/-- what the writer logs without truncation -/
structure Rec.WF (e : Rec) : Prop where
  key : e.key.length < 256 ^ lenW
  val : e.val.length < 256 ^ lenW
  seq : e.seq < 256 ^ u64W
  tomb : e.del = true → e.val = []

/-- the operations of a writer's life; `rotate` continues with the next writer (the old one is saved) -/
inductive Op where
  | put (key val : Bytes) (seq : Nat)
  | del (key : Bytes) (seq : Nat)
  | cut
  | truncate (seq : Nat)
  | rotate
deriving DecidableEq, Repr

def Writer.apply (w : Writer) : Op → Writer
  | .put k v s => w.put k v s
  | .del k s => w.delete k s
  | .cut => w.cut
  | .truncate s => w.truncate s
  | .rotate => w.rotate

def Writer.run (w : Writer) : List Op → Writer
  | [] => w
  | op :: ops => (w.apply op).run ops

/-- every record appended by a history -/
def appended : List Op → List Rec
  | [] => []
  | .put k v s :: ops => ⟨s, k, false, v⟩ :: appended ops
  | .del k s :: ops => ⟨s, k, true, []⟩ :: appended ops
  | _ :: ops => appended ops

/-- the largest `Truncate` argument of a history -/
def maxTrunc : List Op → Nat
  | [] => 0
  | .truncate s :: ops => max s (maxTrunc ops)
  | _ :: ops => maxTrunc ops

/-- sequence numbers never go down (the DB hands out `seqNum+1`) -/
def MonoSeqs : Nat → List Op → Prop
  | _, [] => True
  | l, .put _ _ s :: ops => l ≤ s ∧ MonoSeqs s ops
  | l, .del _ s :: ops => l ≤ s ∧ MonoSeqs s ops
  | l, _ :: ops => MonoSeqs l ops

/-- sequence numbers `f, f+1, f+2, …` -/
def Consecutive : Nat → List Rec → Prop
  | _, [] => True
  | f, e :: es => e.seq = f ∧ Consecutive (f + 1) es

end Rxn.Wal

namespace Rxn.Wal

/-- the log as the DB holds it across checkpoints: the writer in use and the rotated-away (sealed) writers whose
asynchronous `Save` may still be outstanding, oldest first -/
structure Log where
  cur : Writer
  sealed : List Writer
deriving Repr

def Log.new (id maxSize : Nat) : Log := ⟨Writer.new id maxSize, []⟩

/-- `Rotate` seals the current writer and continues with the next one; every other operation acts on the current
writer only (a sealed writer panics on Put/Delete/Cut/Truncate/Rotate) -/
def Log.apply (l : Log) : Op → Log
  | .rotate => ⟨l.cur.rotate, l.sealed ++ [l.cur]⟩
  | op => ⟨l.cur.apply op, l.sealed⟩

def Log.run (l : Log) : List Op → Log
  | [] => l
  | op :: ops => (l.apply op).run ops

end Rxn.Wal
