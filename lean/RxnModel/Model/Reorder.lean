import RxnModel.Model.Batcher
/-!
# Model of `batching.ReorderFetcher` + `batching.ReorderBuffer` as a transition system

Threads of the Go code (batching/reorder_fetcher.go, batching/reorder_buffer.go):
* the **producer** (caller of `Add` / `Flush`): `batcher.Add`, `batcher.IsFull`, then `flush`;
* the **timeout goroutine**: receives a token from `BatchTimedOut`, then `flush(CurrentBatch)`
  (the token itself is ignored by the code);
* timer callbacks blocked sending on the unbuffered `BatchTimedOut`;
* one **fetch goroutine** per flushed batch: `fetchBatch`, `buffer.Add(seq, result)`, `buffer.Drain()`.

Each mutex section of the code is one action.  `flush` is
`flushMu.Lock; batcher.Flush; [hook]; Reserve (blocks while the buffer is full); flushMu.Unlock; go …`
i.e. the actions `lock`, `flushA`, `flushB`.  With `atomic = false` the `lock` action ignores the mutex:
that is the code before the repair of D17 (kept for the regression witness).
`Drain` holds the buffer mutex (`b.mu`) for the whole loop, also while it is blocked sending to a full `Output`
channel: `drainStart` takes the mutex, `drainNext` dequeues the next sequence number (or ends the drain and releases
the mutex), `send` puts one result into `Output` (enabled only while the channel has room), and the consumer's `recv`
takes one result out (for an unbuffered channel directly from the blocked sender). `buffer.Add` (`fetchDone`) needs
the same mutex. A fetch that returns an error still calls `buffer.Add` with its (empty) result, so its sequence
number is drained like any other: `fails` says which fetches fail.
-/
namespace Rxn.Reorder
open Rxn

inductive Tid where
  | prod
  | tmo
deriving Repr, DecidableEq, Inhabited

/-- program counter of a flusher thread -/
inductive Pc (α : Type) where
  | idle
  | added                 -- producer only: after `batcher.Add`, before `IsFull`
  | enter                 -- in `flush`, before `flushMu.Lock`
  | locked                -- holds `flushMu`, before `batcher.Flush`
  | mid (evs : List α)    -- holds `flushMu`, after `batcher.Flush`, before `Reserve`/`Unlock`
deriving Repr

def Pc.holds {α : Type} : Pc α → Bool
  | .locked => true
  | .mid _ => true
  | _ => false

structure St (α ρ : Type) where
  b : Batcher.St α
  pp : Pc α := .idle                 -- producer
  tp : Pc α := .idle                 -- timeout goroutine
  pendingTok : Nat := 0              -- timer callbacks blocked on `BatchTimedOut <- token`
  cap : Nat                          -- cap(reserved) (`BufferSize`, 0 replaced by 1)
  reserved : Nat := 0                -- len(reserved)
  nextSeq : Nat := 0                 -- `nextSeqNum`
  drainedSeq : Nat := 0              -- `drainedSeqNum`
  items : Nat → Option (List ρ) := fun _ => none   -- `items`
  inflight : List (Nat × List α) := []             -- fetch goroutines before `buffer.Add`
  drainers : Nat := 0                -- fetch goroutines after `buffer.Add` that have not finished their `Drain`
  drainer : Option (List ρ) := none  -- the goroutine inside `Drain` (holds `b.mu`): results of the dequeued batch still to send
  ocap : Nat := 0                    -- cap(Output) (`BufferSize` as given)
  outq : List ρ := []                -- contents of the `Output` channel
  errs : Nat := 0                    -- errors sent to `errChan`
  errored : List Nat := []           -- sequence numbers whose fetch goroutine has sent its error

/-- `NewReorderFetcher` over `NewEventBatcher` -/
def init {α ρ : Type} (maxSize : Nat) (hasDelay : Bool) (bufferSize : Nat) : St α ρ :=
  { b := Batcher.new maxSize hasDelay, cap := if bufferSize = 0 then 1 else bufferSize, ocap := bufferSize }

def pc {α ρ : Type} (s : St α ρ) : Tid → Pc α
  | .prod => s.pp
  | .tmo => s.tp

def setPc {α ρ : Type} (s : St α ρ) (t : Tid) (p : Pc α) : St α ρ :=
  match t with
  | .prod => { s with pp := p }
  | .tmo => { s with tp := p }

def other : Tid → Tid
  | .prod => .tmo
  | .tmo => .prod

inductive Act (α : Type) where
  | pAdd (x : α)          -- producer: `batcher.Add(x)`
  | pIsFull               -- producer: `batcher.IsFull()`; full ⇒ enters `flush`
  | pFlush                -- producer: public `Flush`
  | fire                  -- the armed timer callback starts sending its token
  | stale                 -- a callback that raced with `Stop` starts sending its token
  | tmoRecv               -- timeout goroutine receives a token and enters `flush`
  | lock (t : Tid)        -- `flushMu.Lock()`
  | flushA (t : Tid)      -- `batcher.Flush(CurrentBatch)`
  | flushB (t : Tid)      -- empty: unlock, return; else `Reserve` (blocks when full), unlock, spawn fetch
  | fetchErr (seq : Nat)  -- fetch goroutine whose fetch failed: `errChan <- err` (before `buffer.Add`, no mutex)
  | fetchDone (seq : Nat) -- fetch goroutine: `buffer.Add(seq, result)`
  | drainStart            -- a fetch goroutine enters `buffer.Drain()`: `b.mu.Lock()`
  | drainNext             -- next loop iteration: dequeue `items[drainedSeqNum]`, or end the drain (`b.mu.Unlock()`)
  | send                  -- `d.Output <- result` (needs room in the channel)
  | recv                  -- the consumer receives from `Output`
deriving Repr

def lookupSeq {α : Type} (seq : Nat) : List (Nat × List α) → Option (List α)
  | [] => none
  | (k, e) :: rest => if k = seq then some e else lookupSeq seq rest

/-- what the goroutine inside `Drain` still has to send of the batch it dequeued -/
def curOf {ρ : Type} : Option (List ρ) → List ρ
  | some l => l
  | none => []

/-- result of the fetch for the batch with sequence number `p.1`: a failed fetch hands `buffer.Add` an empty result -/
def resultOf {α ρ : Type} (f : List α → List ρ) (fails : Nat → Bool) (p : Nat × List α) : List ρ :=
  if fails p.1 then [] else f p.2

/-- one action; `none` = not enabled (the thread is blocked or not at that point). The second component
is what the consumer received from `Output`. -/
def step {α ρ : Type} (f : List α → List ρ) (fails : Nat → Bool) (atomic : Bool) (s : St α ρ) :
    Act α → Option (St α ρ × List ρ)
  | .pAdd x =>
    match s.pp with
    | .idle => some ({ s with b := Batcher.add s.b x, pp := .added }, [])
    | _ => none
  | .pIsFull =>
    match s.pp with
    | .added => some ({ s with pp := if Batcher.isFull s.b then .enter else .idle }, [])
    | _ => none
  | .pFlush =>
    match s.pp with
    | .idle => some ({ s with pp := .enter }, [])
    | _ => none
  | .fire =>
    if (Batcher.fire s.b).isSome then some ({ s with pendingTok := s.pendingTok + 1 }, []) else none
  | .stale =>
    if (Batcher.stale s.b).isSome then some ({ s with pendingTok := s.pendingTok + 1 }, []) else none
  | .tmoRecv =>
    match s.tp, s.pendingTok with
    | .idle, n + 1 => some ({ s with tp := .enter, pendingTok := n }, [])
    | _, _ => none
  | .lock t =>
    match pc s t with
    | .enter => if atomic && (pc s (other t)).holds then none else some (setPc s t .locked, [])
    | _ => none
  | .flushA t =>
    match pc s t with
    | .locked =>
      let r := Batcher.flush s.b .cur
      some (setPc { s with b := r.1 } t (.mid r.2), [])
    | _ => none
  | .flushB t =>
    match pc s t with
    | .mid [] => some (setPc s t .idle, [])
    | .mid (e :: es) =>
      if s.reserved < s.cap then
        some (setPc { s with reserved := s.reserved + 1, nextSeq := s.nextSeq + 1,
                              inflight := s.inflight ++ [(s.nextSeq, e :: es)] } t .idle, [])
      else none
    | _ => none
  | .fetchErr seq =>
    match lookupSeq seq s.inflight with
    | some _ =>
      if fails seq && !s.errored.contains seq then
        some ({ s with errs := s.errs + 1, errored := seq :: s.errored }, [])
      else none
    | none => none
  | .fetchDone seq =>
    match s.drainer, lookupSeq seq s.inflight with
    | none, some evs =>
      if fails seq && !s.errored.contains seq then none   -- the error is sent first
      else
        some ({ s with inflight := s.inflight.filter (fun p => p.1 != seq),
                       items := fun k => if k = seq then some (resultOf f fails (seq, evs)) else s.items k,
                       drainers := s.drainers + 1 }, [])
    | _, _ => none
  | .drainStart =>
    match s.drainer, s.drainers with
    | none, _ + 1 => some ({ s with drainer := some [] }, [])
    | _, _ => none
  | .drainNext =>
    match s.drainer with
    | some [] =>
      match s.items s.drainedSeq with
      | some x =>
        match s.reserved with
        | r + 1 =>
          some ({ s with items := fun k => if k = s.drainedSeq then none else s.items k,
                         drainedSeq := s.drainedSeq + 1, reserved := r, drainer := some x }, [])
        | 0 => none                                 -- would block on `<-b.reserved` (excluded by the invariant)
      | none =>
        match s.drainers with
        | n + 1 => some ({ s with drainer := none, drainers := n }, [])
        | 0 => none
    | _ => none
  | .send =>
    match s.drainer with
    | some (x :: rest) =>
      if s.outq.length < s.ocap then some ({ s with outq := s.outq ++ [x], drainer := some rest }, []) else none
    | _ => none
  | .recv =>
    match s.outq with
    | x :: q => some ({ s with outq := q }, [x])
    | [] =>
      match s.ocap, s.drainer with
      | 0, some (x :: rest) => some ({ s with drainer := some rest }, [x])   -- unbuffered: straight from the sender
      | _, _ => none

/-- what an action adds to the input sequence -/
def inputOf {α : Type} : Act α → List α
  | .pAdd x => [x]
  | _ => []

def inputs {α : Type} (as : List (Act α)) : List α := (as.map inputOf).flatten

/-- a run with its ghost history: all items added so far and everything the consumer received from `Output` so far -/
structure Run (α ρ : Type) where
  st : St α ρ
  ins : List α := []
  out : List ρ := []

def exec {α ρ : Type} (f : List α → List ρ) (fails : Nat → Bool) (atomic : Bool) :
    Run α ρ → List (Act α) → Option (Run α ρ)
  | r, [] => some r
  | r, a :: as =>
    match step f fails atomic r.st a with
    | none => none
    | some (s', o) => exec f fails atomic { st := s', ins := r.ins ++ inputOf a, out := r.out ++ o } as

def Pc.isIdle {α : Type} : Pc α → Bool
  | .idle => true
  | _ => false

/-- nothing left to do: both flushers idle, batch empty, no fetch goroutine alive, `Output` read empty -/
def quiescent {α ρ : Type} (s : St α ρ) : Prop :=
  s.pp.isIdle = true ∧ s.tp.isIdle = true ∧ s.b.batch = [] ∧ s.inflight = [] ∧ s.drainers = 0 ∧ s.outq = []

end Rxn.Reorder
