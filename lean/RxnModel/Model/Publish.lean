import RxnModel.Base.Bytes
import RxnModel.Generated.Facts
import RxnModel.Model.Store
/-!
# Model of snapshot publication, retention and restart (C13; shared with C12)

* `pathSegment` byte-exactly: base64url (no padding) of the big-endian 8-byte complement of the id;
  the complement base comes from `Generated/Facts.lean` (regenerated from `savepoint_artifact.go`).
* `LoadCheckpoint` as it is after the D14 repair: scan the whole listing, decode the id from every
  `job-<segment>.snapshot` name, keep the highest id (`loadNames`). The pre-repair rule
  ("first `.snapshot` of the byte-lexicographic listing") is kept as `loadFirstListed` for the
  regression witness.
* `finishSnapshotAsync` as it is after the D13 repair, split at its storage/lock boundaries:
  `write n` (file visible), `lock n` (the `stateMu` section: obsolete = completed ids `< n`,
  `completed := n :: newer`), then the two goroutines it starts: `remove ids` and the retained-ids
  notification. Notifications are queued under the lock (`retainedToAnnounce`) and sent by the single
  `announceRetained` goroutine in queue order (D54 repair): `deliver` takes the head. The rule of the unrepaired
  code (a goroutine per notification, any of the started ones may get through) is kept as `deliverAt` for the
  regression witness; `Pub.fifo` records whether all deliveries so far took the head (always, with `deliver`).
* `fileStore.Write` is atomic: object stores put whole objects and `LocalDirectory.Write` writes a temporary file
  `.tmp-<name>-<n>` and renames it (D60 repair). A crash inside a write is therefore a `crash` before `write n`, plus
  a leftover temporary file whose name is not a snapshot name (`tmp_name_ignored`). `loadOldWrite` keeps the old
  behaviour (final name visible before the content is complete) for the regression witness.
* `crash` = the job process is lost at this point and a new `Store` runs `LoadCheckpoint` on what is in storage.

`Pub.written` and `Pub.delivered` are history variables. Core-only (imported by the compiled driver).
-/
namespace Rxn.Publish
open Rxn

/-! ## file names -/

/-- `n` as `k` base-64 digits, least significant first -/
def digitsLE : Nat → Nat → List Nat
  | 0, _ => []
  | k + 1, n => (n % 64) :: digitsLE k (n / 64)

def undigitsLE : List Nat → Nat
  | [] => 0
  | d :: ds => d + 64 * undigitsLE ds

/-- `base64.URLEncoding` alphabet -/
def b64urlChar (v : Nat) : UInt8 :=
  if v < 26 then UInt8.ofNat (65 + v)            -- 'A'..'Z'
  else if v < 52 then UInt8.ofNat (97 + (v - 26)) -- 'a'..'z'
  else if v < 62 then UInt8.ofNat (48 + (v - 52)) -- '0'..'9'
  else if v = 62 then 45                          -- '-'
  else 95                                         -- '_'

def b64urlVal (c : UInt8) : Option Nat :=
  let n := c.toNat
  if 65 ≤ n ∧ n ≤ 90 then some (n - 65)
  else if 97 ≤ n ∧ n ≤ 122 then some (n - 97 + 26)
  else if 48 ≤ n ∧ n ≤ 57 then some (n - 48 + 52)
  else if n = 45 then some 62
  else if n = 95 then some 63
  else none

/-- `math.MaxUint64` as the code uses it -/
def complBase : Nat := Facts.segComplementOf

/-- `pathSegment`: 8 bytes big-endian = 64 bits, followed by two zero bits, as eleven sextets -/
def pathSegment (id : Nat) : Bytes :=
  ((digitsLE 11 ((complBase - id) * 4)).reverse).map b64urlChar

def vals : Bytes → Option (List Nat)
  | [] => some []
  | c :: cs => match b64urlVal c, vals cs with
    | some v, some vs => some (v :: vs)
    | _, _ => none

/-- `parsePathSegment` (`RawURLEncoding.DecodeString`, 8 bytes required, trailing two bits dropped) -/
def parseSegment (s : Bytes) : Option Nat :=
  if s.length = 11 then
    match vals s with
    | some vs => some (complBase - undigitsLE vs.reverse / 4)
    | none => none
  else none

def strBytes (s : String) : Bytes := s.toUTF8.toList

def namePrefix : Bytes := [106, 111, 98, 45]                                  -- "job-"
def nameSuffix : Bytes := [46, 115, 110, 97, 112, 115, 104, 111, 116]         -- ".snapshot"

/-- base name of the job snapshot file of checkpoint `id` -/
def snapName (id : Nat) : Bytes := namePrefix ++ pathSegment id ++ nameSuffix

def stripPrefix : Bytes → Bytes → Option Bytes
  | b, [] => some b
  | [], _ :: _ => none
  | a :: as, p :: ps => if a = p then stripPrefix as ps else none

/-- `checkpointIDFromFilePath` on a base name -/
def decodeName (name : Bytes) : Option Nat :=
  match stripPrefix name namePrefix with
  | none => none
  | some rest =>
    match stripPrefix rest.reverse nameSuffix.reverse with
    | none => none
    | some segRev => parseSegment segRev.reverse

/-! ## LoadCheckpoint -/

/-- the loop of `LoadCheckpoint`: keep the highest id seen so far -/
def loadLoop : List Nat → Option Nat → Option Nat
  | [], best => best
  | id :: rest, none => loadLoop rest (some id)
  | id :: rest, some b => loadLoop rest (if id > b then some id else some b)

/-- `LoadCheckpoint` over the decoded ids of a listing (any order) -/
def load (ids : List Nat) : Option Nat := loadLoop ids none

/-- `LoadCheckpoint` over a listing of file names: undecodable names are skipped -/
def loadNames (names : List Bytes) : Option Nat := load (names.filterMap decodeName)

def maxL : List Nat → Nat
  | [] => 0
  | x :: xs => max x (maxL xs)

/-- insertion into a byte-lexicographically ascending listing (what `List()` yields) -/
def insertName (n : Bytes) : List Bytes → List Bytes
  | [] => [n]
  | m :: ms => if Bytes.lt m n then m :: insertName n ms else n :: m :: ms

def sortNames (l : List Bytes) : List Bytes := l.foldr insertName []

/-- the rule of the unrepaired code: the first `.snapshot` file of the sorted listing -/
def loadFirstListed (ids : List Nat) : Option Nat :=
  match sortNames (ids.map snapName) with
  | [] => none
  | n :: _ => decodeName n

/-! ## publication -/

structure Pub where
  files : List Nat                 -- ids whose snapshot file is in storage
  completed : List Nat             -- ids of `completedSnapshots`, in slice order (last = CurrentCheckpoint)
  inflight : List (Nat × Bool)     -- finished snapshots whose goroutine has not passed the lock section; flag = written
  removes : List (List Nat)        -- started `Remove` goroutines that have not run yet
  notifs : List (List Nat)         -- started notification goroutines, in the order they were started
  written : List Nat               -- history: every id ever persisted (initial files included)
  delivered : List Nat             -- history: notified ids in delivery order
  initial : List Nat := []         -- history: the snapshot files the storage held when the model starts
  finished : List Store.Snap := [] -- history: every snapshot handed to the publisher (`finishSnapshot`), in order
  fifo : Bool := true              -- history: every delivery so far took the oldest started notification
deriving Repr, Inhabited

structure Sys where
  store : Store.St
  pub : Pub
  savepoint : Option Nat := none   -- the job's configuration: started with the savepoint URI of this checkpoint id
deriving Repr, Inhabited

/-- a new `Store` running `LoadCheckpoint` on storage content `files` -/
def boot (files written delivered : List Nat) (initial : List Nat := []) (finished : List Store.Snap := [])
    (fifo : Bool := true) : Sys :=
  { store := ⟨none, (load files).getD 0⟩,
    pub := { files, completed := (load files).toList, inflight := [], removes := [], notifs := [],
             written, delivered, initial, finished, fifo } }

/-- a new `Store` running `LoadCheckpoint` with `SavepointURI` set to the savepoint of checkpoint `id`, on a
storage holding the job snapshot files `files`: the savepoint becomes the current checkpoint; the id counter
continues after the savepoint's id, after the newest local snapshot file (D49 repair) and after the newest existing
savepoint artifact (D66 repair) -/
def bootSavepoint (id : Nat) (files written delivered : List Nat) (initial : List Nat := [])
    (finished : List Store.Snap := []) (spIds : List Nat := []) : Sys :=
  -- `spIds`: the checkpoint ids of the savepoint artifacts (`<segment>/job.savepoint`) in that storage; their ids are
  -- not handed out again either (D66 repair). The whole-system model has no artifact step and passes none.
  { store := Store.loadFromSavepoint id (max (maxL files) (maxL spIds)),
    pub := { files, completed := [id], inflight := [], removes := [], notifs := [], written, delivered,
             initial, finished } }

/-- a job configured with the savepoint URI of checkpoint `k` starts on storage holding the snapshot files `files0` -/
def initSavepoint (k : Nat) (files0 : List Nat) : Sys :=
  { bootSavepoint k files0 files0 [] files0 [] with savepoint := some k }

/-- the job starts on storage that already holds the snapshot files `files0` -/
def init (files0 : List Nat) : Sys := boot files0 files0 [] files0 []

inductive Act where
  | call (c : Store.Call)
  | write (n : Nat)
  | lock (n : Nat)
  | remove (ids : List Nat)
  | deliver             -- `announceRetained` sends the oldest queued notification
  | crash
deriving Repr

inductive Obs where
  | res (r : Store.Res)
  | finished (snap : Store.Snap)
  | wrote (n : Nat)
  | locked (n : Nat) (obsolete : List Nat) (notify : Bool)
  | removed (ids : List Nat)
  | notify (ids : List Nat)
  | loaded (id : Option Nat)
deriving Repr

def Pub.current (p : Pub) : Option Nat := p.completed.getLast?

/-- the `stateMu` section of `finishSnapshotAsync` for snapshot `n` -/
def lockUpdate (p : Pub) (n : Nat) : Pub × List Nat × Bool :=
  let obsolete := p.completed.filter (· < n)
  let newer := p.completed.filter (fun c => ¬ c < n)
  let doNotify := !obsolete.isEmpty && newer.isEmpty
  ({ p with completed := n :: newer,
            inflight := p.inflight.filter (· ≠ (n, true)),
            removes := if obsolete.isEmpty then p.removes else p.removes ++ [obsolete],
            notifs := if doNotify then p.notifs ++ [[n]] else p.notifs },
   obsolete, doNotify)

/-- the lock section of the unrepaired code (D13): every completed snapshot is obsolete, `completed := [n]` -/
def lockUpdateOld (p : Pub) (n : Nat) : Pub × List Nat × Bool :=
  let obsolete := p.completed
  ({ p with completed := [n],
            inflight := p.inflight.filter (· ≠ (n, true)),
            removes := if obsolete.isEmpty then p.removes else p.removes ++ [obsolete],
            notifs := if obsolete.isEmpty then p.notifs else p.notifs ++ [[n]] },
   obsolete, !obsolete.isEmpty)

/-- the k-th queued notification is received by the job. The repaired code only ever delivers the head (k = 0);
the unrepaired code sent every notification from its own goroutine, so any k was possible (D54). -/
def deliverAt (s : Sys) (k : Nat) : Option (Sys × List Obs) :=
  match s.pub.notifs[k]? with
  | none => none
  | some ids =>
    some ({ s with pub := { s.pub with notifs := s.pub.notifs.eraseIdx k, delivered := s.pub.delivered ++ ids,
                                       fifo := s.pub.fifo && k == 0 } }, [.notify ids])

/-- `LoadCheckpoint` under the unrepaired `LocalDirectory.Write` (D60): snapshot files were created under their
final name and filled afterwards, so a crash could leave the newest file cut off (`false`); the newest name is
picked and reading it fails (`none` = the job does not start). -/
def loadOldWrite (files : List (Nat × Bool)) : Option (Option Nat) :=
  match load (files.map (·.1)) with
  | none => some none
  | some n => if (n, true) ∈ files then some (some n) else none

/-- the name of a temporary file of `LocalDirectory.Write`: `.tmp-<final base name>-<digits>` -/
def tmpName (id : Nat) (suffix : Bytes) : Bytes := [46, 116, 109, 112, 45] ++ snapName id ++ [45] ++ suffix

def step (s : Sys) : Act → Option (Sys × List Obs)
  | .call c =>
    let (st', r, fin) := Store.step s.store c
    match fin with
    | none => some ({ s with store := st' }, [.res r])
    | some snap =>
      let pub' : Pub := { s.pub with inflight := s.pub.inflight ++ [(snap.id, false)],
                                     finished := s.pub.finished ++ [snap] }
      some ({ s with store := st', pub := pub' }, [.res r, .finished snap])
  | .write n =>
    if (n, false) ∈ s.pub.inflight then
      some ({ s with pub := { s.pub with
                files := n :: s.pub.files.filter (· ≠ n),
                inflight := s.pub.inflight.map (fun e => if e = (n, false) then (n, true) else e),
                written := n :: s.pub.written } }, [.wrote n])
    else none
  | .lock n =>
    if (n, true) ∈ s.pub.inflight then
      let (p', obsolete, doNotify) := lockUpdate s.pub n
      some ({ s with pub := p' }, [.locked n obsolete doNotify])
    else none
  | .remove ids =>
    if ids ∈ s.pub.removes then
      some ({ s with pub := { s.pub with files := s.pub.files.filter (· ∉ ids),
                                         removes := s.pub.removes.erase ids } }, [.removed ids])
    else none
  | .deliver => deliverAt s 0
  | .crash =>
    match s.savepoint with
    | none =>
      some (boot s.pub.files s.pub.written s.pub.delivered s.pub.initial s.pub.finished s.pub.fifo, [.loaded (load s.pub.files)])
    | some k =>
      -- a job configured with a savepoint URI keeps it: every restart takes the savepoint path of
      -- `LoadCheckpoint` again ("for now let savepoint always override using local checkpoints", D64)
      some ({ bootSavepoint k s.pub.files s.pub.written s.pub.delivered s.pub.initial s.pub.finished with savepoint := some k },
            [.loaded (some k)])

def run : Sys → List Act → Option (Sys × List Obs)
  | s, [] => some (s, [])
  | s, a :: as =>
    match step s a with
    | none => none
    | some (s', o) =>
      match run s' as with
      | none => none
      | some (s'', os) => some (s'', o ++ os)

end Rxn.Publish
