import RxnModel.Model.Runner
import RxnModel.Model.Reorder
/-!
# The source runner's delivery path with the *real* reorder fetcher: product of `Model/Runner` and `Model/Reorder`

`Model/Runner.lean` represents `keyEventChannel` by a FIFO of results. Here that component is replaced by the transition
system of `batching.ReorderFetcher` (`Model/Reorder.lean`, the one C20 proves things about and ties to the code), run
with `f = List.map keyOf` and no failing fetch (C04 is about failure-free runs):

* `enq`  — `sendKeyEvent`: the placeholder goes on `outputStream` and the loop goroutine calls `keyEventChannel.Add`,
           i.e. the fetcher's producer action `pAdd r` (enabled only when the producer is idle: the loop is inside `Add`
           until `pIsFull` / its flush are done);
* `rf a` — any internal action of the fetcher: `pIsFull`, both flushers' `lock/flushA/flushB`, timer `fire/stale`,
           `tmoRecv`, fetch completions in any order, the drain, `send`;
* `take` — the router's `asyncResult := <-r.keyEventChannel.Output` for a record placeholder: the fetcher's consumer action
           `recv`; the router works with the value *it received*;
* `run a` — every other action of `Model/Runner` (`fetch`, `tick`, `barrier` additionally need the fetcher's producer idle:
           they are cases of the loop's select).

`r.rfOut` is kept as a ghost copy of what the FIFO model would hold; no step reads it. `C04.product_coupled` shows it is
always the head-to-tail list of results the fetcher still owes, that the value received is its head, and hence that the
runner component of every product run is a run of `Model/Runner`.
-/
namespace Rxn.RunnerRF
open Rxn Runner

structure PSt (ρ : Type) where
  r : Runner.St ρ
  rf : Reorder.Run ρ (List KEv)
  rfas : List (Reorder.Act ρ) := []    -- ghost: the fetcher's actions so far

def init {ρ : Type} (maxSize : Nat) (hasDelay : Bool) : PSt ρ :=
  { r := Runner.init maxSize hasDelay,
    -- `BufferSize: r.batchingParams.MaxSize` (source_runner.go)
    rf := { st := Reorder.init maxSize hasDelay maxSize } }

inductive PAct (ρ : Type) where
  | run (a : Runner.Act ρ)
  | rf (a : Reorder.Act ρ)
  | enq
  | take

def rfStep {ρ : Type} (c : Cfg ρ) (p : PSt ρ) (a : Reorder.Act ρ) : Option (PSt ρ × List (List KEv)) :=
  match Reorder.step (List.map c.keyOf) (fun _ => false) true p.rf.st a with
  | some (s', o) =>
    some ({ p with rf := { st := s', ins := p.rf.ins ++ Reorder.inputOf a, out := p.rf.out ++ o }, rfas := p.rfas ++ [a] }, o)
  | none => none

def step {ρ : Type} (c : Cfg ρ) (p : PSt ρ) : PAct ρ → Option (PSt ρ)
  | .run a =>
    match a with
    | .enq => none
    | .rfEmit => none
    | .sTake =>
      match p.r.stream with
      | .record _ :: _ => none            -- a record placeholder is joined with a result: `take`
      | _ => (Runner.step c p.r .sTake).map (fun r' => { p with r := r' })
    | .fetch rs => if p.rf.st.pp.isIdle then (Runner.step c p.r (.fetch rs)).map (fun r' => { p with r := r' }) else none
    | .tick => if p.rf.st.pp.isIdle then (Runner.step c p.r .tick).map (fun r' => { p with r := r' }) else none
    | .barrier id => if p.rf.st.pp.isIdle then (Runner.step c p.r (.barrier id)).map (fun r' => { p with r := r' }) else none
    | a => (Runner.step c p.r a).map (fun r' => { p with r := r' })
  | .rf a =>
    match a with
    | .pAdd _ => none
    | .recv => none
    | .pFlush => none                     -- only on the unreachable end-of-input path
    | a => (rfStep c p a).map (·.1)
  | .enq =>
    match p.r.readBuf with
    | rec :: rest =>
      (rfStep c p (.pAdd rec)).map fun q =>
        { q.1 with r := { p.r with readBuf := rest, logical := p.r.logical ++ [.record rec], stream := p.r.stream ++ [.record rec],
                                   rfOut := p.r.rfOut ++ [c.keyOf rec] } }
    | [] => none
  | .take =>
    match p.r.spc, p.r.todo, p.r.stream with
    | .idle, [], .record rec :: rest =>
      match rfStep c p .recv with
      | some (q, [v]) =>
        some { q with r := { p.r with stream := rest, rfOut := p.r.rfOut.tail, todo := targetsOf c v (.record rec) } }
      | _ => none
    | _, _, _ => none

def exec {ρ : Type} (c : Cfg ρ) : PSt ρ → List (PAct ρ) → Option (PSt ρ)
  | p, [] => some p
  | p, a :: as =>
    match step c p a with
    | none => none
    | some p' => exec c p' as

end Rxn.RunnerRF
