import RxnModel.Generated.Facts
import RxnModel.Generated.Fns
/-!
# Files — which files a set of dkv instances keeps and deletes (C09)

Model of the file-lifetime rules of `dkv` as they are in the source:

* every `*sst.Table` object carries a `runtime.AddCleanup`: tables written by the instance (`sst.NewTable`) delete
  their file unconditionally when the object is collected; tables loaded from a checkpoint document
  (`sst.NewTableFromDocument`) ask `DataOwnership.ExclusivelyOwnsTable` first (`decision`);
* an object is kept alive by the level lists that hold it: the instance's current list, the lists captured by the
  checkpoints in its `CheckpointList`, and snapshots held by readers/compactions (`Inst.refs`);
* `DB.Checkpoint` captures the current list and the rotated WAL and saves the document; `UpdateRetainedCheckpoints`
  drops checkpoints from the list, saves, and deletes the WAL files of the dropped ones (`Act.retain`);
* `DB.NeedsTable` is what a neighbour answers (`needsTable`).

The garbage collector is the action `collect i u`, enabled only when the object is unreachable in the model.
Ghost state (`retained`, `floor`) records which checkpoints the *job* still retains: the property's "needed" set.
The rule constants come from `Generated/Facts.lean` (regenerated from the source on every run).
-/
namespace Rxn.Files
open Rxn

abbrev Path := String

/-- a WAL file: `<dir>/<num as %06d>.wal`. `ver` counts how often a file of this name was written before, so that a
file written over an older one is a different file: the older content is gone (an overwrite is a deletion). -/
structure Wal where
  dir : Nat
  num : Nat
  ver : Nat := 0
deriving DecidableEq, Repr

/-- the same file name -/
def Wal.same (a b : Wal) : Bool := a.dir == b.dir && a.num == b.num

/-- a file of the persistent store; table files and WAL files are different kinds of names -/
inductive File where
  | sst (p : Path)
  | wal (w : Wal)
deriving DecidableEq, Repr

/-- a table as a checkpoint document describes it: URI and the key groups of its first and last key -/
structure Tbl where
  uri : Path
  lo : Nat
  hi : Nat
deriving DecidableEq, Repr

/-- `partitioning.KeyGroupRangeFromBytes(startKey[:2], endKey[:2])` -/
def Tbl.span (t : Tbl) : KGRange := ⟨t.lo, t.hi + 1⟩

def uris (ts : List Tbl) : List Path := ts.map (·.uri)

/-- `recovery.Checkpoint`: id, captured level list, WAL handles, and whether it carries the URI index -/
structure Ckpt where
  id : Nat
  tables : List Tbl
  wals : List Wal
  fromDoc : Bool
deriving DecidableEq, Repr

/-- ghost: a checkpoint the job may restore from (what `writer`'s document says about checkpoint `id`) -/
structure Handle where
  writer : Nat
  id : Nat
  tables : List Tbl
  wals : List Wal
deriving DecidableEq, Repr

inductive Life where
  | alive
  | crashed   -- the process died: its objects never run cleanups
  | released  -- dropped inside a living process (redeploy): every object is collectable
deriving DecidableEq, Repr

/-- a neighbour's reply to `NeedsTable` -/
inductive Ans where
  | needs | no | err | hang
deriving DecidableEq, Repr

inductive Decision where
  | delete | keep | block
deriving DecidableEq, Repr

structure Inst where
  life : Life := .alive
  gen : Nat := 0
  range : KGRange := ⟨0, 0⟩
  /-- key-group ranges of the other operators of the assembly (`neighborPartition`s) -/
  nbrs : List KGRange := []
  current : List Tbl := []
  ckpts : List Ckpt := []
  snaps : List (List Tbl) := []
  /-- live Table objects made by `sst.NewTable` -/
  created : List Path := []
  /-- live Table objects made by `sst.NewTableFromDocument` -/
  loaded : List Tbl := []
  src : Option Nat := none
  /-- the storage directory (operator id) and the number of the WAL file the next checkpoint seals -/
  dir : Nat := 0
  walNext : Nat := 0
  /-- ghost: every table this instance has ever written or loaded -/
  made : List Path := []
  /-- ghost: the operator lineage — the number of the instance that was opened empty and of which this one is a
  (transitive) restart -/
  lin : Nat := 0
deriving Repr

structure State where
  insts : List Inst := []
  files : List File := []
  used : List Path := []
  retained : List Handle := []
  /-- ghost: the job has dropped every checkpoint id ≤ floor -/
  floor : Nat := 0
  nextId : Nat := 1
  /-- instances that have saved their checkpoints document at least once (a restored instance has none until its
  first checkpoint or retention update) -/
  docs : List Nat := []
  /-- every WAL file ever written -/
  usedW : List Wal := []
deriving Repr

/-! ## reachability of table objects -/

def Inst.refs (i : Inst) (u : Path) : Bool :=
  (uris i.current).contains u || i.ckpts.any (fun c => (uris c.tables).contains u) ||
    i.snaps.any (fun s => (uris s).contains u)

def Inst.unreachable (i : Inst) (u : Path) : Bool :=
  match i.life with
  | .alive => !i.refs u
  | .released => true
  -- a dead process runs no cleanups; the harness keeps a crashed instance's roots alive instead, so objects that were
  -- already garbage at the crash may still be collected (more behaviours than a real crash, never fewer)
  | .crashed => !i.refs u

/-! ## the rules read from the source -/

/-- `Checkpoint.IncludesTable` -/
def ckptIncludes (c : Ckpt) (u : Path) : Bool :=
  if c.fromDoc || Facts.c09CkptUsesLevels == 1 then (uris c.tables).contains u else false

/-- `DB.NeedsTable` -/
def needsTable (i : Inst) (u : Path) : Bool :=
  i.ckpts.any (fun c => ckptIncludes c u) || (Facts.c09NeedsChecksLive == 1 && (uris i.current).contains u)

/-- `DB.NeedsTable` is two reads that are not atomic together: the live level list (under `db.mu`) and the checkpoint
list (under its own mutex). Checkpoints and compaction commits can land in between, so the two reads may see
different states `x1`, `x2` of the instance. The order of the reads is read from the source. -/
def readLive (x : Inst) (u : Path) : Bool := Facts.c09NeedsChecksLive == 1 && (uris x.current).contains u
def readCkpts (x : Inst) (u : Path) : Bool := x.ckpts.any (fun c => ckptIncludes c u)
def needsFirst (x : Inst) (u : Path) : Bool := if Facts.c09NeedsLiveFirst == 1 then readLive x u else readCkpts x u
def needsSecond (x : Inst) (u : Path) : Bool := if Facts.c09NeedsLiveFirst == 1 then readCkpts x u else readLive x u
def needsTable2 (x1 x2 : Inst) (u : Path) : Bool := needsFirst x1 u || needsSecond x2 u

/-- how an answer reaches `ExclusivelyOwnsTable`: the query context has no deadline (`c09OwnsNoDeadline`), so a
neighbour that does not answer keeps the call waiting, and an error is passed on as an error (`c09OwnsErrPassed`).
With a deadline a silent neighbour would turn into an error at best, and a swallowed error into a "no". -/
def arrives (a : Ans) : Ans :=
  match a with
  | .hang => if Facts.c09OwnsNoDeadline == 1 then .hang else (if Facts.c09OwnsErrPassed == 1 then .err else .no)
  | .err => if Facts.c09OwnsErrPassed == 1 then .err else .no
  | a => a

/-- the answers that count: a neighbour whose range does not overlap the table is not asked
(`neighborPartition.NeedsTable`) -/
def effective (t : Tbl) (nbrs : List (KGRange × Ans)) : List Ans :=
  nbrs.map fun ra => if Gen.kgOverlaps ra.1 t.span then arrives ra.2 else Ans.no

/-- `OperatorPartition.ExclusivelyOwnsTable` followed by the cleanup's `if canDelete` -/
def decision (own : KGRange) (t : Tbl) (nbrs : List (KGRange × Ans)) : Decision :=
  if Gen.kgContains own t.span then .delete else
  let eff := effective t nbrs
  if eff.contains .needs then .keep
  else if eff.contains .hang then .block
  else if eff.contains .err then (if Facts.c09OwnsErrKeeps == 1 then .keep else .delete)
  else .delete

/-! ## actions -/

inductive Act where
  | openFresh (range : KGRange) (gen : Nat) (nbrs : List KGRange) (dir : Nat)
  /-- restore from checkpoint `id` of the documents of the writers `ws` (several after a scale-in) -/
  | openFrom (range : KGRange) (gen : Nat) (nbrs : List KGRange) (ws : List Nat) (id : Nat) (dir : Nat)
  | flush (i : Nat) (t : Tbl)
  | compact (i : Nat) (rm : List Path) (add : List Tbl)
  | ckpt (i id : Nat) (wal : Wal)
  | jobDrop (k : Nat)
  /-- the job gives up checkpoint `id` (it was never completed by every operator, or the job rolls back past it):
  like `jobDrop` a decision of the JOB — nothing else removes a handle from `retained` -/
  | jobAbandon (id : Nat)
  | retain (i : Nat) (ids : List Nat)
  | snap (i : Nat)
  | unsnap (i k : Nat)
  | crash (i : Nat)
  | release (i : Nat)
  | collect (i : Nat) (u : Path) (answers : List Ans)
  /-- `Operator.HandleDeploy` on an operator that already serves instance `i`, ending in a load failure (or still
  loading): `o.db` is assigned only after `dkv.Open` returned, so the operator keeps serving — and answering
  `NeedsTable` from — the instance it had -/
  | redeployFailed (i : Nat)
  /-- D63 / D70: an instance dropped inside a living process (`release`) still writes a table file later, under the
  name its own numbering reserved — a name the instance reopened in the same directory may have used meanwhile. The
  file that had this name is overwritten or deleted with the late table object: its content is gone. D63 (repaired,
  f9820ca) was the case of a flush or compaction already in flight at the redeploy: the code now closes the previous
  database first and `DB.Close` waits for every background task enqueued so far (`drained`). D70 (open) is what is
  left: `Close` does not stop intake, and the operator's event goroutine can still apply a batch to the old store
  until `dkv.Open` has returned, so a flush enqueued AFTER `Close` returned lands in the reopened directory
  (`fenced` is false). The action is outside every theorem scope. -/
  | lateWrite (i : Nat) (t : Tbl)
deriving Repr

def setInst (s : State) (i : Nat) (x : Inst) : State := { s with insts := s.insts.set i x }

def rmFile (fs : List File) (f : File) : List File := fs.filter (· ≠ f)

/-- `Checkpoint.Destroy` deletes WAL files by name: whatever file currently has the name of one of `ws` -/
def rmWals (fs : List File) (ws : List Wal) : List File := fs.filter fun f =>
  match f with
  | .wal v => !ws.any (fun w => w.same v)
  | .sst _ => true

/-- saving a WAL file replaces whatever file had its name -/
def clobber (fs : List File) (w : Wal) : List File := fs.filter fun f =>
  match f with
  | .wal v => !w.same v
  | .sst _ => true

/-- `Checkpoint.NextWALID`: one more than the LARGEST WAL number among the handles of the loaded checkpoint
(`c09NextWalIsMax`; the handles of a composite checkpoint are in document order, not in numbering order) -/
def nextWalId (ws : List Wal) : Nat :=
  if Facts.c09NextWalIsMax == 1 then ws.foldl (fun m w => max m w.num) 0 + 1
  else match ws.getLast? with
    | some w => w.num + 1
    | none => 0

/-- a compaction's change set removes table OBJECTS: one entry of the level list per listed URI (a composite
checkpoint may list a table once per handle, and a compaction may take only one of the twins) -/
def dropOne (cur : List Tbl) (u : Path) : List Tbl :=
  match cur with
  | [] => []
  | t :: ts => if t.uri == u then ts else t :: dropOne ts u

def dropTables (cur : List Tbl) (rm : List Path) : List Tbl := rm.foldl dropOne cur

def allFresh (used : List Path) : List Path → Bool
  | [] => true
  | p :: ps => !used.contains p && allFresh (p :: used) ps

/-- `CheckpointList.RetainOnly`: a checkpoint stays if its id is listed, or if it is newer than every listed id (it
belongs to a job checkpoint that is still being completed) -/
def keeps (ids : List Nat) (c : Ckpt) : Bool := ids.contains c.id || ids.foldl max 0 < c.id
def droppedOf (cs : List Ckpt) (ids : List Nat) : List Ckpt := cs.filter fun c => !keeps ids c
def keptOf (cs : List Ckpt) (ids : List Nat) : List Ckpt := cs.filter fun c => keeps ids c
def walsOf (cs : List Ckpt) : List Wal := cs.flatMap (·.wals)

def writerAlive (s : State) (w : Nat) : Bool :=
  match s.insts[w]? with
  | some x => x.life = .alive
  | none => false

/-- the entry for checkpoint `id` in the document of instance `w` (its checkpoint list as last saved) -/
def docEntry (s : State) (w id : Nat) : Option Ckpt :=
  match s.insts[w]? with
  | none => none
  | some wi => if s.docs.contains w then wi.ckpts.find? (fun c => c.id == id) else none

/-- tables and WAL handles of the composite checkpoint, in handle order; `none` if a document lacks the id -/
def gather (s : State) : List Nat → Nat → Option (List Tbl × List Wal)
  | [], _ => some ([], [])
  | w :: ws, id =>
    match docEntry s w id, gather s ws id with
    | some c, some (ts, wl) => some (c.tables ++ ts, c.wals ++ wl)
    | _, _ => none

/-- saving the `checkpoints` document of instance `i` replaces the document of any earlier instance of the same
directory -/
def saveDoc (s : State) (i dir : Nat) : List Nat :=
  i :: s.docs.filter fun k => match s.insts[k]? with
    | some y => y.dir != dir
    | none => true

/-- the file a late background write leaves under the name `u`: same name, other content -/
def lateName (u : Path) : Path := u ++ "'"

/-- a new, empty instance -/
@[reducible] def freshInst (range : KGRange) (gen : Nat) (nbrs : List KGRange) (dir lin : Nat) : Inst :=
  { gen := gen, range := range, nbrs := nbrs, dir := dir, lin := lin }

/-- an instance restored from a composite checkpoint with tables `ts` and WALs `wl` -/
@[reducible] def restoredInst (range : KGRange) (gen : Nat) (nbrs : List KGRange) (ts : List Tbl) (wl : List Wal)
    (id dir lin : Nat) : Inst :=
  { gen := gen, range := range, nbrs := nbrs, current := ts, loaded := ts, ckpts := [⟨id, ts, wl, true⟩],
    src := some id, dir := dir, walNext := nextWalId wl, made := uris ts, lin := lin }

/-- the lineage of the first writer a restore reads from -/
def linOf (s : State) (ws : List Nat) : Nat :=
  match ws with
  | w :: _ => match s.insts[w]? with
    | some y => y.lin
    | none => 0
  | [] => 0

/-- the code's rules about the previous instance of a directory at a redeploy, read from the source on every run:
`drained` — `HandleDeploy` closes the previous database before it reopens the directory, and `DB.Close` waits for every
background task the instance had enqueued (the D63 repair); `fenced` — nothing can write to the closed instance
afterwards. `lateWrite` is impossible only if both hold. As the code is, `fenced` is false (D70): the operator's event
goroutine applies a batch to the old store without the operator's mutex, `Close` drains once and does not stop intake,
so a flush enqueued after `Close` returned still lands in the reopened directory. -/
def drained : Bool := Facts.c09DeployClosesFirst == 1 && Facts.c09CloseWaits == 1
def fenced : Bool := Facts.c09WritersFenced == 1
def quiesced : Bool := drained && fenced

def step (s : State) : Act → Option State
  | .openFresh range gen nbrs dir =>
    some { s with insts := s.insts ++ [freshInst range gen nbrs dir s.insts.length] }
  | .openFrom range gen nbrs ws id dir =>
    -- `recovery.LoadCheckpointList`: the entries with the handle's id of every document, merged into one checkpoint
    match ws, gather s ws id with
    | [], _ => none
    | _ :: _, none => none
    | _ :: _, some (ts, wl) =>
      -- the job's retained set is untouched: a restart does not drop any checkpoint
      some { s with insts := s.insts ++ [restoredInst range gen nbrs ts wl id dir (linOf s ws)] }
  | .flush i t =>
    match s.insts[i]? with
    | none => none
    | some x =>
      if x.life = .alive ∧ ¬ s.used.contains t.uri then
        some { setInst s i { x with current := t :: x.current, created := t.uri :: x.created,
                                     made := t.uri :: x.made } with
               files := .sst t.uri :: s.files, used := t.uri :: s.used }
      else none
  | .compact i rm add =>
    match s.insts[i]? with
    | none => none
    | some x =>
      if x.life = .alive ∧ allFresh s.used (uris add) ∧ rm.all (fun u => (uris x.current).contains u) then
        some { setInst s i { x with current := dropTables x.current rm ++ add,
                                     created := uris add ++ x.created, made := uris add ++ x.made } with
               files := (uris add).map File.sst ++ s.files, used := uris add ++ s.used }
      else none
  | .ckpt i id wal =>
    match s.insts[i]? with
    | none => none
    | some x =>
      -- the sealed WAL is file number `walNext` of the instance's directory (whatever had that name is overwritten)
      if x.life = .alive ∧ s.floor < id ∧ x.ckpts.all (fun c => c.id != id) ∧ ¬ s.usedW.contains wal ∧
          wal.dir = x.dir ∧ wal.num = x.walNext then
        some { setInst s i { x with ckpts := x.ckpts ++ [⟨id, x.current, [wal], false⟩], walNext := x.walNext + 1 } with
               files := .wal wal :: clobber s.files wal, usedW := wal :: s.usedW,
               retained := ⟨i, id, x.current, [wal]⟩ :: s.retained, nextId := max s.nextId (id + 1),
               docs := saveDoc s i x.dir }
      else none
  | .jobDrop k =>
    if k < s.nextId then
      some { s with retained := s.retained.filter (fun h => k < h.id), floor := max s.floor k }
    else none
  | .jobAbandon id => some { s with retained := s.retained.filter (fun h => h.id != id) }
  | .retain i ids =>
    match s.insts[i]? with
    | none => none
    | some x =>
      if x.life = .alive ∧ keptOf x.ckpts ids ≠ [] then
        some { setInst s i { x with ckpts := keptOf x.ckpts ids } with
               files := rmWals s.files (walsOf (droppedOf x.ckpts ids)), docs := saveDoc s i x.dir }
      else none
  | .snap i =>
    match s.insts[i]? with
    | none => none
    | some x => if x.life = .alive then some (setInst s i { x with snaps := x.current :: x.snaps }) else none
  | .unsnap i k =>
    match s.insts[i]? with
    | none => none
    | some x => if x.life = .alive then some (setInst s i { x with snaps := x.snaps.eraseIdx k }) else none
  | .crash i =>
    match s.insts[i]? with
    | none => none
    | some x => if x.life = .alive then some (setInst s i { x with life := .crashed }) else none
  | .release i =>
    match s.insts[i]? with
    | none => none
    | some x => if x.life = .alive then some (setInst s i { x with life := .released }) else none
  | .collect i u answers =>
    match s.insts[i]? with
    | none => none
    | some x =>
      if x.unreachable u then
        if x.created.contains u then
          some { setInst s i { x with created := x.created.erase u } with
                 files := if Facts.c09CreatedDeletes == 1 then rmFile s.files (.sst u) else s.files }
        else
          match x.loaded.find? (fun t => t.uri == u) with
          | none => none
          | some t =>
            let d := decision x.range t (x.nbrs.zip answers)
            some { setInst s i { x with loaded := x.loaded.erase t } with
                   files := if d = .delete ∨ Facts.c09LoadedGuarded ≠ 1 then rmFile s.files (.sst u) else s.files }
      else none
  | .redeployFailed i =>
    match s.insts[i]? with
    | none => none
    | some x => if x.life = .alive then some s else none
  | .lateWrite i t =>
    match s.insts[i]? with
    | none => none
    | some x =>
      if x.life = .released then
        some { s with files := .sst (lateName t.uri) :: rmFile s.files (.sst t.uri), used := lateName t.uri :: s.used }
      else none

def run (s : State) : List Act → Option State
  | [] => some s
  | a :: as => match step s a with
    | some s' => run s' as
    | none => none

/-! ## the property's "needed" set -/

def liveTables (s : State) : List Path :=
  s.insts.flatMap fun x => if x.life = .alive then uris x.current else []

def handleFiles (h : Handle) : List File := (uris h.tables).map File.sst ++ h.wals.map File.wal

def needed (s : State) : List File :=
  (liveTables s).map File.sst ++ s.retained.flatMap handleFiles

def Safe (s : State) : Prop := ∀ f ∈ needed s, f ∈ s.files

def missing (s : State) : List File := (needed s).filter fun f => !s.files.contains f

/-! ## what the neighbours of an instance answer (used by the driver and by the theorems' hypotheses) -/

/-- the instance of the same assembly that currently serves the given key-group range -/
def neighbourAt (s : State) (gen : Nat) (r : KGRange) : Option Inst :=
  s.insts.find? fun x => x.life = .alive ∧ x.gen = gen ∧ x.range = r

/-- a truthful answer: an operator that is not running (or not deployed yet) cannot be asked -/
def truthful (s : State) (gen : Nat) (u : Path) (r : KGRange) : Ans :=
  match neighbourAt s gen r with
  | some x => if needsTable x u then .needs else .no
  | none => .err

/-! ## scope of the global theorem: one instance, opened empty, never reopened (`Props/C09.lean`) -/

/-- the job only asks an operator to drop checkpoints it no longer retains -/
def retainOk (s : State) (i : Nat) (ids : List Nat) : Bool :=
  match s.insts[i]? with
  | none => false
  | some x => (droppedOf x.ckpts ids).all fun c => c.id ≤ s.floor

def inScope (s : State) : Act → Bool
  | .openFresh .. => false
  | .openFrom .. => false
  | .release _ => false
  | .lateWrite .. => false
  | .retain i ids => retainOk s i ids
  | _ => true

def runIn (s : State) : List Act → Option State
  | [] => some s
  | a :: as => if inScope s a then
      match step s a with
      | some s' => runIn s' as
      | none => none
    else none

def init1 (range : KGRange) (nbrs : List KGRange) : State :=
  { insts := [{ range := range, nbrs := nbrs }] }


/-! ## scope of the lineage theorem: one running instance at a time, any number of crash + reopen generations -/

def noneAlive (s : State) : Bool := s.insts.all fun x => decide (x.life ≠ .alive)

def aliveAt (s : State) (i : Nat) : Bool :=
  match s.insts[i]? with
  | some x => decide (x.life = .alive)
  | none => false

/-- the restart uses the NEWEST checkpoint the job retains of the operator (lineage) of instance `w`: no retained
handle written by an instance of that lineage has a larger id (D68: the restarted instance knows only the checkpoint
it restored from, so newer retained checkpoints of its predecessors lose their tables once it drops that one) -/
def newestOf (s : State) (w id : Nat) : Bool :=
  s.retained.all fun h => decide (h.id ≤ id) || (match s.insts[h.writer]? with
    | some y => y.lin != linOf s [w]
    | none => true)

/-- * an instance is opened only when no other is running — empty when the job has no checkpoint, otherwise from ONE
  checkpoint handle the job still retains, the NEWEST one it retains (a restart from an older retained checkpoint
  while a newer one is retained is D68; to roll back further the job first abandons the newer ones, `jobAbandon`);
* every instance gets a storage directory of its own (directory number = instance number);
* no instance is released inside a living process (D25), and a dead process runs no cleanups; that no background
  write of a previous instance lands after its directory was reopened (`lateWrite`: D63 repaired for tasks in flight,
  `drained`; D70 open for writes accepted after `Close`) is an assumption — this scope has no in-process redeploy anyway;
* the job asks an operator to drop only checkpoints it has dropped (oldest first: `jobDrop`). -/
def inScopeL (s : State) : Act → Bool
  | .openFresh _ _ _ dir => noneAlive s && s.retained.isEmpty && dir == s.insts.length
  | .openFrom _ _ _ ws id dir =>
    noneAlive s && dir == s.insts.length && (match ws with
      | [w] => (s.retained.any fun h => h.writer == w && h.id == id) && s.retained.all fun h => decide (h.id ≤ id)
      | _ => false)
  | .release _ => false
  | .lateWrite .. => false
  | .retain i ids => retainOk s i ids
  | .collect i _ _ => aliveAt s i
  | _ => true

def runL (s : State) : List Act → Option State
  | [] => some s
  | a :: as => if inScopeL s a then
      match step s a with
      | some s' => runL s' as
      | none => none
    else none


/-! ## scope of the concurrency theorem: any number of operators running at the same time, none reopened -/

/-- The deployment without rescale and without restart: operators are opened empty at any moment, each in a storage
directory of its own, and run concurrently; any of them may crash at any time (and is then not reopened); no instance
is released inside a living process (D25); the job asks an operator to drop only checkpoints it has dropped. -/
def inScopeN (s : State) : Act → Bool
  | .openFresh _ _ _ dir => dir == s.insts.length
  | .openFrom .. => false
  | .release _ => false
  | .lateWrite .. => false
  | .retain i ids => retainOk s i ids
  | _ => true

def runN (s : State) : List Act → Option State
  | [] => some s
  | a :: as => if inScopeN s a then
      match step s a with
      | some s' => runN s' as
      | none => none
    else none


/-! ## scope of the composed theorem: operators running at the same time, each of which may crash and be restarted -/

/-- Several operator lineages side by side. An operator is opened empty at any moment (a new lineage), or — when no
instance of that lineage is running — restored from ONE checkpoint handle the job still retains, written by an earlier
instance of a lineage (a restart of that operator) and the NEWEST the job retains of that lineage (`newestOf`: to roll
back further the job first abandons the newer ones, `jobAbandon`; otherwise D68); every instance gets a storage directory of its own; operators
never restore from another running lineage's handle at the same time as that lineage runs (no shared tables); no
in-process release (D25) and hence no late writes of a released instance (D63 repaired / D70 open), a dead process runs no cleanups, the
job asks an operator to drop only checkpoints it has dropped. -/
def inScopeC (s : State) : Act → Bool
  | .openFresh _ _ _ dir => dir == s.insts.length
  | .openFrom _ _ _ ws id dir =>
    dir == s.insts.length && (match ws with
      | [w] => (s.retained.any fun h => h.writer == w && h.id == id) && newestOf s w id &&
          s.insts.all (fun y => !(decide (y.life = .alive) && y.lin == linOf s [w]))
      | _ => false)
  | .release _ => false
  | .lateWrite .. => false
  | .retain i ids => retainOk s i ids
  | .collect i _ _ => aliveAt s i
  | _ => true

def runC (s : State) : List Act → Option State
  | [] => some s
  | a :: as => if inScopeC s a then
      match step s a with
      | some s' => runC s' as
      | none => none
    else none

end Rxn.Files
