/-!
# Source splits: who reads what, and from where (C16)

Models of
* `util/sliceu.Partition` and the embedded / httpapi `SourceSplitter.Start`,
* the source runner event loop (`workers/sourcerunner/source_runner.go processEvents`) with an abstract reader:
  cursors move only in `read`, `barrier` snapshots the cursors and then queues the barrier on the output stream,
* the Kinesis `SplitTracker`, `uniformlyAssignShard` and `SourceSplitter` (`Start`, the discovery tick,
  `NotifySplitsFinished`, `Checkpoint`, restore) together with the stream they observe (`kinesisfake`).

Integers are `Nat`. Kinesis shard ids `shardId-%012d` are modelled by their number (string order = numeric order),
`LastAssignedSplitID` by `next` = number of the first shard that discovery lists (`""` ↦ 0, `shardId-k` ↦ k+1).
Core Lean only.
-/
namespace Rxn.Splits

/-! ## `sliceu.Partition` -/

/-- `groups[groupIndex] = append(groups[groupIndex], el)` -/
def addAt {α : Type} : List (List α) → Nat → α → List (List α)
  | [], _, _ => []
  | g :: gs, 0, x => (g ++ [x]) :: gs
  | g :: gs, i + 1, x => g :: addAt gs i x

/-- `if groupIndex < maxGroupIndex { groupIndex++ } else { groupIndex = 0 }` with `maxGroupIndex = n - 1` -/
def bump (n gi : Nat) : Nat := if gi < n - 1 then gi + 1 else 0

def partLoop {α : Type} (n : Nat) : List α → List (List α) → Nat → List (List α)
  | [], gs, _ => gs
  | x :: xs, gs, gi => partLoop n xs (addAt gs gi x) (bump n gi)

/-- `sliceu.Partition(slice, groupCount)` for `groupCount ≥ 1` (the Go code panics below 1) -/
def partition {α : Type} (xs : List α) (n : Nat) : List (List α) :=
  partLoop n xs (List.replicate n []) 0

/-- embedded `SourceSplitter.Start`: splits `0..k-1`, runner `i` gets group `i` -/
def embeddedAssign (splitCount runners : Nat) : List (List Nat) :=
  partition (List.range splitCount) runners

/-- httpapi `SourceSplitter.Start`: the cursor is the last non-empty split state -/
def httpCursor {α : Type} (states : List (List α)) : List α :=
  states.foldl (fun acc d => if d.isEmpty then acc else d) []

/-! ## The source runner loop and the barrier cut -/

inductive Ev where
  | record (split idx : Nat)
  | barrier (id : Nat)
deriving DecidableEq, Repr

/-- one assigned split of the reader: split id, position it was assigned with, current position -/
structure RSplit where
  split : Nat
  init : Nat
  cur : Nat
deriving DecidableEq, Repr

/-- a checkpoint report: id, position of the barrier on the output stream (ghost), `SplitStates` -/
structure Report where
  id : Nat
  pos : Nat
  snap : List RSplit
deriving Repr

structure RSt where
  splits : List RSplit := []   -- reader state, in assignment order
  out : List Ev := []          -- everything put on `outputStream` so far (placeholders carry their record)
  reports : List Report := []  -- `OnSourceRunnerCheckpointComplete` calls
  finished : List (Nat × Nat) := []  -- splits the reader has dropped (shard end), with the stream position at that moment
deriving Repr

inductive RAct where
  | assign (splits : List (Nat × Nat))  -- `splitsWereAssigned`: (split, cursor)
  | read (batch : List Nat)             -- one `ReadEvents`: the splits of the returned records, in order
  | barrier (id : Nat)                  -- `checkpointBarrier`
  | drop (split : Nat)                  -- the reader reached the end of the split and dropped it
deriving Repr

def hasSplit (ss : List RSplit) (s : Nat) : Bool := ss.any (·.split == s)

/-- reader `AssignSplits`: the split is appended (kinesis, embedded and httpapi readers append unconditionally) -/
def assignOne (ss : List RSplit) (sc : Nat × Nat) : List RSplit := ss ++ [⟨sc.1, sc.2, sc.2⟩]

/-- the split ids a history assigns to the reader; the splitters hand every split to one reader once per deployment
(`C16.one_reader`, `C16.partition_disjoint`) and a deployment starts with a fresh reader, so they are distinct -/
def assignedIds : List RAct → List Nat
  | [] => []
  | .assign l :: as => l.map (·.1) ++ assignedIds as
  | .read _ :: as => assignedIds as
  | .barrier _ :: as => assignedIds as
  | .drop _ :: as => assignedIds as

/-- advance the cursor of split `s` (split ids are unique in the reader) -/
def advance (ss : List RSplit) (s : Nat) : List RSplit :=
  ss.map fun r => if r.split == s then { r with cur := r.cur + 1 } else r

def curOf : List RSplit → Nat → Option Nat
  | [], _ => none
  | r :: rs, s => if r.split == s then some r.cur else curOf rs s

/-- one record of split `s` is read (cursor moves) and its placeholder is put on the output stream -/
def isFinished (st : RSt) (s : Nat) : Bool := st.finished.any (·.1 == s)

def readLive (st : RSt) (s : Nat) : RSt :=
  match curOf st.splits s with
  | none => st
  | some c => { st with splits := advance st.splits s, out := st.out ++ [Ev.record s c] }

/-- a dropped split is not read any more -/
def readOne (st : RSt) (s : Nat) : RSt := if isFinished st s then st else readLive st s

def rstep (st : RSt) : RAct → RSt
  | .assign l => { st with splits := l.foldl assignOne st.splits }
  | .read b => b.foldl readOne st
  | .barrier n =>
    -- `createCheckpoint` (cursor snapshot of the splits the reader still holds) and then `outputStream <- barrier`
    { st with reports := st.reports ++ [⟨n, st.out.length, st.splits.filter fun r => !isFinished st r.split⟩],
              out := st.out ++ [Ev.barrier n] }
  | .drop s => { st with finished := st.finished ++ [(s, st.out.length)] }

def rrun (st : RSt) (as : List RAct) : RSt := as.foldl rstep st

def isRec (s : Nat) : Ev → Bool
  | .record s' _ => s' == s
  | _ => false

/-- indices of the records of split `s` in a stretch of the output stream -/
def recIdx (s : Nat) : List Ev → List Nat
  | [] => []
  | .record s' i :: es => if s' == s then i :: recIdx s es else recIdx s es
  | _ :: es => recIdx s es

/-! ## The Kinesis `SourceReader` under the runner loop, with failing reads

`connectors/kinesis/source_reader.go ReadEvents` polls one assigned shard per call (round robin). A shard's position
(records read so far; the reported cursor is the sequence number of the last one) moves only after its `GetRecords`
succeeded; when it fails the call returns the error and nothing has moved. `connectors.ReadSourceChannel` hands a
retryable error to the loop with no events, and the loop continues. -/

structure KRd where
  r : RSt := {}
  idx : Nat := 0                    -- `shardIndex`
  totals : List (Nat × Nat) := []   -- environment: records in each shard
  limit : Nat := 1                  -- environment: records per `GetRecords`
  failIn : Nat := 0                 -- environment: the `failIn`-th `GetRecords` from now fails (0 = none)
  closed : List Nat := []           -- environment: closed shards (split or merged away): they end
  iter : List Nat := []             -- shards for which the reader holds a shard iterator
  expired : List Nat := []          -- environment: shards whose iterator has expired
deriving Repr

inductive KAct where
  | put (shard n : Nat)
  | assign (l : List (Nat × Nat))   -- (shard, position)
  | fail (k : Nat)
  | read                            -- one `ReadEvents` through `ReadSourceChannel` and the loop
  | barrier (id : Nat)
  | close (shard : Nat)             -- environment: the shard is closed
  | expire                          -- environment: every shard iterator handed out so far expires
deriving Repr

/-- `assignedShards`: the shards the reader still holds, in assignment order -/
def activeOf (r : RSt) : List RSplit := r.splits.filter fun x => !isFinished r x.split

def totalOf (t : List (Nat × Nat)) (s : Nat) : Nat := t.foldl (fun acc p => if p.1 == s then acc + p.2 else acc) 0

/-- a `GetRecords` that succeeds on shard `sp`: its records are emitted in one piece and the position moves; at the
shard's end (`NextShardIterator == nil`) the job is notified and the shard is dropped from `assignedShards`
(`shardIndex` stays and is brought back into range), otherwise the next shard is polled next time -/
def kreadOk (k : KRd) (sp : RSplit) : KRd × Option (Option Nat) :=
  let n := min k.limit (totalOf k.totals sp.split - sp.cur)
  let r1 := rstep k.r (.read (List.replicate n sp.split))
  if k.closed.contains sp.split && decide (totalOf k.totals sp.split ≤ sp.cur + n) then
    let r2 := rstep r1 (.drop sp.split)
    let len := (activeOf r2).length
    ({ k with r := r2, idx := if len == 0 then k.idx else k.idx % len }, some (some n))
  else
    ({ k with r := r1, idx := (k.idx + 1) % (activeOf k.r).length }, some (some n))

/-- outcome of a read seen by the loop: `some n` records, `none` = retryable error -/
def kstep (k : KRd) : KAct → KRd × Option (Option Nat)
  | .put s n => ({ k with totals := k.totals ++ [(s, n)] }, none)
  | .assign l => ({ k with r := rstep k.r (.assign l) }, none)
  | .fail n => ({ k with failIn := n }, none)
  | .barrier n => ({ k with r := rstep k.r (.barrier n) }, none)
  | .close s => ({ k with closed := s :: k.closed }, none)
  | .expire => ({ k with expired := k.iter }, none)
  | .read =>
    match (activeOf k.r)[k.idx]? with
    | none => (k, some (some 0))   -- no shards assigned: `return [][]byte{}, nil`
    | some sp =>
      -- the shard has an iterator from now on (`refreshShardIterator` before the first `GetRecords`)
      let k := { k with iter := if k.iter.contains sp.split then k.iter else sp.split :: k.iter }
      if k.failIn == 1 then
        -- `GetRecords` fails: the error is returned, no position has moved, nothing is emitted
        ({ k with failIn := 0 }, some none)
      else if k.expired.contains sp.split then
        -- `ExpiredIteratorException`: the iterator is refreshed and `GetRecords` is tried once more in the same call
        let k := { k with failIn := k.failIn - 1, expired := k.expired.filter (· != sp.split) }
        if k.failIn == 1 then ({ k with failIn := 0 }, some none)
        else kreadOk { k with failIn := k.failIn - 1 } sp
      else kreadOk { k with failIn := k.failIn - 1 } sp

def krun (k : KRd) (as : List KAct) : KRd := as.foldl (fun k a => (kstep k a).1) k

/-- what a reader/channel pair does that moves positions for records it then drops (a failing read that had already
polled other shards, whose events the channel discards) -/
def readDrop (st : RSt) (b : List Nat) : RSt := { (b.foldl readOne st) with out := st.out }

/-! ## Kinesis: `uniformlyAssignShard` -/

def bitLen (a : Nat) : Nat := if a = 0 then 0 else a.log2 + 1

/-- `big.Rat.Float64` of `a / 2^128` (round to nearest, ties to even), returned as the numerator over `2^128` -/
def roundF64 (a : Nat) : Nat :=
  if bitLen a ≤ 53 then a else
    let sh := bitLen a - 53
    let q := a / 2 ^ sh
    let rem := a % 2 ^ sh
    let half := 2 ^ (sh - 1)
    let q' := if rem > half || (rem == half && q % 2 == 1) then q + 1 else q
    q' * 2 ^ sh

/-- `uniformlyAssignShard(hashKeyRange, numRunners)` -/
def uidx (lo hi n : Nat) : Nat :=
  min (roundF64 (((lo + hi) / 2) * n) / 2 ^ 128) (n - 1)

/-! ## Kinesis: stream, split tracker, splitter -/

structure Shard where
  id : Nat
  parents : List Nat
  lo : Nat
  hi : Nat
deriving DecidableEq, Repr, Inhabited

/-- `SplitTracker`; `known` is the sorted map (order is canonicalised when printing) -/
structure Tr where
  known : List Shard := []
  assigned : List Nat := []
  next : Nat := 0
deriving Repr

def knownId (k : List Shard) (i : Nat) : Bool := k.any (·.id == i)

/-- `knownSplits.Set(id, shard)` -/
def setKnown (k : List Shard) (s : Shard) : List Shard := s :: k.filter (·.id != s.id)

/-- `AddSplits` / `LoadSplits` -/
def addSplits (k : List Shard) (ss : List Shard) : List Shard := ss.foldl setKnown k

/-- `AvailableSplits`: not assigned and no parent is known -/
def available (t : Tr) : List Shard :=
  t.known.filter fun s => !t.assigned.contains s.id && !s.parents.any (knownId t.known)

/-- `TrackAssigned` (repaired, D16d: `LastAssignedSplitID` only moves forward) -/
def nextOf (n : Nat) (b : List Shard) : Nat := b.foldl (fun n s => max n (s.id + 1)) n

def trackAssigned (t : Tr) (b : List Shard) : Tr :=
  { t with assigned := b.map (·.id) ++ t.assigned, next := nextOf t.next b }

/-- `RemoveSplits` -/
def removeSplits (t : Tr) (ids : List Nat) : Tr :=
  { t with known := t.known.filter (fun s => !ids.contains s.id), assigned := t.assigned.filter (fun i => !ids.contains i) }

/-- what `Checkpoint()` persists plus, as ghost fields, the rest of the state at that moment -/
structure Ckpt where
  tr : Tr                       -- persisted: `next` and the assigned shards of `known`; ghost: the withheld shards
  states : List (Nat × Nat)     -- `SourceCheckpoint.SplitStates` (shard, cursor) reported by the runners
  done : List Nat               -- ghost: finish notifications processed before the checkpoint
  good : Bool                   -- ghost: no withheld shard lies below `next` (D16c excluded condition)
  clean : Bool                  -- ghost: the state was untainted
  sound : Bool                  -- ghost: no reported position had been dropped before
deriving Repr

structure Sp where
  stream : List Shard := []     -- environment: the shards of the stream (shard `i` at index `i`)
  closed : List Nat := []       -- environment: closed shards
  tr : Tr := {}
  cursors : List (Nat × Nat) := []
  runners : Nat := 1
  ck : Option Ckpt := none
  -- ghosts
  done : List Nat := []         -- finish notifications processed (rolled back by a restore)
  log : List Nat := []          -- shards handed out since the last (re)start
  tainted : Bool := false       -- a restore lost withheld shards (D16c)
  dropped : Bool := false       -- a restore dropped a reported position (D52)
  wild : Bool := false          -- a finish notification named a shard that was not assigned (no reader does that)
deriving Repr

/-- one `hooks.AssignSplits` call: (runner index, shard, cursor) -/
abbrev Call := List (Nat × Nat × Nat)

/-- `s.cursors[id]`, later split states overwrite earlier ones; 0 = no cursor -/
def cursorOf (cs : List (Nat × Nat)) (id : Nat) : Nat :=
  cs.foldl (fun acc p => if p.1 == id then p.2 else acc) 0

/-- `discoverShards(LastAssignedSplitID)`: `ListShards` after the last assigned shard, `AddSplits` -/
def discover (s : Sp) : Sp :=
  { s with tr := { s.tr with known := addSplits s.tr.known (s.stream.drop s.tr.next) } }

def mkCall (s : Sp) (b : List Shard) : Call :=
  b.map fun sh => (uidx sh.lo sh.hi s.runners, sh.id, cursorOf s.cursors sh.id)

/-- `assignShards(AvailableSplits())` -/
def assignAvail (s : Sp) : Sp × List Call :=
  let b := available s.tr
  if b.isEmpty then (s, [])
  else ({ s with tr := trackAssigned s.tr b, log := s.log ++ b.map (·.id) }, [mkCall s b])

/-- `NotifySplitsFinished`: `RemoveSplits` -/
def remove (s : Sp) (ids : List Nat) : Sp :=
  { s with tr := removeSplits s.tr ids, done := s.done ++ ids,
           wild := s.wild || ids.any (fun i => !s.tr.assigned.contains i) }

def isAssigned (t : Tr) (sh : Shard) : Bool := t.assigned.contains sh.id

/-- `Checkpoint()` plus the split states reported by the runners -/
def checkpoint (s : Sp) (states : List (Nat × Nat)) : Sp :=
  let c : Ckpt :=
    { tr := s.tr, states := states, done := s.done,
      good := s.tr.known.all (fun sh => isAssigned s.tr sh || decide (s.tr.next ≤ sh.id)),
      clean := !s.tainted, sound := !s.dropped }
  { s with ck := some c }

/-- shards for which the runners reported a position but which were not among the assigned shards when the splitter's
part of the checkpoint was taken (finished between the runner's barrier and `Checkpoint()`), below the discovery
cursor (`fixes/D52.diff resumeFinishedShards`) -/
def readdList (stream : List Shard) (c : Ckpt) : List Shard :=
  stream.filter fun sh => (c.states.map (·.1)).contains sh.id &&
    !(isAssigned c.tr sh && knownId c.tr.known sh.id) && decide (sh.id < c.tr.next)

/-- the tracker of a new splitter after `LoadSplits`. `keep` = the ideal splitter that also persists withheld shards
(D16c); `readd` = the ideal splitter that resumes shards with a reported position that it no longer tracked (D52) -/
def loadTr (keep readd : Bool) (stream : List Shard) (c : Ckpt) : Tr :=
  { known := addSplits [] ((c.tr.known.filter fun sh => isAssigned c.tr sh || keep) ++
      (if readd then readdList stream c else [])),
    assigned := [], next := c.tr.next }

/-- the state of a new splitter after `LoadSplits` (cold start when there is no checkpoint) -/
def load (keep readd : Bool) (s : Sp) : Sp :=
  match s.ck with
  | none => { s with tr := {}, cursors := [], done := [], log := [] }
  | some c => { s with tr := loadTr keep readd s.stream c, cursors := c.states,
                       done := if readd then c.done.filter (fun i => !((readdList s.stream c).map (·.id)).contains i)
                               else c.done,
                       log := [],
                       tainted := s.tainted || !c.clean || (!keep && !c.good),
                       dropped := s.dropped || !c.sound || (!readd && !(readdList s.stream c).isEmpty) }

/-- a new splitter `Start`s from the last checkpoint: load, discover, assign -/
def restart (keep readd : Bool) (s : Sp) : Sp × List Call := assignAvail (discover (load keep readd s))

/-- `kinesisfake` SplitShard -/
def envSplit (s : Sp) (i at_ : Nat) : Option Sp :=
  match s.stream[i]? with
  | none => none
  | some sh =>
    if s.closed.contains i || !(sh.lo < at_ && at_ < sh.hi) then none
    else
      let n := s.stream.length
      some { s with stream := s.stream ++ [⟨n, [i], sh.lo, at_ - 1⟩, ⟨n + 1, [i], at_, sh.hi⟩], closed := i :: s.closed }

/-- `kinesisfake` MergeShards (the fake accepts any two existing shards) -/
def envMerge (s : Sp) (i j : Nat) : Option Sp :=
  match s.stream[i]?, s.stream[j]? with
  | some a, some b =>
    some { s with stream := s.stream ++ [⟨s.stream.length, [i, j], min a.lo b.lo, max a.hi b.hi⟩], closed := i :: j :: s.closed }
  | _, _ => none

inductive Act where
  | start                          -- a splitter `Start`s from the last checkpoint, if any
  | tick                           -- discovery ticker
  | finish (ids : List Nat)        -- `NotifySplitsFinished`
  | ckpt (states : List (Nat × Nat))
  | split (i at_ : Nat)            -- environment
  | merge (i j : Nat)              -- environment
deriving Repr

def step (keep readd : Bool) (s : Sp) : Act → Sp × List Call
  | .start => restart keep readd s
  | .tick => assignAvail (discover s)
  | .finish ids => assignAvail (remove s ids)
  | .ckpt st => (checkpoint s st, [])
  | .split i a => ((envSplit s i a).getD s, [])
  | .merge i j => ((envMerge s i j).getD s, [])

def run (keep readd : Bool) (s : Sp) (as : List Act) : Sp := as.foldl (fun s a => (step keep readd s a).1) s

/-- `createShards(count)` of the fake: `count` root shards over `[0, 2^128)` -/
def rootShards (count : Nat) : List Shard :=
  let w := 2 ^ 128 / count
  (List.range count).map fun i => ⟨i, [], i * w, if i + 1 == count then 2 ^ 128 - 1 else (i + 1) * w - 1⟩

def initSp (shards runners : Nat) : Sp := { stream := rootShards shards, runners := runners }

/-! ## Job recovery: which cut the operators and the sources resume from (`jobs/job.go start`) -/

/-- a job checkpoint: id and the source position the runner reported for it -/
abbrev JCk := Nat × Nat

/-- `finishSnapshotAsync`: the newest published checkpoint stays current -/
def publish (cur : Option JCk) (c : JCk) : Option JCk :=
  match cur with
  | none => some c
  | some o => if o.1 < c.1 then some c else some o

structure JSt where
  current : Option JCk := none   -- `snapshotStore.CurrentCheckpoint()`
  held : List JCk := []          -- acknowledged by everybody, snapshot file still being written
  lastId : Nat := 0
  reported : List JCk := []      -- ghost: every (checkpoint id, position) a runner reported
deriving Repr

inductive JAct where
  | ckpt (pos : Nat) (hold : Bool)   -- a checkpoint completes; its snapshot write finishes now or is held
  | release                          -- held writes finish
  | start (race : Bool)              -- (re)deploy; `race`: the held writes finish between Deploy and splitter Start
deriving Repr

/-- what a (re)start does: the checkpoint id the operators are deployed with and the position the source split is
assigned with (httpapi splitter: the last non-empty split state) -/
abbrev JObs := Option Nat × Option Nat

def jrelease (s : JSt) : JSt := { s with current := s.held.foldl publish s.current, held := [] }

def jstep (s : JSt) : JAct → JSt × Option JObs
  | .ckpt pos hold =>
    let c : JCk := (s.lastId + 1, pos)
    let s' := { s with lastId := s.lastId + 1, reported := s.reported ++ [c] }
    (if hold then { s' with held := s'.held ++ [c] } else { s' with current := publish s'.current c }, none)
  | .release => (jrelease s, none)
  | .start race =>
    -- `ckpt := j.snapshotStore.CurrentCheckpoint()` is read once and used for `assembly.Deploy` and `sourceSplitter.Start`
    let ck := s.current
    (if race then jrelease s else s, some (ck.map (·.1), ck.map (·.2)))

def jrun (s : JSt) : List JAct → JSt × List JObs
  | [] => (s, [])
  | a :: as =>
    let (s', o) := jstep s a
    let (s'', os) := jrun s' as
    (s'', o.toList ++ os)

end Rxn.Splits
