import RxnModel.Model.KeyedState
import RxnModel.Model.Lsm
/-!
# The keyed state store over the LSM transition system of C07 (`Model/Lsm.lean`)

`Model/KeyedState.lean` reads and writes the sorted-map specification `KV`. Here the same store is placed on the DKV
model the C07 theorems are about: its writes are foreground `put`/`del` actions of `Rxn.Lsm`, its read is the LSM's
`ScanPrefix` (merge of all memtables and all tables, delete markers dropped last), and memtable rotations, flush
begins/commits, compaction commits and point reads are free actions anywhere in between. Core-only.
-/
namespace Rxn.KeyedState
open Rxn

/-- the foreground writes of an LSM history, in order (`some v` = put, `none` = delete) -/
def writesOf : List Lsm.Act → List (Bytes × Option Bytes)
  | [] => []
  | .put k v :: as => (k, some v) :: writesOf as
  | .del k :: as => (k, none) :: writesOf as
  | _ :: as => writesOf as

/-- what `ScanPrefix` hands to `GetState`: key and value of the live entries, in scan order -/
def kvOfRun (r : Lsm.Run) : KV := r.map (fun e => (e.key, e.val))

/-- `KeyedStateStore.GetState` over an LSM state (one-phase scan) -/
def getStateLsm (kgc : Nat) (s : Lsm.State) (subj : Bytes) : List NsState :=
  group (decodedOf (kvOfRun (Lsm.scan s (Keys.subjectKey kgc subj))))

end Rxn.KeyedState
