import RxnModel.Model.KeySpace
import RxnModel.Model.Lsm
import RxnModel.Model.Search
/-!
# Rescaling: checkpoint assignment and multi-handle restore

`partitioning/key_space.go AssignRanges` (used by `jobs/assembly.go Deploy`), `dkv/recovery/checkpoint_list.go
LoadCheckpointList`, `dkv/db.go Start` with a `DataOwnership`, `dkv/sst/table_writer.go writeEntry`
(`endSeqNum`), `dkv/sst/level_list.go NewLevelListOfTables` (`LatestSeqNum`).

The code is modelled as it stands after the repairs D7 (order-insensitive overlap loop), D8 (merged deeper levels
sorted by start key) and D6 (`endSeqNum` = largest sequence number in the table). The unrepaired `AssignRanges`
loop and the unrepaired merge/seq rules are kept (`…Old`) for the regression witnesses.

Abstractions: a table is its sorted run (C17), a WAL handle is the list of entries its reader yields (those after
`Handle.After`, C17/C08); memtable rotation/flush during the replay is a free action of the DKV transition system
that does not change what reads return (C07), so the replay fills one memtable.
-/
namespace Rxn.Rescale
open Rxn Lsm

/-! ## `AssignRanges` -/

/-- inner loop: `for fromIdx, fromRange := range from { if toRange.Overlaps(fromRange) { append fromIdx } }` -/
def assignLoop (t : KGRange) : List KGRange → Nat → List Nat
  | [], _ => []
  | f :: fs, j => if t.overlaps f then j :: assignLoop t fs (j + 1) else assignLoop t fs (j + 1)

/-- `AssignRanges(to, from)` -/
def assignRanges (to frm : List KGRange) : List (List Nat) := to.map (fun t => assignLoop t frm 0)

/-- `sliceu.Pick(ckpts, indices)` as used by `Assembly.Deploy` -/
def pick {α : Type} (xs : List α) (idx : List Nat) : List α := idx.filterMap (fun j => xs[j]?)

/-! the loop before the repair of D7: two advancing pointers, correct only for `from` sorted by start -/

def skipOld (tStart : Nat) : List KGRange → Nat → List KGRange × Nat
  | [], j => ([], j)
  | f :: fs, j => if f.stop ≤ tStart then skipOld tStart fs (j + 1) else (f :: fs, j)

def takeOld (t : KGRange) : List KGRange → Nat → List Nat
  | [], _ => []
  | f :: fs, j =>
    if f.start < t.stop then
      (if t.overlaps f then j :: takeOld t fs (j + 1) else takeOld t fs (j + 1))
    else []

def assignOldLoop : List KGRange → List KGRange → Nat → List (List Nat)
  | [], _, _ => []
  | t :: ts, frm, j =>
    let p := skipOld t.start frm j
    takeOld t p.1 p.2 :: assignOldLoop ts p.1 p.2

def assignRangesOld (to frm : List KGRange) : List (List Nat) := assignOldLoop to frm 0

/-! ## What a checkpoint handle points to -/

/-- one WAL record as the reader yields it -/
structure WalEntry where
  key : Bytes
  del : Bool
  val : Bytes
deriving DecidableEq, Repr, Inhabited

/-- the checkpoint document of one DKV instance: the level list and the entries of its WAL after `After` -/
structure Ckpt where
  levels : List (List Tbl)
  wal : List WalEntry
deriving Repr, Inhabited

/-- `Table.endSeqNum` as `writeEntry` records it (repaired: the maximum over the entries) -/
def tblEndSeq (t : Tbl) : Nat := t.run.foldl (fun m e => max m e.seq) 0

/-- before the repair of D6: the sequence number of the last key -/
def tblEndSeqOld (t : Tbl) : Nat := (t.run.getLast?.map (·.seq)).getD 0

/-- `LevelList.LatestSeqNum` of `NewLevelListOfTables` -/
def latestSeqWith (endSeq : Tbl → Nat) (levels : List (List Tbl)) : Nat :=
  levels.flatten.foldl (fun m t => max m (endSeq t)) 0

def latestSeq (levels : List (List Tbl)) : Nat := latestSeqWith tblEndSeq levels

/-- order used by the repaired `LoadCheckpointList`: `bytes.Compare(a.StartKey, b.StartKey) ≤ 0` -/
def tblLe (a b : Tbl) : Bool := Bytes.cmp a.startKey b.startKey != .gt

/-- level `i` of the composite document: the handles' levels appended in handle order -/
def concatLevel (cs : List Ckpt) (i : Nat) : List Tbl := (cs.map (fun c => c.levels.getD i [])).flatten

/-- `slices.SortStableFunc` by start key -/
def sortLevel (l : List Tbl) : List Tbl := l.mergeSort tblLe

/-- levels of the composite checkpoint (`LoadCheckpointList`): level 0 stays in handle order, deeper levels are
sorted by start key when more than one handle was merged -/
def mergeLevels (cs : List Ckpt) : List (List Tbl) :=
  match cs with
  | [] => []
  | [c] => c.levels
  | c0 :: _ => (List.range c0.levels.length).map (fun i => if i = 0 then concatLevel cs 0 else sortLevel (concatLevel cs i))

/-- before the repair of D8: plain concatenation -/
def mergeLevelsOld (cs : List Ckpt) : List (List Tbl) :=
  match cs with
  | [] => []
  | c0 :: _ => (List.range c0.levels.length).map (fun i => concatLevel cs i)

/-- `DB.Put` / `DB.Delete` on an instance with one (active) memtable -/
def write (s : State) (k : Bytes) (del : Bool) (v : Bytes) : State :=
  (step s (if del then .del k else .put k v)).getD s

/-- one iteration of the replay loop of `DB.Start` -/
def applyWal (own : Bytes → Bool) (s : State) (w : WalEntry) : State :=
  if own w.key then write s w.key w.del w.val else s

/-- `Checkpoint.NextTableID` (repair D28): one above the largest table file number the composite checkpoint references,
whatever directory the table lies in; `DB.Start` makes the table writer skip to it -/
def nextTableId (levels : List (List Tbl)) : Nat := levels.flatten.foldl (fun m t => max m (t.id + 1)) 0

/-- the instance `DB.Start` has built before it replays the WALs -/
def startState (endSeq : Tbl → Nat) (lv : List (List Tbl)) : State :=
  { seq := latestSeqWith endSeq lv, mems := [[]], levels := lv, nextId := nextTableId lv }

/-- `Checkpoint.Document` of the composite checkpoint an instance loaded from `handles`: the merged level list and one WAL
handle per source (repair D36). `CheckpointList.Save` writes it, under the id of the job checkpoint the instance was
restored from, into the ONE `checkpoints` document of the instance's directory, next to the instance's own checkpoints. -/
def compositeDoc (handles : List Ckpt) : Ckpt := ⟨mergeLevels handles, handles.flatMap (·.wal)⟩

/-- `dkv.Open(options{DataOwnership: own}, handles)`: composite checkpoint, `seqNum = LatestSeqNum`, filtered replay
of the concatenated WALs -/
def openWith (merge : List Ckpt → List (List Tbl)) (endSeq : Tbl → Nat) (own : Bytes → Bool) (cs : List Ckpt) : State :=
  match cs with
  | [] => {}
  | _ =>
    let lv := merge cs
    (cs.flatMap (·.wal)).foldl (applyWal own) (startState endSeq lv)

def openDB (own : Bytes → Bool) (cs : List Ckpt) : State := openWith mergeLevels tblEndSeq own cs

/-- the unrepaired restore (D6 and D8 present), for the regression witnesses -/
def openDBOld (own : Bytes → Bool) (cs : List Ckpt) : State := openWith mergeLevelsOld tblEndSeqOld own cs

/-! ## The checkpointed map of one instance -/

/-- the last WAL record for the key -/
def walLast (wal : List WalEntry) (k : Bytes) : Option WalEntry :=
  (wal.filter (fun w => w.key == k)).getLast?

/-- what the checkpointing instance answered to `Get k` at the checkpoint: the newest unflushed write, else the tables -/
def ckptAnswer (c : Ckpt) (k : Bytes) : Option Bytes :=
  match walLast c.wal k with
  | some w => if w.del then none else some w.val
  | none => answer (levelsGet c.levels k)

/-- key group of a stored key: its first two bytes, big endian (`KeyGroupFromBytes(key[:2])`) -/
def kgOf (k : Bytes) : Nat := Bytes.beNat (k.take 2)

/-! ## Reads of the level list exactly as `dkv/sst/level_list.go` performs them

`Lsm.levelsGet` / `Lsm.scan` describe deeper levels by "the table whose range contains the key"; on a composite
level list the tables come from several instances, so here the binary searches are modelled as they are
(`SearchUnique` over `RangeKeyCompare`, `slices.BinarySearchFunc` over `RangePrefixCompare` followed by the forward
walk). On a sorted, non-overlapping level both descriptions agree (`Proofs/Rescale.lean`). -/

/-- deeper level of `tablesForKey`: `SearchUnique(levelTables, key, RangeKeyCompare)`, then `Table.Get` -/
def deepGetBS (l : List Tbl) (k : Bytes) : Option Entry :=
  match Search.searchTables (l.map fun t => (t.startKey, t.endKey)).toArray k with
  | some i => (l[i]?).bind (fun t => t.run.lookup k)
  | none => none

/-- `LevelList.Get` -/
def levelsGetR (levels : List (List Tbl)) (k : Bytes) : Option Entry :=
  match levels with
  | [] => none
  | l0 :: deeper =>
    match l0Get l0 k with
    | some e => some e
    | none => firstSome (fun l => deepGetBS l k) deeper

/-- `DB.Get` -/
def getR (s : State) (k : Bytes) : Option Entry :=
  match memGet s.mems k with
  | some e => some e
  | none => levelsGetR s.levels k

/-- the loop of `slices.BinarySearchFunc`: first index whose compare value is not negative -/
def lowerBound {α : Type} (xs : Array α) (c : α → Int) (low high : Nat) : Nat :=
  if _h : low < high then
    let i := (low + high) / 2
    if hi : i < xs.size then
      if c xs[i] < 0 then lowerBound xs c (i + 1) high else lowerBound xs c low i
    else low
  else low
termination_by high - low
decreasing_by all_goals omega

/-- deeper level of `AllTablesForPrefix` -/
def deepTablesForPrefix (l : List Tbl) (p : Bytes) : List Tbl :=
  let arr := l.toArray
  let c := fun (t : Tbl) => Gen.tblRangePrefixCompare t.startKey t.endKey p
  let i := lowerBound arr c 0 arr.size
  match arr[i]? with
  | some t => if c t = 0 then (l.drop i).takeWhile (fun t => t.rangeContainsPrefix p) else []
  | none => []

/-- `AllTablesForPrefix` -/
def tablesForPrefix (levels : List (List Tbl)) (p : Bytes) : List Tbl :=
  match levels with
  | [] => []
  | l0 :: deeper => l0.filter (fun t => t.rangeContainsPrefix p) ++ deeper.flatMap (fun l => deepTablesForPrefix l p)

/-- `DB.ScanPrefix` over the tables `AllTablesForPrefix` selects -/
def scanR (s : State) (p : Bytes) : Run :=
  (merge2 (mergeAll (s.mems.map (prefixRun p))) (mergeAll ((tablesForPrefix s.levels p).map (·.scan p)))).filter (fun e => !e.del)

end Rxn.Rescale
