import RxnModel.Model.Rescale
/-!
# The DKV's reads with the table selection the code performs (`dkv/sst/level_list.go`)

`Model/Lsm.lean` describes a point read of a deeper level as "the table whose range contains the key" (`find?`)
and a scan as the merge of *all* tables. The code does neither: `tablesForKey` runs `sliceu.SearchUnique` over
`RangeKeyCompare` on every deeper level, and `AllTablesForPrefix` filters level 0 by `RangeContainsPrefix` and, on
every deeper level, runs `slices.BinarySearchFunc` over `RangePrefixCompare` followed by a forward walk while
`RangeContainsPrefix` holds. Those searches are modelled as they are in `Model/Rescale.lean`
(`deepGetBS`, `levelsGetR`, `getR`, `lowerBound`, `deepTablesForPrefix`, `tablesForPrefix`, `scanR`; the compare
functions are regenerated from `dkv/sst/table.go`). This file adds the two-phase forms on top of them; the C07
driver executes these definitions, and `Props/C07.lean` states the property theorems about them.
-/
namespace Rxn.Lsm
open Rxn

/-- the answer of a two-phase `Get` completed in state `s`; second phase = `LevelList.Get` with its binary searches -/
def getBResultR (s : State) : Option Entry :=
  match s.reading with
  | none => none
  | some (_, some e) => some e
  | some (k, none) => Rescale.levelsGetR s.levels k

/-- first phase of `DB.ScanPrefix`: `db.mtables.ScanPrefix(prefix)`, the merge of the prefix-filtered memtables -/
def scanPhase1 (s : State) (p : Bytes) : Run := mergeAll (s.mems.map (prefixRun p))

/-- second phase of `DB.ScanPrefix`: `db.currentSSTables()`, `AllTablesForPrefix`, merge with the memtable entries,
delete markers dropped at the end -/
def scanResume (memRun : Run) (levels : List (List Tbl)) (p : Bytes) : Run :=
  (merge2 memRun (mergeAll ((Rescale.tablesForPrefix levels p).map (·.scan p)))).filter (fun e => !e.del)

/-- `DB.ScanPrefix` with the memtables read in state `sA` and the level list read in the (later) state `sB` -/
def scan2R (sA sB : State) (p : Bytes) : Run := scanResume (scanPhase1 sA p) sB.levels p

end Rxn.Lsm
