import RxnModel.Proofs.CompactionSound
/-!
The two views of a level list (`levelsGet`, `scanView`) in terms of the read order, extensionality of sorted runs,
and the main theorem in terms of `LayoutValid`.
-/
namespace Rxn.Compaction
open Rxn Rxn.Lsm

theorem weakValid_of_layoutValid {L : Levels} (h : LayoutValid L) : WeakValid L :=
  ⟨h.sorted, fun l hl => rangeUnique_of_ordered (h.ordered l hl), h.newer⟩

/-- `LevelList.Get` goes through the tables in read order -/
theorem levelsGet_eq_hit {L : Levels} (hv : WeakValid L) (k : Bytes) : levelsGet L k = hit (readOrder L) k := by
  cases L with
  | nil => rfl
  | cons l0 deeper =>
    have hsorted : ∀ t ∈ l0.reverse ++ deeper.flatten, t.run.Sorted := by
      intro t ht
      apply hv.sorted
      simpa using ht
    have hl0 : l0Get l0 k = firstSome (fun t : Tbl => t.run.lookup k) l0.reverse := by
      unfold l0Get
      apply firstSome_congr
      intro t ht
      exact tbl_get_eq_lookup t (hsorted t (List.mem_append_left _ ht)) k
    have hdeep : firstSome (fun l => deepGet l k) deeper = firstSome (fun t : Tbl => t.run.lookup k) deeper.flatten := by
      rw [firstSome_flatten]
      apply firstSome_congr
      intro l hl
      apply deepGet_eq
      · intro t ht
        exact hsorted t (List.mem_append_right _ (List.mem_flatten.mpr ⟨l, hl, ht⟩))
      · exact hv.deep l hl
    unfold levelsGet hit
    simp only [readOrder, firstSome_append]
    rw [hl0, hdeep]
    cases firstSome (fun t : Tbl => t.run.lookup k) l0.reverse <;> rfl

/-- the merged scan holds, for every key with the prefix, what the read order finds first -/
theorem lookup_scanView {L : Levels} (hv : WeakValid L) (p k : Bytes) :
    (scanView L p).lookup k = if Bytes.hasPrefix k p then hit (readOrder L) k else none := by
  have hB : ∀ r ∈ L.flatten.map (fun t => t.scan p), r.Sorted := by
    intro r hr
    obtain ⟨t, ht, rfl⟩ := List.mem_map.mp hr
    exact prefixRun_sorted p (hv.sorted t ht)
  unfold scanView
  rw [lookup_mergeAll hB]
  have hna : NewerAbove (((readOrder L).map (·.run)).map (prefixRun p)) :=
    newerAbove_map_prefix p ((newerAbove_map_iff _).mpr hv.newer)
  have hm : ∀ r, r ∈ ((readOrder L).map (·.run)).map (prefixRun p) ↔ r ∈ L.flatten.map (fun t => t.scan p) := by
    intro r
    simp only [List.mem_map]
    constructor
    · rintro ⟨r0, ⟨t, ht, rfl⟩, rfl⟩
      exact ⟨t, (readOrder_mem _ t).mp ht, rfl⟩
    · rintro ⟨t, ht, rfl⟩
      exact ⟨t.run, ⟨t, (readOrder_mem _ t).mpr ht, rfl⟩, rfl⟩
  rw [bestHit_eq_firstHit hna hm, firstHit_map_prefix]
  unfold firstHit hit
  rw [firstSome_map]

theorem scanView_sorted {L : Levels} (hv : WeakValid L) (p : Bytes) : SortedRun (scanView L p) := by
  apply mergeAll_sorted
  intro r hr
  obtain ⟨t, ht, rfl⟩ := List.mem_map.mp hr
  exact prefixRun_sorted p (hv.sorted t ht)

/-- two sorted runs that answer every lookup alike are equal -/
theorem run_ext : ∀ {a b : Run}, SortedRun a → SortedRun b → (∀ k, a.lookup k = b.lookup k) → a = b
  | [], [], _, _, _ => rfl
  | [], y :: ys, _, _, h => by
    have := h y.key
    simp [Run.lookup] at this
  | x :: xs, [], _, _, h => by
    have := h x.key
    simp [Run.lookup] at this
  | x :: xs, y :: ys, ha, hb, h => by
    have hx := h x.key
    have hy := h y.key
    simp only [Run.lookup, if_true] at hx hy
    have hxy : x = y := by
      by_cases hk : y.key = x.key
      · rw [if_pos hk] at hx; exact (Option.some.inj hx)
      · rw [if_neg hk] at hx
        have hk' : ¬ x.key = y.key := fun h => hk h.symm
        rw [if_neg hk'] at hy
        -- x is in ys and y is in xs: both x.key < y.key and y.key < x.key
        have ⟨hxm, _⟩ := Run.lookup_some_mem hx.symm
        have ⟨hym, _⟩ := Run.lookup_some_mem hy
        have h1 := (List.pairwise_cons.mp hb).1 x hxm
        have h2 := (List.pairwise_cons.mp ha).1 y hym
        rw [Bytes.lt_asymm h1] at h2; cases h2
    subst hxy
    have hsa := (List.pairwise_cons.mp ha)
    have hsb := (List.pairwise_cons.mp hb)
    have : xs = ys := by
      apply run_ext hsa.2 hsb.2
      intro k
      by_cases hk : x.key = k
      · subst hk
        have h1 : Run.lookup xs x.key = none := Run.lookup_none_of_lt hsa.2 (fun e he => hsa.1 e he)
        have h2 : Run.lookup ys x.key = none := Run.lookup_none_of_lt hsb.2 (fun e he => hsb.1 e he)
        rw [h1, h2]
      · have := h k
        simp only [Run.lookup, if_neg hk] at this
        exact this
    rw [this]

theorem scanView_eq_of_hit_eq {L L' : Levels} (hv : WeakValid L) (hv' : WeakValid L')
    (h : ∀ k, hit (readOrder L') k = hit (readOrder L) k) (p : Bytes) : scanView L' p = scanView L p := by
  apply run_ext (scanView_sorted hv' p) (scanView_sorted hv p)
  intro k
  rw [lookup_scanView hv', lookup_scanView hv, h k]

/-- **safe change sets preserve the view and the validity of the layout** -/
theorem safe_preserves {L : Levels} {rm : List Nat} {lvl : Nat} {add : List Run} (n : Nat)
    (hv : LayoutValid L) (hs : SafeCS L rm lvl add) :
    (∀ k, levelsGet (applyCS L n ⟨rm, lvl, add⟩) k = levelsGet L k) ∧
    (∀ p, scanView (applyCS L n ⟨rm, lvl, add⟩) p = scanView L p) ∧
    LayoutValid (applyCS L n ⟨rm, lvl, add⟩) := by
  have hw := weakValid_of_layoutValid hv
  obtain ⟨hhit, hw', _, l0, D1, Lv, D2, hL, _, hshape⟩ := safe_core n hw hs
  refine ⟨?_, ?_, ?_⟩
  · intro k; rw [levelsGet_eq_hit hw', levelsGet_eq_hit hw, hhit k]
  · intro p; exact scanView_eq_of_hit_eq hw hw' hhit p
  · refine ⟨hw'.sorted, ?_, hw'.newer⟩
    rw [hshape]
    intro l hl
    simp only [List.tail_cons, List.mem_append, List.mem_cons] at hl
    have hold : ∀ l ∈ D1 ++ Lv :: D2, l.Pairwise (fun a b => Bytes.lt a.endKey b.startKey = true) := by
      have := hv.ordered; rw [hL] at this; exact this
    rcases hl with hl | hl | hl
    · obtain ⟨l', hl', rfl⟩ := List.mem_map.mp hl
      exact (hold l' (List.mem_append_left _ hl')).sublist List.filter_sublist
    · subst hl
      have hsm : SortedRun add.flatten := by
        have := hw'.sorted
        rw [hshape] at this
        -- the new level is the concatenation of the added tables, which is the sorted merge
        rw [hs.added]
        apply mergeAll_sorted
        intro r hr
        obtain ⟨t, ht, rfl⟩ := List.mem_map.mp hr
        exact hw.sorted t ((readOrder_mem _ t).mp (List.mem_filter.mp ht).1)
      exact ordered_new hsm hs.chunks
    · exact hold l (List.mem_append_right _ (List.mem_cons_of_mem _ hl))

end Rxn.Compaction
