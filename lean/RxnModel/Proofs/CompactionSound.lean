import RxnModel.Proofs.Compaction
/-!
The executable test `Lsm.safeCS` lies in the safe family, and the obligation `Lsm.CompactionSound` of the C07
refinement: every change set passing the test keeps the refinement invariant.
-/
namespace Rxn.Compaction
open Rxn Rxn.Lsm

theorem pairwise_of_forall_left {α : Type} {R : α → α → Prop} {l : List α} (h : ∀ a ∈ l, ∀ b, R a b) :
    l.Pairwise R := by
  induction l with
  | nil => exact List.Pairwise.nil
  | cons x xs ih =>
    exact List.pairwise_cons.mpr ⟨fun b _ => h x List.mem_cons_self b,
      ih (fun a ha => h a (List.mem_cons_of_mem _ ha))⟩

/-- an insertion-order prefix of level 0 given by a comparison of id lists (the earlier form of the level-0 conjunct of
`safeCS`) is closed towards the older tables, hence also meets the per-key form now used -/
theorem prefix_closed (rm : List Nat) (l : List Tbl)
    (h : (l.filter (rmP rm)).map (·.id) = (l.take (l.filter (rmP rm)).length).map (·.id)) :
    l.Pairwise (fun older newer => rmP rm newer = true → rmP rm older = true) := by
  obtain ⟨n, hn⟩ : ∃ n, n = (l.filter (rmP rm)).length := ⟨_, rfl⟩
  rw [← hn] at h
  have hle : n ≤ l.length := by rw [hn]; exact List.length_filter_le _ _
  have htake : ∀ t ∈ l.take n, rmP rm t = true := by
    intro t ht
    have hm : t.id ∈ (l.take n).map (·.id) := List.mem_map.mpr ⟨t, ht, rfl⟩
    rw [← h] at hm
    obtain ⟨t', ht', hid⟩ := List.mem_map.mp hm
    have hp := (List.mem_filter.mp ht').2
    unfold rmP at hp ⊢
    rw [← hid]; exact hp
  have hdrop : ∀ t ∈ l.drop n, rmP rm t = false := by
    have hsplit : l.filter (rmP rm) = (l.take n).filter (rmP rm) ++ (l.drop n).filter (rmP rm) := by
      rw [← List.filter_append, List.take_append_drop]
    have h1 : (l.take n).filter (rmP rm) = l.take n := List.filter_eq_self.mpr htake
    have hlen : ((l.drop n).filter (rmP rm)).length = 0 := by
      have := congrArg List.length hsplit
      rw [List.length_append, h1, List.length_take, ← hn, Nat.min_eq_left hle] at this
      omega
    have hnil : (l.drop n).filter (rmP rm) = [] := List.eq_nil_of_length_eq_zero hlen
    intro t ht
    have := List.filter_eq_nil_iff.mp hnil t ht
    simpa using this
  rw [← List.take_append_drop n l]
  refine List.pairwise_append.mpr ⟨?_, ?_, ?_⟩
  · exact pairwise_of_forall_left (fun a ha b _ => htake a ha)
  · apply pairwise_of_forall_right
    intro b hb a hpb
    rw [hdrop b hb] at hpb; cases hpb
  · intro a ha b _ _
    exact htake a ha

theorem mem_flatten_getD {L : Levels} {t : Tbl} (h : t ∈ L.flatten) : ∃ i, i < L.length ∧ t ∈ L.getD i [] := by
  obtain ⟨l, hl, htl⟩ := List.mem_flatten.mp h
  obtain ⟨i, hi, rfl⟩ := List.mem_iff_getElem.mp hl
  exact ⟨i, hi, by rw [List.getD_eq_getElem?_getD, List.getElem?_eq_getElem hi]; exact htl⟩

theorem getD_mem_flatten {L : Levels} {i : Nat} {t : Tbl} (h : t ∈ L.getD i []) : t ∈ L.flatten := by
  by_cases hi : i < L.length
  · rw [List.getD_eq_getElem?_getD, List.getElem?_eq_getElem hi] at h
    exact List.mem_flatten.mpr ⟨L[i], List.getElem_mem hi, h⟩
  · rw [List.getD_eq_getElem?_getD, List.getElem?_eq_none (by omega)] at h
    cases h

/-- **the executable test lies in the safe family** (or the change set is empty) -/
theorem safeCS_sound {L : Levels} {rm : List Nat} {lvl : Nat} {add : List Run} (hv : WeakValid L)
    (h : safeCS L rm lvl add = true) :
    ((∀ t ∈ L.flatten, rmP rm t = false) ∧ add = []) ∨ SafeCS L rm lvl add := by
  unfold safeCS at h
  simp only at h
  split at h
  · rename_i hnone
    left
    rw [List.find?_range_eq_none] at hnone
    refine ⟨?_, List.isEmpty_iff.mp h⟩
    intro t ht
    obtain ⟨i, hi, hti⟩ := mem_flatten_getD ht
    have := hnone i hi
    simp only [Bool.not_eq_true', List.any_eq_false] at this
    have := this t hti
    unfold rmP; simpa using this
  · rename_i sh hsome
    right
    rw [List.find?_range_eq_some] at hsome
    obtain ⟨hq, _, hfirst⟩ := hsome
    simp only [Bool.and_eq_true, decide_eq_true_eq, List.all_eq_true, List.mem_range] at h
    obtain ⟨⟨⟨⟨⟨hadd, hchunks⟩, hl0⟩, hpos⟩, hlt⟩, hall⟩ := h
    have hlevel : ∀ i, 1 ≤ i → i ≤ lvl → (sh < i ∨ i = lvl) → ∀ t ∈ L.getD i [], rmP rm t = true := by
      intro i hi1 hi2 hc t ht
      have := hall i (by omega)
      have h1 : ¬ i > lvl := by omega
      have h2 : (i == 0) = false := by simp; omega
      have h3 : (decide (sh < i) || i == lvl) = true := by
        cases hc with
        | inl h => simp [h]
        | inr h => simp [h]
      simp only [h1, if_false, h2, Bool.false_eq_true, h3, if_true, List.all_eq_true] at this
      exact this t ht
    apply safe_of_structure hv hpos hlt
    · exact hlevel lvl hpos (Nat.le_refl _) (Or.inr rfl)
    · intro i hi t ht
      by_cases hil : i < L.length
      · have := hall i hil
        simp only [hi, if_true, Bool.not_eq_true', List.any_eq_false] at this
        have := this t ht
        unfold rmP; simpa using this
      · rw [List.getD_eq_getElem?_getD, List.getElem?_eq_none (by omega)] at ht
        cases ht
    · exact hl0
    · intro i j hij hjl hex
      have hsh : sh ≤ i := by
        apply Nat.le_of_not_lt
        intro hlt'
        have := hfirst i hlt'
        simp only [Bool.not_eq_true', List.any_eq_false] at this
        obtain ⟨t, ht, hpt⟩ := hex
        have := this t ht
        unfold rmP at hpt
        rw [hpt] at this
        simp at this
      exact hlevel j (by omega) (by omega) (Or.inl (by omega))
    · exact hadd
    · cases (Bool.or_eq_true _ _).mp hchunks with
      | inl h =>
        left
        intro r hr
        have := (List.all_eq_true.mp h) r hr
        intro hnil; subst hnil; simp at this
      | inr h => right; exact of_decide_eq_true h

/-! ## `Lsm.CompactionSound` -/

theorem newerAbove_map_iff (ts : List Tbl) : NewerAbove (ts.map (·.run)) ↔ ts.Pairwise NewerT := by
  induction ts with
  | nil => simp [NewerAbove]
  | cons t ts ih =>
    simp only [List.map_cons, NewerAbove, List.pairwise_cons, ih, List.mem_map]
    constructor
    · rintro ⟨h1, h2⟩
      refine ⟨?_, h2⟩
      intro b hb ea hea eb heb hk
      exact h1 ea hea b.run ⟨b, hb, rfl⟩ eb heb hk.symm
    · rintro ⟨h1, h2⟩
      refine ⟨?_, h2⟩
      rintro e he r' ⟨b, hb, rfl⟩ e' he' hk
      exact h1 b hb e he e' he' hk.symm

theorem weakValid_of_inv {s : State} {m : Spec} (h : Inv s m) : WeakValid s.levels := by
  refine ⟨?_, h.deep, ?_⟩
  · intro t ht
    apply h.sorted
    simp only [containers, List.mem_append, List.mem_map]
    exact Or.inr ⟨t, (readOrder_mem _ t).mpr ht, rfl⟩
  · have := (newerAbove_append.mp h.newer).2.1
    exact (newerAbove_map_iff _).mp this

theorem applyCS_noop {L : Levels} {rm : List Nat} (lvl n : Nat) (hno : ∀ t ∈ L.flatten, rmP rm t = false) :
    addAt (removeIds rm L) lvl (mkTables n []) = L := by
  have h1 : removeIds rm L = L := by
    unfold removeIds
    have : ∀ l ∈ L, l.filter (fun t => !rm.contains t.id) = l := by
      intro l hl
      rw [List.filter_eq_self]
      intro t ht
      have := hno t (List.mem_flatten.mpr ⟨l, hl, ht⟩)
      unfold rmP at this
      rw [this]; rfl
    calc L.map (fun l => l.filter (fun t => !rm.contains t.id)) = L.map id := List.map_congr_left this
      _ = L := List.map_id _
  rw [h1]
  unfold addAt
  have : mkTables n [] = [] := by simp [mkTables]
  rw [this]
  have : (fun l : List Tbl => l ++ []) = id := by funext l; simp
  rw [this, List.modify_id]

/-- **every change set that passes the executable safety test keeps the refinement invariant of the DKV**:
point lookups (`hit`), and with them scans (`Proofs/LsmScan.scan_spec`), the ordering invariants of the levels and
"newer above" -/
theorem compactionSound : CompactionSound := by
  intro s m rm lvl add h hsafe
  have hv := weakValid_of_inv h
  rcases safeCS_sound hv hsafe with ⟨hno, hadd⟩ | hs
  · subst hadd
    have hL := applyCS_noop lvl s.nextId hno
    rw [hL]
    exact ⟨h.mems_ne, h.levels_ne, h.sorted, h.hit, h.seqBound, h.newer, h.deep⟩
  · obtain ⟨hhit, hv', hold, l0, D1, Lv, D2, _, _, hshape⟩ := safe_core s.nextId hv hs
    have hL' : addAt (removeIds rm s.levels) lvl (mkTables s.nextId add) = applyCS s.levels s.nextId ⟨rm, lvl, add⟩ := rfl
    rw [hL']
    generalize hLdef : applyCS s.levels s.nextId ⟨rm, lvl, add⟩ = L' at *
    have hmemsS : ∀ r ∈ s.mems.reverse, r ∈ containers s := fun r hr => by
      simp only [containers, List.mem_append]; exact Or.inl hr
    have holdC : ∀ t' ∈ readOrder L', ∀ e ∈ t'.run, ∃ r ∈ containers s, e ∈ r := by
      intro t' ht' e he
      obtain ⟨t, ht, het⟩ := hold t' ((readOrder_mem _ t').mp ht') e he
      refine ⟨t.run, ?_, het⟩
      simp only [containers, List.mem_append, List.mem_map]
      exact Or.inr ⟨t, (readOrder_mem _ t).mpr ht, rfl⟩
    refine ⟨h.mems_ne, by rw [hshape]; simp, ?_, ?_, ?_, ?_, hv'.deep⟩
    · intro r hr
      simp only [containers, List.mem_append, List.mem_map] at hr
      rcases hr with hr | ⟨t, ht, rfl⟩
      · exact h.sorted r (hmemsS r hr)
      · exact hv'.sorted t ((readOrder_mem _ t).mp ht)
    · intro k
      rw [← h.hit k]
      simp only [firstHit, containers, firstSome_append, firstSome_map]
      have := hhit k
      unfold hit at this
      rw [this]
    · intro r hr e he
      simp only [containers, List.mem_append, List.mem_map] at hr
      rcases hr with hr | ⟨t, ht, rfl⟩
      · exact h.seqBound r (hmemsS r hr) e he
      · obtain ⟨r0, hr0, he0⟩ := holdC t ht e he
        exact h.seqBound r0 hr0 e he0
    · have hold3 := newerAbove_append.mp h.newer
      show NewerAbove (s.mems.reverse ++ (readOrder L').map (·.run))
      refine newerAbove_append.mpr ⟨hold3.1, (newerAbove_map_iff _).mpr hv'.newer, ?_⟩
      intro r hr e he r' hr' e' he' hk
      obtain ⟨t', ht', rfl⟩ := List.mem_map.mp hr'
      obtain ⟨t, ht, het⟩ := hold t' ((readOrder_mem _ t').mp ht') e' he'
      exact hold3.2.2 r hr e he t.run (List.mem_map.mpr ⟨t, (readOrder_mem _ t).mpr ht, rfl⟩) e' het hk

end Rxn.Compaction
