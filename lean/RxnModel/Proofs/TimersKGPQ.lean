import RxnModel.Proofs.SortedBytes
/-!
`KeyGroupPriorityQueue` (Model/Timers.lean `KGPQ`) for every cache size: the cache is always a prefix of the key group's
sorted key list in the DB, so `Peek` is the least key of the key group.
-/
namespace Rxn.Timers
open Rxn Rxn.Bytes

def sumLen (l : List Bytes) : Nat := (l.map List.length).sum

theorem sumLen_nil : sumLen [] = 0 := rfl
theorem sumLen_cons (x : Bytes) (l : List Bytes) : sumLen (x :: l) = x.length + sumLen l := by simp [sumLen]
theorem sumLen_append (a b : List Bytes) : sumLen (a ++ b) = sumLen a + sumLen b := by simp [sumLen, List.sum_append]

theorem sumLen_sinsert (k : Bytes) (l : List Bytes) (h : k ∉ l) : sumLen (sinsert k l) = sumLen l + k.length := by
  induction l with
  | nil => simp [sinsert, sumLen]
  | cons y ys ih =>
    simp only [sinsert]
    cases hc : Bytes.cmp k y with
    | lt => simp only [sumLen_cons]; omega
    | eq => exact absurd (Bytes.cmp_eq_iff.mp hc ▸ List.mem_cons_self) h
    | gt =>
      have : k ∉ ys := fun e => h (List.mem_cons_of_mem _ e)
      simp only [sumLen_cons, ih this]; omega

theorem sumLen_erase (k : Bytes) (l : List Bytes) (h : k ∈ l) : sumLen (l.erase k) + k.length = sumLen l := by
  induction l with
  | nil => cases h
  | cons y ys ih =>
    by_cases e : y = k
    · subst e; simp only [List.erase_cons_head, sumLen_cons]; omega
    · have hk : k ∈ ys := by
        rcases List.mem_cons.mp h with e' | e'
        · exact absurd e'.symm e
        · exact e'
      have hne : (y == k) = false := by simp [e]
      simp only [List.erase_cons, hne, sumLen_cons]
      have := ih hk
      simp only [Bool.false_eq_true, if_false, sumLen_cons]
      omega

structure CacheOK (c : Cache) : Prop where
  sorted : Sorted c.items
  size : c.byteSize = sumLen c.items

theorem cacheOK_new (m : Nat) : CacheOK (Cache.new m) := ⟨Sorted.nil, rfl⟩

theorem Cache.push_ok (c : Cache) (k : Bytes) (h : CacheOK c) :
    CacheOK (c.push k) ∧ (c.push k).items = sinsert k c.items ∧ (c.push k).maxSize = c.maxSize := by
  refine ⟨⟨sinsert_sorted k _ h.sorted, ?_⟩, rfl, rfl⟩
  show (if c.items.contains k then c.byteSize - k.length else c.byteSize) + k.length = sumLen (sinsert k c.items)
  by_cases hk : k ∈ c.items
  · have hc : c.items.contains k = true := List.contains_iff_mem.mpr hk
    rw [hc, if_pos rfl, sinsert_of_mem k _ h.sorted hk, h.size]
    have := sumLen_erase k c.items hk
    omega
  · have hc : c.items.contains k = false := by
      cases hcc : c.items.contains k with
      | false => rfl
      | true => exact absurd (List.contains_iff_mem.mp hcc) hk
    rw [hc, if_neg (by simp), sumLen_sinsert k _ hk, h.size]

theorem Cache.popLast_ok (c : Cache) (h : CacheOK c) :
    CacheOK c.popLast ∧ c.popLast.maxSize = c.maxSize ∧
    ((c.items = [] ∧ c.popLast = c) ∨ ∃ x, c.items = c.popLast.items ++ [x]) := by
  rcases List.eq_nil_or_concat c.items with e | ⟨L, b, e⟩
  · have : c.popLast = c := by simp [Cache.popLast, e]
    rw [this]; exact ⟨h, rfl, Or.inl ⟨e, rfl⟩⟩
  · rw [List.concat_eq_append] at e
    have hl : c.items.getLast? = some b := by rw [e]; exact List.getLast?_concat
    have hd : c.items.dropLast = L := by rw [e]; exact List.dropLast_concat
    have hpl : c.popLast = { c with items := L, byteSize := c.byteSize - b.length } := by
      simp only [Cache.popLast, hl, hd]
    rw [hpl]
    refine ⟨⟨?_, ?_⟩, rfl, Or.inr ⟨b, e⟩⟩
    · have := h.sorted; rw [e] at this; exact this.append_left
    · show c.byteSize - b.length = sumLen L
      rw [h.size, e, sumLen_append, sumLen_cons, sumLen_nil]; omega

theorem Cache.delete_ok (c : Cache) (k : Bytes) (h : CacheOK c) :
    CacheOK (c.delete k) ∧ (c.delete k).items = c.items.erase k ∧ (c.delete k).maxSize = c.maxSize := by
  by_cases hk : k ∈ c.items
  · have hc : c.items.contains k = true := List.contains_iff_mem.mpr hk
    have hd : c.delete k = { c with items := c.items.erase k, byteSize := c.byteSize - k.length } := by
      simp only [Cache.delete, hc, if_true]
    rw [hd]
    refine ⟨⟨h.sorted.erase k, ?_⟩, rfl, rfl⟩
    have := sumLen_erase k c.items hk
    show c.byteSize - k.length = sumLen (c.items.erase k)
    rw [h.size]; omega
  · have hc : c.items.contains k = false := by
      cases hcc : c.items.contains k with
      | false => rfl
      | true => exact absurd (List.contains_iff_mem.mp hcc) hk
    have hd : c.delete k = c := by simp only [Cache.delete, hc, Bool.false_eq_true, if_false]
    rw [hd]
    exact ⟨h, (List.erase_of_not_mem hk).symm, rfl⟩

/-- a key above every element goes to the end -/
theorem sinsert_last (k : Bytes) (l : List Bytes) (h : Sorted (l ++ [k])) : sinsert k l = l ++ [k] := by
  apply sorted_ext (sinsert_sorted k l h.append_left) h
  intro x
  simp only [mem_sinsert, List.mem_append, List.mem_singleton]
  constructor
  · rintro (e | e)
    · right; exact e
    · left; exact e
  · rintro (e | e)
    · right; exact e
    · left; exact e

/-- the partition invariant: the cache is a prefix of the key group's keys in the DB (in DB order); if
`allDataInCache` is set it is all of them; the byte accounting is exact -/
structure Inv (q : KGPQ) (db : DB) : Prop where
  cache : CacheOK q.cache
  pre : ∃ rest, db.scan q.pfx = q.cache.items ++ rest ∧ (q.allData = true → rest = [])

theorem scan_sorted {db : DB} (h : Sorted db) (p : Bytes) : Sorted (db.scan p) := h.filter _

theorem inv_new (kg size : Nat) (db : DB) : Inv (KGPQ.new kg size) db :=
  ⟨cacheOK_new size, db.scan (kgPrefix kg), by simp [KGPQ.new, Cache.new]⟩

theorem loadLoop_spec (todo : List Bytes) (c : Cache) (hc : CacheOK c) (hs : Sorted (c.items ++ todo)) :
    CacheOK (loadLoop todo c).1 ∧ (loadLoop todo c).1.maxSize = c.maxSize ∧
    ∃ taken rest, (loadLoop todo c).1.items = c.items ++ taken ∧ todo = taken ++ rest ∧
      ((loadLoop todo c).2 = true → rest = []) ∧ (c.items = [] → todo ≠ [] → taken ≠ []) := by
  induction todo generalizing c with
  | nil => exact ⟨hc, rfl, [], [], by simp [loadLoop], rfl, fun _ => rfl, fun _ h => absurd rfl h⟩
  | cons k ks ih =>
    simp only [loadLoop]
    by_cases hstop : (c.isFull && !c.isEmpty) = true
    · rw [if_pos hstop]
      refine ⟨hc, rfl, [], k :: ks, ?_, ?_, ?_, ?_⟩
      · simp
      · rfl
      · intro h; cases h
      · intro he _
        simp [Cache.isEmpty, he] at hstop
    · rw [if_neg hstop]
      obtain ⟨hp, hitems, hmax⟩ := Cache.push_ok c k hc
      have hs' : Sorted (c.items ++ [k] ++ ks) := by simpa using hs
      have hlast : sinsert k c.items = c.items ++ [k] := sinsert_last k c.items hs'.append_left
      have hs2 : Sorted ((c.push k).items ++ ks) := by rw [hitems, hlast]; exact hs'
      obtain ⟨i1, i2, taken, rest, i3, i4, i5, _⟩ := ih (c.push k) hp hs2
      refine ⟨i1, i2.trans hmax, k :: taken, rest, ?_, by rw [i4]; rfl, i5, fun _ _ => by simp⟩
      rw [i3, hitems, hlast]; simp

theorem KGPQ.load_spec (q : KGPQ) (db : DB) (h : Inv q db) (hdb : Sorted db) :
    Inv (q.load db) db ∧ (q.load db).pfx = q.pfx ∧ (q.load db).cache.maxSize = q.cache.maxSize ∧
    ((q.load db).cache.items ≠ [] ∨ (q.load db).allData = true) := by
  unfold KGPQ.load
  by_cases hskip : (!q.cache.isEmpty || q.allData) = true
  · rw [if_pos hskip]
    refine ⟨h, rfl, rfl, ?_⟩
    simp only [Bool.or_eq_true, Bool.not_eq_true', Cache.isEmpty, List.isEmpty_eq_false_iff] at hskip
    exact hskip
  · rw [if_neg hskip]
    simp only [Bool.or_eq_true, Bool.not_eq_true', Cache.isEmpty, not_or, Bool.not_eq_false,
      List.isEmpty_iff, Bool.not_eq_true] at hskip
    obtain ⟨hempty, _⟩ := hskip
    have hs : Sorted (q.cache.items ++ db.scan q.pfx) := by rw [hempty]; exact scan_sorted hdb _
    obtain ⟨l1, l2, taken, rest, l3, l4, l5, l6⟩ := loadLoop_spec (db.scan q.pfx) q.cache h.cache hs
    refine ⟨⟨l1, rest, ?_, l5⟩, rfl, l2, ?_⟩
    · show db.scan q.pfx = (loadLoop (db.scan q.pfx) q.cache).1.items ++ rest
      rw [l3, hempty, l4]; simp
    · by_cases hD : db.scan q.pfx = []
      · right
        show (loadLoop (db.scan q.pfx) q.cache).2 = true
        rw [hD]; rfl
      · left
        show (loadLoop (db.scan q.pfx) q.cache).1.items ≠ []
        rw [l3, hempty]
        simpa using l6 hempty hD

/-- `Peek` returns the least key of the key group that is in the DB — for every cache size -/
theorem KGPQ.peekView_eq (q : KGPQ) (db : DB) (h : Inv q db) (hdb : Sorted db) :
    q.peekView db = (db.scan q.pfx).head? := by
  obtain ⟨hi, hp, _, hpost⟩ := KGPQ.load_spec q db h hdb
  obtain ⟨rest, hr, hall⟩ := hi.pre
  unfold KGPQ.peekView Cache.peek
  rw [hp] at hr
  rw [hr, List.head?_append]
  cases hitems : (q.load db).cache.items with
  | nil =>
    rcases hpost with e | e
    · exact absurd hitems e
    · simp [hall e]
  | cons x xs => simp

theorem evictLoop_spec (n : Nat) (c : Cache) (a : Bool) (hc : CacheOK c) :
    CacheOK (evictLoop n (c, a)).1 ∧ (evictLoop n (c, a)).1.maxSize = c.maxSize ∧
    ∃ dropped, c.items = (evictLoop n (c, a)).1.items ++ dropped ∧
      ((evictLoop n (c, a)).2 = true → a = true ∧ dropped = []) := by
  induction n generalizing c a with
  | zero => exact ⟨hc, rfl, [], by simp [evictLoop], fun h => ⟨h, rfl⟩⟩
  | succ n ih =>
    simp only [evictLoop]
    by_cases hgo : (c.isFull && !c.isEmpty) = true
    · rw [if_pos hgo]
      obtain ⟨p1, p2, p3⟩ := Cache.popLast_ok c hc
      obtain ⟨i1, i2, dropped, i3, i4⟩ := ih c.popLast false p1
      refine ⟨i1, i2.trans p2, ?_⟩
      rcases p3 with ⟨e, hsame⟩ | ⟨x, e⟩
      · exact ⟨dropped, by rw [← i3, hsame], fun h => by have := (i4 h).1; cases this⟩
      · exact ⟨dropped ++ [x], by rw [e, i3]; simp, fun h => by have := (i4 h).1; cases this⟩
    · rw [if_neg hgo]
      exact ⟨hc, rfl, [], by simp, fun h => ⟨h, rfl⟩⟩

theorem le_last_lt_rest {items rest : List Bytes} {k last : Bytes} (hs : Sorted (items ++ rest))
    (hl : items.getLast? = some last) (hk : Bytes.cmp k last ≠ .gt) : ∀ y ∈ rest, Bytes.lt k y = true := by
  intro y hy
  have hlm : last ∈ items := List.mem_of_getLast? hl
  have h1 := hs.append_lt last hlm y hy
  rcases Bytes.lt_or_eq_or_gt k last with e | e | e
  · exact Bytes.lt_trans e h1
  · subst e; exact h1
  · exfalso
    apply hk
    have : Bytes.cmp last k = .lt := by simpa [Bytes.lt] using e
    exact Bytes.cmp_lt_iff_gt.mp this

theorem le_last_of_mem {items : List Bytes} {last x : Bytes} (hs : Sorted items)
    (hl : items.getLast? = some last) (hx : x ∈ items) : x = last ∨ Bytes.lt x last = true := by
  rcases List.eq_nil_or_concat items with e | ⟨L, b, e⟩
  · rw [e] at hx; cases hx
  · rw [List.concat_eq_append] at e
    rw [e, List.getLast?_concat] at hl
    cases hl
    rw [e] at hx hs
    rcases List.mem_append.mp hx with h | h
    · right; exact hs.append_lt x h last (by simp)
    · left; simpa using h

/-- `Push` keeps the invariant, whatever the cache size: the D11 repair -/
theorem KGPQ.push_spec (q : KGPQ) (db : DB) (k : Bytes) (h : Inv q db) (hdb : Sorted db)
    (hk : Bytes.hasPrefix k q.pfx = true) :
    Inv (q.push db k).1 (q.push db k).2 ∧ (q.push db k).2 = sinsert k db ∧ (q.push db k).1.pfx = q.pfx ∧
    (q.push db k).1.cache.maxSize = q.cache.maxSize := by
  obtain ⟨hi, hp, hm, hpost⟩ := KGPQ.load_spec q db h hdb
  obtain ⟨rest, hr, hall⟩ := hi.pre
  have hD' : DB.scan (sinsert k db) (q.load db).pfx = sinsert k (db.scan (q.load db).pfx) := by
    unfold DB.scan
    rw [filter_sinsert _ k db hdb, hp]
    simp [hk]
  have hsD : Sorted ((q.load db).cache.items ++ rest) := by rw [← hr]; exact scan_sorted hdb _
  unfold KGPQ.push
  dsimp only [DB.put]
  generalize hq1 : q.load db = q1 at *
  by_cases hfits : q1.fits k = true
  · rw [if_pos hfits]
    obtain ⟨c1, c2, c3⟩ := Cache.push_ok q1.cache k hi.cache
    obtain ⟨e1, e2, dropped, e3, e4⟩ :=
      evictLoop_spec ((q1.cache.push k).items.length + 1) (q1.cache.push k) q1.allData c1
    have hkey : sinsert k (q1.cache.items ++ rest) = sinsert k q1.cache.items ++ rest := by
      by_cases hall' : q1.allData = true
      · rw [hall hall']; simp
      · have hlast : ∃ last, q1.cache.peekLast = some last ∧ Bytes.cmp k last ≠ .gt := by
          simp only [KGPQ.fits, hall', Bool.false_or] at hfits
          cases hpl : q1.cache.peekLast with
          | none => simp [hpl] at hfits
          | some last => exact ⟨last, rfl, by simpa [hpl] using hfits⟩
        obtain ⟨last, hl, hle⟩ := hlast
        apply sorted_ext (sinsert_sorted k _ hsD)
        · apply sorted_append (sinsert_sorted k _ hsD.append_left) hsD.append_right
          intro x hx y hy
          rcases (mem_sinsert k x _).mp hx with e | e
          · subst e; exact le_last_lt_rest hsD hl hle y hy
          · exact hsD.append_lt x e y hy
        · intro x
          simp only [mem_sinsert, List.mem_append]
          constructor
          · rintro (e | e | e)
            · left; left; exact e
            · left; right; exact e
            · right; exact e
          · rintro ((e | e) | e)
            · left; exact e
            · right; left; exact e
            · right; right; exact e
    refine ⟨⟨e1, dropped ++ rest, ?_, ?_⟩, rfl, hp, by rw [← hm]; exact e2.trans c3⟩
    · show DB.scan (sinsert k db) q1.pfx = _
      rw [hD', hr, hkey, ← c2, ← List.append_assoc, ← e3]
    · intro ht
      obtain ⟨a1, a2⟩ := e4 ht
      rw [a2, hall a1]; rfl
  · rw [if_neg hfits]
    simp only [KGPQ.fits, Bool.or_eq_true, not_or, Bool.not_eq_true] at hfits
    obtain ⟨hnall, hnl⟩ := hfits
    have hne : q1.cache.items ≠ [] := by
      rcases hpost with e | e
      · exact e
      · rw [e] at hnall; cases hnall
    obtain ⟨last, hl⟩ : ∃ last, q1.cache.items.getLast? = some last := by
      cases hgl : q1.cache.items.getLast? with
      | none => exact absurd (List.getLast?_eq_none_iff.mp hgl) hne
      | some l => exact ⟨l, rfl⟩
    have hgt : Bytes.lt last k = true := by
      simp only [Cache.peekLast, hl] at hnl
      have : Bytes.cmp k last = .gt := by
        cases hc : Bytes.cmp k last <;> simp [hc] at hnl ⊢
      simpa [Bytes.lt] using Bytes.cmp_gt_iff_lt.mp this
    refine ⟨⟨hi.cache, sinsert k rest, ?_, by intro ht; rw [hnall] at ht; cases ht⟩, rfl, hp, hm⟩
    show DB.scan (sinsert k db) q1.pfx = _
    rw [hD', hr]
    apply sorted_ext (sinsert_sorted k _ hsD)
    · apply sorted_append hsD.append_left (sinsert_sorted k _ hsD.append_right)
      intro x hx y hy
      rcases (mem_sinsert k y _).mp hy with e | e
      · subst e
        rcases le_last_of_mem hsD.append_left hl hx with e' | e'
        · subst e'; exact hgt
        · exact Bytes.lt_trans e' hgt
      · exact hsD.append_lt x hx y e
    · intro x
      simp only [mem_sinsert, List.mem_append]
      constructor
      · rintro (e | e | e)
        · right; left; exact e
        · left; exact e
        · right; right; exact e
      · rintro (e | e | e)
        · right; left; exact e
        · left; exact e
        · right; right; exact e

/-- `Delete` keeps the invariant -/
theorem KGPQ.delete_spec (q : KGPQ) (db : DB) (k : Bytes) (h : Inv q db) (hdb : Sorted db) :
    Inv (q.delete db k).1 (q.delete db k).2 ∧ (q.delete db k).2 = db.erase k ∧ (q.delete db k).1.pfx = q.pfx ∧
    (q.delete db k).1.cache.maxSize = q.cache.maxSize := by
  obtain ⟨hi, hp, hm, _⟩ := KGPQ.load_spec q db h hdb
  obtain ⟨rest, hr, hall⟩ := hi.pre
  obtain ⟨d1, d2, d3⟩ := Cache.delete_ok (q.load db).cache k hi.cache
  unfold KGPQ.delete
  dsimp only [DB.delete]
  have hD' : DB.scan (db.erase k) (q.load db).pfx = (db.scan (q.load db).pfx).erase k := by
    unfold DB.scan; exact filter_erase _ k db hdb
  refine ⟨⟨d1, ?_⟩, rfl, hp, by rw [← hm]; exact d3⟩
  show ∃ rest', DB.scan (db.erase k) (q.load db).pfx = ((q.load db).cache.delete k).items ++ rest' ∧ _
  rw [hD', hr, d2]
  by_cases hk : k ∈ (q.load db).cache.items
  · exact ⟨rest, List.erase_append_left _ hk, hall⟩
  · refine ⟨rest.erase k, ?_, ?_⟩
    · rw [List.erase_append_right _ hk, List.erase_of_not_mem hk]
    · intro ht; rw [hall ht]; rfl

/-- an operation of another partition (its keys do not have this partition's prefix) does not disturb the invariant -/
theorem Inv.other_put {q : KGPQ} {db : DB} (h : Inv q db) (hdb : Sorted db) (k : Bytes)
    (hk : Bytes.hasPrefix k q.pfx = false) : Inv q (sinsert k db) := by
  refine ⟨h.cache, ?_⟩
  have : DB.scan (sinsert k db) q.pfx = db.scan q.pfx := by
    unfold DB.scan; rw [filter_sinsert _ k db hdb]; simp [hk]
  rw [this]; exact h.pre

theorem Inv.other_delete {q : KGPQ} {db : DB} (h : Inv q db) (hdb : Sorted db) (k : Bytes)
    (hk : Bytes.hasPrefix k q.pfx = false) : Inv q (db.erase k) := by
  refine ⟨h.cache, ?_⟩
  have : DB.scan (db.erase k) q.pfx = db.scan q.pfx := by
    unfold DB.scan
    rw [filter_erase _ k db hdb]
    apply List.erase_of_not_mem
    simp [List.mem_filter, hk]
  rw [this]; exact h.pre

end Rxn.Timers
