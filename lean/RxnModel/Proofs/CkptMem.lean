import RxnModel.Model.Ckpt
import RxnModel.Proofs.Wal
import RxnModel.Base.BytesOrder
/-!
Helper lemmas for C08, memory side: the memtables of an instance hold exactly the logged writes newer than
`LatestSeqNum`, in any partition into memtables (`Inv`), and what a point read returns from them.
-/
namespace Rxn.Ckpt
open Rxn Rxn.Lsm

/-! ### memtables as folds of writes -/

theorem lookup_insert (r : Run) (e : Entry) (k : Bytes) :
    Run.lookup (Run.insert r e) k = if e.key = k then some e else Run.lookup r k := by
  induction r with
  | nil => simp [Run.insert, Run.lookup]
  | cons x xs ih =>
    simp only [Run.insert]
    cases hc : Bytes.cmp e.key x.key with
    | lt => simp [Run.lookup]
    | eq =>
      have hk : e.key = x.key := Bytes.cmp_eq_iff.mp hc
      simp only [Run.lookup]
      by_cases h : e.key = k
      · simp [h]
      · have : ¬ x.key = k := by rw [← hk]; exact h
        simp [h, this]
    | gt =>
      have hne : e.key ≠ x.key := by
        intro h; rw [Bytes.cmp_eq_iff.mpr h] at hc; cases hc
      simp only [Run.lookup, ih]
      by_cases hx : x.key = k
      · have : ¬ e.key = k := by intro h; exact hne (h.trans hx.symm)
        simp [hx, this]
      · simp [hx]

theorem mem_insert_self (r : Run) (e : Entry) : e ∈ Run.insert r e := by
  induction r with
  | nil => simp [Run.insert]
  | cons x xs ih =>
    simp only [Run.insert]
    cases Bytes.cmp e.key x.key <;> simp [ih]

theorem mem_insert (r : Run) (e x : Entry) (h : x ∈ Run.insert r e) : x = e ∨ x ∈ r := by
  induction r with
  | nil => simp [Run.insert] at h; exact Or.inl h
  | cons y ys ih =>
    simp only [Run.insert] at h
    cases hc : Bytes.cmp e.key y.key with
    | lt => rw [hc] at h; simp at h; rcases h with h | h | h
            · exact Or.inl h
            · exact Or.inr (by simp [h])
            · exact Or.inr (by simp [h])
    | eq => rw [hc] at h; simp at h; rcases h with h | h
            · exact Or.inl h
            · exact Or.inr (by simp [h])
    | gt => rw [hc] at h; simp at h; rcases h with h | h
            · exact Or.inr (by simp [h])
            · rcases ih h with h | h
              · exact Or.inl h
              · exact Or.inr (by simp [h])

/-- the memtable obtained by applying the writes in order -/
def fill (ws : List Wal.Rec) : Run := ws.foldl (fun r w => Run.insert r (recEntry w)) []

/-- the last write to `k` among `ws` (on top of `init`) -/
def lastW (init : Option Entry) (ws : List Wal.Rec) (k : Bytes) : Option Entry :=
  ws.foldl (fun acc w => if w.key = k then some (recEntry w) else acc) init

theorem lookup_foldl (ws : List Wal.Rec) (acc : Run) (k : Bytes) :
    Run.lookup (ws.foldl (fun r w => Run.insert r (recEntry w)) acc) k = lastW (Run.lookup acc k) ws k := by
  induction ws generalizing acc with
  | nil => rfl
  | cons w ws ih =>
    simp only [List.foldl_cons, lastW]
    rw [ih, lookup_insert]
    rfl

theorem lookup_fill (ws : List Wal.Rec) (k : Bytes) : Run.lookup (fill ws) k = lastW none ws k := by
  unfold fill; rw [lookup_foldl]; rfl

theorem fill_append (a : List Wal.Rec) (r : Wal.Rec) : fill (a ++ [r]) = Run.insert (fill a) (recEntry r) := by
  simp [fill, List.foldl_append]

theorem lastW_append (init : Option Entry) (a b : List Wal.Rec) (k : Bytes) :
    lastW init (a ++ b) k = lastW (lastW init a k) b k := by
  simp [lastW, List.foldl_append]

theorem lastW_init (init : Option Entry) (ws : List Wal.Rec) (k : Bytes) :
    lastW init ws k = match lastW none ws k with
      | some e => some e
      | none => init := by
  induction ws generalizing init with
  | nil => rfl
  | cons w ws ih =>
    simp only [lastW, List.foldl_cons]
    have h1 := ih (if w.key = k then some (recEntry w) else init)
    have h2 := ih (if w.key = k then some (recEntry w) else none)
    simp only [lastW] at h1 h2
    rw [h1, h2]
    by_cases hk : w.key = k
    · simp only [hk, if_true]
      generalize List.foldl _ none ws = x
      cases x <;> rfl
    · simp only [hk, if_false]
      generalize List.foldl _ none ws = x
      cases x <;> rfl

/-- `memtable.List.Get` over memtables that are folds of the parts of a write sequence = the last write -/
theorem memGet_parts_rev (rps : List (List Wal.Rec)) (k : Bytes) :
    memGet (rps.reverse.map fill) k = lastW none rps.reverse.flatten k := by
  induction rps with
  | nil => rfl
  | cons p rest ih =>
    have h1 : memGet ((p :: rest).reverse.map fill) k =
        match Run.lookup (fill p) k with
        | some e => some e
        | none => memGet (rest.reverse.map fill) k := by
      simp only [memGet, List.reverse_cons, List.map_append, List.map_cons, List.map_nil, List.reverse_append,
        List.reverse_nil, List.nil_append, List.cons_append, firstSome]
      cases Run.lookup (fill p) k <;> rfl
    rw [h1, ih, lookup_fill]
    have h2 : (p :: rest).reverse.flatten = rest.reverse.flatten ++ p := by simp
    rw [h2, lastW_append, lastW_init (lastW none rest.reverse.flatten k) p k]

theorem memGet_parts (ps : List (List Wal.Rec)) (k : Bytes) :
    memGet (ps.map fill) k = lastW none ps.flatten k := by
  have := memGet_parts_rev ps.reverse k
  simpa using this

theorem get_parts (db : Lsm.State) (ps : List (List Wal.Rec)) (hm : db.mems = ps.map fill) (k : Bytes) :
    Lsm.get db k = match lastW none ps.flatten k with
      | some e => some e
      | none => levelsGet db.levels k := by
  unfold Lsm.get
  rw [hm, memGet_parts]
  cases lastW none ps.flatten k <;> rfl

/-! ### the answer of the last write depends only on keys, delete flags and values -/

/-- what a record does to the map: the value of a delete is irrelevant -/
def trip (r : Wal.Rec) : Bytes × Bool × Bytes := (r.key, r.del, if r.del then [] else r.val)

theorem answer_lastW (ia ib : Option Entry) (a b : List Wal.Rec) (k : Bytes)
    (hi : answer ia = answer ib) (hi2 : ia.isSome = ib.isSome) (h : a.map trip = b.map trip) :
    answer (lastW ia a k) = answer (lastW ib b k) ∧ (lastW ia a k).isSome = (lastW ib b k).isSome := by
  induction a generalizing b ia ib with
  | nil =>
    cases b with
    | nil => exact ⟨hi, hi2⟩
    | cons y ys => simp at h
  | cons x xs ih =>
    cases b with
    | nil => simp at h
    | cons y ys =>
      simp only [List.map_cons, List.cons.injEq] at h
      obtain ⟨hxy, hrest⟩ := h
      simp only [lastW, List.foldl_cons]
      have hk : x.key = y.key := by simpa [trip] using congrArg (·.1) hxy
      have hd : x.del = y.del := by simpa [trip] using congrArg (·.2.1) hxy
      have hv : (if x.del then [] else x.val) = (if y.del then [] else y.val) := by
        simpa [trip] using congrArg (·.2.2) hxy
      apply ih
      · by_cases hx : x.key = k
        · have hy : y.key = k := hk ▸ hx
          simp only [hx, hy, if_true, answer, recEntry]
          rw [← hd]
          cases hxd : x.del
          · rw [hxd, ← hd, hxd] at hv; simpa using hv
          · rfl
        · have hy : ¬ y.key = k := hk ▸ hx
          simp only [hx, hy, if_false]; exact hi
      · by_cases hx : x.key = k
        · have hy : y.key = k := hk ▸ hx
          simp [hx, hy]
        · have hy : ¬ y.key = k := hk ▸ hx
          simp only [hx, hy, if_false]; exact hi2
      · exact hrest

/-! ### sequence-number bounds of tables -/

theorem le_runMaxSeq (r : Run) (e : Entry) (h : e ∈ r) : e.seq ≤ runMaxSeq r := by
  induction r with
  | nil => cases h
  | cons x xs ih =>
    simp only [List.mem_cons] at h
    simp only [runMaxSeq]
    rcases h with rfl | h
    · exact Nat.le_max_left _ _
    · exact Nat.le_trans (ih h) (Nat.le_max_right _ _)

theorem runMaxSeq_le (r : Run) (y : Nat) (h : ∀ e ∈ r, e.seq ≤ y) : runMaxSeq r ≤ y := by
  induction r with
  | nil => exact Nat.zero_le _
  | cons x xs ih =>
    simp only [runMaxSeq]
    exact Nat.max_le.mpr ⟨h x (by simp), ih (fun e he => h e (by simp [he]))⟩

theorem le_runsMaxSeq (rs : List Run) (r : Run) (h : r ∈ rs) : runMaxSeq r ≤ runsMaxSeq rs := by
  induction rs with
  | nil => cases h
  | cons x xs ih =>
    simp only [List.mem_cons] at h
    simp only [runsMaxSeq]
    rcases h with rfl | h
    · exact Nat.le_max_left _ _
    · exact Nat.le_trans (ih h) (Nat.le_max_right _ _)

theorem runsMaxSeq_le (rs : List Run) (y : Nat) (h : ∀ r ∈ rs, ∀ e ∈ r, e.seq ≤ y) : runsMaxSeq rs ≤ y := by
  induction rs with
  | nil => exact Nat.zero_le _
  | cons x xs ih =>
    simp only [runsMaxSeq]
    exact Nat.max_le.mpr ⟨runMaxSeq_le x y (h x (by simp)), ih (fun r hr => h r (by simp [hr]))⟩

theorem le_tablesMaxSeq (ts : List Tbl) (t : Tbl) (h : t ∈ ts) : runMaxSeq t.run ≤ tablesMaxSeq ts := by
  induction ts with
  | nil => cases h
  | cons x xs ih =>
    simp only [List.mem_cons] at h
    simp only [tablesMaxSeq]
    rcases h with rfl | h
    · exact Nat.le_max_left _ _
    · exact Nat.le_trans (ih h) (Nat.le_max_right _ _)

theorem mem_fill (ws : List Wal.Rec) (e : Entry) (h : e ∈ fill ws) : ∃ r ∈ ws, e = recEntry r := by
  suffices H : ∀ (acc : Run), e ∈ ws.foldl (fun r w => Run.insert r (recEntry w)) acc →
      e ∈ acc ∨ ∃ r ∈ ws, e = recEntry r by
    rcases H [] h with h | h
    · cases h
    · exact h
  clear h
  induction ws with
  | nil => intro acc h; exact Or.inl h
  | cons w ws ih =>
    intro acc h
    simp only [List.foldl_cons] at h
    rcases ih _ h with h | ⟨r, hr, he⟩
    · rcases mem_insert _ _ _ h with h | h
      · exact Or.inr ⟨w, by simp, h⟩
      · exact Or.inl h
    · exact Or.inr ⟨r, by simp [hr], he⟩

/-- writes with increasing sequence numbers: the table written from a memtable records the newest of them -/
theorem le_runMaxSeq_fill (ws : List Wal.Rec) (hs : ws.Pairwise (fun a b => a.seq < b.seq)) :
    ∀ r ∈ ws, r.seq ≤ runMaxSeq (fill ws) := by
  intro r hr
  obtain ⟨init, z, h⟩ : ∃ init z, ws = init ++ [z] := by
    cases hrev : ws.reverse with
    | nil => simp at hrev; subst hrev; cases hr
    | cons z t => exact ⟨t.reverse, z, by have := congrArg List.reverse hrev; simpa using this⟩
  · subst h
    have hz : recEntry z ∈ fill (init ++ [z]) := by rw [fill_append]; exact mem_insert_self _ _
    have hzle := le_runMaxSeq _ _ hz
    simp only [List.mem_append, List.mem_singleton] at hr
    rcases hr with hr | rfl
    · have := (List.pairwise_append.mp hs).2.2 r hr z (by simp)
      have : (recEntry z).seq = z.seq := rfl
      omega
    · exact hzle

/-! ### consecutive sequence numbers -/

theorem consecutive_append (f : Nat) (es : List Wal.Rec) (r : Wal.Rec) :
    Wal.Consecutive f (es ++ [r]) ↔ Wal.Consecutive f es ∧ r.seq = f + es.length := by
  induction es generalizing f with
  | nil => simp [Wal.Consecutive]
  | cons e es ih =>
    simp only [List.cons_append, Wal.Consecutive, ih, List.length_cons]
    constructor
    · rintro ⟨h1, h2, h3⟩; exact ⟨⟨h1, h2⟩, by omega⟩
    · rintro ⟨⟨h1, h2⟩, h3⟩; exact ⟨h1, h2, by omega⟩

theorem consecutive_seq (f : Nat) (es : List Wal.Rec) (h : Wal.Consecutive f es) :
    ∀ e ∈ es, f ≤ e.seq ∧ e.seq < f + es.length := by
  induction es generalizing f with
  | nil => intro e he; cases he
  | cons x xs ih =>
    intro e he
    obtain ⟨h1, h2⟩ := h
    simp only [List.mem_cons] at he
    simp only [List.length_cons]
    rcases he with rfl | he
    · omega
    · have := ih (f + 1) h2 e he; omega

theorem consecutive_pairwise (f : Nat) (es : List Wal.Rec) (h : Wal.Consecutive f es) :
    es.Pairwise (fun a b => a.seq < b.seq) := by
  induction es generalizing f with
  | nil => exact List.Pairwise.nil
  | cons x xs ih =>
    obtain ⟨h1, h2⟩ := h
    refine List.Pairwise.cons ?_ (ih (f + 1) h2)
    intro b hb
    have := consecutive_seq (f + 1) xs h2 b hb
    omega

end Rxn.Ckpt
