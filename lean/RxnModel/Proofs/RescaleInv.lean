import RxnModel.Proofs.RescaleRestore
import RxnModel.Proofs.LsmScan
/-!
Helper lemmas for C06: the instance produced by a multi-handle restore satisfies the DKV invariant `Lsm.Inv`
(C07), so every C07 theorem — `Get`, `ScanPrefix`, and all later writes / flushes / compactions — applies to it.
-/
namespace Rxn.Rescale
open Rxn Lsm Rxn.Search

/-- every version in `t` is newer than every version of the same key in `u` -/
def NewerT (t u : Tbl) : Prop := ∀ e ∈ t.run, ∀ e' ∈ u.run, e'.key = e.key → e'.seq < e.seq

theorem newerAbove_iff (cs : List Run) :
    NewerAbove cs ↔ cs.Pairwise (fun r r' => ∀ e ∈ r, ∀ e' ∈ r', e'.key = e.key → e'.seq < e.seq) := by
  induction cs with
  | nil => simp [NewerAbove]
  | cons r rs ih =>
    simp only [NewerAbove, List.pairwise_cons, ih]
    constructor
    · rintro ⟨h1, h2⟩; exact ⟨fun r' hr' e he e' he' hk => h1 e he r' hr' e' he' hk, h2⟩
    · rintro ⟨h1, h2⟩; exact ⟨fun e he r' hr' e' he' hk => h1 r' hr' e he e' he' hk, h2⟩

theorem newerAbove_tables (l : List Tbl) : NewerAbove (l.map (·.run)) ↔ l.Pairwise NewerT := by
  rw [newerAbove_iff, List.pairwise_map]; rfl

theorem pairwise_sym_forall {α : Type} {R : α → α → Prop} (hs : ∀ a b, R a b → R b a) :
    ∀ {l : List α}, l.Pairwise R → ∀ a ∈ l, ∀ b ∈ l, a ≠ b → R a b := by
  intro l
  induction l with
  | nil => intro _ a ha; cases ha
  | cons x xs ih =>
    intro h a ha b hb hne
    obtain ⟨h1, h2⟩ := List.pairwise_cons.mp h
    rcases List.mem_cons.mp ha with rfl | ha' <;> rcases List.mem_cons.mp hb with rfl | hb'
    · exact absurd rfl hne
    · exact h1 b hb'
    · exact hs _ _ (h1 a ha')
    · exact ih h2 a ha' b hb' hne

/-- what is assumed of one old instance `(range, checkpoint document)`. `keys`/`wal` are the condition the open
findings D37/D47 violate (first-generation instances satisfy it: they only ever wrote keys routed to them, C05);
`sorted`, `newer` are C07's invariant of the checkpointing instance (`Lsm.Inv.sorted`, `.newer`), `deeper` is the
layout validity C18 maintains, `nlev` the fixed number of levels. -/
structure SrcOk (n : Nat) (p : KGRange × Ckpt) : Prop where
  keys : ∀ t ∈ p.2.levels.flatten, ∀ e ∈ t.run, 2 ≤ e.key.length ∧ p.1.includes (kgOf e.key) = true
  ne : ∀ t ∈ p.2.levels.flatten, t.run ≠ []
  sorted : ∀ t ∈ p.2.levels.flatten, t.run.Sorted
  deeper : ∀ i l, 1 ≤ i → p.2.levels[i]? = some l → LevelValid l
  newer : NewerAbove ((readOrder p.2.levels).map (·.run))
  wal : ∀ w ∈ p.2.wal, p.1.includes (kgOf w.key) = true
  nlev : p.2.levels.length = n

theorem startKey_mem (t : Tbl) (hne : t.run ≠ []) : ∃ e ∈ t.run, t.startKey = e.key := by
  cases hr : t.run with
  | nil => exact absurd hr hne
  | cons e es => exact ⟨e, by simp, by simp [Tbl.startKey, hr]⟩

theorem endKey_mem (t : Tbl) (hne : t.run ≠ []) : ∃ e ∈ t.run, t.endKey = e.key := by
  refine ⟨t.run.getLast hne, List.getLast_mem hne, ?_⟩
  simp [Tbl.endKey, List.getLast?_eq_some_getLast hne]

/-- a key stored in a sorted table lies inside the table's key range -/
theorem key_in_range (t : Tbl) (hs : t.run.Sorted) (e : Entry) (he : e ∈ t.run) :
    Bytes.cmp t.startKey e.key ≠ .gt ∧ Bytes.cmp t.endKey e.key ≠ .lt := by
  have h := Lsm.range_of_mem hs he
  exact (contains_iff ⟨0, t.run⟩ e.key).mp h

theorem tblOk_of_sorted (t : Tbl) (hs : t.run.Sorted) (hne : t.run ≠ []) : TblOk t := by
  obtain ⟨e, he, hk⟩ := endKey_mem t hne
  have := (key_in_range t hs e he).1
  unfold TblOk; rw [hk]; exact this

theorem SrcOk.toOldOk {n : Nat} {p : KGRange × Ckpt} (h : SrcOk n p) : OldOk n p := by
  refine ⟨⟨?_, h.deeper⟩, h.wal, h.nlev⟩
  intro l hl t ht
  have htf : t ∈ p.2.levels.flatten := List.mem_flatten.mpr ⟨l, hl, ht⟩
  obtain ⟨e1, he1, hk1⟩ := startKey_mem t (h.ne t htf)
  obtain ⟨e2, he2, hk2⟩ := endKey_mem t (h.ne t htf)
  refine ⟨⟨?_, ?_, ?_, ?_⟩, tblOk_of_sorted t (h.sorted t htf) (h.ne t htf)⟩
  · rw [hk1]; exact (h.keys t htf e1 he1).1
  · rw [hk2]; exact (h.keys t htf e2 he2).1
  · rw [hk1]; exact (h.keys t htf e1 he1).2
  · rw [hk2]; exact (h.keys t htf e2 he2).2

/-- tables of sources with non-overlapping ranges share no key -/
theorem newerT_of_disjoint {n : Nat} (p p' : KGRange × Ckpt) (hp : SrcOk n p) (hp' : SrcOk n p')
    (hd : p.1.overlaps p'.1 = false) (t u : Tbl) (ht : t ∈ p.2.levels.flatten) (hu : u ∈ p'.2.levels.flatten) :
    NewerT t u := by
  intro e he e' he' hk
  exact absurd hk (key_ne_of_disjoint p'.1 p.1 e'.key e.key (hp'.keys u hu e' he').2 (hp.keys t ht e he).2
    (by rw [overlaps_comm]; exact hd))

/-- tables with disjoint key ranges share no key -/
theorem newerT_of_before (t u : Tbl) (hst : t.run.Sorted) (hsu : u.run.Sorted) (hb : Before t u) :
    NewerT t u ∧ NewerT u t := by
  have hne : ∀ e ∈ t.run, ∀ e' ∈ u.run, e'.key ≠ e.key := by
    intro e he e' he' hk
    have h1 := (key_in_range t hst e he).2      -- e.key ≤ end t
    have h2 := (key_in_range u hsu e' he').1    -- start u ≤ e'.key
    have h3 : Bytes.cmp e.key u.startKey = .lt := cmp_le_lt_trans (cmp_flip_le h1) hb
    have h4 : Bytes.cmp e.key e'.key = .lt := cmp_lt_le_trans h3 h2
    rw [hk, Bytes.cmp_self] at h4; cases h4
  exact ⟨fun e he e' he' hk => absurd hk (hne e he e' he'),
         fun e' he' e he hk => absurd hk.symm (hne e he e' he')⟩

theorem getD_flatten_mem (c : Ckpt) (i : Nat) (t : Tbl) (h : t ∈ c.levels.getD i []) : t ∈ c.levels.flatten := by
  obtain ⟨l, hl, ht⟩ := getD_level_mem c i t h
  exact List.mem_flatten.mpr ⟨l, hl, ht⟩

/-- read order inside one source: level `i` is visited before level `i' > i` -/
theorem src_order (c : Ckpt) (hnew : (readOrder c.levels).Pairwise NewerT) (i i' : Nat) (h : i < i')
    (t u : Tbl) (ht : t ∈ c.levels.getD i []) (hu : u ∈ c.levels.getD i' []) : NewerT t u := by
  cases hl : c.levels with
  | nil => simp [hl] at ht
  | cons l0 D =>
    rw [hl] at ht hu hnew
    simp only [readOrder] at hnew
    obtain ⟨_, h2, h3⟩ := List.pairwise_append.mp hnew
    cases i' with
    | zero => omega
    | succ j' =>
      have hu' : u ∈ D.getD j' [] := by simpa [List.getD_cons_succ] using hu
      have huf : ∃ l', D[j']? = some l' ∧ u ∈ l' := by
        rw [List.getD_eq_getElem?_getD] at hu'
        cases hd : D[j']? with
        | none => simp [hd] at hu'
        | some l' => exact ⟨l', rfl, by simpa [hd] using hu'⟩
      obtain ⟨l', hl', hul'⟩ := huf
      cases i with
      | zero =>
        have ht' : t ∈ l0 := by simpa using ht
        exact h3 t (List.mem_reverse.mpr ht') u (List.mem_flatten.mpr ⟨l', List.mem_of_getElem? hl', hul'⟩)
      | succ j =>
        have ht' : t ∈ D.getD j [] := by simpa [List.getD_cons_succ] using ht
        rw [List.getD_eq_getElem?_getD] at ht'
        cases hd : D[j]? with
        | none => simp [hd] at ht'
        | some l =>
          have htl : t ∈ l := by simpa [hd] using ht'
          have hp := (List.pairwise_flatten.mp h2).2
          obtain ⟨hj, hjl⟩ := List.getElem?_eq_some_iff.mp hd
          obtain ⟨hj', hjl'⟩ := List.getElem?_eq_some_iff.mp hl'
          have := (List.pairwise_iff_getElem.mp hp) j j' hj hj' (by omega)
          rw [hjl, hjl'] at this
          exact this t htl u hul'

/-- level 0 of one source is stored oldest first -/
theorem src_level0 (c : Ckpt) (hnew : (readOrder c.levels).Pairwise NewerT) :
    (c.levels.getD 0 []).Pairwise (fun a b => NewerT b a) := by
  cases hl : c.levels with
  | nil => simp
  | cons l0 D =>
    rw [hl] at hnew
    simp only [readOrder] at hnew
    have := (List.pairwise_append.mp hnew).1
    simpa [List.pairwise_reverse] using this

theorem mem_concatLevel' (ps : List (KGRange × Ckpt)) (i : Nat) (t : Tbl) (h : t ∈ concatLevel (ps.map (·.2)) i) :
    ∃ p ∈ ps, t ∈ p.2.levels.getD i [] := by
  unfold concatLevel at h
  simp only [List.map_map, List.mem_flatten, List.mem_map, Function.comp] at h
  obtain ⟨l, ⟨p, hp, rfl⟩, ht⟩ := h
  exact ⟨p, hp, ht⟩

theorem mergeLevels_multi (cs : List Ckpt) (m : Nat) (hlen : 2 ≤ cs.length) (hn : ∀ c ∈ cs, c.levels.length = m + 1) :
    mergeLevels cs = concatLevel cs 0 :: (List.range m).map (fun i => sortLevel (concatLevel cs (i + 1))) := by
  rw [mergeLevels_of_len cs (m + 1) hlen hn, List.range_succ_eq_map, List.map_cons, List.map_map]
  simp

section Merged
variable {m : Nat} (ps : List (KGRange × Ckpt)) (hok : ∀ p ∈ ps, SrcOk (m + 1) p)
  (hdis : ps.Pairwise (fun a b => a.1.overlaps b.1 = false))
include hok hdis

theorem nt_cross (p p' : KGRange × Ckpt) (hp : p ∈ ps) (hp' : p' ∈ ps) (i i' : Nat) (h : i < i') (t u : Tbl)
    (ht : t ∈ p.2.levels.getD i []) (hu : u ∈ p'.2.levels.getD i' []) : NewerT t u := by
  by_cases he : p = p'
  · subst he
    exact src_order p.2 ((newerAbove_tables _).mp (hok p hp).newer) i i' h t u ht hu
  · have hd := pairwise_sym_forall (R := fun (a b : KGRange × Ckpt) => a.1.overlaps b.1 = false)
      (fun a b h => by rw [overlaps_comm]; exact h) hdis p hp p' hp' he
    exact newerT_of_disjoint p p' (hok p hp) (hok p' hp') hd t u (getD_flatten_mem _ _ _ ht) (getD_flatten_mem _ _ _ hu)

omit hdis in
theorem sorted_of_concat (i : Nat) (t : Tbl) (ht : t ∈ concatLevel (ps.map (·.2)) i) : t.run.Sorted := by
  obtain ⟨p, hp, htp⟩ := mem_concatLevel' ps i t ht
  exact (hok p hp).sorted t (getD_flatten_mem _ _ _ htp)

theorem merged_level_valid (i : Nat) (hi : 1 ≤ i) : LevelValid (sortLevel (concatLevel (ps.map (·.2)) i)) :=
  sortLevel_valid _ (concatLevel_ok _ (fun p hp => (hok p hp).toOldOk.ck) i)
    (concatLevel_sep _ (fun p hp => (hok p hp).toOldOk.ck) hdis i hi)

/-- the composite level list keeps "newer above" in read order -/
theorem newer_merged (hlen : 2 ≤ ps.length) :
    (readOrder (mergeLevels (ps.map (·.2)))).Pairwise NewerT := by
  have hcs : ∀ c ∈ ps.map (·.2), c.levels.length = m + 1 := by
    intro c hc; obtain ⟨p, hp, rfl⟩ := List.mem_map.mp hc; exact (hok p hp).nlev
  rw [mergeLevels_multi _ m (by simpa using hlen) hcs]
  simp only [readOrder]
  rw [List.pairwise_append]
  refine ⟨?_, ?_, ?_⟩
  · -- level 0: each source oldest first, sources share no key
    rw [List.pairwise_reverse]
    unfold concatLevel
    rw [List.pairwise_flatten]
    constructor
    · intro l hl
      simp only [List.map_map, List.mem_map, Function.comp] at hl
      obtain ⟨p, hp, rfl⟩ := hl
      exact src_level0 p.2 ((newerAbove_tables _).mp (hok p hp).newer)
    · simp only [List.map_map]
      rw [List.pairwise_map]
      refine hdis.imp_of_mem ?_
      intro a b ha hb hab x hx y hy
      simp only [Function.comp] at hx hy
      exact newerT_of_disjoint b a (hok b hb) (hok a ha) (by rw [overlaps_comm]; exact hab) y x
        (getD_flatten_mem _ _ _ hy) (getD_flatten_mem _ _ _ hx)
  · -- deeper levels
    rw [List.pairwise_flatten]
    constructor
    · intro l hl
      obtain ⟨i, _, rfl⟩ := List.mem_map.mp hl
      have hv := merged_level_valid ps hok hdis (i + 1) (by omega)
      refine hv.2.imp_of_mem ?_
      intro t u ht hu hb
      have hperm := List.mergeSort_perm (concatLevel (ps.map (·.2)) (i + 1)) tblLe
      exact (newerT_of_before t u (sorted_of_concat ps hok _ t (hperm.mem_iff.mp ht))
        (sorted_of_concat ps hok _ u (hperm.mem_iff.mp hu)) hb).1
    · rw [List.pairwise_map]
      refine (List.pairwise_lt_range (n := m)).imp ?_
      intro a b hab x hx y hy
      have hpa := List.mergeSort_perm (concatLevel (ps.map (·.2)) (a + 1)) tblLe
      have hpb := List.mergeSort_perm (concatLevel (ps.map (·.2)) (b + 1)) tblLe
      obtain ⟨p, hp, hxp⟩ := mem_concatLevel' ps _ x (hpa.mem_iff.mp hx)
      obtain ⟨p', hp', hyp⟩ := mem_concatLevel' ps _ y (hpb.mem_iff.mp hy)
      exact nt_cross ps hok hdis p p' hp hp' (a + 1) (b + 1) (by omega) x y hxp hyp
  · -- level 0 before every deeper level
    intro t ht u hu
    obtain ⟨p, hp, htp⟩ := mem_concatLevel' ps 0 t (List.mem_reverse.mp ht)
    obtain ⟨l, hl, hul⟩ := List.mem_flatten.mp hu
    obtain ⟨b, _, rfl⟩ := List.mem_map.mp hl
    have hpb := List.mergeSort_perm (concatLevel (ps.map (·.2)) (b + 1)) tblLe
    obtain ⟨p', hp', hup⟩ := mem_concatLevel' ps _ u (hpb.mem_iff.mp hul)
    exact nt_cross ps hok hdis p p' hp hp' 0 (b + 1) (by omega) t u htp hup

end Merged

/-! ### `Lsm.Inv` for the restored instance -/

theorem lookup_append (a b : Run) (k : Bytes) :
    Run.lookup (a ++ b) k = (match Run.lookup a k with | some e => some e | none => Run.lookup b k) := by
  induction a with
  | nil => simp [Run.lookup]
  | cons x xs ih =>
    simp only [List.cons_append, Run.lookup]
    by_cases h : x.key = k
    · simp [h]
    · simp [h, ih]

/-- the read-order containers concatenated are a specification map of the instance: first binding wins -/
theorem firstHit_flatten (cs : List Run) (k : Bytes) : firstHit cs k = Run.lookup cs.flatten k := by
  induction cs with
  | nil => simp [firstHit, firstSome, Run.lookup]
  | cons r rs ih =>
    simp only [firstHit, firstSome, List.flatten_cons, lookup_append]
    cases Run.lookup r k with
    | some e => rfl
    | none => exact ih

theorem rangeUnique_of_valid (l : List Tbl) (h : LevelValid l) : RangeUnique l := by
  refine h.2.imp ?_
  intro t u hb k ⟨ct, cu⟩
  have c1 := (contains_iff t k).mp ct
  have c2 := (contains_iff u k).mp cu
  have h1 : Bytes.cmp k u.startKey = .lt := cmp_le_lt_trans (cmp_flip_le c1.2) hb
  exact c2.1 (Bytes.cmp_lt_iff_gt.mp h1)

theorem foldl_applyWal_sorted (own : Bytes → Bool) : ∀ (wal : List WalEntry) (s : State) (m : Run),
    s.mems = [m] → s.reading = none → m.Sorted →
    ∃ m', (wal.foldl (applyWal own) s).mems = [m'] ∧ m'.Sorted := by
  intro wal
  induction wal with
  | nil => intro s m hm _ hs; exact ⟨m, hm, hs⟩
  | cons w ws ih =>
    intro s m hm hr hs
    simp only [List.foldl_cons]
    by_cases ho : own w.key = true
    · have hs1 : applyWal own s w = { s with seq := s.seq + 1, mems := [Run.insert m (wEntry (s.seq + 1) w.key w.del w.val)] } := by
        unfold applyWal; simp only [ho, if_true]; exact write_single s m hm hr _ _ _
      exact ih _ _ (by rw [hs1]) (by rw [hs1]; exact hr) (Run.insert_sorted _ hs)
    · have hs1 : applyWal own s w = s := by unfold applyWal; simp [ho]
      rw [hs1]; exact ih s m hm hr hs

theorem levelsGetR_eq (L : List (List Tbl)) (hv : ∀ l ∈ L.tail, LevelValid l) (k : Bytes) :
    levelsGetR L k = levelsGet L k := by
  cases L with
  | nil => rfl
  | cons l0 D =>
    simp only [levelsGetR, levelsGet]
    cases l0Get l0 k with
    | some e => rfl
    | none =>
      simp only
      exact Lsm.firstSome_congr _ _ D (fun l hl => deepGetBS_eq l k (hv l (by simpa using hl)))

theorem mem_mergeLevels (m : Nat) (ps : List (KGRange × Ckpt)) (hok : ∀ p ∈ ps, SrcOk (m + 1) p) (t : Tbl)
    (ht : t ∈ (mergeLevels (ps.map (·.2))).flatten) : ∃ p ∈ ps, t ∈ p.2.levels.flatten := by
  match ps, hok with
  | [], _ => simp [mergeLevels] at ht
  | [p], _ => exact ⟨p, by simp, by simpa [mergeLevels] using ht⟩
  | p :: q :: rest, hok =>
    have hcs : ∀ c ∈ (p :: q :: rest).map (·.2), c.levels.length = m + 1 := by
      intro c hc; obtain ⟨p', hp', rfl⟩ := List.mem_map.mp hc; exact (hok p' hp').nlev
    rw [mergeLevels_multi _ m (by simp) hcs] at ht
    obtain ⟨l, hl, htl⟩ := List.mem_flatten.mp ht
    have hcat : ∃ i, t ∈ concatLevel ((p :: q :: rest).map (·.2)) i := by
      rcases List.mem_cons.mp hl with rfl | hl'
      · exact ⟨0, htl⟩
      · obtain ⟨i, _, rfl⟩ := List.mem_map.mp hl'
        exact ⟨i + 1, (List.mergeSort_perm _ tblLe).mem_iff.mp htl⟩
    obtain ⟨i, hi⟩ := hcat
    obtain ⟨p', hp', htp⟩ := mem_concatLevel' _ i t hi
    exact ⟨p', hp', getD_flatten_mem _ _ _ htp⟩

/-- **the restored instance satisfies C07's invariant** for the specification map "its containers in read order" -/
theorem openDB_lsm_inv (own : Bytes → Bool) (m : Nat) (ps : List (KGRange × Ckpt)) (hne : ps ≠ [])
    (hok : ∀ p ∈ ps, SrcOk (m + 1) p) (hdis : ps.Pairwise (fun a b => a.1.overlaps b.1 = false)) :
    Inv (openDB own (ps.map (·.2))) (containers (openDB own (ps.map (·.2)))).flatten := by
  obtain ⟨c0, rest, hcs⟩ : ∃ c0 rest, ps.map (·.2) = c0 :: rest := by
    cases ps with
    | nil => exact absurd rfl hne
    | cons p ps' => exact ⟨p.2, ps'.map (·.2), by simp⟩
  have hinv := openDB_inv own c0 rest
  rw [← hcs] at hinv
  obtain ⟨mm, hmm, hall⟩ := hinv.mems
  have hlev := hinv.levels
  -- the memtable is sorted
  have hsortedM : mm.Sorted := by
    rw [openDB_ne own _ (by rw [hcs]; simp)] at hmm
    obtain ⟨m', hm', hs'⟩ := foldl_applyWal_sorted own (((ps.map (·.2))).flatMap (·.wal))
      (startState tblEndSeq (mergeLevels (ps.map (·.2)))) [] rfl rfl
      Run.sorted_nil
    rw [hm'] at hmm; cases hmm; exact hs'
  have hcont : containers (openDB own (ps.map (·.2))) =
      [mm] ++ (readOrder (mergeLevels (ps.map (·.2)))).map (·.run) := by
    simp [containers, hmm, hlev]
  have htab : ∀ t ∈ readOrder (mergeLevels (ps.map (·.2))), ∃ p ∈ ps, t ∈ p.2.levels.flatten :=
    fun t ht => mem_mergeLevels m ps hok t ((readOrder_mem _ t).mp ht)
  have hseqT : ∀ t ∈ readOrder (mergeLevels (ps.map (·.2))), ∀ e ∈ t.run,
      e.seq ≤ latestSeq (mergeLevels (ps.map (·.2))) := by
    intro t ht e he
    exact Nat.le_trans (seq_le_tblEndSeq t e he) (tblEndSeq_le_latest _ t ((readOrder_mem _ t).mp ht))
  have hvalid : ∀ l ∈ (mergeLevels (ps.map (·.2))).tail, LevelValid l := by
    intro l hl
    obtain ⟨i, hi⟩ := List.getElem?_of_mem hl
    rw [List.getElem?_tail] at hi
    exact mergeLevels_valid ps (fun p hp => (hok p hp).toOldOk.ck) hdis (i + 1) (by omega) l hi
  refine ⟨by rw [hmm]; simp, ?_, ?_, ?_, ?_, ?_, ?_⟩
  · -- at least one level
    rw [hlev]
    cases ps with
    | nil => exact absurd rfl hne
    | cons p ps' =>
      cases ps' with
      | nil =>
        have := (hok p (by simp)).nlev
        simp only [List.map_cons, List.map_nil, mergeLevels]
        intro h; rw [h] at this; simp at this
      | cons q r =>
        rw [mergeLevels_multi _ m (by simp) (by
          intro c hc; obtain ⟨p', hp', rfl⟩ := List.mem_map.mp hc; exact (hok p' hp').nlev)]
        simp
  · -- sorted
    intro r hr
    rw [hcont] at hr
    rcases List.mem_append.mp hr with h | h
    · simp at h; subst h; exact hsortedM
    · obtain ⟨t, ht, rfl⟩ := List.mem_map.mp h
      obtain ⟨p, hp, htp⟩ := htab t ht
      exact (hok p hp).sorted t htp
  · intro k; exact firstHit_flatten _ k
  · -- sequence bound
    intro r hr e he
    rw [hcont] at hr
    rcases List.mem_append.mp hr with h | h
    · simp at h; subst h; exact (hall e he).2.1
    · obtain ⟨t, ht, rfl⟩ := List.mem_map.mp h
      exact Nat.le_trans (hseqT t ht e he) hinv.seq
  · -- newer above
    rw [hcont, newerAbove_append]
    refine ⟨by simp [NewerAbove], ?_, ?_⟩
    · rw [newerAbove_tables]
      cases ps with
      | nil => exact absurd rfl hne
      | cons p ps' =>
        cases ps' with
        | nil =>
          simp only [List.map_cons, List.map_nil, mergeLevels]
          exact (newerAbove_tables _).mp (hok p (by simp)).newer
        | cons q r => exact newer_merged _ hok hdis (by simp)
    · intro r hr e he r' hr' e' he' _
      simp at hr; subst hr
      obtain ⟨t, ht, rfl⟩ := List.mem_map.mp hr'
      exact Nat.lt_of_le_of_lt (hseqT t ht e' he') (hall e he).1
  · -- deeper levels
    intro l hl
    rw [hlev] at hl
    exact rangeUnique_of_valid l (hvalid l hl)

/-- on the restored instance the binary-search reads of `level_list.go` agree with C07's read definitions -/
theorem getR_eq_get (own : Bytes → Bool) (m : Nat) (ps : List (KGRange × Ckpt))
    (hok : ∀ p ∈ ps, SrcOk (m + 1) p) (hdis : ps.Pairwise (fun a b => a.1.overlaps b.1 = false)) (hne : ps ≠ [])
    (k : Bytes) : getR (openDB own (ps.map (·.2))) k = Lsm.get (openDB own (ps.map (·.2))) k := by
  obtain ⟨c0, rest, hcs⟩ : ∃ c0 rest, ps.map (·.2) = c0 :: rest := by
    cases ps with
    | nil => exact absurd rfl hne
    | cons p ps' => exact ⟨p.2, ps'.map (·.2), by simp⟩
  have hinv := openDB_inv own c0 rest
  rw [← hcs] at hinv
  have hv : ∀ l ∈ (mergeLevels (ps.map (·.2))).tail, LevelValid l := by
    intro l hl
    obtain ⟨i, hi⟩ := List.getElem?_of_mem hl
    rw [List.getElem?_tail] at hi
    exact mergeLevels_valid ps (fun p hp => (hok p hp).toOldOk.ck) hdis (i + 1) (by omega) l hi
  unfold getR Lsm.get
  rw [hinv.levels, levelsGetR_eq _ hv]
  rfl

end Rxn.Rescale
