import RxnModel.Proofs.RescaleLevels
/-! Helper lemmas for C06: on a valid level the binary search of `tablesForKey` finds the table whose range
contains the key; tables of other key-group ranges never contain the key. -/
namespace Rxn.Rescale
open Rxn Lsm Rxn.Search

theorem firstSome_append {α β : Type} (f : α → Option β) (x y : List α) :
    firstSome f (x ++ y) = (match firstSome f x with | some b => some b | none => firstSome f y) := by
  induction x with
  | nil => simp [firstSome]
  | cons a x ih =>
    simp only [List.cons_append, firstSome]
    cases f a with
    | some b => rfl
    | none => exact ih

theorem firstSome_none {α β : Type} (f : α → Option β) (x : List α) (h : ∀ a ∈ x, f a = none) :
    firstSome f x = none := by
  induction x with
  | nil => rfl
  | cons a x ih =>
    simp only [firstSome, h a (by simp)]
    exact ih (fun b hb => h b (by simp [hb]))

theorem firstSome_congr {α β γ : Type} (f : α → Option γ) (g : β → Option γ) :
    ∀ (x : List α) (y : List β), x.length = y.length →
      (∀ (i : Nat) a b, x[i]? = some a → y[i]? = some b → f a = g b) → firstSome f x = firstSome g y := by
  intro x
  induction x with
  | nil => intro y hl _; cases y with
    | nil => rfl
    | cons _ _ => simp at hl
  | cons a x ih =>
    intro y hl h
    cases y with
    | nil => simp at hl
    | cons b y =>
      simp only [firstSome]
      rw [h 0 a b rfl rfl]
      cases g b with
      | some _ => rfl
      | none =>
        exact ih y (by simpa using hl) (fun i a' b' ha hb => h (i + 1) a' b' (by simpa using ha) (by simpa using hb))

theorem contains_iff (t : Tbl) (k : Bytes) :
    t.rangeContainsKey k = true ↔ Bytes.cmp t.startKey k ≠ .gt ∧ Bytes.cmp t.endKey k ≠ .lt := by
  unfold Tbl.rangeContainsKey Gen.tblRangeContainsKey cmpInt
  cases Bytes.cmp t.startKey k <;> cases Bytes.cmp t.endKey k <;> simp

/-- a table of an instance with another key-group range cannot contain the key in its key range -/
theorem notContains_of_disjoint (ra rb : KGRange) (t : Tbl) (ht : TblIn ra t) (k : Bytes)
    (hk : rb.includes (kgOf k) = true) (hlen : 2 ≤ k.length) (hd : ra.overlaps rb = false) :
    t.rangeContainsKey k = false := by
  cases hc : t.rangeContainsKey k with
  | false => rfl
  | true =>
    exfalso
    obtain ⟨h1, h2⟩ := (contains_iff t k).mp hc
    have m1 := kgOf_mono ht.startLen hlen h1
    have m2 := kgOf_mono hlen ht.endLen (cmp_flip_le h2)
    have a1 := ht.startIn; have a2 := ht.endIn
    simp [KGRange.includes, Gen.kgIncludes] at a1 a2 hk
    simp [KGRange.overlaps, Gen.kgOverlaps] at hd
    have := hd (by omega)
    omega

theorem levelOk_of_valid (l : List Tbl) (h : LevelValid l) :
    LevelOk (l.map fun t => (t.startKey, t.endKey)).toArray := by
  constructor
  · intro i hi
    simp only [List.size_toArray, List.length_map] at hi
    simp only [List.getElem_toArray, List.getElem_map]
    exact h.1 _ (List.getElem_mem hi)
  · intro i j hij hj
    simp only [List.size_toArray, List.length_map] at hj
    simp only [List.getElem_toArray, List.getElem_map]
    exact (List.pairwise_iff_getElem.mp h.2) i j (by omega) hj hij

/-- on a valid level `SearchUnique` over `RangeKeyCompare` returns the table whose range contains the key -/
theorem deepGetBS_eq (l : List Tbl) (k : Bytes) (h : LevelValid l) : deepGetBS l k = deepGet l k := by
  have hok := levelOk_of_valid l h
  have hss := signSorted_level _ k hok
  unfold deepGetBS deepGet searchTables
  cases hs : searchUnique (l.map fun t => (t.startKey, t.endKey)).toArray
      (fun t => Gen.tblRangeKeyCompare t.1 t.2 k) with
  | none =>
    have hnone := searchUnique_complete _ _ hss hs
    have : l.find? (fun t => t.rangeContainsKey k) = none := by
      rw [List.find?_eq_none]
      intro t ht hc
      obtain ⟨i, hi, rfl⟩ := List.getElem_of_mem ht
      have := hnone i (by simpa using hi)
      simp only [List.getElem_toArray, List.getElem_map] at this
      exact this (rangeKeyCompare_zero.mpr hc)
    simp [this]
  | some i =>
    obtain ⟨hi, h0⟩ := searchUnique_sound _ _ hss i hs
    have hi' : i < l.length := by simpa using hi
    simp only [List.getElem_toArray, List.getElem_map] at h0
    have hc : l[i].rangeContainsKey k = true := rangeKeyCompare_zero.mp h0
    have hfind : l.find? (fun t => t.rangeContainsKey k) = some l[i] := by
      rw [List.find?_eq_some_iff_getElem]
      refine ⟨hc, i, hi', rfl, ?_⟩
      intro j hj
      cases hcj : l[j].rangeContainsKey k with
      | false => simp
      | true =>
        exfalso
        have hj' : j < l.length := by omega
        have e := signSorted_unique _ _ hss j i (by simpa using hj') hi
          (by simp only [List.getElem_toArray, List.getElem_map]; exact rangeKeyCompare_zero.mpr hcj)
          (by simp only [List.getElem_toArray, List.getElem_map]; exact h0)
        omega
    simp [hfind, List.getElem?_eq_getElem hi']

end Rxn.Rescale
