import RxnModel.Proofs.TimersRefine
/-! Histories: the refinement step lemmas lifted to arbitrary action sequences; restore. -/
namespace Rxn.Timers
open Rxn Rxn.Bytes

/-- the configuration of a store (never changes) -/
structure Shape (s : Store) (kgc start stop : Nat) : Prop where
  hkgc : s.kgc = kgc
  hstart : s.start = start
  hlen : s.parts.length = stop - start
  hle : start ≤ stop

theorem shape_new (db : DB) (kgc start stop maxCache : Nat) (h : start ≤ stop) :
    Shape (Store.new db kgc start stop maxCache) kgc start stop :=
  ⟨rfl, rfl, by simp [Store.new], h⟩

theorem Shape.of_step {s s' : Store} {db' : DB} {kgc start stop : Nat} (h : Shape s kgc start stop)
    (st : StoreStep s s' db') : Shape s' kgc start stop :=
  ⟨st.kgc.trans h.hkgc, st.start.trans h.hstart, st.len.trans h.hlen, h.hle⟩

theorem owns_of_valid {s : Store} {kgc start stop : Nat} (h : Shape s kgc start stop) (key : Bytes)
    (h1 : start ≤ KeySpace.keyGroup kgc key) (h2 : KeySpace.keyGroup kgc key < stop) : s.owns key = true := by
  simp only [Store.owns, Bool.and_eq_true, decide_eq_true_eq, h.hkgc, h.hstart, h.hlen]
  have := h.hle
  omega

/-- the outputs of two runs agree action by action: same timers (as a set, each once), in non-decreasing timestamp order -/
def OutputsAgree : List (List (Bytes × Int)) → List (List (Bytes × Int)) → Prop
  | [], [] => True
  | f :: fs, g :: gs => (f.Perm g ∧ f.Pairwise (fun a b => a.2 ≤ b.2) ∧ f.Nodup) ∧ OutputsAgree fs gs
  | _, _ => False

theorem step_refines (r : Registry) (sp : Spec) (kgc start stop : Nat) (h : Rel r sp)
    (hsh : Shape r.store kgc start stop) (op : ROp) (hv : op.valid kgc start stop) :
    Rel (r.step op).1 (sp.step op).1 ∧ Shape (r.step op).1.store kgc start stop ∧
    ((r.step op).2.Perm (sp.step op).2 ∧ (r.step op).2.Pairwise (fun a b => a.2 ≤ b.2) ∧ (r.step op).2.Nodup) := by
  cases op with
  | set key t =>
    obtain ⟨v1, v2, v3, v4⟩ := hv
    have ho := owns_of_valid hsh key v1 v2
    refine ⟨setTimer_refines r sp h key t ho v3 v4, ?_, List.Perm.refl _, List.Pairwise.nil, List.nodup_nil⟩
    simp only [Registry.step, Registry.setTimer]
    split
    · exact hsh
    · exact hsh.of_step (put_spec r.store h.inv key t ho).1
  | adv s v =>
    obtain ⟨a1, a2, a3, a4⟩ := advance_refines r sp h s v
    refine ⟨a1, ?_, a2, a3, a4⟩
    obtain ⟨keys, f⟩ := fireLoop_spec (r.ups.report s v).2 (r.store.db.length + 1) r.store h.inv (by omega)
    exact ⟨f.kgc.trans hsh.hkgc, f.start.trans hsh.hstart, f.len.trans hsh.hlen, hsh.hle⟩
  | touch i =>
    obtain ⟨t1, t2⟩ := touch_spec r.store h.inv i
    simp only [Registry.step, Spec.step]
    have hkeys : ∀ x, x ∈ (r.store.touch i).timerKeys ↔ x ∈ r.store.timerKeys := by
      intro x
      by_cases hin : i < r.store.parts.length
      · have hst : StoreStep r.store (r.store.touch i) r.store.db := by
          have h' := onPart_spec r.store i (fun q db => (q.load db, db)) h.inv r.store.db h.inv.db
            (by
              intro q hq
              obtain ⟨hi, _⟩ := h.inv.parts _ q hq
              obtain ⟨p1, p2, _⟩ := KGPQ.load_spec q r.store.db hi h.inv.db
              exact ⟨p1, rfl, p2⟩)
            (by intro j q _ hq; exact (h.inv.parts j q hq).1)
            hin
          exact ⟨h'.1, h'.2.1, h'.2.2.1, h'.2.2.2.1, h'.2.2.2.2.1, h'.2.2.2.2.2⟩
        rw [mem_timerKeys, mem_timerKeys, hst.db, ownsKey_step hst]
      · have : r.store.parts[i]? = none := List.getElem?_eq_none_iff.mpr (by omega)
        have he : r.store.touch i = r.store := by simp only [Store.touch, Store.onPart, this]
        rw [he]
    have hshape : Shape (r.store.touch i) kgc start stop := by
      by_cases hin : i < r.store.parts.length
      · unfold Store.touch Store.onPart
        cases hq : r.store.parts[i]? with
        | none => exact hsh
        | some q => exact ⟨hsh.hkgc, hsh.hstart, by simpa using hsh.hlen, hsh.hle⟩
      · have : r.store.parts[i]? = none := List.getElem?_eq_none_iff.mpr (by omega)
        have he : r.store.touch i = r.store := by simp only [Store.touch, Store.onPart, this]
        rw [he]; exact hsh
    have hkgc : (r.store.touch i).kgc = r.store.kgc := hshape.hkgc.trans hsh.hkgc.symm
    refine ⟨⟨t1, h.ups, h.wm, ?_, ?_, h.nodup⟩, hshape, List.Perm.refl _, List.Pairwise.nil, List.nodup_nil⟩
    · intro k hk
      show WF (r.store.touch i).kgc k
      rw [hkgc]; exact h.wf k ((hkeys k).mp hk)
    · intro p
      rw [h.pend p]
      constructor
      · rintro ⟨k, hk, hp⟩; exact ⟨k, (hkeys k).mpr hk, hp⟩
      · rintro ⟨k, hk, hp⟩; exact ⟨k, (hkeys k).mp hk, hp⟩

theorem run_refines (ops : List ROp) (r : Registry) (sp : Spec) (kgc start stop : Nat) (h : Rel r sp)
    (hsh : Shape r.store kgc start stop) (hv : ∀ op ∈ ops, op.valid kgc start stop) :
    Rel (r.run ops).1 (sp.run ops).1 ∧ Shape (r.run ops).1.store kgc start stop ∧
    OutputsAgree (r.run ops).2 (sp.run ops).2 := by
  induction ops generalizing r sp with
  | nil => exact ⟨h, hsh, trivial⟩
  | cons op ops ih =>
    obtain ⟨s1, s2, s3⟩ := step_refines r sp kgc start stop h hsh op (hv op List.mem_cons_self)
    obtain ⟨i1, i2, i3⟩ := ih (r.step op).1 (sp.step op).1 s1 s2 (fun o ho => hv o (List.mem_cons_of_mem _ ho))
    exact ⟨i1, i2, s3, i3⟩

theorem ownsKey_iff (s : Store) (hs : SInv s) (k : Bytes) :
    s.ownsKey k ↔ ∃ i, i < s.parts.length ∧ Bytes.hasPrefix k (kgPrefix (s.start + i)) = true := by
  unfold Store.ownsKey
  constructor
  · rintro ⟨j, q, hj, hp⟩
    exact ⟨j, (List.getElem?_eq_some_iff.mp hj).1, by rw [← (hs.parts j q hj).2]; exact hp⟩
  · rintro ⟨i, hi, hp⟩
    exact ⟨i, s.parts[i], List.getElem?_eq_getElem hi, by
      rw [(hs.parts i _ (List.getElem?_eq_getElem hi)).2]; exact hp⟩

/-- restore: a registry rebuilt with fresh caches (of any size) over the DB content of a related registry stands for the
same pending set; the watermark starts over -/
theorem restore_rel (r : Registry) (sp : Spec) (kgc start stop : Nat) (h : Rel r sp)
    (hsh : Shape r.store kgc start stop) (hstop : stop ≤ 65536) (maxCache : Nat) (ids : List String) :
    Rel (Registry.new (Store.new r.store.db kgc start stop maxCache) ids) ⟨sp.pending, Wm.Ups.init ids, Wm.regInit⟩ := by
  have hinv := sinv_new r.store.db h.inv.db kgc start stop maxCache hsh.hle hstop
  have hkeys : ∀ x, x ∈ (Store.new r.store.db kgc start stop maxCache).timerKeys ↔ x ∈ r.store.timerKeys := by
    intro x
    rw [mem_timerKeys, mem_timerKeys, ownsKey_iff _ hinv, ownsKey_iff _ h.inv, hsh.hstart, hsh.hlen]
    simp [Store.new]
  refine ⟨hinv, rfl, rfl, ?_, ?_, h.nodup⟩
  · intro k hk
    have := h.wf k ((hkeys k).mp hk)
    rw [hsh.hkgc] at this
    exact this
  · intro p
    show p ∈ sp.pending ↔ _
    rw [h.pend p]
    constructor
    · rintro ⟨k, hk, hp⟩; exact ⟨k, (hkeys k).mpr hk, hp⟩
    · rintro ⟨k, hk, hp⟩; exact ⟨k, (hkeys k).mp hk, hp⟩

theorem keyGroup_lt (kgc : Nat) (hk : 0 < kgc) (key : Bytes) : KeySpace.keyGroup kgc key < kgc := Nat.mod_lt _ hk

/-- a well-formed key has the prefix of key group `g` exactly when `g` is its subject key's group -/
theorem wf_prefix_iff {kgc : Nat} {k : Bytes} (hk : WF kgc k) (hk0 : 0 < kgc) (hk1 : kgc ≤ 65536) (g : Nat) (hg : g < 65536) :
    Bytes.hasPrefix k (kgPrefix g) = true ↔ g = KeySpace.keyGroup kgc (timerOf k).1 := by
  have hkg : KeySpace.keyGroup kgc (timerOf k).1 < 65536 := Nat.lt_of_lt_of_le (keyGroup_lt kgc hk0 _) hk1
  have hp : Bytes.hasPrefix k (kgPrefix (KeySpace.keyGroup kgc (timerOf k).1)) = true := by
    have := timerKey_prefix kgc (timerOf k).1 (encTs (timerOf k).2)
    rw [← hk.1] at this; exact this
  constructor
  · intro h
    obtain ⟨t1, e1⟩ := Bytes.hasPrefix_iff.mp h
    obtain ⟨t2, e2⟩ := Bytes.hasPrefix_iff.mp hp
    have a1 := take2_kgPrefix g hg t1
    have a2 := take2_kgPrefix _ hkg t2
    rw [← e1] at a1
    rw [← e2] at a2
    omega
  · intro h; rw [h]; exact hp

/-- restore into a different key-group range (rescale): a registry rebuilt with fresh caches over the same DB content for
a sub-range `[start', stop')` of the old range stands for exactly the pending timers whose key group lies in the new range -/
theorem restore_rel_subrange (r : Registry) (sp : Spec) (kgc start stop start' stop' : Nat) (h : Rel r sp)
    (hsh : Shape r.store kgc start stop) (hk0 : 0 < kgc) (hk1 : kgc ≤ 65536) (hstop : stop ≤ 65536)
    (hs1 : start ≤ start') (hs2 : start' ≤ stop') (hs3 : stop' ≤ stop) (maxCache : Nat) (ids : List String) :
    Rel (Registry.new (Store.new r.store.db kgc start' stop' maxCache) ids)
      ⟨sp.pending.filter (fun p => decide (start' ≤ KeySpace.keyGroup kgc p.1) && decide (KeySpace.keyGroup kgc p.1 < stop')),
       Wm.Ups.init ids, Wm.regInit⟩ := by
  have hinv := sinv_new r.store.db h.inv.db kgc start' stop' maxCache hs2 (by omega)
  have hlen : (Store.new r.store.db kgc start' stop' maxCache).parts.length = stop' - start' := by simp [Store.new]
  have hst : (Store.new r.store.db kgc start' stop' maxCache).start = start' := rfl
  have hwfold : ∀ x ∈ r.store.timerKeys, WF kgc x := by
    intro x hx; have := h.wf x hx; rw [hsh.hkgc] at this; exact this
  have hkeys : ∀ x, x ∈ (Store.new r.store.db kgc start' stop' maxCache).timerKeys ↔
      (x ∈ r.store.timerKeys ∧ start' ≤ KeySpace.keyGroup kgc (timerOf x).1 ∧ KeySpace.keyGroup kgc (timerOf x).1 < stop') := by
    intro x
    rw [mem_timerKeys, mem_timerKeys, ownsKey_iff _ hinv, ownsKey_iff _ h.inv, hsh.hstart, hsh.hlen, hlen, hst]
    show (x ∈ r.store.db ∧ ∃ i, i < stop' - start' ∧ Bytes.hasPrefix x (kgPrefix (start' + i)) = true) ↔ _
    constructor
    · rintro ⟨hdb, i, hi, hp⟩
      have hold : x ∈ r.store.db ∧ ∃ j, j < stop - start ∧ Bytes.hasPrefix x (kgPrefix (start + j)) = true :=
        ⟨hdb, start' + i - start, by omega, by rw [show start + (start' + i - start) = start' + i by omega]; exact hp⟩
      have hown : x ∈ r.store.timerKeys := by
        rw [mem_timerKeys, ownsKey_iff _ h.inv, hsh.hstart, hsh.hlen]; exact hold
      have hkg := (wf_prefix_iff (hwfold x hown) hk0 hk1 (start' + i) (by omega)).mp hp
      exact ⟨hold, by omega, by omega⟩
    · rintro ⟨⟨hdb, hown⟩, h1, h2⟩
      have hmem : x ∈ r.store.timerKeys := by
        rw [mem_timerKeys, ownsKey_iff _ h.inv, hsh.hstart, hsh.hlen]; exact ⟨hdb, hown⟩
      refine ⟨hdb, KeySpace.keyGroup kgc (timerOf x).1 - start', by omega, ?_⟩
      rw [show start' + (KeySpace.keyGroup kgc (timerOf x).1 - start') = KeySpace.keyGroup kgc (timerOf x).1 by omega]
      exact (wf_prefix_iff (hwfold x hmem) hk0 hk1 _ (by omega)).mpr rfl
  refine ⟨hinv, rfl, rfl, ?_, ?_, nodup_filter _ _ h.nodup⟩
  · intro k hk
    exact hwfold k ((hkeys k).mp hk).1
  · intro p
    show p ∈ sp.pending.filter _ ↔ _
    simp only [List.mem_filter, Bool.and_eq_true, decide_eq_true_eq]
    rw [h.pend p]
    constructor
    · rintro ⟨⟨k, hk, hp⟩, h1, h2⟩
      exact ⟨k, (hkeys k).mpr ⟨hk, by rw [hp]; exact h1, by rw [hp]; exact h2⟩, hp⟩
    · rintro ⟨k, hk, hp⟩
      obtain ⟨a, b, c⟩ := (hkeys k).mp hk
      exact ⟨⟨k, a, hp⟩, by rw [← hp]; exact b, by rw [← hp]; exact c⟩

theorem rel_init (kgc start stop maxCache : Nat) (ids : List String) (hss : start ≤ stop) (hstop : stop ≤ 65536) :
    Rel (Registry.new (Store.new [] kgc start stop maxCache) ids) (Spec.new ids) := by
  have hinv := sinv_new [] Sorted.nil kgc start stop maxCache hss hstop
  have hempty : (Store.new [] kgc start stop maxCache).timerKeys = [] := by
    unfold Store.timerKeys
    apply List.flatMap_eq_nil_iff.mpr
    intro q _
    simp [Store.new, DB.scan]
  refine ⟨hinv, rfl, rfl, ?_, ?_, List.nodup_nil⟩
  · intro k hk
    have : k ∈ (Store.new [] kgc start stop maxCache).timerKeys := hk
    rw [hempty] at this; cases this
  · intro p
    simp only [Spec.new, List.not_mem_nil, false_iff]
    rintro ⟨k, hk, _⟩
    have : k ∈ (Store.new [] kgc start stop maxCache).timerKeys := hk
    rw [hempty] at this; cases this

end Rxn.Timers
