import RxnModel.Proofs.CkptMem
import RxnModel.Proofs.CkptFiles
/-!
Helper lemmas for C08: the memory/WAL invariant `Inv` of the checkpointing DKV and its preservation by every
action, including `open` (so it holds along every chain of restores).
-/
namespace Rxn.Ckpt
open Rxn Rxn.Lsm

/-- The WAL and the memtables agree: the memtables are a partition of exactly the logged writes newer than
`LatestSeqNum`; the log is gap-free, starts at or below `LatestSeqNum + 1` and ends at the last sequence number
handed out; segment markers bound their records; no table holds anything newer than `LatestSeqNum`. -/
structure Inv (s : State) : Prop where
  parts : ∃ ps, s.db.mems = ps.map fill ∧ ps ≠ [] ∧
      ps.flatten = s.wal.entries.filter (fun r => decide (s.latest < r.seq))
  cons : ∃ f, Wal.Consecutive f s.wal.entries ∧ f ≤ s.latest + 1 ∧ f + s.wal.entries.length = s.db.seq + 1
  segs : ∀ sg ∈ s.wal.sealed, ∀ e ∈ sg.recs, e.seq ≤ sg.latest
  act : ∀ e ∈ s.wal.active, e.seq ≤ s.wal.latest
  wl : s.wal.latest ≤ s.db.seq
  tbls : ∀ t ∈ s.db.levels.flatten, ∀ e ∈ t.run, e.seq ≤ s.latest
  le : s.latest ≤ s.db.seq
  rd : s.db.reading = none

theorem Inv.congr {s s' : State} (h : Inv s) (hd : s'.db = s.db) (hw : s'.wal = s.wal) (hl : s'.latest = s.latest) :
    Inv s' := by
  obtain ⟨a, b, c, d, e, f, g, i⟩ := h
  constructor <;> (first | rw [hd, hw, hl] | rw [hd, hw] | rw [hd, hl] | rw [hw] | rw [hd]) <;> assumption

/-! ### writes -/

/-- the logged form of `DB.Put` / `DB.Delete` -/
def wrec (seq : Nat) (del : Bool) (k v : Bytes) : Wal.Rec := ⟨seq, k, del, if del then [] else v⟩

def wapp (w : Wal.Writer) (r : Wal.Rec) : Wal.Writer := { w with active := w.active ++ [r], latest := r.seq }

theorem wapp_entries (w : Wal.Writer) (r : Wal.Rec) : (wapp w r).entries = w.entries ++ [r] := by
  simp [wapp, Wal.Writer.entries]

theorem cut_entries (w : Wal.Writer) : w.cut.entries = w.entries := by
  simp [Wal.Writer.cut, Wal.Writer.entries]

theorem rotate_entries (w : Wal.Writer) : w.rotate.entries = w.entries := by
  simp [Wal.Writer.rotate, Wal.Writer.entries]

theorem lsm_write_spec {db db' : Lsm.State} {e : Entry} (h : Lsm.write db e = some db')
    (ps : List (List Wal.Rec)) (hm : db.mems = ps.map fill) (hne : ps ≠ []) (r : Wal.Rec) (he : e = recEntry r) :
    (∃ ps', db'.mems = ps'.map fill ∧ ps' ≠ [] ∧ ps'.flatten = ps.flatten ++ [r]) ∧
    db'.seq = db.seq + 1 ∧ db'.levels = db.levels ∧ db'.nextId = db.nextId ∧ db'.flushing = db.flushing ∧
    db'.reading = db.reading := by
  obtain ⟨init, last, rfl⟩ : ∃ init last, ps = init ++ [last] := by
    cases hrev : ps.reverse with
    | nil => simp at hrev; exact absurd hrev hne
    | cons z t => exact ⟨t.reverse, z, by have := congrArg List.reverse hrev; simpa using this⟩
  unfold Lsm.write at h
  split at h
  · cases h
  · have hr : db.mems.reverse = fill last :: (init.map fill).reverse := by
      rw [hm]; simp
    rw [hr] at h
    simp only [Option.some.injEq] at h
    subst h
    refine ⟨⟨init ++ [last ++ [r]], ?_, by simp, by simp⟩, rfl, rfl, rfl, rfl, rfl⟩
    simp [fill_append, he]

theorem writeStep_spec {s s' : State} {del : Bool} {k v : Bytes} {rot : Bool}
    (h : writeStep s del k v rot = some s') :
    ∃ db1, Lsm.write s.db (recEntry (wrec (s.db.seq + 1) del k v)) = some db1 ∧
      s'.latest = s.latest ∧
      ((rot = false ∧ s'.db = db1 ∧ s'.wal = wapp s.wal (wrec (s.db.seq + 1) del k v)) ∨
       (rot = true ∧ s'.db = { db1 with mems := db1.mems ++ [[]] } ∧
          s'.wal = (wapp s.wal (wrec (s.db.seq + 1) del k v)).cut)) := by
  unfold writeStep at h
  split at h
  · cases h
  · rename_i db1 hdb
    refine ⟨db1, ?_, ?_⟩
    · cases del
      · simpa [Lsm.step, wrec, recEntry] using hdb
      · simpa [Lsm.step, wrec, recEntry] using hdb
    · cases rot <;> cases del <;> simp only [if_true, if_false, Bool.false_eq_true] at h <;> cases h <;>
        simp [wapp, wrec, Wal.Writer.put, Wal.Writer.delete]

/-- a successful write appends one record to the log and to the newest memtable -/
theorem write_inv {s s' : State} {del : Bool} {k v : Bytes} {rot : Bool} (hi : Inv s)
    (h : writeStep s del k v rot = some s') :
    Inv s' ∧ s'.wal.entries = s.wal.entries ++ [wrec (s.db.seq + 1) del k v] ∧ s'.db.seq = s.db.seq + 1 ∧
      s'.db.levels = s.db.levels ∧ s'.latest = s.latest := by
  obtain ⟨db1, hw, hl, hcase⟩ := writeStep_spec h
  obtain ⟨ps, hm, hne, hfl⟩ := hi.parts
  obtain ⟨f, hc, hf1, hf2⟩ := hi.cons
  generalize hr : wrec (s.db.seq + 1) del k v = r at *
  have hrs : r.seq = s.db.seq + 1 := by rw [← hr]; rfl
  obtain ⟨⟨ps', hm', hne', hfl'⟩, hseq, hlev, _, _, hrd⟩ := lsm_write_spec hw ps hm hne r rfl
  have hfilter : (s.wal.entries ++ [r]).filter (fun x => decide (s.latest < x.seq)) = ps.flatten ++ [r] := by
    have := hi.le
    rw [List.filter_append, ← hfl]
    simp [hrs]; omega
  have hcons : Wal.Consecutive f (s.wal.entries ++ [r]) := (consecutive_append f _ r).mpr ⟨hc, by omega⟩
  have hact : ∀ e ∈ s.wal.active ++ [r], e.seq ≤ r.seq := by
    intro e he
    simp only [List.mem_append, List.mem_singleton] at he
    rcases he with he | rfl
    · have := hi.act e he; have := hi.wl; omega
    · exact Nat.le_refl _
  rcases hcase with ⟨_, hdb, hwal⟩ | ⟨_, hdb, hwal⟩
  · have hent : s'.wal.entries = s.wal.entries ++ [r] := by rw [hwal, wapp_entries]
    refine ⟨⟨⟨ps', by rw [hdb]; exact hm', hne', by rw [hent, hl, hfilter]; exact hfl'⟩,
      ⟨f, by rw [hent]; exact hcons, by rw [hl]; exact hf1, by rw [hent, hdb, hseq]; simp; omega⟩,
      by rw [hwal]; exact hi.segs, by rw [hwal]; exact hact, by rw [hwal, hdb, hseq]; simp [wapp, hrs],
      by rw [hdb, hlev, hl]; exact hi.tbls, by rw [hl, hdb, hseq]; have := hi.le; omega,
      by rw [hdb, hrd]; exact hi.rd⟩, hent, by rw [hdb, hseq], by rw [hdb, hlev], hl⟩
  · have hent : s'.wal.entries = s.wal.entries ++ [r] := by rw [hwal, cut_entries, wapp_entries]
    refine ⟨⟨⟨ps' ++ [[]], by rw [hdb]; simp [hm', fill], by simp, by rw [hent, hl, hfilter]; simpa using hfl'⟩,
      ⟨f, by rw [hent]; exact hcons, by rw [hl]; exact hf1, by rw [hent, hdb]; simp [hseq]; omega⟩,
      ?_, by rw [hwal]; simp [Wal.Writer.cut], by rw [hwal, hdb]; simp [wapp, Wal.Writer.cut, hrs, hseq],
      by rw [hdb, hl]; simpa [hlev] using hi.tbls, by rw [hl, hdb]; simp [hseq]; have := hi.le; omega,
      by rw [hdb]; simpa [hrd] using hi.rd⟩, hent, by rw [hdb]; simp [hseq], by rw [hdb]; simp [hlev], hl⟩
    rw [hwal]
    intro sg hsg e he
    simp only [Wal.Writer.cut, wapp, List.mem_append, List.mem_singleton] at hsg
    rcases hsg with hsg | rfl
    · exact hi.segs sg hsg e he
    · exact hact e he

/-! ### merges contain nothing new -/

theorem mem_merge2 (a b : Run) (e : Entry) (h : e ∈ merge2 a b) : e ∈ a ∨ e ∈ b := by
  fun_induction merge2 a b with
  | case1 b => exact Or.inr h
  | case2 a as => exact Or.inl h
  | case3 x xs y ys hc ih =>
    simp only [List.mem_cons] at h ⊢
    rcases h with h | h
    · exact Or.inl (Or.inl h)
    · rcases ih h with h | h
      · exact Or.inl (Or.inr h)
      · simp only [List.mem_cons] at h; exact Or.inr h
  | case4 x xs y ys hc ih =>
    simp only [List.mem_cons] at h ⊢
    rcases h with h | h
    · exact Or.inr (Or.inl h)
    · rcases ih h with h | h
      · simp only [List.mem_cons] at h; exact Or.inl h
      · exact Or.inr (Or.inr h)
  | case5 x xs y ys hc ih =>
    simp only [List.mem_cons] at h ⊢
    rcases h with h | h
    · unfold keepNewest at h
      split at h
      · exact Or.inl (Or.inl h)
      · exact Or.inr (Or.inl h)
    · rcases ih h with h | h
      · exact Or.inl (Or.inr h)
      · exact Or.inr (Or.inr h)

theorem mem_mergeAll (rs : List Run) (e : Entry) (h : e ∈ mergeAll rs) : ∃ r ∈ rs, e ∈ r := by
  induction rs with
  | nil => simp [mergeAll] at h
  | cons r rs ih =>
    simp only [mergeAll, List.foldr_cons] at h
    rcases mem_merge2 _ _ _ h with h | h
    · exact ⟨r, by simp, h⟩
    · obtain ⟨r', hr', he⟩ := ih h
      exact ⟨r', by simp [hr'], he⟩

theorem mem_readOrder (levels : List (List Tbl)) (t : Tbl) (h : t ∈ readOrder levels) : t ∈ levels.flatten := by
  cases levels with
  | nil => simp [readOrder] at h
  | cons l0 deeper =>
    simp only [readOrder, List.mem_append, List.mem_reverse] at h
    simp only [List.flatten_cons, List.mem_append]
    exact h

/-- a change set accepted by the safety test adds only entries of tables it removes -/
theorem safeCS_sub (levels : List (List Tbl)) (rm : List Nat) (lvl : Nat) (add : List Run)
    (h : safeCS levels rm lvl add = true) :
    ∀ e ∈ add.flatten, ∃ t ∈ levels.flatten, e ∈ t.run := by
  intro e he
  unfold safeCS at h
  simp only at h
  split at h
  · simp only [List.isEmpty_iff] at h
    rw [h] at he; cases he
  · simp only [Bool.and_eq_true, decide_eq_true_eq] at h
    have hm := h.1.1.1.1.1
    rw [hm] at he
    obtain ⟨r, hr, her⟩ := mem_mergeAll _ _ he
    simp only [List.mem_map, List.mem_filter] at hr
    obtain ⟨t, ⟨ht, _⟩, rfl⟩ := hr
    exact ⟨t, mem_readOrder _ _ ht, her⟩

/-! ### flush commit, compaction -/

theorem mkTables_run (runs : List Run) : ∀ (start : Nat) (t : Tbl), t ∈ mkTables start runs → t.run ∈ runs := by
  induction runs with
  | nil => intro start t ht; rw [mkTables_nil] at ht; cases ht
  | cons r rs ih =>
    intro start t ht
    rw [mkTables_cons] at ht
    simp only [List.mem_cons] at ht ⊢
    rcases ht with rfl | ht
    · exact Or.inl rfl
    · exact Or.inr (ih _ t ht)

theorem lsm_flushCommit_full {db db' : Lsm.State} {snap : List Run} (hfl : db.flushing = some snap)
    (h : Lsm.step db .flushCommit = some db') :
    db.mems.take snap.length = snap ∧ snap.length < db.mems.length ∧
    db'.mems = db.mems.drop snap.length ∧ db'.seq = db.seq ∧ db'.reading = db.reading ∧
    db'.levels = addAt db.levels 0 (mkTables db.nextId snap) := by
  simp only [Lsm.step, hfl] at h
  split at h
  · rename_i hc
    cases h; exact ⟨hc.1, hc.2, rfl, rfl, rfl, rfl⟩
  · cases h

theorem filter_filter_lt (es : List Wal.Rec) (a b : Nat) (hab : a ≤ b) :
    (es.filter (fun r => decide (a < r.seq))).filter (fun r => decide (b < r.seq)) =
      es.filter (fun r => decide (b < r.seq)) := by
  rw [List.filter_filter]
  congr 1
  funext r
  by_cases h : b < r.seq
  · have : a < r.seq := by omega
    simp [h, this]
  · simp [h]

theorem flushCommit_inv {s s' : State} (hi : Inv s) (h : step s .flushCommit = some s') : Inv s' := by
  simp only [step] at h
  split at h
  · cases h
  · split at h
    · rename_i snap db' hfl hst
      simp only [Option.some.injEq] at h
      obtain ⟨htake, hlen, hmems, hseq, hrd, hlev⟩ := lsm_flushCommit_full hfl hst
      obtain ⟨ps, hm, hne, hflat⟩ := hi.parts
      obtain ⟨f, hc, hf1, hf2⟩ := hi.cons
      generalize hL : max s.latest (runsMaxSeq snap) = L at h
      have hL1 : s.latest ≤ L := by rw [← hL]; exact Nat.le_max_left _ _
      subst h
      -- the parts being flushed and the parts that stay
      let n := snap.length
      have hsnap : snap = (ps.take n).map fill := by rw [← htake, hm, List.map_take]
      have hsorted : (ps.flatten).Pairwise (fun a b => a.seq < b.seq) := by
        rw [hflat]; exact (consecutive_pairwise f _ hc).filter _
      have hsplit : ps.flatten = (ps.take n).flatten ++ (ps.drop n).flatten := by
        rw [← List.flatten_append, List.take_append_drop]
      rw [hsplit] at hsorted
      obtain ⟨hsA, hsB, hAB⟩ := List.pairwise_append.mp hsorted
      have hAle : ∀ r ∈ (ps.take n).flatten, r.seq ≤ L := by
        intro r hr
        obtain ⟨p, hp, hrp⟩ := List.mem_flatten.mp hr
        have hps : p.Pairwise (fun a b => a.seq < b.seq) := by
          have : p.Sublist (ps.take n).flatten := List.sublist_flatten_of_mem hp
          exact hsA.sublist this
        have h1 := le_runMaxSeq_fill p hps r hrp
        have h2 : runMaxSeq (fill p) ≤ runsMaxSeq snap :=
          le_runsMaxSeq snap (fill p) (by rw [hsnap]; exact List.mem_map_of_mem hp)
        have : runsMaxSeq snap ≤ L := by rw [← hL]; exact Nat.le_max_right _ _
        omega
      have hsnaple : ∀ run ∈ snap, ∀ e ∈ run, ∃ r ∈ (ps.take n).flatten, e.seq = r.seq := by
        intro run hrun e he
        rw [hsnap] at hrun
        obtain ⟨p, hp, rfl⟩ := List.mem_map.mp hrun
        obtain ⟨r, hr, rfl⟩ := mem_fill p e he
        exact ⟨r, List.mem_flatten.mpr ⟨p, hp, hr⟩, rfl⟩
      have hBgt : ∀ r ∈ (ps.drop n).flatten, L < r.seq := by
        intro r hr
        have hlat : s.latest < r.seq := by
          have : r ∈ ps.flatten := by rw [hsplit]; exact List.mem_append_right _ hr
          rw [hflat] at this
          simpa using (List.mem_filter.mp this).2
        have : runsMaxSeq snap ≤ r.seq - 1 := by
          apply runsMaxSeq_le
          intro run hrun e he
          obtain ⟨r', hr', hs⟩ := hsnaple run hrun e he
          have := hAB r' hr' r hr
          omega
        rw [← hL]
        have := Nat.max_le.mpr ⟨(by omega : s.latest ≤ r.seq - 1), this⟩
        omega
      have hLseq : L ≤ s.db.seq := by
        rw [← hL]
        apply Nat.max_le.mpr ⟨hi.le, ?_⟩
        apply runsMaxSeq_le
        intro run hrun e he
        obtain ⟨r', hr', hs⟩ := hsnaple run hrun e he
        have hmem : r' ∈ s.wal.entries := by
          have : r' ∈ ps.flatten := by rw [hsplit]; exact List.mem_append_left _ hr'
          rw [hflat] at this
          exact (List.mem_filter.mp this).1
        have := consecutive_seq f _ hc r' hmem
        omega
      -- the truncated log
      have hw0 : Wal.WInv s.wal s.wal.entries 0 :=
        ⟨⟨0, Nat.zero_le _, rfl, by simp⟩, hi.segs, hi.act⟩
      obtain ⟨⟨m, hm1, hm2, hm3⟩, hsegs', hact'⟩ := Wal.winv_truncate s.wal s.wal.entries 0 hw0 L
      simp only [Nat.zero_max] at hm3
      have hfilt : (s.wal.truncate L).entries.filter (fun r => decide (L < r.seq)) = (ps.drop n).flatten := by
        rw [hm2]
        have h1 : s.wal.entries.filter (fun r => decide (L < r.seq)) =
            (s.wal.entries.drop m).filter (fun r => decide (L < r.seq)) := by
          conv => lhs; rw [← List.take_append_drop m s.wal.entries]
          rw [List.filter_append, Wal.filter_take_nil _ _ _ _ hm3 (Nat.le_refl _), List.nil_append]
        rw [← h1, ← filter_filter_lt _ _ _ hL1, ← hflat, hsplit, List.filter_append]
        have hA : (ps.take n).flatten.filter (fun r => decide (L < r.seq)) = [] := by
          rw [List.filter_eq_nil_iff]; intro r hr; have := hAle r hr; simp; omega
        have hB : (ps.drop n).flatten.filter (fun r => decide (L < r.seq)) = (ps.drop n).flatten := by
          rw [List.filter_eq_self]; intro r hr; simpa using hBgt r hr
        rw [hA, hB, List.nil_append]
      refine ⟨⟨ps.drop n, ?_, ?_, hfilt.symm⟩, ⟨f + m, ?_, ?_, ?_⟩, hsegs', hact', ?_, ?_, (by rw [hseq]; exact hLseq), by rw [hrd]; exact hi.rd⟩
      · show db'.mems = _
        rw [hmems, hm, List.map_drop]
      · intro hnil
        have : (ps.drop n).length = 0 := by rw [hnil]; rfl
        have hl : ps.length = s.db.mems.length := by rw [hm, List.length_map]
        rw [List.length_drop] at this
        omega
      · show Wal.Consecutive (f + m) (s.wal.truncate L).entries
        rw [hm2]; exact Wal.consecutive_drop f _ hc m
      · show f + m ≤ L + 1
        cases m with
        | zero => omega
        | succ j =>
          have hj : j < s.wal.entries.length := by omega
          have hx : s.wal.entries[j] ∈ s.wal.entries.take (j + 1) := by
            rw [List.mem_take_iff_getElem]; exact ⟨j, by omega, rfl⟩
          have h1 := hm3 _ hx
          have hck := Wal.consecutive_drop f _ hc j
          rw [List.drop_eq_getElem_cons hj] at hck
          have := hck.1
          omega
      · show f + m + (s.wal.truncate L).entries.length = db'.seq + 1
        rw [hm2, List.length_drop, hseq]; omega
      · show (s.wal.truncate L).latest ≤ db'.seq
        rw [hseq]; exact hi.wl
      · show ∀ t ∈ db'.levels.flatten, ∀ e ∈ t.run, e.seq ≤ L
        rw [hlev]
        intro t ht e he
        rcases mem_addAt _ _ _ _ ht with ht | ht
        · exact Nat.le_trans (hi.tbls t ht e he) hL1
        · have hrun := mkTables_run snap s.db.nextId t ht
          obtain ⟨r', hr', hs⟩ := hsnaple t.run hrun e he
          have := hAle r' hr'
          omega
    · cases h

theorem compact_inv {s s' : State} {rm : List Nat} {lvl : Nat} {add : List Run} (hi : Inv s)
    (h : step s (.compact rm lvl add) = some s') : Inv s' := by
  simp only [step] at h
  split at h
  · cases h
  · split at h
    · cases h
    · rename_i db' hst
      simp only [Option.some.injEq] at h
      have hsafe : safeCS s.db.levels rm lvl add = true := by
        simp only [Lsm.step] at hst
        split at hst
        · assumption
        · cases hst
      have hdb : db' = { s.db with levels := addAt (removeIds rm s.db.levels) lvl (mkTables s.db.nextId add),
                                   nextId := s.db.nextId + add.length } := by
        simp only [Lsm.step, hsafe, if_true, Option.some.injEq] at hst
        exact hst.symm
      have hadd : ∀ r ∈ add, ∀ e ∈ r, e.seq ≤ s.latest := by
        intro r hr e he
        obtain ⟨t, ht, het⟩ := safeCS_sub _ _ _ _ hsafe e (List.mem_flatten.mpr ⟨r, hr, he⟩)
        exact hi.tbls t ht e het
      have hmax : max s.latest (runsMaxSeq add) = s.latest :=
        Nat.max_eq_left (runsMaxSeq_le add s.latest hadd)
      rw [hmax] at h
      subst h
      subst hdb
      refine ⟨hi.parts, hi.cons, hi.segs, hi.act, hi.wl, ?_, hi.le, hi.rd⟩
      intro t ht e he
      rcases mem_addAt _ _ _ _ ht with ht | ht
      · exact hi.tbls t (mem_removeIds _ _ _ ht) e he
      · have hrun := mkTables_run add s.db.nextId t ht
        exact hadd t.run hrun e he

/-! ### restore -/

theorem le_levelsMaxSeq (lv : List (List Tbl)) : ∀ t ∈ lv.flatten, ∀ e ∈ t.run, e.seq ≤ tablesMaxSeq lv.flatten :=
  fun _ ht _ he => Nat.le_trans (le_runMaxSeq _ _ he) (le_tablesMaxSeq _ _ ht)

theorem restoreBase_inv (files : Files) (c : Ckpt) : Inv (restoreBase files c) := by
  refine ⟨⟨[[]], rfl, by simp, rfl⟩, ⟨tablesMaxSeq c.levels.flatten + 1, trivial, Nat.le_refl _, rfl⟩,
    by simp [restoreBase, Wal.Writer.new], by simp [restoreBase, Wal.Writer.new],
    by simp [restoreBase, Wal.Writer.new], le_levelsMaxSeq c.levels, Nat.le_refl _, rfl⟩

theorem replay_inv : ∀ (recs : List Wal.Rec) (rots : List Nat) (s s' : State), Inv s →
    replay s recs rots = some s' →
    Inv s' ∧ s'.db.levels = s.db.levels ∧ s'.latest = s.latest ∧
      ∃ news, s'.wal.entries = s.wal.entries ++ news ∧ news.map trip = recs.map trip ∧
        ∀ e ∈ news, s.db.seq < e.seq := by
  intro recs rots
  induction recs with
  | nil =>
    intro s s' hi h
    simp only [replay, Option.some.injEq] at h
    subst h
    exact ⟨hi, rfl, rfl, [], by simp, rfl, by simp⟩
  | cons r rs ih =>
    intro s s' hi h
    simp only [replay] at h
    split at h
    · cases h
    · rename_i s1 h1
      obtain ⟨hi1, hent, hseq1, hlev, hlat⟩ := write_inv hi h1
      obtain ⟨hi', hlev', hlat', news, hnews, htrip, hgt⟩ := ih s1 s' hi1 h
      refine ⟨hi', by rw [hlev', hlev], by rw [hlat', hlat], wrec (s.db.seq + 1) r.del r.key r.val :: news, ?_, ?_, ?_⟩
      · rw [hnews, hent]; simp
      · simp only [List.map_cons, htrip, List.cons.injEq, and_true]
        cases hd : r.del <;> simp [trip, wrec, hd]
      · intro e he
        simp only [List.mem_cons] at he
        rcases he with rfl | he
        · simp [wrec]
        · have := hgt e he; omega

/-- a write is always possible in a state satisfying the invariant -/
theorem write_enabled {s : State} (hi : Inv s) (del : Bool) (k v : Bytes) (rot : Bool) :
    ∃ s', writeStep s del k v rot = some s' := by
  obtain ⟨ps, hm, hne, _⟩ := hi.parts
  have hrev : ∃ a t, s.db.mems.reverse = a :: t := by
    cases hr : s.db.mems.reverse with
    | nil =>
      have : s.db.mems = [] := by simpa using hr
      rw [hm] at this
      simp at this
      exact absurd this hne
    | cons a t => exact ⟨a, t, rfl⟩
  obtain ⟨a, t, hr⟩ := hrev
  have hw : ∀ e, ∃ db1, Lsm.write s.db e = some db1 := by
    intro e
    simp only [Lsm.write, hi.rd, Option.isSome_none, Bool.false_eq_true, if_false, hr]
    exact ⟨_, rfl⟩
  unfold writeStep
  cases del
  · obtain ⟨db1, h1⟩ := hw ⟨k, s.db.seq + 1, false, v⟩
    simp only [Bool.false_eq_true, if_false, Lsm.step, h1]
    cases rot <;> simp
  · obtain ⟨db1, h1⟩ := hw ⟨k, s.db.seq + 1, true, []⟩
    simp only [if_true, Lsm.step, h1]
    cases rot <;> simp

theorem replay_enabled : ∀ (recs : List Wal.Rec) (rots : List Nat) (s : State), Inv s →
    ∃ s', replay s recs rots = some s' := by
  intro recs rots
  induction recs with
  | nil => intro s _; exact ⟨s, rfl⟩
  | cons r rs ih =>
    intro s hi
    obtain ⟨s1, h1⟩ := write_enabled hi r.del r.key r.val (rots.contains (s.db.seq + 1))
    obtain ⟨s', h'⟩ := ih s1 (write_inv hi h1).1
    exact ⟨s', by simp only [replay, h1]; exact h'⟩

end Rxn.Ckpt
