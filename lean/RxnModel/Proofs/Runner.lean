import RxnModel.Model.Runner
import RxnModel.Proofs.Batcher
/-! Helper lemmas for C04: the inductive invariant of the `Model/Runner.lean` transition system. -/
namespace Rxn.Runner
variable {ρ : Type}

theorem expand_append (c : Cfg ρ) (a b : List (Item ρ)) : expand c (a ++ b) = expand c a ++ expand c b := by
  simp [expand]

theorem project_append (c : Cfg ρ) (o : Nat) (a b : List (Item ρ)) :
    project c o (a ++ b) = project c o a ++ project c o b := by
  simp [project, expand_append]

theorem project_cons (c : Cfg ρ) (o : Nat) (a : Item ρ) (b : List (Item ρ)) :
    project c o (a :: b) = (expand1 c a).filter (keep c o) ++ project c o b := by
  simp [project, expand]

theorem project_nil (c : Cfg ρ) (o : Nat) : project c o [] = [] := rfl

theorem bcast_filter (n q : Nat) (ev : Ev) :
    (((List.range n).map (fun o => (o, ev))).filter (fun p => p.1 == q)).map (·.2) = if q < n then [ev] else [] := by
  induction n with
  | zero => simp
  | succ n ih =>
    rw [List.range_succ, List.map_append, List.filter_append, List.map_append, ih]
    by_cases h1 : q < n
    · have : ¬ n = q := by omega
      simp [h1, this]; omega
    · by_cases h2 : q = n
      · subst h2; simp
      · have : ¬ n = q := by omega
        have h3 : ¬ q < n + 1 := by omega
        simp [h1, this, h3]

/-- what the sender's work list for one placeholder contributes to operator `q` -/
theorem targets_filter (c : Cfg ρ) (q : Nat) (hq : q < c.nOps) (it : Item ρ) (res : List KEv)
    (hres : ∀ r, it = .record r → res = c.keyOf r) :
    ((targetsOf c res it).filter (fun p => p.1 == q)).map (·.2) = (expand1 c it).filter (keep c q) := by
  cases it with
  | record r =>
    rw [hres r rfl]
    simp only [targetsOf, expand1]
    induction c.keyOf r with
    | nil => rfl
    | cons e es ih =>
      simp only [List.map_cons, List.filter_cons, keep]
      by_cases h : c.route e.key = q
      · simp [h, ih]
      · simp [h, ih]
  | wm => simp [targetsOf, expand1, bcast_filter, hq]; rfl
  | barrier id => simp [targetsOf, expand1, bcast_filter, hq]; rfl

structure Inv (c : Cfg ρ) (s : St ρ) : Prop where
  join : (s.stream.filterMap recOf).map c.keyOf = s.rfOut ++ s.rfPending
  main : ∀ q, q < c.nOps → delivered s q ++ pendingFor s q ++ project c q s.stream = project c q s.logical
  hand : ∀ o b, s.spc = .handoff o b → (s.ops o).b.batch = []

theorem flush_cur_batch_nil {α : Type} (b : Batcher.St α) : (Batcher.flush b .cur).1.batch = [] := by
  unfold Batcher.flush Batcher.flushes
  cases hb : b.batch with
  | nil => simp [hb]
  | cons x xs => simp

theorem flush_of_nil {α : Type} (b : Batcher.St α) (t : Batcher.Tok) (h : b.batch = []) :
    Batcher.flush b t = (b, []) := by
  unfold Batcher.flush Batcher.flushes
  cases t <;> simp [h]

theorem add_batch_r {α : Type} (s : Batcher.St α) (x : α) : (Batcher.add s x).batch = s.batch ++ [x] :=
  Batcher.add_batch s x

theorem flush_concat_r {α : Type} (s : Batcher.St α) (t : Batcher.Tok) :
    (Batcher.flush s t).2 ++ (Batcher.flush s t).1.batch = s.batch := Batcher.flush_concat s t

/-- changing only the control state of one operator goroutine (pc, pending tokens) preserves the invariant -/
theorem frame_ops (c : Cfg ρ) (s : St ρ) (h : Inv c s) (o : Nat) (x : OpSt)
    (hb : x.b = (s.ops o).b) (hr : x.recv = (s.ops o).recv) : Inv c (setOp s o x) := by
  refine ⟨h.join, ?_, ?_⟩
  · intro q hq
    have hm := h.main q hq
    simp only [delivered, pendingFor, inHand, setOp] at hm ⊢
    rw [← hm]
    by_cases hqo : q = o
    · subst hqo; simp [hb, hr]
    · simp [hqo]
  · intro o' b hb'
    have := h.hand o' b hb'
    simp only [setOp]
    by_cases hoo : o' = o
    · subst hoo; simp [hb, this]
    · simp [hoo, this]

theorem inv_step (c : Cfg ρ) (hunbuf : c.handoffBuffered = false) (s s' : St ρ) (a : Act ρ) (h : Inv c s)
    (hs : step c s a = some s') : Inv c s' := by
  cases a with
  | fetch rs =>
    simp only [step] at hs
    split at hs <;> try (simp at hs)
    subst hs
    exact ⟨h.join, h.main, h.hand⟩
  | enq =>
    simp only [step] at hs
    split at hs <;> try (simp at hs)
    next r rest hbuf =>
    subst hs
    refine ⟨?_, ?_, h.hand⟩
    · simp [List.filterMap_append, recOf, h.join]
    · intro q hq
      show delivered s q ++ pendingFor s q ++ project c q (s.stream ++ [.record r]) = project c q (s.logical ++ [.record r])
      rw [project_append, project_append, ← h.main q hq]; simp [List.append_assoc]
  | tick =>
    simp only [step] at hs
    split at hs <;> try (simp at hs)
    subst hs
    refine ⟨?_, ?_, h.hand⟩
    · simp [List.filterMap_append, recOf, h.join]
    · intro q hq
      show delivered s q ++ pendingFor s q ++ project c q (s.stream ++ [.wm]) = project c q (s.logical ++ [.wm])
      rw [project_append, project_append, ← h.main q hq]; simp [List.append_assoc]
  | barrier id =>
    simp only [step] at hs
    split at hs <;> try (simp at hs)
    subst hs
    refine ⟨?_, ?_, h.hand⟩
    · simp [List.filterMap_append, recOf, h.join]
    · intro q hq
      show delivered s q ++ pendingFor s q ++ project c q (s.stream ++ [.barrier id]) = project c q (s.logical ++ [.barrier id])
      rw [project_append, project_append, ← h.main q hq]; simp [List.append_assoc]
  | rfEmit =>
    simp only [step] at hs
    split at hs
    · simp at hs
    · next x rest hp =>
      simp only [Option.some.injEq] at hs
      subst hs
      refine ⟨?_, h.main, h.hand⟩
      simp [h.join, hp]
  | sTake =>
    simp only [step] at hs
    split at hs
    · next r rest hpc htodo hstream =>
      split at hs
      · simp at hs
      · next res outRest hout =>
        simp only [Option.some.injEq] at hs
        subst hs
        have hj := h.join
        rw [hstream, hout] at hj
        simp [recOf] at hj
        refine ⟨by simpa using hj.2, ?_, by intro o b hb; simp [hpc] at hb⟩
        intro q hq
        have hm := h.main q hq
        rw [hstream, project_cons] at hm
        rw [← hm]
        have ht := targets_filter c q hq (.record r) res (by intro r' hr; cases hr; exact hj.1.symm)
        simp only [delivered, pendingFor, inHand, hpc, htodo, ht]
        simp [List.append_assoc]
    · next it rest hnr0 hpc htodo hstream =>
      simp only [Option.some.injEq] at hs
      subst hs
      have hnr : ∀ r, it ≠ .record r := fun r hr => hnr0 r hr
      refine ⟨?_, ?_, by intro o b hb; simp [hpc] at hb⟩
      · have hj := h.join
        rw [hstream] at hj
        cases it with
        | record r => exact absurd rfl (hnr r)
        | wm => simp [List.filterMap_cons, recOf] at hj; simpa using hj
        | barrier id => simp [List.filterMap_cons, recOf] at hj; simpa using hj
      · intro q hq
        have hm := h.main q hq
        rw [hstream, project_cons] at hm
        rw [← hm]
        have ht := targets_filter c q hq it [] (by intro r' hr; exact absurd hr (hnr r'))
        simp only [delivered, pendingFor, inHand, hpc, htodo, ht]
        simp [List.append_assoc]
    · simp at hs
  | sAdd =>
    simp only [step] at hs
    split at hs
    · next o e rest hpc htodo =>
      simp only [Option.some.injEq] at hs
      subst hs
      refine ⟨h.join, ?_, by intro o' b hb; simp at hb⟩
      intro q hq
      have hm := h.main q hq
      simp only [delivered, pendingFor, inHand, hpc, htodo, setOp] at hm ⊢
      rw [← hm]
      by_cases hqo : q = o
      · subst hqo; simp [add_batch_r, List.append_assoc]
      · have : ¬ o = q := fun h => hqo h.symm
        simp [hqo, this]
    · simp at hs
  | sIsFull =>
    simp only [step] at hs
    split at hs
    · next o hpc =>
      simp only [Option.some.injEq] at hs
      subst hs
      refine ⟨h.join, ?_, by intro o' b hb; dsimp only at hb; split at hb <;> simp at hb⟩
      intro q hq
      have hm := h.main q hq
      simp only [delivered, pendingFor, inHand, hpc] at hm ⊢
      rw [← hm]
      cases hf : Batcher.isFull (s.ops o).b <;> simp
    · simp at hs
  | sFlush =>
    simp only [step] at hs
    split at hs
    · next o hpc =>
      simp only [Option.some.injEq] at hs
      subst hs
      refine ⟨h.join, ?_, ?_⟩
      · intro q hq
        have hm := h.main q hq
        simp only [delivered, pendingFor, inHand, hpc, setOp] at hm ⊢
        rw [← hm]
        by_cases hqo : q = o
        · subst hqo
          have := flush_concat_r (s.ops q).b .cur
          simp [← this, List.append_assoc]
        · have : ¬ o = q := fun h => hqo h.symm
          simp [hqo, this]
      · intro o' b hb
        simp at hb
        obtain ⟨rfl, _⟩ := hb
        simp [setOp, flush_cur_batch_nil]
    · simp at hs
  | oRecv o => simp [step, hunbuf] at hs
  | sSend =>
    simp only [step, hunbuf, Bool.false_eq_true, if_false] at hs
    split at hs
    · next o batch hpc =>
      split at hs
      · next hopc =>
        simp only [Option.some.injEq] at hs
        subst hs
        refine ⟨h.join, ?_, by intro o' b hb; simp at hb⟩
        intro q hq
        have hm := h.main q hq
        simp only [delivered, pendingFor, inHand, hpc, setOp] at hm ⊢
        rw [← hm]
        by_cases hqo : q = o
        · subst hqo; simp [List.append_assoc]
        · have : ¬ o = q := fun h => hqo h.symm
          simp [hqo, this]
      · simp at hs
    · simp at hs
  | fire o =>
    simp only [step] at hs
    split at hs
    · simp only [Option.some.injEq] at hs
      subst hs
      exact frame_ops c s h o _ rfl rfl
    · simp at hs
  | stale o =>
    simp only [step] at hs
    split at hs
    · simp only [Option.some.injEq] at hs
      subst hs
      exact frame_ops c s h o _ rfl rfl
    · simp at hs
  | staleTok o t =>
    simp only [step] at hs
    split at hs
    · split at hs
      · simp only [Option.some.injEq] at hs
        subst hs
        exact frame_ops c s h o _ rfl rfl
      · simp at hs
    · simp at hs
  | oTok o =>
    simp only [step] at hs
    split at hs
    · simp only [Option.some.injEq] at hs
      subst hs
      exact frame_ops c s h o _ rfl rfl
    · simp at hs
  | oDone o =>
    simp only [step] at hs
    split at hs
    · simp only [Option.some.injEq] at hs
      subst hs
      exact frame_ops c s h o _ rfl rfl
    · simp at hs
  | oTFlush o =>
    simp only [step] at hs
    split at hs
    · next t hopc =>
      simp only [Option.some.injEq] at hs
      subst hs
      refine ⟨h.join, ?_, ?_⟩
      · intro q hq
        have hm := h.main q hq
        simp only [delivered, pendingFor, inHand, setOp] at hm ⊢
        rw [← hm]
        by_cases hqo : q = o
        · subst hqo
          simp only [if_true]
          cases hspc : s.spc with
          | handoff o' batch =>
            by_cases hoq : o' = q
            · subst hoq
              have hb := h.hand o' batch hspc
              rw [flush_of_nil _ _ hb]
              simp [hb]
            · have := flush_concat_r (s.ops q).b (.tok t)
              simp [hoq, ← this, List.append_assoc]
          | idle => have := flush_concat_r (s.ops q).b (.tok t); simp [← this, List.append_assoc]
          | added _ => have := flush_concat_r (s.ops q).b (.tok t); simp [← this, List.append_assoc]
          | full _ => have := flush_concat_r (s.ops q).b (.tok t); simp [← this, List.append_assoc]
        · simp [hqo]
      · intro o' b hb
        have hb0 := h.hand o' b hb
        simp only [setOp]
        by_cases hoo : o' = o
        · subst hoo
          simp [flush_of_nil _ _ hb0, hb0]
        · simp [hoo, hb0]
    · simp at hs


/-! ### the reader's cursor and the checkpoint cuts -/

theorem recordsOf_append (a b : List (Item ρ)) : recordsOf (a ++ b) = recordsOf a ++ recordsOf b := by
  simp [recordsOf, List.filterMap_append]

@[simp] theorem recordsOf_nil : recordsOf ([] : List (Item ρ)) = [] := rfl
@[simp] theorem recordsOf_record (r : ρ) (l : List (Item ρ)) : recordsOf (.record r :: l) = r :: recordsOf l := rfl
@[simp] theorem recordsOf_wm (l : List (Item ρ)) : recordsOf (.wm :: l) = recordsOf l := rfl
@[simp] theorem recordsOf_barrier (id : Nat) (l : List (Item ρ)) : recordsOf (.barrier id :: l) = recordsOf l := rfl

theorem cutsOf_append (a b : List (Item ρ)) : ∀ n, cutsOf (a ++ b) n = cutsOf a n ++ cutsOf b (n + (recordsOf a).length) := by
  induction a with
  | nil => intro n; simp [cutsOf]
  | cons x xs ih =>
    intro n
    cases x with
    | record r =>
      simp only [List.cons_append, cutsOf, ih, recordsOf_record, List.length_cons]
      congr 2; omega
    | wm => simp only [List.cons_append, cutsOf, ih, recordsOf_wm]
    | barrier id => simp only [List.cons_append, cutsOf, ih, recordsOf_barrier, List.cons_append]

/-- the reader's cursor counts the records put on the output stream plus the rest of the current read; the cursor
snapshotted for a barrier is the number of records before that barrier in the read order -/
structure CutInv (s : St ρ) : Prop where
  cur : (recordsOf s.logical).length + s.readBuf.length = s.cursor
  cuts : cutsOf s.logical 0 = s.ckpts

theorem cut_step (c : Cfg ρ) (s s' : St ρ) (a : Act ρ) (h : CutInv s) (hs : step c s a = some s') : CutInv s' := by
  cases a with
  | fetch rs =>
    simp only [step] at hs
    split at hs <;> try (simp at hs)
    next hbuf =>
    subst hs
    refine ⟨?_, h.cuts⟩
    have := h.cur; rw [hbuf] at this; simp at this ⊢; omega
  | enq =>
    simp only [step] at hs
    split at hs <;> try (simp at hs)
    next r rest hbuf =>
    subst hs
    refine ⟨?_, ?_⟩
    · have := h.cur; rw [hbuf] at this; simp [recordsOf_append] at this ⊢; omega
    · simp [cutsOf_append, cutsOf, h.cuts]
  | tick =>
    simp only [step] at hs
    split at hs <;> try (simp at hs)
    subst hs
    refine ⟨?_, ?_⟩
    · have := h.cur; simpa [recordsOf_append] using this
    · simp [cutsOf_append, cutsOf, h.cuts]
  | barrier id =>
    simp only [step] at hs
    split at hs <;> try (simp at hs)
    next hbuf =>
    subst hs
    have hc := h.cur; rw [hbuf] at hc; simp at hc
    refine ⟨?_, ?_⟩
    · simpa [recordsOf_append, hbuf] using hc
    · simp [cutsOf_append, cutsOf, h.cuts, hc]
  | rfEmit | sTake | sAdd | sIsFull | sFlush | sSend | fire o | stale o | staleTok o t | oTok o | oTFlush o | oDone o | oRecv o =>
    simp only [step] at hs
    repeat' (split at hs)
    all_goals first
      | (simp at hs; done)
      | (simp only [Option.some.injEq] at hs; subst hs; exact ⟨by simpa [setOp] using h.cur, by simpa [setOp] using h.cuts⟩)

/-- the records of the read order followed by the rest of the current read are what the reader handed out -/
theorem step_fetched (c : Cfg ρ) (s s' : St ρ) (a : Act ρ) (hs : step c s a = some s') :
    recordsOf s'.logical ++ s'.readBuf = recordsOf s.logical ++ s.readBuf ++ fetchedOf [a] := by
  cases a with
  | fetch rs =>
    simp only [step] at hs
    split at hs <;> try (simp at hs)
    next hbuf => subst hs; simp [fetchedOf, hbuf]
  | enq =>
    simp only [step] at hs
    split at hs <;> try (simp at hs)
    next r rest hbuf => subst hs; simp [fetchedOf, hbuf, recordsOf_append]
  | tick =>
    simp only [step] at hs
    split at hs <;> try (simp at hs)
    subst hs; simp [fetchedOf, recordsOf_append]
  | barrier id =>
    simp only [step] at hs
    split at hs <;> try (simp at hs)
    subst hs; simp [fetchedOf, recordsOf_append]
  | rfEmit | sTake | sAdd | sIsFull | sFlush | sSend | fire o | stale o | staleTok o t | oTok o | oTFlush o | oDone o | oRecv o =>
    simp only [step] at hs
    repeat' (split at hs)
    all_goals first
      | (simp at hs; done)
      | (simp only [Option.some.injEq] at hs; subst hs; simp [fetchedOf, setOp])

theorem fetchedOf_append (a b : List (Act ρ)) : fetchedOf (a ++ b) = fetchedOf a ++ fetchedOf b := by
  induction a with
  | nil => rfl
  | cons x xs ih => cases x <;> simp [fetchedOf, ih]

theorem exec_inv (c : Cfg ρ) (hunbuf : c.handoffBuffered = false) (as : List (Act ρ)) : ∀ s s', Inv c s → CutInv s →
    exec c s as = some s' →
    Inv c s' ∧ CutInv s' ∧ recordsOf s'.logical ++ s'.readBuf = recordsOf s.logical ++ s.readBuf ++ fetchedOf as := by
  induction as with
  | nil => intro s s' h hc he; simp [exec] at he; subst he; exact ⟨h, hc, by simp [fetchedOf]⟩
  | cons a as ih =>
    intro s s' h hc he
    simp only [exec] at he
    split at he
    · simp at he
    · next s1 hs1 =>
      obtain ⟨h2, hc2, hl⟩ := ih s1 s' (inv_step c hunbuf s s1 a h hs1) (cut_step c s s1 a hc hs1) he
      refine ⟨h2, hc2, ?_⟩
      rw [hl, step_fetched c s s1 a hs1, List.append_assoc, ← fetchedOf_append]; rfl

theorem init_cut (maxSize : Nat) (hasDelay : Bool) : CutInv (init maxSize hasDelay : St ρ) :=
  ⟨rfl, rfl⟩

theorem init_inv (c : Cfg ρ) (maxSize : Nat) (hasDelay : Bool) : Inv c (init maxSize hasDelay : St ρ) := by
  refine ⟨rfl, ?_, by intro o b hb; simp [init] at hb⟩
  intro q hq
  simp [delivered, pendingFor, inHand, init, project_nil, Batcher.new]

theorem exec_snoc (c : Cfg ρ) (as : List (Act ρ)) (a : Act ρ) :
    ∀ s : St ρ, exec c s (as ++ [a]) = (exec c s as).bind (fun s1 => step c s1 a) := by
  induction as with
  | nil =>
    intro s
    cases h : step c s a <;> simp [exec, h]
  | cons x xs ih =>
    intro s
    cases h : step c s x with
    | none => simp [exec, h]
    | some s1 => simp only [List.cons_append, exec, h]; exact ih _

/-- actions other than `enq`, `rfEmit` and the join of a record placeholder do not touch the fetcher component -/
theorem step_rf_frame (c : Cfg ρ) (s s' : St ρ) (a : Act ρ) (hs : step c s a = some s')
    (h1 : a ≠ .enq) (h2 : a ≠ .rfEmit) (h3 : a = .sTake → ∀ r rest, s.stream ≠ .record r :: rest) :
    s'.rfOut = s.rfOut ∧ s'.rfPending = s.rfPending := by
  cases a with
  | enq => exact absurd rfl h1
  | rfEmit => exact absurd rfl h2
  | sTake =>
    simp only [step] at hs
    split at hs
    · next r rest _ _ hst => exact absurd hst (h3 rfl r rest)
    · simp only [Option.some.injEq] at hs; subst hs; exact ⟨rfl, rfl⟩
    · simp at hs
  | fetch rs | tick | barrier id | sAdd | sIsFull | sFlush | sSend | fire o | stale o | staleTok o t | oTok o | oTFlush o
    | oDone o | oRecv o =>
    simp only [step] at hs
    repeat' (split at hs)
    all_goals first
      | (simp at hs; done)
      | (simp only [Option.some.injEq] at hs; subst hs; simp [setOp])

end Rxn.Runner
