import RxnModel.Proofs.RescaleInv
/-!
Helper lemmas for C06: on a valid layout the table selection of `LevelList.AllTablesForPrefix`
(`slices.BinarySearchFunc` over `RangePrefixCompare`, then the forward walk while `RangeContainsPrefix`) keeps every
table that holds a key with the prefix, so `scanR` (the scan as the code performs it) equals `Lsm.scan`.
-/
namespace Rxn.Rescale
open Rxn Lsm Rxn.Search

theorem cmp_le_trans {a b c : Bytes} (h1 : Bytes.cmp a b ≠ .gt) (h2 : Bytes.cmp b c ≠ .gt) : Bytes.cmp a c ≠ .gt := by
  intro hgt
  cases hab : Bytes.cmp a b with
  | gt => exact h1 hab
  | eq => rw [Bytes.cmp_eq_iff.mp hab] at hgt; exact h2 hgt
  | lt => have := cmp_lt_le_trans hab h2; rw [this] at hgt; cases hgt

/-- the compare value of `RangePrefixCompare` -/
def pc (p : Bytes) (t : Tbl) : Int := Gen.tblRangePrefixCompare t.startKey t.endKey p

theorem pc_zero (p : Bytes) (t : Tbl) : pc p t = 0 ↔ t.rangeContainsPrefix p = true := by
  unfold pc Tbl.rangeContainsPrefix Gen.tblRangePrefixCompare Gen.tblRangeContainsPrefix cmpInt
  cases Bytes.hasPrefix t.startKey p <;> cases Bytes.hasPrefix t.endKey p <;>
    cases Bytes.cmp t.startKey p <;> cases Bytes.cmp t.endKey p <;> simp

theorem pc_neg (p : Bytes) (t : Tbl) : pc p t < 0 ↔
    (Bytes.hasPrefix t.startKey p = false ∧ Bytes.hasPrefix t.endKey p = false ∧
      Bytes.cmp t.startKey p ≠ .gt ∧ Bytes.cmp t.endKey p = .lt) := by
  unfold pc Gen.tblRangePrefixCompare cmpInt
  cases Bytes.hasPrefix t.startKey p <;> cases Bytes.hasPrefix t.endKey p <;>
    cases Bytes.cmp t.startKey p <;> cases Bytes.cmp t.endKey p <;> simp

theorem pc_pos (p : Bytes) (t : Tbl) : 0 < pc p t ↔
    (Bytes.hasPrefix t.startKey p = false ∧ Bytes.hasPrefix t.endKey p = false ∧ Bytes.cmp t.startKey p = .gt) := by
  unfold pc Gen.tblRangePrefixCompare cmpInt
  cases Bytes.hasPrefix t.startKey p <;> cases Bytes.hasPrefix t.endKey p <;>
    cases Bytes.cmp t.startKey p <;> cases Bytes.cmp t.endKey p <;> simp

theorem not_prefix_of_lt {k p : Bytes} (h : Bytes.cmp k p = .lt) : Bytes.hasPrefix k p = false := by
  cases hp : Bytes.hasPrefix k p with
  | false => rfl
  | true => exact absurd (Bytes.cmp_lt_iff_gt.mp h) (Bytes.prefix_le hp)

theorem hasPrefix_self (p : Bytes) : Bytes.hasPrefix p p = true := Bytes.hasPrefix_iff.mpr ⟨[], by simp⟩

/-- a table that `RangeContainsPrefix` rejects holds no key with the prefix -/
theorem scan_nil_of_not_sel (t : Tbl) (hs : t.run.Sorted) (p : Bytes) (h : t.rangeContainsPrefix p = false) :
    t.scan p = [] := by
  unfold Tbl.scan
  rw [List.filter_eq_nil_iff]
  intro e he hpre
  have hpre' : Bytes.hasPrefix e.key p = true := by simpa using hpre
  obtain ⟨h1, h2⟩ := key_in_range t hs e he
  have hz : ¬ pc p t = 0 := by rw [pc_zero]; simp [h]
  have hple : Bytes.cmp p e.key ≠ .gt := Bytes.prefix_le hpre'
  have hend : Bytes.cmp p t.endKey ≠ .gt := cmp_le_trans hple (cmp_flip_le h2)
  have hsp : Bytes.hasPrefix t.startKey p = false := by
    cases hh : Bytes.hasPrefix t.startKey p with
    | false => rfl
    | true => exact absurd ((pc_zero p t).mpr (by unfold Tbl.rangeContainsPrefix Gen.tblRangeContainsPrefix; simp [hh])) hz
  have hep : Bytes.hasPrefix t.endKey p = false := by
    cases hh : Bytes.hasPrefix t.endKey p with
    | false => rfl
    | true => exact absurd ((pc_zero p t).mpr (by unfold Tbl.rangeContainsPrefix Gen.tblRangeContainsPrefix; simp [hh])) hz
  -- neither negative (end < p) nor positive (start > p) is possible
  rcases Int.lt_trichotomy (pc p t) 0 with hn | hz' | hpz
  · have := ((pc_neg p t).mp hn).2.2.2
    exact hend (Bytes.cmp_lt_iff_gt.mp this)
  · exact hz hz'
  · have hgt := ((pc_pos p t).mp hpz).2.2
    -- p < start ≤ e.key, p and e.key have the prefix, so start has it
    have hps : Bytes.cmp p t.startKey ≠ .gt := by
      rw [Bytes.cmp_gt_iff_lt.mp hgt]; simp
    have := Bytes.prefix_interval (hasPrefix_self p) hpre' hps h1
    rw [hsp] at this; cases this

/-! ### `slices.BinarySearchFunc` -/

theorem lowerBound_spec {α : Type} (xs : Array α) (c : α → Int)
    (hclosed : ∀ i j (_ : i < j) (hj : j < xs.size), c xs[j] < 0 → c (xs[i]'(by omega)) < 0) :
    ∀ (n low high : Nat), high - low = n → (hle : low ≤ high) → (hh : high ≤ xs.size) →
      (∀ i (hi : i < low), c (xs[i]'(by omega)) < 0) →
      (∀ i (_ : high ≤ i) (hi : i < xs.size), ¬ c xs[i] < 0) →
      low ≤ lowerBound xs c low high ∧ lowerBound xs c low high ≤ high ∧
      (∀ i (hi : i < lowerBound xs c low high) (hs : i < xs.size), c xs[i] < 0) ∧
      (∀ i (_ : lowerBound xs c low high ≤ i) (hi : i < xs.size), ¬ c xs[i] < 0) := by
  intro n
  induction n using Nat.strongRecOn with
  | ind n ih =>
    intro low high hn hle hh hlow hhigh
    unfold lowerBound
    by_cases hlt : low < high
    · simp only [hlt, dite_true]
      have hi : (low + high) / 2 < xs.size := by omega
      simp only [hi, dite_true]
      by_cases hneg : c xs[(low + high) / 2] < 0
      · simp only [hneg, if_true]
        have := ih (high - ((low + high) / 2 + 1)) (by omega) ((low + high) / 2 + 1) high rfl (by omega) hh
          (by
            intro i hi'
            by_cases he : i = (low + high) / 2
            · subst he; exact hneg
            · exact hclosed i ((low + high) / 2) (by omega) hi hneg)
          hhigh
        exact ⟨by omega, this.2.1, this.2.2.1, this.2.2.2⟩
      · simp only [hneg, if_false]
        have := ih ((low + high) / 2 - low) (by omega) low ((low + high) / 2) rfl (by omega) (by omega) hlow
          (by
            intro i hge hi' hc
            by_cases he : i = (low + high) / 2
            · subst he; exact hneg hc
            · exact hneg (hclosed ((low + high) / 2) i (by omega) hi' hc))
        exact ⟨this.1, by omega, this.2.2.1, this.2.2.2⟩
    · simp only [hlt, dite_false]
      have : low = high := by omega
      subst this
      exact ⟨Nat.le_refl _, Nat.le_refl _, fun i hi _ => hlow i hi, hhigh⟩

theorem takeWhile_eq_filter {α : Type} (sel : α → Bool) :
    ∀ (l : List α), l.Pairwise (fun a b => sel a = false → sel b = false) → l.takeWhile sel = l.filter sel := by
  intro l
  induction l with
  | nil => intro _; rfl
  | cons x xs ih =>
    intro h
    obtain ⟨h1, h2⟩ := List.pairwise_cons.mp h
    cases hx : sel x with
    | true => simp [List.takeWhile, List.filter, hx, ih h2]
    | false =>
      have : xs.filter sel = [] := by
        rw [List.filter_eq_nil_iff]; intro b hb; simp [h1 b hb hx]
      simp [List.takeWhile, List.filter, hx, this]

/-- on a valid level the binary search + forward walk selects exactly the tables `RangeContainsPrefix` accepts -/
theorem deepTablesForPrefix_eq (l : List Tbl) (hv : LevelValid l) (p : Bytes) :
    deepTablesForPrefix l p = l.filter (fun t => t.rangeContainsPrefix p) := by
  -- sign structure of the compare values along the level
  have hP1 : l.Pairwise (fun a b => pc p b < 0 → pc p a < 0) := by
    refine hv.2.imp_of_mem ?_
    intro a b ha hb hab hneg
    obtain ⟨_, _, hsb, heb⟩ := (pc_neg p b).mp hneg
    have hokb : TblOk b := hv.1 b hb
    have hoka : TblOk a := hv.1 a ha
    -- start_a ≤ end_a < start_b ≤ end_b < p
    have h1 : Bytes.cmp a.endKey b.endKey = .lt := cmp_lt_le_trans hab hokb
    have h2 : Bytes.cmp a.endKey p = .lt := Bytes.cmp_lt_trans h1 heb
    have h3 : Bytes.cmp a.startKey p = .lt := cmp_le_lt_trans hoka h2
    exact (pc_neg p a).mpr ⟨not_prefix_of_lt h3, not_prefix_of_lt h2, by rw [h3]; simp, h2⟩
  have hP2 : l.Pairwise (fun a b => 0 < pc p a → 0 < pc p b) := by
    refine hv.2.imp_of_mem ?_
    intro a b ha hb hab hpos
    obtain ⟨hsa, _, hgt⟩ := (pc_pos p a).mp hpos
    have hoka : TblOk a := hv.1 a ha
    have hokb : TblOk b := hv.1 b hb
    have hpa : Bytes.cmp p a.startKey = .lt := Bytes.cmp_gt_iff_lt.mp hgt
    have hab' : Bytes.cmp a.startKey b.startKey = .lt := cmp_le_lt_trans hoka hab
    have hpb : Bytes.cmp p b.startKey = .lt := Bytes.cmp_lt_trans hpa hab'
    have hsb : Bytes.hasPrefix b.startKey p = false := by
      cases hh : Bytes.hasPrefix b.startKey p with
      | false => rfl
      | true =>
        have := Bytes.prefix_interval (hasPrefix_self p) hh (by rw [hpa]; simp) (by rw [hab']; simp)
        rw [hsa] at this; cases this
    have heb : Bytes.hasPrefix b.endKey p = false := by
      cases hh : Bytes.hasPrefix b.endKey p with
      | false => rfl
      | true =>
        have hae : Bytes.cmp a.startKey b.endKey ≠ .gt := by
          have := cmp_lt_le_trans hab' hokb; rw [this]; simp
        have := Bytes.prefix_interval (hasPrefix_self p) hh (by rw [hpa]; simp) hae
        rw [hsa] at this; cases this
    exact (pc_pos p b).mpr ⟨hsb, heb, Bytes.cmp_lt_iff_gt.mp hpb⟩
  have hsel : ∀ t, t.rangeContainsPrefix p = true ↔ pc p t = 0 := fun t => (pc_zero p t).symm
  -- the binary search
  have hclosed : ∀ i j (_ : i < j) (hj : j < l.toArray.size), pc p l.toArray[j] < 0 → pc p (l.toArray[i]'(by omega)) < 0 := by
    intro i j hij hj hneg
    have hj' : j < l.length := by simpa using hj
    have := (List.pairwise_iff_getElem.mp hP1) i j (by omega) hj' hij
    simpa using this (by simpa using hneg)
  have hspec := lowerBound_spec l.toArray (pc p) hclosed l.toArray.size 0 l.toArray.size rfl (Nat.zero_le _)
    (Nat.le_refl _) (fun i hi => absurd hi (Nat.not_lt_zero _)) (fun i hge hi => absurd hi (by omega))
  obtain ⟨_, hr_le, hbelow, habove⟩ := hspec
  unfold deepTablesForPrefix
  simp only
  show (match l.toArray[lowerBound l.toArray (pc p) 0 l.toArray.size]? with
    | some t => if pc p t = 0 then (l.drop (lowerBound l.toArray (pc p) 0 l.toArray.size)).takeWhile (fun (t : Tbl) => t.rangeContainsPrefix p) else []
    | none => []) = _
  generalize lowerBound l.toArray (pc p) 0 l.toArray.size = r at hr_le hbelow habove
  have hsize : l.toArray.size = l.length := by simp
  -- nothing before r is selected
  have htake : (l.take r).filter (fun t => t.rangeContainsPrefix p) = [] := by
    rw [List.filter_eq_nil_iff]
    intro t ht hs
    obtain ⟨i, hi, rfl⟩ := List.getElem_of_mem ht
    have hi' : i < r ∧ i < l.length := by simp at hi; omega
    have hneg := hbelow i hi'.1 (by omega)
    simp only [List.getElem_take] at hs
    have : pc p l[i] = 0 := (hsel _).mp (by simpa using hs)
    simp only [List.getElem_toArray] at hneg
    omega
  have hsplit : l.filter (fun t => t.rangeContainsPrefix p) = (l.drop r).filter (fun t => t.rangeContainsPrefix p) := by
    conv => lhs; rw [← List.take_append_drop r l]
    rw [List.filter_append, htake, List.nil_append]
  -- from r on nothing is negative
  have hnn : ∀ t ∈ l.drop r, ¬ pc p t < 0 := by
    intro t ht
    obtain ⟨i, hi, rfl⟩ := List.getElem_of_mem ht
    simp only [List.length_drop] at hi
    have := habove (r + i) (by omega) (by omega)
    simpa [List.getElem_drop] using this
  have hmono : (l.drop r).Pairwise (fun a b => a.rangeContainsPrefix p = false → b.rangeContainsPrefix p = false) := by
    have hsub : (l.drop r).Pairwise (fun a b => 0 < pc p a → 0 < pc p b) := hP2.sublist (List.drop_sublist r l)
    refine hsub.imp_of_mem ?_
    intro a b ha hb hab hna
    have ha0 : ¬ pc p a = 0 := by rw [← hsel]; simp [hna]
    have hpos : 0 < pc p a := by have := hnn a ha; omega
    have := hab hpos
    cases hb' : b.rangeContainsPrefix p with
    | false => rfl
    | true => have := (hsel b).mp hb'; omega
  rw [hsplit]
  cases hget : l.toArray[r]? with
  | none =>
    have : l.length ≤ r := by
      have := Array.getElem?_eq_none_iff.mp hget; simpa using this
    simp [List.drop_eq_nil_of_le this]
  | some t =>
    have hrl : r < l.length := by
      have := (Array.getElem?_eq_some_iff.mp hget).1; simpa using this
    have ht : t = l[r] := by
      have := (Array.getElem?_eq_some_iff.mp hget).2; simpa using this.symm
    simp only
    by_cases hz : pc p t = 0
    · simp only [hz, if_true]
      exact takeWhile_eq_filter _ _ hmono
    · simp only [hz, if_false]
      -- the first element from r is positive, so everything after it is
      symm
      rw [List.filter_eq_nil_iff]
      intro b hb hs
      have hdrop : l.drop r = l[r] :: l.drop (r + 1) := (List.drop_eq_getElem_cons hrl)
      have htm : t ∈ l.drop r := by rw [ht, hdrop]; exact List.mem_cons_self
      have hpos : 0 < pc p t := by have := hnn t htm; omega
      have hb0 : pc p b = 0 := (hsel b).mp (by simpa using hs)
      rw [hdrop] at hb hmono
      rcases List.mem_cons.mp hb with rfl | hb'
      · rw [← ht] at hb0; exact hz hb0
      · have hsub : (l.drop r).Pairwise (fun a b => 0 < pc p a → 0 < pc p b) := hP2.sublist (List.drop_sublist r l)
        rw [hdrop] at hsub
        have := (List.pairwise_cons.mp hsub).1 b hb' (by rw [← ht]; exact hpos)
        omega

theorem flatMap_filter_eq (D : List (List Tbl)) (p : Bytes) (hv : ∀ l ∈ D, LevelValid l) :
    D.flatMap (fun l => deepTablesForPrefix l p) = D.flatten.filter (fun t => t.rangeContainsPrefix p) := by
  induction D with
  | nil => rfl
  | cons l D ih =>
    simp only [List.flatMap_cons, List.flatten_cons, List.filter_append]
    rw [deepTablesForPrefix_eq l (hv l (by simp)) p, ih (fun l' hl' => hv l' (by simp [hl']))]

theorem tablesForPrefix_eq (L : List (List Tbl)) (hv : ∀ l ∈ L.tail, LevelValid l) (p : Bytes) :
    tablesForPrefix L p = L.flatten.filter (fun t => t.rangeContainsPrefix p) := by
  cases L with
  | nil => rfl
  | cons l0 D =>
    simp only [tablesForPrefix, List.flatten_cons, List.filter_append]
    rw [flatMap_filter_eq D p (fun l hl => hv l (by simpa using hl))]

theorem mergeAll_filter (sel : Tbl → Bool) (f : Tbl → Run) :
    ∀ (ts : List Tbl), (∀ t ∈ ts, sel t = false → f t = []) →
      mergeAll ((ts.filter sel).map f) = mergeAll (ts.map f) := by
  intro ts
  induction ts with
  | nil => intro _; rfl
  | cons t ts ih =>
    intro h
    have ih' := ih (fun t' ht' => h t' (by simp [ht']))
    cases hs : sel t with
    | true => simp only [List.filter, hs, List.map_cons, mergeAll, List.foldr_cons] at ih' ⊢; rw [ih']
    | false =>
      have hf := h t (by simp) hs
      simp only [List.filter, hs, List.map_cons, mergeAll, List.foldr_cons, hf] at ih' ⊢
      rw [ih']
      cases List.foldr merge2 [] (List.map f ts) <;> simp [merge2]

/-- the scan as `level_list.go` performs it equals C07's scan on a layout with sorted tables and valid deeper levels -/
theorem scanR_eq_scan (s : State) (hsorted : ∀ t ∈ s.levels.flatten, t.run.Sorted)
    (hv : ∀ l ∈ s.levels.tail, LevelValid l) (p : Bytes) : scanR s p = scan s p := by
  unfold scanR scan scanRaw
  rw [tablesForPrefix_eq s.levels hv p,
    mergeAll_filter (fun t => t.rangeContainsPrefix p) (fun t => t.scan p) s.levels.flatten
      (fun t ht hs => scan_nil_of_not_sel t (hsorted t ht) p hs)]

end Rxn.Rescale
