import RxnModel.Model.Rescale
import RxnModel.Proofs.Search
/-! Helper lemmas for C06: the merged level list is a valid layout for every handle order. -/
namespace Rxn.Rescale
open Rxn Lsm Rxn.Search

/-- key order refines key-group order: the key group is the big-endian value of the first two bytes -/
theorem kgOf_mono {a b : Bytes} (ha : 2 ≤ a.length) (hb : 2 ≤ b.length) (h : Bytes.cmp a b ≠ .gt) :
    kgOf a ≤ kgOf b := by
  match a, b, ha, hb with
  | a0 :: a1 :: ra, b0 :: b1 :: rb, _, _ =>
    simp only [kgOf, List.take_succ_cons, List.take_zero, Bytes.beNat, List.foldl_cons, List.foldl_nil]
    have ha1 := a1.toNat_lt
    have hb1 := b1.toNat_lt
    unfold Bytes.cmp at h
    by_cases h0 : a0 < b0
    · have := UInt8.lt_iff_toNat_lt.mp h0; omega
    · simp only [h0, if_false] at h
      by_cases h0' : b0 < a0
      · simp [h0'] at h
      · simp only [h0', if_false] at h
        have e0 : a0 = b0 := Bytes.u8_eq_of_not_lt h0 h0'
        subst e0
        unfold Bytes.cmp at h
        by_cases h1 : a1 < b1
        · have := UInt8.lt_iff_toNat_lt.mp h1; omega
        · simp only [h1, if_false] at h
          by_cases h1' : b1 < a1
          · simp [h1'] at h
          · have e1 : a1 = b1 := Bytes.u8_eq_of_not_lt h1 h1'
            subst e1; omega

/-- `start ≤ end` -/
def TblOk (t : Tbl) : Prop := Bytes.cmp t.startKey t.endKey ≠ .gt
/-- `t` lies entirely before `u` -/
def Before (t u : Tbl) : Prop := Bytes.cmp t.endKey u.startKey = .lt
/-- a deeper level the binary searches are correct on: ascending, pairwise disjoint key ranges -/
def LevelValid (l : List Tbl) : Prop := (∀ t ∈ l, TblOk t) ∧ l.Pairwise Before

/-- the table's boundary keys carry key groups of the range (the keys of an instance start with its key groups) -/
structure TblIn (r : KGRange) (t : Tbl) : Prop where
  startLen : 2 ≤ t.startKey.length
  endLen : 2 ≤ t.endKey.length
  startIn : r.includes (kgOf t.startKey) = true
  endIn : r.includes (kgOf t.endKey) = true

theorem cmp_flip_le {a b : Bytes} (h : Bytes.cmp a b ≠ .lt) : Bytes.cmp b a ≠ .gt :=
  fun hg => h (Bytes.cmp_gt_iff_lt.mp hg)

def Sep (t u : Tbl) : Prop := Before t u ∨ Before u t

theorem Sep.symm {t u : Tbl} (h : Sep t u) : Sep u t := h.elim Or.inr Or.inl

/-- tables of instances with non-overlapping key-group ranges have disjoint key ranges -/
theorem sep_of_disjoint (ra rb : KGRange) (t u : Tbl) (ht : TblIn ra t) (hu : TblIn rb u)
    (hd : ra.overlaps rb = false) : Sep t u := by
  have h1 := ht.startIn; have h2 := ht.endIn; have h3 := hu.startIn; have h4 := hu.endIn
  simp [KGRange.includes, Gen.kgIncludes] at h1 h2 h3 h4
  simp [KGRange.overlaps, Gen.kgOverlaps] at hd
  by_cases hc : ra.stop ≤ rb.start
  · left
    cases hcmp : Bytes.cmp t.endKey u.startKey with
    | lt => exact hcmp
    | eq =>
      have := kgOf_mono hu.startLen ht.endLen (cmp_flip_le (by rw [hcmp]; simp))
      omega
    | gt =>
      have := kgOf_mono hu.startLen ht.endLen (cmp_flip_le (by rw [hcmp]; simp))
      omega
  · right
    have hc' : rb.stop ≤ ra.start := by
      by_cases hx : rb.start < ra.stop
      · exact hd hx
      · omega
    cases hcmp : Bytes.cmp u.endKey t.startKey with
    | lt => exact hcmp
    | eq =>
      have := kgOf_mono ht.startLen hu.endLen (cmp_flip_le (by rw [hcmp]; simp))
      omega
    | gt =>
      have := kgOf_mono ht.startLen hu.endLen (cmp_flip_le (by rw [hcmp]; simp))
      omega

theorem tblLe_trans (a b c : Tbl) (h1 : tblLe a b = true) (h2 : tblLe b c = true) : tblLe a c = true := by
  simp only [tblLe, bne_iff_ne, ne_eq] at *
  intro hgt
  cases hab : Bytes.cmp a.startKey b.startKey with
  | gt => exact h1 hab
  | eq =>
    rw [Bytes.cmp_eq_iff.mp hab] at hgt; exact h2 hgt
  | lt =>
    have := cmp_lt_le_trans hab h2
    rw [this] at hgt; cases hgt

theorem tblLe_total (a b : Tbl) : (tblLe a b || tblLe b a) = true := by
  simp only [tblLe, Bool.or_eq_true, bne_iff_ne, ne_eq]
  by_cases h : Bytes.cmp a.startKey b.startKey = .gt
  · right; rw [Bytes.cmp_gt_iff_lt.mp h]; simp
  · left; exact h

/-- sorting a set of pairwise separated tables by start key gives a valid level -/
theorem sortLevel_valid (l : List Tbl) (hok : ∀ t ∈ l, TblOk t) (hsep : l.Pairwise Sep) :
    LevelValid (sortLevel l) := by
  have hperm := List.mergeSort_perm l tblLe
  have hsorted := List.pairwise_mergeSort tblLe_trans tblLe_total l
  have hsep' : (sortLevel l).Pairwise Sep := (hperm.pairwise_iff (fun h => Sep.symm h)).mpr hsep
  refine ⟨fun t ht => hok t (hperm.mem_iff.mp ht), ?_⟩
  have hboth := hsep'.and hsorted
  refine hboth.imp_of_mem ?_
  intro t u _ hu ⟨hs, hle⟩
  rcases hs with h | h
  · exact h
  · -- `u` entirely before `t` contradicts `start t ≤ start u ≤ end u`
    exfalso
    have hu' : TblOk u := hok u (hperm.mem_iff.mp hu)
    simp only [tblLe, bne_iff_ne, ne_eq] at hle
    have h1 : Bytes.cmp u.startKey t.startKey = .lt := cmp_le_lt_trans hu' h
    have h2 : Bytes.cmp t.startKey t.startKey = .lt := cmp_le_lt_trans hle h1
    rw [Bytes.cmp_self] at h2; cases h2

/-- what is assumed of one old instance's checkpoint: every table only spans key groups of the instance's range,
and its deeper levels are valid (C07/C18 layout invariant of a single instance) -/
structure CkptOk (r : KGRange) (c : Ckpt) : Prop where
  tables : ∀ l ∈ c.levels, ∀ t ∈ l, TblIn r t ∧ TblOk t
  deeper : ∀ i l, 1 ≤ i → c.levels[i]? = some l → LevelValid l

theorem getD_level_mem (c : Ckpt) (i : Nat) (t : Tbl) (h : t ∈ c.levels.getD i []) : ∃ l ∈ c.levels, t ∈ l := by
  rw [List.getD_eq_getElem?_getD] at h
  cases hl : c.levels[i]? with
  | none => simp [hl] at h
  | some l => simp [hl] at h; exact ⟨l, List.mem_of_getElem? hl, h⟩

theorem concatLevel_sep (ps : List (KGRange × Ckpt)) (hok : ∀ p ∈ ps, CkptOk p.1 p.2)
    (hdis : ps.Pairwise (fun a b => a.1.overlaps b.1 = false)) (i : Nat) (hi : 1 ≤ i) :
    (concatLevel (ps.map (·.2)) i).Pairwise Sep := by
  unfold concatLevel
  rw [List.pairwise_flatten]
  constructor
  · intro l hl
    simp only [List.map_map, List.mem_map, Function.comp] at hl
    obtain ⟨p, hp, rfl⟩ := hl
    rw [List.getD_eq_getElem?_getD]
    cases hlv : p.2.levels[i]? with
    | none => simp
    | some lv =>
      simp only [Option.getD_some]
      exact ((hok p hp).deeper i lv hi hlv).2.imp (fun h => Or.inl h)
  · simp only [List.map_map]
    rw [List.pairwise_map]
    refine hdis.imp_of_mem ?_
    intro a b ha hb hab t ht u hu
    simp only [Function.comp] at ht hu
    obtain ⟨l1, hl1, ht1⟩ := getD_level_mem a.2 i t ht
    obtain ⟨l2, hl2, hu2⟩ := getD_level_mem b.2 i u hu
    exact sep_of_disjoint a.1 b.1 t u ((hok a ha).tables l1 hl1 t ht1).1 ((hok b hb).tables l2 hl2 u hu2).1 hab

theorem concatLevel_ok (ps : List (KGRange × Ckpt)) (hok : ∀ p ∈ ps, CkptOk p.1 p.2) (i : Nat) :
    ∀ t ∈ concatLevel (ps.map (·.2)) i, TblOk t := by
  intro t ht
  unfold concatLevel at ht
  simp only [List.map_map, List.mem_flatten, List.mem_map, Function.comp] at ht
  obtain ⟨l, ⟨p, hp, rfl⟩, htl⟩ := ht
  obtain ⟨l1, hl1, ht1⟩ := getD_level_mem p.2 i t htl
  exact ((hok p hp).tables l1 hl1 t ht1).2

/-- every deeper level of the composite checkpoint is valid, whatever the handle order -/
theorem mergeLevels_valid (ps : List (KGRange × Ckpt)) (hok : ∀ p ∈ ps, CkptOk p.1 p.2)
    (hdis : ps.Pairwise (fun a b => a.1.overlaps b.1 = false)) (i : Nat) (hi : 1 ≤ i) (l : List Tbl)
    (hl : (mergeLevels (ps.map (·.2)))[i]? = some l) : LevelValid l := by
  match ps, hok, hdis with
  | [], _, _ => simp [mergeLevels] at hl
  | [p], hok, _ =>
    simp only [List.map_cons, List.map_nil, mergeLevels] at hl
    exact (hok p (by simp)).deeper i l hi hl
  | p :: q :: rest, hok, hdis =>
    simp only [List.map_cons, mergeLevels] at hl
    rw [List.getElem?_map] at hl
    cases hr : (List.range p.2.levels.length)[i]? with
    | none => simp [hr] at hl
    | some j =>
      have hj : j = i := by
        have := List.getElem?_eq_some_iff.mp hr
        obtain ⟨h1, h2⟩ := this
        simp at h2; omega
      subst hj
      simp only [hr, Option.map_some] at hl
      have hne : ¬ j = 0 := by omega
      simp only [hne, if_false, Option.some.injEq] at hl
      subst hl
      have e : p.2 :: q.2 :: List.map (fun x => x.2) rest = (p :: q :: rest).map (·.2) := by simp
      rw [e]
      exact sortLevel_valid _ (concatLevel_ok _ hok j) (concatLevel_sep _ hok hdis j hi)

end Rxn.Rescale
