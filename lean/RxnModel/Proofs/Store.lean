import RxnModel.Model.Store
/-! Helper lemmas for C12 (`Model/Store.lean`). Core only. -/
namespace Rxn.Store

/-! ### association lists with distinct keys -/

theorem mem_dedup {x : Nat} {l : List Nat} : x ∈ dedup l ↔ x ∈ l := by
  induction l with
  | nil => simp [dedup]
  | cons a t ih =>
    unfold dedup
    by_cases h : a ∈ t
    · simp only [h, if_true, ih, List.mem_cons]
      constructor
      · intro hx; exact Or.inr hx
      · intro hx; rcases hx with rfl | hx
        · exact h
        · exact hx
    · simp only [h, if_false, List.mem_cons, ih]

theorem nodup_dedup (l : List Nat) : (dedup l).Nodup := by
  induction l with
  | nil => simp [dedup]
  | cons a t ih =>
    unfold dedup
    by_cases h : a ∈ t
    · simpa [h] using ih
    · simp only [h, if_false, List.nodup_cons]
      exact ⟨fun hm => h (mem_dedup.mp hm), ih⟩

theorem mkFlags_keys (l : List Nat) : (mkFlags l).map (·.1) = dedup l := by
  simp [mkFlags, List.map_map, Function.comp_def]

theorem mkFlags_false {l : List Nat} {e : Nat × Bool} (h : e ∈ mkFlags l) : e.2 = false := by
  simp only [mkFlags, List.mem_map] at h
  obtain ⟨a, _, rfl⟩ := h
  rfl

theorem lookup_none_iff {m : List (Nat × Bool)} {k : Nat} : m.lookup k = none ↔ k ∉ m.map (·.1) := by
  induction m with
  | nil => simp [List.lookup]
  | cons e t ih =>
    obtain ⟨a, b⟩ := e
    simp only [List.lookup, List.map_cons, List.mem_cons]
    by_cases h : k = a
    · subst h; simp
    · have : (k == a) = false := by simpa using h
      simp [this, ih, h]

theorem lookup_some_iff {m : List (Nat × Bool)} (hn : (m.map (·.1)).Nodup) {k : Nat} {b : Bool} :
    m.lookup k = some b ↔ (k, b) ∈ m := by
  induction m with
  | nil => simp [List.lookup]
  | cons e t ih =>
    obtain ⟨a, c⟩ := e
    simp only [List.map_cons, List.nodup_cons] at hn
    simp only [List.lookup, List.mem_cons]
    by_cases h : k = a
    · subst h
      simp only [beq_self_eq_true]
      constructor
      · intro hh; injection hh with hh; subst hh; exact Or.inl rfl
      · intro hh
        rcases hh with hh | hh
        · injection hh with _ h2; rw [h2]
        · exact absurd (List.mem_map.mpr ⟨(k, b), hh, rfl⟩) hn.1
    · have hb : (k == a) = false := by simpa using h
      simp only [hb]
      rw [ih hn.2]
      constructor
      · intro hh; exact Or.inr hh
      · intro hh
        rcases hh with hh | hh
        · injection hh with h1 _; exact absurd h1 h
        · exact hh

theorem setFlag_keys (m : List (Nat × Bool)) (k : Nat) : (setFlag m k).map (·.1) = m.map (·.1) := by
  induction m with
  | nil => rfl
  | cons e t ih =>
    simp only [setFlag, List.map_cons] at ih ⊢
    rw [ih]
    by_cases h : e.1 = k <;> simp [h]

theorem mem_setFlag_true {m : List (Nat × Bool)} {k o : Nat} :
    (o, true) ∈ setFlag m k ↔ (o, true) ∈ m ∨ (o = k ∧ k ∈ m.map (·.1)) := by
  induction m with
  | nil => simp [setFlag]
  | cons e t ih =>
    obtain ⟨a, b⟩ := e
    simp only [setFlag, List.map_cons, List.mem_cons] at ih ⊢
    rw [ih]
    by_cases h : a = k
    · subst h
      simp only [if_true, Prod.mk.injEq]
      grind
    · simp only [h, if_false, Prod.mk.injEq]
      grind

theorem all_true_iff {m : List (Nat × Bool)} : m.all (·.2) = true ↔ ∀ e ∈ m, e.2 = true := by
  simp [List.all_eq_true]

/-! ### well-formed snapshots -/

structure Snap.WF (p : Snap) : Prop where
  opsNodup : (p.ops.map (·.1)).Nodup
  srsNodup : (p.srs.map (·.1)).Nodup
  opDone : ∀ o, (o, true) ∈ p.ops ↔ o ∈ p.opEntries.map (·.op)
  opEntNodup : (p.opEntries.map (·.op)).Nodup
  opCp : ∀ e ∈ p.opEntries, e.cp = p.id
  srDone : ∀ r, (r, true) ∈ p.srs ↔ r ∈ p.srAcks.map (·.1)
  srNodup : (p.srAcks.map (·.1)).Nodup
  splits : p.splitStates = p.srAcks.flatMap (·.2)

/-- every recorded acknowledgement was a call naming this snapshot's id -/
def Snap.FromCalls (hist : List Call) (p : Snap) : Prop :=
  (∀ e ∈ p.opEntries, Call.opAck e.op p.id e.tag ∈ hist) ∧
  (∀ a ∈ p.srAcks, Call.srAck a.1 p.id a.2 ∈ hist)

theorem Snap.FromCalls.mono {h1 h2 : List Call} {p : Snap} (hs : ∀ c ∈ h1, c ∈ h2) (h : p.FromCalls h1) :
    p.FromCalls h2 :=
  ⟨fun e he => hs _ (h.1 e he), fun a ha => hs _ (h.2 a ha)⟩

theorem newSnap_wf (id : Nat) (ops srs : List Nat) (sp : Bool) : (newSnap id ops srs sp).WF where
  opsNodup := by simp only [newSnap, mkFlags_keys]; exact nodup_dedup _
  srsNodup := by simp only [newSnap, mkFlags_keys]; exact nodup_dedup _
  opDone := by
    intro o
    simp only [newSnap, List.map_nil, List.not_mem_nil, iff_false]
    intro h; exact absurd (mkFlags_false h) (by simp)
  opEntNodup := by simp [newSnap]
  opCp := by simp [newSnap]
  srDone := by
    intro o
    simp only [newSnap, List.map_nil, List.not_mem_nil, iff_false]
    intro h; exact absurd (mkFlags_false h) (by simp)
  srNodup := by simp [newSnap]
  splits := by simp [newSnap]

theorem newSnap_complete {id : Nat} {ops srs : List Nat} {sp : Bool}
    (h : (newSnap id ops srs sp).isComplete = true) :
    (newSnap id ops srs sp).ops = [] ∧ (newSnap id ops srs sp).srs = [] := by
  simp only [Snap.isComplete, Bool.and_eq_true, all_true_iff] at h
  have aux : ∀ l : List Nat, (∀ e ∈ mkFlags l, e.2 = true) → mkFlags l = [] := by
    intro l hl
    cases hm : mkFlags l with
    | nil => rfl
    | cons e t =>
      have he : e ∈ mkFlags l := by rw [hm]; exact List.mem_cons_self
      have := hl e he
      rw [mkFlags_false he] at this
      exact absurd this (by simp)
  exact ⟨aux ops h.2, aux srs h.1⟩

theorem addOp_cases (p : Snap) (op cp tag : Nat) :
    (p.ops.lookup op = some false ∧
      addOp p op cp tag = { p with ops := setFlag p.ops op, opEntries := p.opEntries ++ [⟨op, cp, tag⟩] }) ∨
    (p.ops.lookup op ≠ some false ∧ addOp p op cp tag = p) := by
  unfold addOp
  cases h : p.ops.lookup op with
  | none => right; simp
  | some b => cases b <;> simp

theorem addOp_wf {p : Snap} (hw : p.WF) (op tag : Nat) : (addOp p op p.id tag).WF := by
  rcases addOp_cases p op p.id tag with ⟨hl, he⟩ | ⟨_, he⟩
  · rw [he]
    have hmem : (op, false) ∈ p.ops := (lookup_some_iff hw.opsNodup).mp hl
    have hkey : op ∈ p.ops.map (·.1) := List.mem_map.mpr ⟨_, hmem, rfl⟩
    have hnot : op ∉ p.opEntries.map (·.op) := by
      intro hh
      have := (lookup_some_iff hw.opsNodup).mpr ((hw.opDone op).mpr hh)
      rw [hl] at this; exact absurd this (by simp)
    exact {
      opsNodup := by simpa [setFlag_keys] using hw.opsNodup
      srsNodup := hw.srsNodup
      opDone := by
        intro o
        simp only [List.map_append, List.map_cons, List.map_nil, List.mem_append, List.mem_singleton]
        rw [mem_setFlag_true, hw.opDone o]
        constructor
        · intro h; rcases h with h | ⟨h, _⟩
          · exact Or.inl h
          · exact Or.inr h
        · intro h; rcases h with h | h
          · exact Or.inl h
          · exact Or.inr ⟨h, hkey⟩
      opEntNodup := by
        simp only [List.map_append, List.map_cons, List.map_nil]
        rw [List.nodup_append]
        refine ⟨hw.opEntNodup, by simp, ?_⟩
        intro a ha b hb
        simp only [List.mem_singleton] at hb
        subst hb
        intro hab; subst hab; exact hnot ha
      opCp := by
        intro e he
        simp only [List.mem_append, List.mem_singleton] at he
        rcases he with he | he
        · exact hw.opCp e he
        · subst he; rfl
      srDone := hw.srDone
      srNodup := hw.srNodup
      splits := hw.splits }
  · rw [he]; exact hw

theorem addSr_cases (p : Snap) (sr : Nat) (splits : List Nat) :
    (p.srs.lookup sr = none ∧ addSr p sr splits = none) ∨
    (p.srs.lookup sr = some true ∧ addSr p sr splits = some p) ∨
    (p.srs.lookup sr = some false ∧
      addSr p sr splits = some { p with srs := setFlag p.srs sr, srAcks := p.srAcks ++ [(sr, splits)],
                                        splitStates := p.splitStates ++ splits }) := by
  unfold addSr
  cases h : p.srs.lookup sr with
  | none => left; simp
  | some b => cases b <;> simp

theorem addSr_wf {p p' : Snap} (hw : p.WF) {sr : Nat} {splits : List Nat} (h : addSr p sr splits = some p') :
    p'.WF := by
  rcases addSr_cases p sr splits with ⟨_, he⟩ | ⟨_, he⟩ | ⟨hl, he⟩
  · rw [he] at h; exact absurd h (by simp)
  · rw [he] at h; injection h with h; subst h; exact hw
  · rw [he] at h; injection h with h; subst h
    have hmem : (sr, false) ∈ p.srs := (lookup_some_iff hw.srsNodup).mp hl
    have hkey : sr ∈ p.srs.map (·.1) := List.mem_map.mpr ⟨_, hmem, rfl⟩
    have hnot : sr ∉ p.srAcks.map (·.1) := by
      intro hh
      have := (lookup_some_iff hw.srsNodup).mpr ((hw.srDone sr).mpr hh)
      rw [hl] at this; exact absurd this (by simp)
    exact {
      opsNodup := hw.opsNodup
      srsNodup := by simpa [setFlag_keys] using hw.srsNodup
      opDone := hw.opDone
      opEntNodup := hw.opEntNodup
      opCp := hw.opCp
      srDone := by
        intro o
        simp only [List.map_append, List.map_cons, List.map_nil, List.mem_append, List.mem_singleton]
        rw [mem_setFlag_true, hw.srDone o]
        constructor
        · intro h; rcases h with h | ⟨h, _⟩
          · exact Or.inl h
          · exact Or.inr h
        · intro h; rcases h with h | h
          · exact Or.inl h
          · exact Or.inr ⟨h, hkey⟩
      srNodup := by
        simp only [List.map_append, List.map_cons, List.map_nil]
        rw [List.nodup_append]
        refine ⟨hw.srNodup, by simp, ?_⟩
        intro a ha b hb
        simp only [List.mem_singleton] at hb
        subst hb
        intro hab; subst hab; exact hnot ha
      splits := by
        simp only [List.flatMap_append, List.flatMap_cons, List.flatMap_nil, List.append_nil]
        rw [hw.splits] }

/-! ### the store invariant -/

/-- invariant of reachable store states (`hist` = the calls made so far) -/
def Inv (hist : List Call) (s : St) : Prop :=
  ∀ p, s.pending = some p →
    p.WF ∧ p.FromCalls hist ∧ p.id = s.cid ∧ (p.isComplete = true → p.ops = [] ∧ p.srs = [])

theorem inv_init (hist : List Call) : Inv hist St.init := by
  intro p h; simp [St.init] at h

/-- what a snapshot handed to the publisher satisfies -/
structure Snap.Good (hist : List Call) (p : Snap) : Prop where
  wf : p.WF
  complete : p.isComplete = true
  fromCalls : p.FromCalls hist

theorem finishIfComplete_spec (s : St) (p : Snap) :
    (p.isComplete = true ∧ finishIfComplete s p = ({ s with pending := none }, .ok, some p)) ∨
    (p.isComplete = false ∧ finishIfComplete s p = ({ s with pending := some p }, .ok, none)) := by
  unfold finishIfComplete
  cases h : p.isComplete <;> simp

/-- one step: the invariant is kept, `cid` never decreases, and a published snapshot is `Good`,
carries the current id and clears `pending` -/
theorem step_inv {hist : List Call} {s : St} (hi : Inv hist s) (c : Call) :
    Inv (hist ++ [c]) (step s c).1 ∧ s.cid ≤ (step s c).1.cid ∧
    ∀ snap, (step s c).2.2 = some snap →
      snap.Good (hist ++ [c]) ∧ snap.id = s.cid ∧ (step s c).1.cid = s.cid ∧ (step s c).1.pending = none := by
  have hsub : ∀ x ∈ hist, x ∈ hist ++ [c] := fun x hx => List.mem_append_left _ hx
  have keep : Inv (hist ++ [c]) s := by
    intro p hp
    obtain ⟨h1, h2, h3, h4⟩ := hi p hp
    exact ⟨h1, h2.mono hsub, h3, h4⟩
  cases c with
  | create ops srs =>
    cases hp : s.pending with
    | some p => simp only [step, hp]; exact ⟨keep, Nat.le_refl _, by simp⟩
    | none =>
      simp only [step, hp]
      refine ⟨?_, Nat.le_succ _, by simp⟩
      intro p h
      simp only [Option.some.injEq] at h
      subst h
      exact ⟨newSnap_wf _ _ _ _, ⟨by simp [newSnap], by simp [newSnap]⟩, rfl, newSnap_complete⟩
  | savepoint ops srs =>
    cases hp : s.pending with
    | some p =>
      simp only [step, hp]
      by_cases hs : p.isSavepoint = true
      · simp only [hs, if_true]; exact ⟨keep, Nat.le_refl _, by simp⟩
      · simp only [hs, Bool.false_eq_true, if_false]
        refine ⟨?_, Nat.le_refl _, by simp⟩
        intro q hq
        simp only [Option.some.injEq] at hq
        subst hq
        obtain ⟨h1, h2, h3, h4⟩ := keep p hp
        exact ⟨⟨h1.opsNodup, h1.srsNodup, h1.opDone, h1.opEntNodup, h1.opCp, h1.srDone, h1.srNodup, h1.splits⟩,
          h2, h3, h4⟩
    | none =>
      simp only [step, hp]
      refine ⟨?_, Nat.le_succ _, by simp⟩
      intro p h
      simp only [Option.some.injEq] at h
      subst h
      exact ⟨newSnap_wf _ _ _ _, ⟨by simp [newSnap], by simp [newSnap]⟩, rfl, newSnap_complete⟩
  | opAck op cp tag =>
    cases hp : s.pending with
    | none => simp only [step, hp]; exact ⟨keep, Nat.le_refl _, by simp⟩
    | some p =>
      simp only [step, hp]
      by_cases hid : p.id = cp
      · subst hid
        simp only [ne_eq, not_true_eq_false, if_false]
        obtain ⟨h1, h2, h3, h4⟩ := keep p hp
        have hw := addOp_wf h1 op tag
        have hidq : (addOp p op p.id tag).id = p.id := by
          rcases addOp_cases p op p.id tag with ⟨_, he⟩ | ⟨_, he⟩ <;> rw [he]
        have hfc : (addOp p op p.id tag).FromCalls (hist ++ [Call.opAck op p.id tag]) := by
          rcases addOp_cases p op p.id tag with ⟨_, he⟩ | ⟨_, he⟩
          · rw [he]
            refine ⟨?_, h2.2⟩
            intro e he'
            simp only [List.mem_append, List.mem_singleton] at he'
            rcases he' with he' | he'
            · exact h2.1 e he'
            · subst he'; simp
          · rw [he]; exact h2
        rcases finishIfComplete_spec s (addOp p op p.id tag) with ⟨hc, he⟩ | ⟨hc, he⟩
        · rw [he]
          refine ⟨by intro q hq; simp at hq, Nat.le_refl _, ?_⟩
          intro snap hsnap
          simp only [Option.some.injEq] at hsnap
          subst hsnap
          exact ⟨⟨hw, hc, hfc⟩, by rw [hidq, h3], rfl, rfl⟩
        · rw [he]
          refine ⟨?_, Nat.le_refl _, by simp⟩
          intro q hq
          simp only [Option.some.injEq] at hq
          subst hq
          exact ⟨hw, hfc, by rw [hidq]; exact h3, by intro h; rw [hc] at h; exact absurd h (by simp)⟩
      · simp only [ne_eq, hid, not_false_eq_true, if_true]
        exact ⟨keep, Nat.le_refl _, by simp⟩
  | srAck sr cp splits =>
    cases hp : s.pending with
    | none => simp only [step, hp]; exact ⟨keep, Nat.le_refl _, by simp⟩
    | some p =>
      simp only [step, hp]
      by_cases hid : p.id = cp
      · subst hid
        simp only [ne_eq, not_true_eq_false, if_false]
        obtain ⟨h1, h2, h3, h4⟩ := keep p hp
        cases ha : addSr p sr splits with
        | none => simp only; exact ⟨keep, Nat.le_refl _, by simp⟩
        | some p' =>
          simp only
          have hw := addSr_wf h1 ha
          have hidq : p'.id = p.id := by
            rcases addSr_cases p sr splits with ⟨_, he⟩ | ⟨_, he⟩ | ⟨_, he⟩ <;> rw [he] at ha
            · exact absurd ha (by simp)
            · injection ha with ha; subst ha; rfl
            · injection ha with ha; subst ha; rfl
          have hfc : p'.FromCalls (hist ++ [Call.srAck sr p.id splits]) := by
            rcases addSr_cases p sr splits with ⟨_, he⟩ | ⟨_, he⟩ | ⟨_, he⟩ <;> rw [he] at ha
            · exact absurd ha (by simp)
            · injection ha with ha; subst ha; exact h2
            · injection ha with ha; subst ha
              refine ⟨h2.1, ?_⟩
              intro a ha'
              simp only [List.mem_append, List.mem_singleton] at ha'
              rcases ha' with ha' | ha'
              · exact h2.2 a ha'
              · subst ha'; simp
          rcases finishIfComplete_spec s p' with ⟨hc, he⟩ | ⟨hc, he⟩
          · rw [he]
            refine ⟨by intro q hq; simp at hq, Nat.le_refl _, ?_⟩
            intro snap hsnap
            simp only [Option.some.injEq] at hsnap
            subst hsnap
            exact ⟨⟨hw, hc, hfc⟩, by rw [hidq, h3], rfl, rfl⟩
          · rw [he]
            refine ⟨?_, Nat.le_refl _, by simp⟩
            intro q hq
            simp only [Option.some.injEq] at hq
            subst hq
            exact ⟨hw, hfc, by rw [hidq]; exact h3, by intro h; rw [hc] at h; exact absurd h (by simp)⟩
      · simp only [ne_eq, hid, not_false_eq_true, if_true]
        exact ⟨keep, Nat.le_refl _, by simp⟩
  | redeploy =>
    simp only [step]
    exact ⟨by intro p hp; simp at hp, Nat.le_refl _, by simp⟩

/-! ### traces -/

theorem Snap.Good.mono {h1 h2 : List Call} {p : Snap} (hs : ∀ c ∈ h1, c ∈ h2) (h : p.Good h1) : p.Good h2 :=
  ⟨h.wf, h.complete, h.fromCalls.mono hs⟩

theorem published_good (calls : List Call) : ∀ (hist : List Call) (s : St), Inv hist s →
    ∀ snap ∈ published s calls, snap.Good (hist ++ calls) := by
  induction calls with
  | nil => intro hist s _ snap h; simp [published] at h
  | cons c cs ih =>
    intro hist s hi snap h
    obtain ⟨hi', _, hpub⟩ := step_inv hi c
    simp only [published, List.mem_append] at h
    rcases h with h | h
    · have hs : (step s c).2.2 = some snap := by
        cases hq : (step s c).2.2 with
        | none => rw [hq] at h; simp at h
        | some q => rw [hq] at h; simp at h; rw [h]
      exact (hpub snap hs).1.mono (by intro x hx; simp only [List.mem_append, List.mem_cons] at hx ⊢; grind)
    · have := ih (hist ++ [c]) _ hi' snap h
      simpa [List.append_assoc] using this

/-- shape of one step with respect to starting, finishing and abandoning checkpoints (no invariant needed) -/
theorem step_shape (s : St) (c : Call) :
    ((step s c).2.1.created = [s.cid + 1] ∧ s.pending = none ∧ (step s c).1.pending.isSome = true ∧
        (step s c).1.cid = s.cid + 1 ∧ (step s c).2.2 = none ∧ c ≠ .redeploy) ∨
    ((step s c).2.1.created = [] ∧ (∃ snap, (step s c).2.2 = some snap) ∧ s.pending.isSome = true ∧
        (step s c).1.pending = none ∧ (step s c).1.cid = s.cid ∧ c ≠ .redeploy) ∨
    ((step s c).2.1.created = [] ∧ (step s c).2.2 = none ∧ (step s c).1.cid = s.cid ∧
        (step s c).1.pending.isSome = s.pending.isSome ∧ c ≠ .redeploy) ∨
    ((step s c).2.1.created = [] ∧ (step s c).2.2 = none ∧ (step s c).1.cid = s.cid ∧
        (step s c).1.pending = none ∧ c = .redeploy) := by
  cases c with
  | create ops srs =>
    cases hp : s.pending with
    | some p => right; right; left; simp [step, hp, Res.created]
    | none => left; simp [step, hp, Res.created]
  | savepoint ops srs =>
    cases hp : s.pending with
    | some p =>
      right; right; left
      by_cases hs : p.isSavepoint = true <;> simp [step, hp, hs, Res.created]
    | none => left; simp [step, hp, Res.created]
  | opAck op cp tag =>
    cases hp : s.pending with
    | none => right; right; left; simp [step, hp, Res.created]
    | some p =>
      by_cases hid : p.id = cp
      · rcases finishIfComplete_spec s (addOp p op cp tag) with ⟨_, he⟩ | ⟨_, he⟩
        · right; left; simp [step, hp, hid, he, Res.created]
        · right; right; left; simp [step, hp, hid, he, Res.created]
      · right; right; left; simp [step, hp, hid, Res.created]
  | srAck sr cp splits =>
    cases hp : s.pending with
    | none => right; right; left; simp [step, hp, Res.created]
    | some p =>
      by_cases hid : p.id = cp
      · cases ha : addSr p sr splits with
        | none => right; right; left; simp [step, hp, hid, ha, Res.created]
        | some p' =>
          rcases finishIfComplete_spec s p' with ⟨_, he⟩ | ⟨_, he⟩
          · right; left; simp [step, hp, hid, ha, he, Res.created]
          · right; right; left; simp [step, hp, hid, ha, he, Res.created]
      · right; right; left; simp [step, hp, hid, Res.created]
  | redeploy => right; right; right; simp [step, Res.created]

theorem step_cid_le (s : St) (c : Call) : s.cid ≤ (step s c).1.cid := by
  rcases step_shape s c with h | h | h | h <;> omega

theorem created_gt (calls : List Call) : ∀ (s : St), ∀ n ∈ createdIds s calls, s.cid < n := by
  induction calls with
  | nil => intro s n h; simp [createdIds] at h
  | cons c cs ih =>
    intro s n h
    simp only [createdIds, List.mem_append] at h
    rcases h with h | h
    · rcases step_shape s c with h' | h' | h' | h' <;> rw [h'.1] at h <;> simp at h
      omega
    · have := ih _ n h
      have := step_cid_le s c
      omega

theorem created_pairwise (calls : List Call) : ∀ (s : St), (createdIds s calls).Pairwise (· < ·) := by
  induction calls with
  | nil => intro s; simp [createdIds]
  | cons c cs ih =>
    intro s
    simp only [createdIds]
    rw [List.pairwise_append]
    refine ⟨?_, ih _, ?_⟩
    · rcases step_shape s c with h' | h' | h' | h' <;> rw [h'.1] <;> simp
    · intro a ha b hb
      have hb' := created_gt cs _ b hb
      rcases step_shape s c with h' | h' | h' | h' <;> rw [h'.1] at ha <;> simp at ha
      omega

/-- started checkpoints are finished, abandoned by a redeployment, or the (single) pending one -/
theorem created_le_published (calls : List Call) : ∀ (s : St),
    (createdIds s calls).length + (if s.pending.isSome then 1 else 0) ≤
      (published s calls).length + abandoned s calls + 1 := by
  induction calls with
  | nil => intro s; simp [createdIds, published, abandoned]; split <;> omega
  | cons c cs ih =>
    intro s
    have := ih (step s c).1
    simp only [createdIds, published, abandoned, List.length_append]
    rcases step_shape s c with h | h | h | h
    · rw [h.1, h.2.2.2.2.1]; rw [h.2.2.1] at this; simp [h.2.1, h.2.2.2.2.2] at this ⊢; omega
    · obtain ⟨snap, hs⟩ := h.2.1
      rw [h.1, hs]; rw [h.2.2.2.1] at this; simp [h.2.2.1, h.2.2.2.2.2] at this ⊢; omega
    · rw [h.1, h.2.1]; rw [h.2.2.2.1] at this; simp [h.2.2.2.2] at this ⊢; omega
    · rw [h.1, h.2.1]; rw [h.2.2.2.1] at this; simp [h.2.2.2.2] at this ⊢
      split <;> simp_all <;> omega

theorem published_ge (calls : List Call) : ∀ (hist : List Call) (s : St), Inv hist s →
    ∀ snap ∈ published s calls, (if s.pending.isSome then s.cid ≤ snap.id else s.cid < snap.id) := by
  induction calls with
  | nil => intro hist s _ snap h; simp [published] at h
  | cons c cs ih =>
    intro hist s hi snap h
    obtain ⟨hi', hle, hpub⟩ := step_inv hi c
    simp only [published, List.mem_append] at h
    rcases h with h | h
    · have hs : (step s c).2.2 = some snap := by
        cases hq : (step s c).2.2 with
        | none => rw [hq] at h; simp at h
        | some q => rw [hq] at h; simp at h; rw [h]
      have hid := (hpub snap hs).2.1
      rcases step_shape s c with h' | h' | h' | h'
      · rw [h'.2.2.2.2.1] at hs; exact absurd hs (by simp)
      · rw [h'.2.2.1]; simp; omega
      · rw [h'.2.1] at hs; exact absurd hs (by simp)
      · rw [h'.2.1] at hs; exact absurd hs (by simp)
    · have h2 := ih _ _ hi' snap h
      rcases step_shape s c with h' | h' | h' | h'
      · rw [h'.2.2.1] at h2; simp at h2; rw [h'.2.1]; simp; omega
      · rw [h'.2.2.2.1] at h2; simp at h2; split <;> omega
      · rw [h'.2.2.2.1] at h2; rw [h'.2.2.1] at h2; exact h2
      · rw [h'.2.2.2.1] at h2; simp at h2; split <;> omega

theorem published_pairwise (calls : List Call) : ∀ (hist : List Call) (s : St), Inv hist s →
    ((published s calls).map (·.id)).Pairwise (· < ·) := by
  induction calls with
  | nil => intro hist s _; simp [published]
  | cons c cs ih =>
    intro hist s hi
    obtain ⟨hi', hle, hpub⟩ := step_inv hi c
    simp only [published, List.map_append]
    rw [List.pairwise_append]
    refine ⟨?_, ih _ _ hi', ?_⟩
    · cases (step s c).2.2 <;> simp
    · intro a ha b hb
      cases hq : (step s c).2.2 with
      | none => rw [hq] at ha; simp at ha
      | some q =>
        rw [hq] at ha; simp at ha; subst ha
        obtain ⟨_, h1, h2, h3⟩ := hpub q hq
        obtain ⟨snap, hsn, rfl⟩ := List.mem_map.mp hb
        have := published_ge cs _ _ hi' snap hsn
        rw [h3] at this; simp at this; omega

/-- what a well-formed complete snapshot contains: exactly one stored entry per expected operator (with the
snapshot's id), no other entries, every expected source runner recorded exactly once, and the split states are
those runners' reported states, each runner's once -/
theorem complete_entries {snap : Snap} (hw : snap.WF) (hc : snap.isComplete = true) :
    (∀ o ∈ snap.expectedOps, ∃ e ∈ snap.opEntries, e.op = o ∧ e.cp = snap.id) ∧
    (snap.opEntries.map (·.op)).Nodup ∧
    (∀ e ∈ snap.opEntries, e.op ∈ snap.expectedOps ∧ e.cp = snap.id) ∧
    (∀ r ∈ snap.expectedSrs, r ∈ snap.srAcks.map (·.1)) ∧
    (snap.srAcks.map (·.1)).Nodup ∧
    (∀ a ∈ snap.srAcks, a.1 ∈ snap.expectedSrs) ∧
    snap.splitStates = snap.srAcks.flatMap (·.2) := by
  simp only [Snap.isComplete, Bool.and_eq_true, all_true_iff] at hc
  refine ⟨?_, hw.opEntNodup, ?_, ?_, hw.srNodup, ?_, hw.splits⟩
  · intro o ho
    obtain ⟨⟨o', b⟩, hm, rfl⟩ := List.mem_map.mp ho
    have hb : b = true := hc.2 _ hm
    subst hb
    obtain ⟨e, he, heq⟩ := List.mem_map.mp ((hw.opDone o').mp hm)
    exact ⟨e, he, heq, hw.opCp e he⟩
  · intro e he
    have : (e.op, true) ∈ snap.ops := (hw.opDone e.op).mpr (List.mem_map.mpr ⟨e, he, rfl⟩)
    exact ⟨List.mem_map.mpr ⟨_, this, rfl⟩, hw.opCp e he⟩
  · intro r hr
    obtain ⟨⟨r', b⟩, hm, rfl⟩ := List.mem_map.mp hr
    have hb : b = true := hc.1 _ hm
    subst hb
    exact (hw.srDone r').mp hm
  · intro a ha
    have : (a.1, true) ∈ snap.srs := (hw.srDone a.1).mpr (List.mem_map.mpr ⟨a, ha, rfl⟩)
    exact List.mem_map.mpr ⟨_, this, rfl⟩

/-- a store right after start-up (`NewStore`, `LoadCheckpoint` from local files or from a savepoint): nothing is
pending, the counter is whatever was loaded -/
def Booted (s0 : St) : Prop := s0.pending = none

theorem inv_booted {s0 : St} (h : Booted s0) (hist : List Call) : Inv hist s0 := by
  intro p hp; rw [h] at hp; exact absurd hp (by simp)

/-- store states reachable by public calls from any start-up state (any loaded counter) -/
def Reachable (s : St) : Prop := ∃ s0 calls, Booted s0 ∧ s = finalState s0 calls

theorem reachable_inv {s : St} (h : Reachable s) : ∃ hist, Inv hist s := by
  obtain ⟨s0, calls, hb, rfl⟩ := h
  suffices ∀ (cs hist : List Call) (s : St), Inv hist s → ∃ hist', Inv hist' (finalState s cs) from
    this calls [] s0 (inv_booted hb [])
  intro cs
  induction cs with
  | nil => intro hist s hi; exact ⟨hist, hi⟩
  | cons c t ih => intro hist s hi; exact ih _ _ (step_inv hi c).1


end Rxn.Store
