import RxnModel.Proofs.TimersCodec
/-! The timer registry (any cache size, any reload pattern) refines the set-based specification `Spec`. -/
namespace Rxn.Timers
open Rxn Rxn.Bytes

theorem nodup_map_of_inj_on {α β : Type} (f : α → β) (l : List α) (hn : l.Nodup)
    (hinj : ∀ a ∈ l, ∀ b ∈ l, f a = f b → a = b) : (l.map f).Nodup := by
  induction l with
  | nil => exact List.nodup_nil
  | cons x xs ih =>
    obtain ⟨h1, h2⟩ := List.nodup_cons.mp hn
    simp only [List.map_cons]
    refine List.nodup_cons.mpr ⟨?_, ih h2 (fun a ha b hb => hinj a (List.mem_cons_of_mem _ ha) b (List.mem_cons_of_mem _ hb))⟩
    intro hm
    obtain ⟨y, hy, hxy⟩ := List.mem_map.mp hm
    have := hinj y (List.mem_cons_of_mem _ hy) x List.mem_cons_self hxy
    subst this
    exact h1 hy

theorem nodup_filter {α : Type} (p : α → Bool) (l : List α) (hn : l.Nodup) : (l.filter p).Nodup :=
  List.Pairwise.sublist List.filter_sublist hn

theorem nodup_flatMap_of {α β : Type} (f : α → List β) (l : List α) (h1 : ∀ x ∈ l, (f x).Nodup)
    (h2 : l.Pairwise (fun a b => ∀ x, x ∈ f a → x ∈ f b → False)) : (l.flatMap f).Nodup := by
  induction l with
  | nil => exact List.nodup_nil
  | cons x xs ih =>
    obtain ⟨p1, p2⟩ := List.pairwise_cons.mp h2
    simp only [List.flatMap_cons]
    refine List.nodup_append.mpr ⟨h1 x List.mem_cons_self, ih (fun y hy => h1 y (List.mem_cons_of_mem _ hy)) p2, ?_⟩
    intro a ha b hb hab
    subst hab
    obtain ⟨y, hy, hay⟩ := List.mem_flatMap.mp hb
    exact p1 y hy a ha hay

/-- `TimerStore.Put` of an owned subject key: the encoded timer key is written through to the DB -/
theorem put_spec (s : Store) (hs : SInv s) (subj : Bytes) (t : Int) (ho : s.owns subj = true) :
    StoreStep s (s.put subj t) (sinsert (Keys.timerKey s.kgc subj (encTs t)) s.db) ∧
    s.ownsKey (Keys.timerKey s.kgc subj (encTs t)) := by
  simp only [Store.owns, Bool.and_eq_true, decide_eq_true_eq] at ho
  obtain ⟨h1, h2⟩ := ho
  have hpre := timerKey_prefix s.kgc subj (encTs t)
  have hg : s.start + (KeySpace.keyGroup s.kgc subj - s.start) = KeySpace.keyGroup s.kgc subj := by omega
  have hjl : KeySpace.keyGroup s.kgc subj - s.start < s.parts.length := by omega
  have hidx : s.partIdx (Keys.timerKey s.kgc subj (encTs t)) = KeySpace.keyGroup s.kgc subj - s.start :=
    partIdx_of_prefix s _ _ (by have := hs.bound; omega) (by rw [hg]; exact hpre)
  refine ⟨pushKey_spec s hs _ (by rw [hidx]; exact hjl) (by rw [hidx, hg]; exact hpre), ?_⟩
  obtain ⟨q, hq⟩ : ∃ q, s.parts[KeySpace.keyGroup s.kgc subj - s.start]? = some q :=
    ⟨s.parts[KeySpace.keyGroup s.kgc subj - s.start], List.getElem?_eq_getElem hjl⟩
  exact ⟨_, q, hq, by rw [(hs.parts _ q hq).2, hg]; exact hpre⟩

/-- simulation relation between the implementation model and the specification -/
structure Rel (r : Registry) (sp : Spec) : Prop where
  inv : SInv r.store
  ups : r.ups = sp.ups
  wm : r.wm = sp.wm
  wf : ∀ k ∈ r.store.timerKeys, WF r.store.kgc k
  pend : ∀ p, p ∈ sp.pending ↔ ∃ k ∈ r.store.timerKeys, timerOf k = p
  nodup : sp.pending.Nodup

theorem setTimer_refines (r : Registry) (sp : Spec) (h : Rel r sp) (subj : Bytes) (t : Int)
    (ho : r.store.owns subj = true) (h0 : 0 ≤ t) (h1 : t < 9223372036854775808) :
    Rel (r.setTimer subj t) (sp.setTimer subj t) := by
  unfold Registry.setTimer Spec.setTimer
  have hguard : Wm.timeCond Facts.timerGuardCond r.wm t = true ↔ ¬ t > sp.wm := by
    rw [← h.wm]
    simp only [Wm.timeCond, Facts.timerGuardCond, Bool.not_eq_true', decide_eq_false_iff_not]
  by_cases hg : Wm.timeCond Facts.timerGuardCond r.wm t = true
  · have hng := hguard.mp hg
    rw [if_pos hg, if_neg (fun hh => hng hh.1)]
    exact h
  · have hgt : t > sp.wm := by
      by_cases hh : t > sp.wm
      · exact hh
      · exact absurd (hguard.mpr hh) hg
    rw [if_neg hg]
    obtain ⟨hstep, hown⟩ := put_spec r.store h.inv subj t ho
    have hkeys : ∀ x, x ∈ (r.store.put subj t).timerKeys ↔
        (x = Keys.timerKey r.store.kgc subj (encTs t) ∨ x ∈ r.store.timerKeys) := by
      intro x
      rw [mem_timerKeys, mem_timerKeys, hstep.db, mem_sinsert, ownsKey_step hstep]
      constructor
      · rintro ⟨a | a, b⟩
        · exact Or.inl a
        · exact Or.inr ⟨a, b⟩
      · rintro (a | ⟨a, b⟩)
        · exact ⟨Or.inl a, a ▸ hown⟩
        · exact ⟨Or.inr a, b⟩
    have hdec := timerOf_timerKey r.store.kgc subj t h0 h1
    have hwf : ∀ k ∈ (r.store.put subj t).timerKeys, WF (r.store.put subj t).kgc k := by
      intro k hk
      rw [hstep.kgc]
      rcases (hkeys k).mp hk with e | e
      · rw [e]; exact wf_timerKey _ _ _ h0 h1
      · exact h.wf k e
    by_cases hin : (subj, t) ∈ sp.pending
    · rw [if_neg (fun hh => hh.2 hin)]
      refine ⟨hstep.inv, h.ups, h.wm, hwf, ?_, h.nodup⟩
      intro p
      rw [h.pend p]
      constructor
      · rintro ⟨k, hk, hp⟩; exact ⟨k, (hkeys k).mpr (Or.inr hk), hp⟩
      · rintro ⟨k, hk, hp⟩
        rcases (hkeys k).mp hk with e | e
        · rw [e, hdec] at hp
          rw [← hp]; exact (h.pend _).mp hin
        · exact ⟨k, e, hp⟩
    · rw [if_pos ⟨hgt, hin⟩]
      refine ⟨hstep.inv, h.ups, h.wm, hwf, ?_, List.nodup_cons.mpr ⟨hin, h.nodup⟩⟩
      intro p
      simp only [List.mem_cons]
      rw [h.pend p]
      constructor
      · rintro (e | ⟨k, hk, hp⟩)
        · exact ⟨_, (hkeys _).mpr (Or.inl rfl), by rw [hdec, e]⟩
        · exact ⟨k, (hkeys k).mpr (Or.inr hk), hp⟩
      · rintro ⟨k, hk, hp⟩
        rcases (hkeys k).mp hk with e | e
        · left; rw [e, hdec] at hp; exact hp.symm
        · right; exact ⟨k, e, hp⟩

theorem advance_refines (r : Registry) (sp : Spec) (h : Rel r sp) (sender : String) (wm : Int) :
    Rel (r.advance sender wm).1 (sp.advance sender wm).1 ∧
    (r.advance sender wm).2.Perm (sp.advance sender wm).2 ∧
    (r.advance sender wm).2.Pairwise (fun a b => a.2 ≤ b.2) ∧
    (r.advance sender wm).2.Nodup := by
  unfold Registry.advance Spec.advance
  rw [← h.ups]
  dsimp only
  generalize hcomp : (r.ups.report sender wm).2 = comp
  generalize hups : (r.ups.report sender wm).1 = ups'
  obtain ⟨keys, f⟩ := fireLoop_spec comp (r.store.db.length + 1) r.store h.inv (by omega)
  have hkeysub : ∀ k ∈ keys, k ∈ r.store.timerKeys := fun k hk => (f.due k hk).1
  have hwfk : ∀ k ∈ keys, WF r.store.kgc k := fun k hk => h.wf k (hkeysub k hk)
  -- a due timer that is still there would contradict the loop's stop condition
  have hall : ∀ k ∈ r.store.timerKeys, (timerOf k).2 ≤ comp → k ∈ keys := by
    intro k hk hdue
    by_cases hin : k ∈ keys
    · exact hin
    · exfalso
      have hrem := (f.remaining k).mpr ⟨hk, hin⟩
      rcases f.stopped with e | ⟨k1, e, hgt⟩
      · have := (earliest_spec _ f.inv).1 e
        rw [this] at hrem; cases hrem
      · obtain ⟨hk1, hmin⟩ := (earliest_spec _ f.inv).2 k1 e
        have hk1' := ((f.remaining k1).mp hk1).1
        have := (leTs_iff (h.wf k1 hk1') (h.wf k hk)).mp (hmin k hrem)
        omega
  have hfired_nodup : (keys.map timerOf).Nodup := by
    refine nodup_map_of_inj_on _ _ f.nodup ?_
    intro a ha b hb hab
    exact wf_inj (hwfk a ha) (hwfk b hb) hab
  refine ⟨?_, ?_, ?_, by rw [f.fired]; exact hfired_nodup⟩
  · refine ⟨f.inv, rfl, rfl, ?_, ?_, nodup_filter _ _ h.nodup⟩
    · intro k hk
      rw [f.kgc]
      exact h.wf k ((f.remaining k).mp hk).1
    · intro p
      simp only [List.mem_filter, decide_eq_true_eq]
      rw [h.pend p]
      constructor
      · rintro ⟨⟨k, hk, hp⟩, hgt⟩
        refine ⟨k, (f.remaining k).mpr ⟨hk, ?_⟩, hp⟩
        intro hin
        have := (f.due k hin).2
        rw [hp] at this; omega
      · rintro ⟨k, hk, hp⟩
        obtain ⟨hk0, hnin⟩ := (f.remaining k).mp hk
        refine ⟨⟨k, hk0, hp⟩, ?_⟩
        by_cases hle : p.2 ≤ comp
        · exact absurd (hall k hk0 (by rw [hp]; exact hle)) hnin
        · omega
  · rw [f.fired]
    apply (List.perm_ext_iff_of_nodup hfired_nodup (nodup_filter _ _ h.nodup)).mpr
    intro p
    simp only [List.mem_map, List.mem_filter, decide_eq_true_eq]
    rw [h.pend p]
    constructor
    · rintro ⟨k, hk, hp⟩
      exact ⟨⟨k, hkeysub k hk, hp⟩, by rw [← hp]; exact (f.due k hk).2⟩
    · rintro ⟨⟨k, hk, hp⟩, hle⟩
      exact ⟨k, hall k hk (by rw [hp]; exact hle), hp⟩
  · rw [f.fired]
    rw [List.pairwise_map]
    refine List.Pairwise.imp_of_mem ?_ f.ordered
    intro a b ha hb hab
    exact (leTs_iff (hwfk a ha) (hwfk b hb)).mp hab

/-- a registry freshly built over any DB content (construction; restore from a checkpoint) stands for exactly the timers
whose keys are in the DB, for every cache size -/
theorem rel_new (db : DB) (hdb : Sorted db) (kgc start stop maxCache : Nat) (ids : List String)
    (hss : start ≤ stop) (hstop : stop ≤ 65536)
    (hwf : ∀ k ∈ (Store.new db kgc start stop maxCache).timerKeys, WF kgc k) :
    Rel (Registry.new (Store.new db kgc start stop maxCache) ids)
      ⟨((Store.new db kgc start stop maxCache).timerKeys.map timerOf), Wm.Ups.init ids, Wm.regInit⟩ := by
  have hinv := sinv_new db hdb kgc start stop maxCache hss hstop
  -- the key list has no duplicates: it is a sublist of... each key is in the DB once and owned by one partition
  refine ⟨hinv, rfl, rfl, hwf, ?_, ?_⟩
  · intro p
    simp only [List.mem_map]
    exact Iff.rfl
  · show (((Store.new db kgc start stop maxCache).timerKeys).map timerOf).Nodup
    have hnd : (Store.new db kgc start stop maxCache).timerKeys.Nodup := by
      unfold Store.timerKeys
      apply nodup_flatMap_of
      · intro q _; exact (scan_sorted hdb _).nodup
      simp only [Store.new, List.pairwise_map]
      refine List.Pairwise.imp_of_mem ?_ (List.pairwise_lt_range (n := stop - start))
      intro i j hi hj hij x hx1 hx2
      simp only [KGPQ.new, DB.scan, List.mem_filter] at hx1 hx2
      have hi' : i < stop - start := List.mem_range.mp hi
      have hj' : j < stop - start := List.mem_range.mp hj
      obtain ⟨t1, e1⟩ := Bytes.hasPrefix_iff.mp hx1.2
      obtain ⟨t2, e2⟩ := Bytes.hasPrefix_iff.mp hx2.2
      have a1 := take2_kgPrefix (start + i) (by omega) t1
      have a2 := take2_kgPrefix (start + j) (by omega) t2
      rw [← e1] at a1
      rw [← e2] at a2
      omega
    refine nodup_map_of_inj_on _ _ hnd ?_
    intro a ha b hb hab
    exact wf_inj (hwf a ha) (hwf b hb) hab

end Rxn.Timers
