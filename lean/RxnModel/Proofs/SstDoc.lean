import RxnModel.Model.SstDoc
/-! Round trip of the JSON form of `TableDocument`: `parseDoc (jsonDoc d uri) = some (d, uri)`. -/
namespace Rxn.Sst
open Rxn

theorem stripPrefix_append (p r : List Char) : stripPrefix p (p ++ r) = some r := by
  induction p with
  | nil => rfl
  | cons c p ih => simp [stripPrefix, ih]

theorem takeWhile_append_stop (p : Char → Bool) (xs : List Char) (c : Char) (r : List Char)
    (hx : ∀ x ∈ xs, p x = true) (hc : p c = false) : (xs ++ c :: r).takeWhile p = xs := by
  induction xs with
  | nil => simp [hc]
  | cons x xs ih =>
    have := hx x (by simp)
    simp only [List.cons_append, List.takeWhile_cons, this, if_true]
    rw [ih (fun y hy => hx y (by simp [hy]))]

/-! ### base64 -/

theorem b64_val_char : ∀ n, n < 64 → b64Val (b64Char n) = some n := by decide
theorem b64_char_ne : ∀ n, n < 64 → b64Char n ≠ '=' ∧ b64Char n ≠ '"' := by decide

theorem ofNat_toNat_u8 (a : UInt8) : UInt8.ofNat a.toNat = a := by
  simp

theorem b64Dec_enc (bs : Bytes) : b64Dec (b64Enc bs) = some bs := by
  induction bs using b64Enc.induct with
  | case1 => rfl
  | case2 a =>
    have ha := a.toNat_lt
    have h1 : a.toNat / 4 < 64 := by omega
    have h2 : a.toNat % 4 * 16 < 64 := by omega
    have e1 : a.toNat / 4 * 4 + a.toNat % 4 * 16 / 16 = a.toNat := by omega
    simp only [b64Enc, b64Dec, b64_val_char _ h1, b64_val_char _ h2, if_true, and_self, e1, ofNat_toNat_u8]
  | case3 a b =>
    have ha := a.toNat_lt
    have hb := b.toNat_lt
    have h1 : a.toNat / 4 < 64 := by omega
    have h2 : a.toNat % 4 * 16 + b.toNat / 16 < 64 := by omega
    have h3 : b.toNat % 16 * 4 < 64 := by omega
    have n3 := (b64_char_ne _ h3).1
    have e1 : a.toNat / 4 * 4 + (a.toNat % 4 * 16 + b.toNat / 16) / 16 = a.toNat := by omega
    have e2 : (a.toNat % 4 * 16 + b.toNat / 16) % 16 * 16 + b.toNat % 16 * 4 / 4 = b.toNat := by omega
    simp only [b64Enc, b64Dec, b64_val_char _ h1, b64_val_char _ h2, b64_val_char _ h3, n3, if_false, if_true, e1, e2,
      ofNat_toNat_u8]
  | case4 a b c rest ih =>
    have ha := a.toNat_lt
    have hb := b.toNat_lt
    have hc := c.toNat_lt
    have h1 : a.toNat / 4 < 64 := by omega
    have h2 : a.toNat % 4 * 16 + b.toNat / 16 < 64 := by omega
    have h3 : b.toNat % 16 * 4 + c.toNat / 64 < 64 := by omega
    have h4 : c.toNat % 64 < 64 := by omega
    have n3 := (b64_char_ne _ h3).1
    have n4 := (b64_char_ne _ h4).1
    have e1 : a.toNat / 4 * 4 + (a.toNat % 4 * 16 + b.toNat / 16) / 16 = a.toNat := by omega
    have e2 : (a.toNat % 4 * 16 + b.toNat / 16) % 16 * 16 + (b.toNat % 16 * 4 + c.toNat / 64) / 4 = b.toNat := by omega
    have e3 : (b.toNat % 16 * 4 + c.toNat / 64) % 4 * 64 + c.toNat % 64 = c.toNat := by omega
    simp only [b64Enc, b64Dec, b64_val_char _ h1, b64_val_char _ h2, b64_val_char _ h3, b64_val_char _ h4, n3, n4,
      if_false, ih, e1, e2, e3, ofNat_toNat_u8]

theorem b64Enc_no_quote (bs : Bytes) : ∀ c ∈ b64Enc bs, (c != '"') = true := by
  induction bs using b64Enc.induct with
  | case1 => simp [b64Enc]
  | case2 a =>
    have ha := a.toNat_lt
    intro c hc
    simp only [b64Enc, List.mem_cons, List.not_mem_nil, or_false] at hc
    rcases hc with rfl | rfl | rfl | rfl
    · simpa using (b64_char_ne _ (show a.toNat / 4 < 64 by omega)).2
    · simpa using (b64_char_ne _ (show a.toNat % 4 * 16 < 64 by omega)).2
    · decide
    · decide
  | case3 a b =>
    have ha := a.toNat_lt
    have hb := b.toNat_lt
    intro c hc
    simp only [b64Enc, List.mem_cons, List.not_mem_nil, or_false] at hc
    rcases hc with rfl | rfl | rfl | rfl
    · simpa using (b64_char_ne _ (show a.toNat / 4 < 64 by omega)).2
    · simpa using (b64_char_ne _ (show a.toNat % 4 * 16 + b.toNat / 16 < 64 by omega)).2
    · simpa using (b64_char_ne _ (show b.toNat % 16 * 4 < 64 by omega)).2
    · decide
  | case4 a b c rest ih =>
    have ha := a.toNat_lt
    have hb := b.toNat_lt
    have hc' := c.toNat_lt
    intro x hx
    simp only [b64Enc, List.mem_cons] at hx
    rcases hx with rfl | rfl | rfl | rfl | hx
    · simpa using (b64_char_ne _ (show a.toNat / 4 < 64 by omega)).2
    · simpa using (b64_char_ne _ (show a.toNat % 4 * 16 + b.toNat / 16 < 64 by omega)).2
    · simpa using (b64_char_ne _ (show b.toNat % 16 * 4 + c.toNat / 64 < 64 by omega)).2
    · simpa using (b64_char_ne _ (show c.toNat % 64 < 64 by omega)).2
    · exact ih x hx


/-! ### decimal numbers -/

theorem digit_facts : ∀ d, d < 10 → isDigit (digitChar d) = true ∧ (digitChar d).toNat - 48 = d := by decide

theorem decDigits_lt (n : Nat) : ∀ d ∈ decDigits n, d < 10 := by
  induction n using decDigits.induct with
  | case1 n h => rw [decDigits]; simp [h]
  | case2 n h ih =>
    rw [decDigits]; simp only [h, dite_false]
    intro d hd
    simp only [List.mem_append, List.mem_singleton] at hd
    rcases hd with hd | rfl
    · exact ih d hd
    · omega

theorem decDigits_ne_nil (n : Nat) : decDigits n ≠ [] := by
  rw [decDigits]; split <;> simp

theorem decDigits_value (n : Nat) (acc : Nat) :
    (decDigits n).foldl (fun a d => a * 10 + d) acc = acc * 10 ^ (decDigits n).length + n := by
  induction n using decDigits.induct generalizing acc with
  | case1 n h => rw [decDigits]; simp [h]
  | case2 n h ih =>
    rw [decDigits]; simp only [h, dite_false, List.foldl_append, List.foldl_cons, List.foldl_nil, ih,
      List.length_append, List.length_cons, List.length_nil, Nat.pow_succ]
    have := Nat.div_add_mod n 10
    rw [Nat.add_mul, Nat.mul_assoc]
    omega

theorem foldl_congr_mem {α β : Type} (f g : β → α → β) (l : List α) (b : β) (h : ∀ a x, x ∈ l → f a x = g a x) :
    l.foldl f b = l.foldl g b := by
  induction l generalizing b with
  | nil => rfl
  | cons x l ih =>
    simp only [List.foldl_cons, h b x (by simp)]
    exact ih _ (fun a y hy => h a y (by simp [hy]))

theorem jNat_value (n : Nat) : (jNat n).foldl (fun acc c => acc * 10 + (c.toNat - 48)) 0 = n := by
  have h := decDigits_value n 0
  simp only [Nat.zero_mul, Nat.zero_add] at h
  unfold jNat
  rw [List.foldl_map]
  refine Eq.trans ?_ h
  apply foldl_congr_mem
  intro a d hd
  rw [(digit_facts d (decDigits_lt n d hd)).2]

theorem jNat_digits (n : Nat) : ∀ c ∈ jNat n, isDigit c = true := by
  intro c hc
  simp only [jNat, List.mem_map] at hc
  obtain ⟨d, hd, rfl⟩ := hc
  exact (digit_facts d (decDigits_lt n d hd)).1

theorem pNat_jNat (n : Nat) (c : Char) (r : List Char) (hc : isDigit c = false) :
    pNat (jNat n ++ c :: r) = some (n, c :: r) := by
  have htw := takeWhile_append_stop isDigit (jNat n) c r (jNat_digits n) hc
  have hne : (jNat n).isEmpty = false := by
    have := decDigits_ne_nil n
    cases h : decDigits n with
    | nil => exact absurd h this
    | cons a b => simp [jNat, h]
  simp only [pNat, htw, hne, Bool.false_eq_true, if_false, jNat_value, List.drop_left]

/-! ### fields -/

theorem pBytes_jBytes (b : Bytes) (r : List Char) : pBytes (jBytes b ++ r) = some (b, r) := by
  cases b with
  | nil => simp [jBytes, pBytes, stripPrefix_append]
  | cons x xs =>
    have hq : ((x :: xs).isEmpty) = false := rfl
    have hnull : stripPrefix nullLit ('"' :: (b64Enc (x :: xs) ++ ['"'] ++ r)) = none := by
      simp [nullLit, stripPrefix]
    have htw := takeWhile_append_stop (· != '"') (b64Enc (x :: xs)) '"' r (b64Enc_no_quote _) (by decide)
    simp only [jBytes, hq, Bool.false_eq_true, if_false, List.cons_append, List.append_assoc, List.nil_append,
      pBytes] at hnull ⊢
    simp only [hnull, htw, b64Dec_enc, List.drop_left]

theorem pPlain_uri (uri : List Char) (hu : PlainUri uri) (r : List Char) :
    pPlain (uri ++ '"' :: r) = (uri, '"' :: r) := by
  have hx : ∀ c ∈ uri, (c != '"') = true := by
    intro c hc
    have := hu c hc
    simp only [plainChar, Bool.and_eq_true] at this
    exact this.1.1.1.1.2
  have htw := takeWhile_append_stop (· != '"') uri '"' r hx (by decide)
  simp only [pPlain, htw, List.drop_left]

theorem kStartSeq_head : ∃ r, kStartSeq = '"' :: r := ⟨kStartSeq.tail, by decide⟩
theorem nondigit_heads : (∃ r, kSize = ',' :: r) ∧ (∃ r, kEntries = ',' :: r) ∧ (∃ r, kUri = ',' :: r) ∧
    (∃ r, kEndSeq = ',' :: r) :=
  ⟨⟨kSize.tail, by decide⟩, ⟨kEntries.tail, by decide⟩, ⟨kUri.tail, by decide⟩, ⟨kEndSeq.tail, by decide⟩⟩

/-- the document and its URI survive the JSON encoding of the checkpoint document -/
theorem parseDoc_jsonDoc (d : Doc) (uri : List Char) (hu : PlainUri uri) :
    parseDoc (jsonDoc d uri) = some (d, uri) := by
  obtain ⟨⟨r1, h1⟩, ⟨r2, h2⟩, ⟨r3, h3⟩, ⟨r4, h4⟩⟩ := nondigit_heads
  obtain ⟨rs, hs⟩ := kStartSeq_head
  have hcomma : isDigit ',' = false := by decide
  have hbrace : isDigit '}' = false := by decide
  unfold parseDoc jsonDoc
  simp only [stripPrefix_append, pBytes_jBytes]
  -- Size
  have e1 : pNat (jNat d.size ++ (kEntries ++ (jNat d.entriesSize ++ (kUri ++ (uri ++ (kStartSeq ++ (jNat d.startSeq ++
      (kEndSeq ++ (jNat d.endSeq ++ kClose)))))))))
      = some (d.size, kEntries ++ (jNat d.entriesSize ++ (kUri ++ (uri ++ (kStartSeq ++ (jNat d.startSeq ++
      (kEndSeq ++ (jNat d.endSeq ++ kClose)))))))) := by
    rw [h2, List.cons_append]; exact pNat_jNat _ _ _ hcomma
  simp only [e1, stripPrefix_append]
  have e2 : pNat (jNat d.entriesSize ++ (kUri ++ (uri ++ (kStartSeq ++ (jNat d.startSeq ++
      (kEndSeq ++ (jNat d.endSeq ++ kClose)))))))
      = some (d.entriesSize, kUri ++ (uri ++ (kStartSeq ++ (jNat d.startSeq ++ (kEndSeq ++ (jNat d.endSeq ++ kClose)))))) := by
    rw [h3, List.cons_append]; exact pNat_jNat _ _ _ hcomma
  simp only [e2, stripPrefix_append]
  have e3 : pPlain (uri ++ (kStartSeq ++ (jNat d.startSeq ++ (kEndSeq ++ (jNat d.endSeq ++ kClose)))))
      = (uri, kStartSeq ++ (jNat d.startSeq ++ (kEndSeq ++ (jNat d.endSeq ++ kClose)))) := by
    rw [hs, List.cons_append]; exact pPlain_uri uri hu _
  simp only [e3, stripPrefix_append]
  have e4 : pNat (jNat d.startSeq ++ (kEndSeq ++ (jNat d.endSeq ++ kClose)))
      = some (d.startSeq, kEndSeq ++ (jNat d.endSeq ++ kClose)) := by
    rw [h4, List.cons_append]; exact pNat_jNat _ _ _ hcomma
  simp only [e4, stripPrefix_append]
  have e5 : pNat (jNat d.endSeq ++ kClose) = some (d.endSeq, kClose) := pNat_jNat _ _ _ hbrace
  simp only [e5]
  have e6 : stripPrefix kClose kClose = some [] := by
    have := stripPrefix_append kClose []
    simpa using this
  simp only [e6]

end Rxn.Sst
