import RxnModel.Proofs.CompactionSys
import RxnModel.Proofs.SstLsm
/-!
Hand-off C17 → C18: the new tables of a compaction are what the real `TableWriter.WriteRun` (model `Sst.writeRun`,
verified byte-exact against the real writer in C17) produces from the merged run, instead of an assumed chunking.
-/
namespace Rxn.Compaction
open Rxn Rxn.Lsm

def fromLsm (e : Lsm.Entry) : Sst.Entry := ⟨e.key, e.seq, e.del, e.val⟩

theorem toLsm_fromLsm (e : Lsm.Entry) : Sst.toLsm (fromLsm e) = e := rfl

theorem toRun_fromLsm (r : Run) : Sst.toRun (r.map fromLsm) = r := by
  unfold Sst.toRun
  rw [List.map_map]
  have : Sst.toLsm ∘ fromLsm = id := by funext e; rfl
  rw [this, List.map_id]

/-- `TableWriter.WriteRun(entries, targetSize)` on a run of the LSM model: the entry lists of the tables written -/
def writeRunL (target : Nat) (r : Run) : List Run := (Sst.writeRun target (r.map fromLsm)).map Sst.toRun

theorem writeRunL_flatten (target : Nat) (r : Run) : (writeRunL target r).flatten = r := by
  unfold writeRunL
  have h : ((Sst.writeRun target (r.map fromLsm)).map Sst.toRun).flatten
      = Sst.toRun (Sst.writeRun target (r.map fromLsm)).flatten := by
    unfold Sst.toRun; rw [List.map_flatten]
  rw [h, Sst.writeRun_flatten, toRun_fromLsm]

theorem writeRunL_ok (target : Nat) (ht : 0 < target) (r : Run) :
    (∀ x ∈ writeRunL target r, x ≠ []) ∨ writeRunL target r = [[]] := by
  by_cases hr : r = []
  · right
    subst hr
    have h1 : Sst.writeRun target [] = [[]] := by
      unfold Sst.writeRun
      simp only [List.length_nil, Nat.mul_zero, Nat.zero_add]
      rw [Sst.runLoop_none_succ]; simp [ht]
    simp [writeRunL, h1, Sst.toRun]
  · left
    intro x hx
    unfold writeRunL at hx
    obtain ⟨c, hc, rfl⟩ := List.mem_map.mp hx
    have hne : r.map fromLsm ≠ [] := by simpa using hr
    have := Sst.writeRun_nonempty target ht _ hne c hc
    intro h0
    apply this
    unfold Sst.toRun at h0
    exact List.map_eq_nil_iff.mp h0

/-- membership in the safe family does not depend on where the merged run is cut -/
theorem safeCS_rechunk {L : Levels} {rm : List Nat} {lvl : Nat} {add add' : List Run}
    (hs : SafeCS L rm lvl add) (hf : add'.flatten = add.flatten) (hc : (∀ r ∈ add', r ≠ []) ∨ add' = [[]]) :
    SafeCS L rm lvl add' :=
  ⟨hs.lvl_pos, hs.lvl_lt, hs.target_all, hs.below_none, hs.no_kept_below_removed, by rw [hf]; exact hs.added, hc⟩

theorem sortedKeys_fromLsm {r : Run} (h : SortedRun r) : Sst.SortedKeys (r.map fromLsm) := by
  unfold Sst.SortedKeys
  rw [List.pairwise_map]
  exact h

/-- the tables `WriteRun` writes from the merge, as a level of the LSM model: sorted runs with pairwise exclusive
ranges, by C17's hand-off lemmas -/
theorem writeRunL_level (target : Nat) (ht : 0 < target) {r : Run} (hr : SortedRun r) (n : Nat) :
    (∀ t ∈ mkTables n (writeRunL target r), Run.Sorted t.run) ∧ RangeUnique (mkTables n (writeRunL target r)) := by
  have hs := sortedKeys_fromLsm hr
  constructor
  · intro t ht'
    have := mkTables_run_mem ht'
    unfold writeRunL at this
    obtain ⟨c, hc, hrun⟩ := List.mem_map.mp this
    rw [← hrun]
    exact Sst.toRun_sorted c ((Sst.writeRun_pairwise target _ hs).2 c hc)
  · exact Sst.writeRun_rangeUnique target ht _ hs _ (by rw [mkTables_map_run]; rfl)

end Rxn.Compaction
