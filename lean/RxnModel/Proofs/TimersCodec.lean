import RxnModel.Proofs.TimersFire
/-! Timer key codec: `timerFromBytes ∘ encodeTimerKey = id` and timestamp-byte order = timestamp order (0 ≤ t < 2^63). -/
namespace Rxn.Timers
open Rxn Rxn.Bytes

theorem beNat_foldl (xs : Bytes) (acc : Nat) :
    xs.foldl (fun acc x => acc * 256 + x.toNat) acc = acc * 256 ^ xs.length + Bytes.beNat xs := by
  induction xs generalizing acc with
  | nil => simp [Bytes.beNat]
  | cons x xs ih =>
    simp only [List.foldl_cons, Bytes.beNat, List.length_cons]
    rw [ih (acc * 256 + x.toNat), ih (0 * 256 + x.toNat)]
    simp only [Nat.zero_mul, Nat.zero_add, Nat.pow_succ]
    rw [Nat.add_mul, Nat.mul_assoc, Nat.mul_comm 256 (256 ^ xs.length), Nat.add_assoc]

theorem beNat_cons (x : UInt8) (xs : Bytes) : Bytes.beNat (x :: xs) = x.toNat * 256 ^ xs.length + Bytes.beNat xs := by
  have := beNat_foldl xs (0 * 256 + x.toNat)
  simp only [Nat.zero_mul, Nat.zero_add] at this
  simpa [Bytes.beNat] using this

theorem beNat_lt (xs : Bytes) : Bytes.beNat xs < 256 ^ xs.length := by
  induction xs with
  | nil => simp [Bytes.beNat]
  | cons x xs ih =>
    rw [beNat_cons, List.length_cons, Nat.pow_succ]
    have hx : x.toNat < 256 := x.toNat_lt
    have : (x.toNat + 1) * 256 ^ xs.length ≤ 256 * 256 ^ xs.length := Nat.mul_le_mul_right _ hx
    rw [Nat.succ_mul] at this
    rw [Nat.mul_comm (256 ^ xs.length) 256]
    omega

/-- on equal-length byte strings `bytes.Compare` is the numeric order of the big-endian values -/
theorem cmp_gt_iff_beNat (a b : Bytes) (h : a.length = b.length) :
    Bytes.cmp a b = .gt ↔ Bytes.beNat b < Bytes.beNat a := by
  induction a generalizing b with
  | nil =>
    cases b with
    | nil => simp [Bytes.cmp, Bytes.beNat]
    | cons y ys => simp at h
  | cons x xs ih =>
    cases b with
    | nil => simp at h
    | cons y ys =>
      have hl : xs.length = ys.length := by simpa using h
      rw [beNat_cons, beNat_cons, hl]
      have ha := beNat_lt xs
      have hb := beNat_lt ys
      rw [hl] at ha
      simp only [Bytes.cmp]
      by_cases h1 : x < y
      · simp only [h1, if_true]
        have h1' : x.toNat + 1 ≤ y.toNat := UInt8.lt_iff_toNat_lt.mp h1
        have := Nat.mul_le_mul_right (256 ^ ys.length) h1'
        rw [Nat.succ_mul] at this
        constructor
        · intro hc; cases hc
        · intro hc; omega
      · by_cases h2 : y < x
        · simp only [h1, h2, if_false, if_true]
          have h2' : y.toNat + 1 ≤ x.toNat := UInt8.lt_iff_toNat_lt.mp h2
          have := Nat.mul_le_mul_right (256 ^ ys.length) h2'
          rw [Nat.succ_mul] at this
          constructor
          · intro _; omega
          · intro _; trivial
        · simp only [h1, h2, if_false]
          have hxy : x = y := Bytes.u8_eq_of_not_lt h1 h2
          subst hxy
          rw [ih ys hl]
          omega

theorem u64be_length (n : Nat) : (Bytes.u64be n).length = 8 := by simp [Bytes.u64be, Bytes.u32be]
theorem u16be_length (n : Nat) : (Bytes.u16be n).length = 2 := by simp [Bytes.u16be]
theorem beNat_u64be (n : Nat) (hn : n < 18446744073709551616) : Bytes.beNat (Bytes.u64be n) = n := by
  simp [Bytes.u64be, Bytes.u32be, Bytes.beNat]; omega

theorem timerKey_eq (kgc : Nat) (subj : Bytes) (n : Nat) :
    Keys.timerKey kgc subj n = kgPrefix (KeySpace.keyGroup kgc subj) ++ (Bytes.u64be n ++ subj) := by
  simp [Keys.timerKey, kgPrefix]

theorem timerKey_prefix (kgc : Nat) (subj : Bytes) (n : Nat) :
    Bytes.hasPrefix (Keys.timerKey kgc subj n) (kgPrefix (KeySpace.keyGroup kgc subj)) = true := by
  rw [timerKey_eq]; exact Bytes.hasPrefix_append _ _

theorem tsBytes_timerKey (kgc : Nat) (subj : Bytes) (n : Nat) : tsBytes (Keys.timerKey kgc subj n) = Bytes.u64be n := by
  rw [timerKey_eq]
  unfold tsBytes
  have h3 : (kgPrefix (KeySpace.keyGroup kgc subj)).length = 3 := kgPrefix_length _
  have e1 : (kgPrefix (KeySpace.keyGroup kgc subj) ++ (Bytes.u64be n ++ subj)).drop 3 = Bytes.u64be n ++ subj := by
    rw [← h3]; simp
  rw [e1]
  have h8 := u64be_length n
  rw [← h8]; simp

theorem encTs_of_nonneg (t : Int) (h0 : 0 ≤ t) (h1 : t < 9223372036854775808) : (encTs t : Int) = t ∧ encTs t < 9223372036854775808 := by
  unfold encTs
  have : t % 18446744073709551616 = t := Int.emod_eq_of_lt h0 (by omega)
  rw [this]
  omega

/-- `timerFromBytes(encodeTimerKey(subject, t)) = (subject, t)` for timestamps an `int64` of nanoseconds since the epoch can hold -/
theorem timerOf_timerKey (kgc : Nat) (subj : Bytes) (t : Int) (h0 : 0 ≤ t) (h1 : t < 9223372036854775808) :
    timerOf (Keys.timerKey kgc subj (encTs t)) = (subj, t) := by
  obtain ⟨e1, e2⟩ := encTs_of_nonneg t h0 h1
  unfold timerOf
  rw [tsBytes_timerKey]
  refine Prod.ext ?_ ?_
  · show (Keys.timerKey kgc subj (encTs t)).drop 11 = subj
    rw [timerKey_eq]
    have h3 : (kgPrefix (KeySpace.keyGroup kgc subj)).length = 3 := kgPrefix_length _
    have h8 := u64be_length (encTs t)
    have : (kgPrefix (KeySpace.keyGroup kgc subj) ++ (Bytes.u64be (encTs t) ++ subj)) =
        (kgPrefix (KeySpace.keyGroup kgc subj) ++ Bytes.u64be (encTs t)) ++ subj := by simp
    rw [this]
    have hl : (kgPrefix (KeySpace.keyGroup kgc subj) ++ Bytes.u64be (encTs t)).length = 11 := by
      rw [List.length_append, h3, h8]
    rw [← hl]; simp
  · show decTs (Bytes.u64be (encTs t)) = t
    unfold decTs
    rw [beNat_u64be _ (by omega)]
    simp only [e2, if_true]
    exact e1

/-- a well-formed timer key of this key space: the encoding of its own decoding, timestamp in `[0, 2^63)` -/
def WF (kgc : Nat) (k : Bytes) : Prop :=
  k = Keys.timerKey kgc (timerOf k).1 (encTs (timerOf k).2) ∧ 0 ≤ (timerOf k).2 ∧ (timerOf k).2 < 9223372036854775808

theorem wf_timerKey (kgc : Nat) (subj : Bytes) (t : Int) (h0 : 0 ≤ t) (h1 : t < 9223372036854775808) :
    WF kgc (Keys.timerKey kgc subj (encTs t)) := by
  unfold WF
  rw [timerOf_timerKey kgc subj t h0 h1]
  exact ⟨rfl, h0, h1⟩

theorem wf_inj {kgc : Nat} {a b : Bytes} (ha : WF kgc a) (hb : WF kgc b) (h : timerOf a = timerOf b) : a = b := by
  rw [ha.1, hb.1, h]

/-- on well-formed keys the order of the timestamp bytes is the order of the timestamps -/
theorem leTs_iff {kgc : Nat} {a b : Bytes} (ha : WF kgc a) (hb : WF kgc b) : leTs a b ↔ (timerOf a).2 ≤ (timerOf b).2 := by
  obtain ⟨a1, a2⟩ := encTs_of_nonneg _ ha.2.1 ha.2.2
  obtain ⟨b1, b2⟩ := encTs_of_nonneg _ hb.2.1 hb.2.2
  unfold leTs
  have hta : tsBytes a = Bytes.u64be (encTs (timerOf a).2) := by
    have := tsBytes_timerKey kgc (timerOf a).1 (encTs (timerOf a).2)
    rw [← ha.1] at this; exact this
  have htb : tsBytes b = Bytes.u64be (encTs (timerOf b).2) := by
    have := tsBytes_timerKey kgc (timerOf b).1 (encTs (timerOf b).2)
    rw [← hb.1] at this; exact this
  rw [hta, htb]
  have hg := cmp_gt_iff_beNat (Bytes.u64be (encTs (timerOf a).2)) (Bytes.u64be (encTs (timerOf b).2))
    (by rw [u64be_length, u64be_length])
  rw [beNat_u64be _ (by omega), beNat_u64be _ (by omega)] at hg
  constructor
  · intro h
    have : ¬ encTs (timerOf b).2 < encTs (timerOf a).2 := fun hh => h (hg.mpr hh)
    omega
  · intro h hc
    have := hg.mp hc
    omega

end Rxn.Timers
