import RxnModel.Proofs.Reorder
/-! Termination measure for the internal actions of `Model/Reorder.lean` (helper lemmas for C20). -/
namespace Rxn.Reorder
variable {α ρ β : Type}

def rank : Pc α → Nat
  | .idle => 0
  | .added => 6
  | .enter => 4
  | .locked => 3
  | .mid _ => 2

def Pc.isMid : Pc α → Bool
  | .mid _ => true
  | _ => false

/-- fetches that will fail and have not reported their error yet -/
def pendErr (fails : Nat → Bool) (s : St α ρ) : Nat :=
  (s.inflight.filter (fun p => fails p.1 && !s.errored.contains p.1)).length

/-- lexicographic measure: (work of the two flushers and an unflushed batch, fetches in flight, unreported errors,
batches not yet dequeued, results not yet received, drain bookkeeping) -/
def mu (fails : Nat → Bool) (s : St α ρ) : Nat × Nat × Nat × Nat × Nat × Nat :=
  ((if !s.b.batch.isEmpty && s.pp.isIdle then 5 else 0) + rank s.pp + rank s.tp,
   s.inflight.length, pendErr fails s, s.nextSeq - s.drainedSeq,
   2 * (curOf s.drainer).length + s.outq.length,
   2 * s.drainers + (if s.drainer.isNone then 1 else 0))

abbrev Lt6 : (Nat × Nat × Nat × Nat × Nat × Nat) → (Nat × Nat × Nat × Nat × Nat × Nat) → Prop :=
  Prod.Lex (· < ·) (Prod.Lex (· < ·) (Prod.Lex (· < ·) (Prod.Lex (· < ·) (Prod.Lex (· < ·) (· < ·)))))

theorem lt6_wf : WellFounded Lt6 :=
  (Prod.lex Nat.lt_wfRel (Prod.lex Nat.lt_wfRel (Prod.lex Nat.lt_wfRel (Prod.lex Nat.lt_wfRel
    (Prod.lex Nat.lt_wfRel Nat.lt_wfRel))))).wf

/-- while the producer is between `batcher.Flush` and `Reserve` nobody adds: the batch stays empty -/
theorem midEmpty_step (f : List α → List ρ) (fails : Nat → Bool) (s s' : St α ρ) (a : Act α) (o : List ρ)
    (hs : step f fails true s a = some (s', o)) (h : s.pp.isMid = true → s.b.batch = []) :
    s'.pp.isMid = true → s'.b.batch = [] := by
  have hfl : (Batcher.flush s.b .cur).1.batch = [] := by
    unfold Batcher.flush Batcher.flushes
    cases hb : s.b.batch <;> simp [hb]
  cases a with
  | lock t =>
    cases t <;> simp only [step, pc, other, setPc] at hs <;> split at hs <;> try (simp at hs)
    all_goals (obtain ⟨_, rfl, _⟩ := hs; simp_all [Pc.isMid])
  | flushA t =>
    cases t <;> simp only [step, pc, other, setPc] at hs <;> split at hs <;> try (simp at hs)
    all_goals (obtain ⟨rfl, _⟩ := hs; simp_all [Pc.isMid])
  | flushB t =>
    cases t <;> simp only [step, pc, other, setPc] at hs <;> split at hs <;> try (simp at hs)
    all_goals first
      | (obtain ⟨rfl, _⟩ := hs; simp_all [Pc.isMid])
      | (obtain ⟨_, rfl, _⟩ := hs; simp_all [Pc.isMid])
  | pAdd x | pIsFull | pFlush | fire | stale | tmoRecv | fetchErr q | fetchDone q | drainStart | drainNext | send | recv =>
    simp only [step] at hs
    repeat' (split at hs)
    all_goals first
      | (simp at hs; done)
      | (simp only [Option.some.injEq, Prod.mk.injEq] at hs; obtain ⟨rfl, _⟩ := hs; simp_all [Pc.isMid])
      | (simp only [Option.ite_none_right_eq_some, Option.ite_none_left_eq_some, Option.some.injEq, Prod.mk.injEq] at hs
         obtain ⟨_, rfl, _⟩ := hs; simp_all [Pc.isMid])

theorem lex1 {a a' : Nat} {R : β → β → Prop} {b b' : β} (h : a' < a) : Prod.Lex (· < ·) R (a', b') (a, b) :=
  Prod.Lex.left _ _ h

theorem lex2 {a a' : Nat} {R : β → β → Prop} {b b' : β} (h : a' = a) (hb : R b' b) : Prod.Lex (· < ·) R (a', b') (a, b) := by
  subst h; exact Prod.Lex.right _ hb

/-- every action of a flusher (and the producer's `IsFull` / explicit `Flush` of a non-empty batch) lowers the first
component -/
theorem thread_dec (fails : Nat → Bool) (s s' : St α ρ)
    (h : (if !s'.b.batch.isEmpty && s'.pp.isIdle then 5 else 0) + rank s'.pp + rank s'.tp <
         (if !s.b.batch.isEmpty && s.pp.isIdle then 5 else 0) + rank s.pp + rank s.tp) :
    Lt6 (mu fails s') (mu fails s) := lex1 h

theorem buffer_eq1 (s s' : St α ρ) (hb : s'.b = s.b) (hp : s'.pp = s.pp) (ht : s'.tp = s.tp) :
    (if !s'.b.batch.isEmpty && s'.pp.isIdle then 5 else 0) + rank s'.pp + rank s'.tp =
    (if !s.b.batch.isEmpty && s.pp.isIdle then 5 else 0) + rank s.pp + rank s.tp := by
  rw [hb, hp, ht]

/-- the set of actions that need no new input (the same as `C20.internal`) -/
def internalAct (s : St α ρ) : Act α → Bool
  | .pAdd _ => false
  | .fire => false
  | .stale => false
  | .tmoRecv => false
  | .pFlush => !s.b.batch.isEmpty
  | _ => true

theorem step_decreases (f : List α → List ρ) (fails : Nat → Bool) (s s' : St α ρ) (a : Act α) (o : List ρ)
    (hs : step f fails true s a = some (s', o)) (hint : internalAct s a = true)
    (hmid : s.pp.isMid = true → s.b.batch = [])
    (hres : s.reserved = s.nextSeq - s.drainedSeq) :
    Lt6 (mu fails s') (mu fails s) := by
  have hfl : (Batcher.flush s.b .cur).1.batch = [] := by
    unfold Batcher.flush Batcher.flushes
    cases hb : s.b.batch <;> simp [hb]
  cases a with
  | pAdd x => simp [internalAct] at hint
  | fire => simp [internalAct] at hint
  | stale => simp [internalAct] at hint
  | tmoRecv => simp [internalAct] at hint
  | pIsFull =>
    simp only [step] at hs
    split at hs <;> try (simp at hs)
    next hp =>
    obtain ⟨rfl, _⟩ := hs
    apply thread_dec
    simp only [hp]
    split <;> simp [rank, Pc.isIdle] <;> split <;> omega
  | pFlush =>
    simp only [step] at hs
    split at hs <;> try (simp at hs)
    next hp =>
    obtain ⟨rfl, _⟩ := hs
    apply thread_dec
    simp [internalAct] at hint
    simp [hp, rank, Pc.isIdle, hint]
  | lock t =>
    cases t <;> simp only [step, pc, other, setPc] at hs <;> split at hs <;> try (simp at hs)
    all_goals (
      next hp =>
      obtain ⟨_, rfl, _⟩ := hs
      apply thread_dec
      simp [hp, rank, Pc.isIdle]
      try (split <;> omega))
  | flushA t =>
    cases t <;> simp only [step, pc, other, setPc] at hs <;> split at hs <;> try (simp at hs)
    all_goals (
      next hp =>
      obtain ⟨rfl, _⟩ := hs
      apply thread_dec
      simp [hp, rank, Pc.isIdle, hfl]
      try (split <;> omega))
  | flushB t =>
    cases t with
    | prod =>
      simp only [step, pc, setPc] at hs
      have hbatch : s.pp.isMid = true → s.b.batch = [] := hmid
      split at hs
      · next hp =>
        simp at hs
        obtain ⟨rfl, _⟩ := hs
        apply thread_dec
        have := hbatch (by simp [hp, Pc.isMid])
        simp [hp, rank, Pc.isIdle, this]
      · next e es hp =>
        split at hs <;> try (simp at hs)
        obtain ⟨rfl, _⟩ := hs
        apply thread_dec
        have := hbatch (by simp [hp, Pc.isMid])
        simp [hp, rank, Pc.isIdle, this]
      · simp at hs
    | tmo =>
      simp only [step, pc, setPc] at hs
      split at hs
      · next hp =>
        simp at hs
        obtain ⟨rfl, _⟩ := hs
        apply thread_dec
        simp [hp, rank]
      · next e es hp =>
        split at hs <;> try (simp at hs)
        obtain ⟨rfl, _⟩ := hs
        apply thread_dec
        simp [hp, rank]
      · simp at hs
  | fetchErr q =>
    simp only [step] at hs
    split at hs <;> try (simp at hs)
    next evs hl =>
    obtain ⟨⟨hf, hne⟩, rfl, _⟩ := hs
    refine lex2 (buffer_eq1 _ _ rfl rfl rfl) (lex2 rfl (lex1 ?_))
    -- the entry for `q` was counted and is not any more; nothing new is counted
    have hmem := lookupSeq_mem q s.inflight evs hl
    simp only [pendErr]
    have hsub : ∀ p : Nat × List α, (fails p.1 && !(q :: s.errored).contains p.1) = true →
        (fails p.1 && !s.errored.contains p.1) = true := by
      intro p hp
      simp only [Bool.and_eq_true, Bool.not_eq_true', List.contains_cons, Bool.or_eq_false_iff] at hp ⊢
      exact ⟨hp.1, hp.2.2⟩
    have hfilt : s.inflight.filter (fun p => fails p.1 && !(q :: s.errored).contains p.1) =
        (s.inflight.filter (fun p => fails p.1 && !s.errored.contains p.1)).filter
          (fun p => fails p.1 && !(q :: s.errored).contains p.1) := by
      rw [List.filter_filter]
      apply List.filter_congr
      intro p _
      cases h1 : (fails p.1 && !(q :: s.errored).contains p.1)
      · simp
      · have := hsub p h1
        simp only [Bool.and_eq_true, Bool.not_eq_true', List.contains_eq_mem, decide_eq_false_iff_not] at this
        simp [this.1, this.2]
    rw [hfilt]
    apply List.length_filter_lt_length_iff_exists.mpr
    refine ⟨(q, evs), List.mem_filter.mpr ⟨hmem, by simp [hf, hne]⟩, by simp⟩
  | fetchDone q =>
    simp only [step] at hs
    split at hs <;> try (simp at hs)
    next evs hd hl =>
    obtain ⟨_, rfl, _⟩ := hs
    refine lex2 (buffer_eq1 _ _ rfl rfl rfl) (lex1 ?_)
    apply List.length_filter_lt_length_iff_exists.mpr
    exact ⟨(q, evs), lookupSeq_mem q s.inflight evs hl, by simp⟩
  | drainStart =>
    simp only [step] at hs
    split at hs <;> try (simp at hs)
    next n hd hn =>
    obtain ⟨rfl, _⟩ := hs
    refine lex2 (buffer_eq1 _ _ rfl rfl rfl) (lex2 rfl (lex2 rfl (lex2 rfl (lex2 ?_ ?_))))
    · simp [hd, curOf]
    · simp [hd]
  | drainNext =>
    simp only [step] at hs
    split at hs <;> try (simp at hs)
    next hd =>
    split at hs
    · next x hx =>
      split at hs <;> try (simp at hs)
      next rr hr =>
      obtain ⟨rfl, _⟩ := hs
      refine lex2 (buffer_eq1 _ _ rfl rfl rfl) (lex2 rfl (lex2 rfl (lex1 ?_)))
      show s.nextSeq - (s.drainedSeq + 1) < s.nextSeq - s.drainedSeq
      omega
    · next hx =>
      split at hs <;> try (simp at hs)
      next n hn =>
      obtain ⟨rfl, _⟩ := hs
      refine lex2 (buffer_eq1 _ _ rfl rfl rfl) (lex2 rfl (lex2 rfl (lex2 rfl (lex2 ?_ ?_))))
      · simp [hd, curOf]
      · simp [hd, hn]; omega
  | send =>
    simp only [step] at hs
    split at hs <;> try (simp at hs)
    next x rest hd =>
    obtain ⟨_, rfl, _⟩ := hs
    refine lex2 (buffer_eq1 _ _ rfl rfl rfl) (lex2 rfl (lex2 rfl (lex2 rfl (lex1 ?_))))
    simp [hd, curOf]; omega
  | recv =>
    simp only [step] at hs
    split at hs
    · next x q hq =>
      simp at hs
      obtain ⟨rfl, _⟩ := hs
      refine lex2 (buffer_eq1 _ _ rfl rfl rfl) (lex2 rfl (lex2 rfl (lex2 rfl (lex1 ?_))))
      simp [hq]
    · next hq =>
      split at hs <;> try (simp at hs)
      next x rest hoc hd =>
      obtain ⟨rfl, _⟩ := hs
      refine lex2 (buffer_eq1 _ _ rfl rfl rfl) (lex2 rfl (lex2 rfl (lex2 rfl (lex1 ?_))))
      simp [hd, curOf, hq]

theorem midEmpty_run (f : List α → List ρ) (fails : Nat → Bool) (as : List (Act α)) :
    ∀ (r r' : Run α ρ), exec f fails true r as = some r' → (r.st.pp.isMid = true → r.st.b.batch = []) →
      (r'.st.pp.isMid = true → r'.st.b.batch = []) := by
  induction as with
  | nil => intro r r' he h; simp [exec] at he; subst he; exact h
  | cons a as ih =>
    intro r r' he h
    simp only [exec] at he
    split at he
    · simp at he
    · next s' o hs => exact ih _ r' he (midEmpty_step f fails r.st s' a o hs h)

theorem exec_append (f : List α → List ρ) (fails : Nat → Bool) (b : Bool) (as cs : List (Act α)) :
    ∀ r : Run α ρ, exec f fails b r (as ++ cs) = (exec f fails b r as).bind (fun r1 => exec f fails b r1 cs) := by
  induction as with
  | nil => intro r; simp [exec]
  | cons x xs ih =>
    intro r
    cases h : step f fails b r.st x with
    | none => simp [exec, h]
    | some p => obtain ⟨s1, o⟩ := p; simp only [List.cons_append, exec, h]; exact ih _

theorem inputs_append (as cs : List (Act α)) : inputs (as ++ cs) = inputs as ++ inputs cs := by
  simp [inputs]

theorem inputOf_internal (s : St α ρ) (a : Act α) (h : internalAct s a = true) : inputOf a = [] := by
  cases a <;> simp_all [internalAct, inputOf]

end Rxn.Reorder
