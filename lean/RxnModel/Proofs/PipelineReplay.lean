import RxnModel.Proofs.PipelineInv
/-!
# C01: every key's log of a reachable state is also produced by a run without failures

`FF cfg s s'`: `s'` is reachable from `s` by actions none of which is a failure (`kill` / `restart`).
The replay reads every split up to the records in the log, delivering each record right after reading it.
-/
namespace Rxn.Pipeline
variable {σ : Type}

theorem runFrom_append (cfg : Cfg σ) (as1 as2 : List Act) (s s1 s2 : State σ) (o1 o2 : List (Given σ))
    (h1 : runFrom cfg s as1 = some (s1, o1)) (h2 : runFrom cfg s1 as2 = some (s2, o2)) :
    runFrom cfg s (as1 ++ as2) = some (s2, o1 ++ o2) := by
  induction as1 generalizing s o1 with
  | nil =>
    simp only [runFrom] at h1
    cases h1
    simpa using h2
  | cons a as1 ih =>
    simp only [runFrom] at h1
    split at h1
    · cases h1
    · rename_i s' g hs
      split at h1
      · cases h1
      · rename_i s'' g' hs'
        cases h1
        simp only [List.cons_append, runFrom, hs, ih s' g' hs', List.append_assoc]

theorem runFrom_two (cfg : Cfg σ) (a1 a2 : Act) (s s1 s2 : State σ) (g1 g2 : List (Given σ))
    (h1 : step cfg s a1 = some (s1, g1)) (h2 : step cfg s1 a2 = some (s2, g2)) :
    runFrom cfg s [a1, a2] = some (s2, g1 ++ (g2 ++ [])) := by
  simp only [runFrom, h1, h2]

/-- reachable without failures -/
def FF (cfg : Cfg σ) (s s' : State σ) : Prop :=
  ∃ as obs, runFrom cfg s as = some (s', obs) ∧ ∀ a ∈ as, a.isFailure = false

theorem FF.refl (cfg : Cfg σ) (s : State σ) : FF cfg s s :=
  ⟨[], [], rfl, fun _ h => by cases h⟩

theorem FF.trans {cfg : Cfg σ} {s1 s2 s3 : State σ} (h1 : FF cfg s1 s2) (h2 : FF cfg s2 s3) : FF cfg s1 s3 := by
  obtain ⟨as1, o1, hr1, hf1⟩ := h1
  obtain ⟨as2, o2, hr2, hf2⟩ := h2
  refine ⟨as1 ++ as2, o1 ++ o2, runFrom_append cfg as1 as2 s1 s2 s3 o1 o2 hr1 hr2, ?_⟩
  intro a ha
  rcases List.mem_append.1 ha with h | h
  · exact hf1 a h
  · exact hf2 a h

/-- the state after `read sp` -/
def readS (cfg : Cfg σ) (s : State σ) (sp : Nat) : State σ :=
  { s with
    cursor := fun x => if x = sp then s.cursor sp + 1 else s.cursor x
    queue := fun a b => if a = cfg.assign s.n sp ∧ b = cfg.route s.n (cfg.key sp (s.cursor sp)) then
      s.queue (cfg.assign s.n sp) (cfg.route s.n (cfg.key sp (s.cursor sp))) ++
        [Item.ev ⟨cfg.key sp (s.cursor sp), sp, s.cursor sp⟩] else s.queue a b }

theorem step_read_eq (cfg : Cfg σ) (s : State σ) (hn : 0 < s.n) (sp : Nat) :
    step cfg s (.read sp) = some (readS cfg s sp, []) := by
  simp only [step, hn, if_true, readS]

/-- the state after `deliver r o` of record `e` -/
def delivS (cfg : Cfg σ) (s : State σ) (r o : Nat) (e : Entry) (rest : List Item) : State σ :=
  { s with
    queue := fun a b => if a = r ∧ b = o then rest else s.queue a b
    log := fun a k => if a = o ∧ k = e.key then s.log o e.key ++ [(e.split, e.idx)] else s.log a k
    st := fun a k => if a = o ∧ k = e.key then cfg.h (s.st o e.key) e else s.st a k }

theorem step_deliver_eq (cfg : Cfg σ) (s : State σ) (r o : Nat) (e : Entry) (rest : List Item)
    (hq : s.queue r o = Item.ev e :: rest) :
    step cfg s (.deliver r o) = some (delivS cfg s r o e rest, [⟨o, e, s.st o e.key⟩]) := by
  simp only [step, hq, delivS]

/-- read the next record of `sp` and deliver it at once -/
theorem rd_step (cfg : Cfg σ) (s : State σ) (hn : 0 < s.n) (hq : ∀ r o, s.queue r o = []) (sp : Nat) :
    ∃ s', FF cfg s s' ∧ s'.n = s.n ∧ (∀ r o, s'.queue r o = []) ∧ s'.cursor sp = s.cursor sp + 1 ∧
      (∀ x, x ≠ sp → s'.cursor x = s.cursor x) ∧
      (∀ a k, s'.log a k = if a = cfg.route s.n (cfg.key sp (s.cursor sp)) ∧ k = cfg.key sp (s.cursor sp)
        then s.log a k ++ [(sp, s.cursor sp)] else s.log a k) := by
  have h1 := step_read_eq cfg s hn sp
  have hqr : (readS cfg s sp).queue (cfg.assign s.n sp) (cfg.route s.n (cfg.key sp (s.cursor sp))) =
      Item.ev ⟨cfg.key sp (s.cursor sp), sp, s.cursor sp⟩ :: [] := by
    simp [readS, hq]
  have h2 := step_deliver_eq cfg (readS cfg s sp) _ _ _ _ hqr
  refine ⟨_, ⟨_, _, runFrom_two cfg _ _ _ _ _ _ _ h1 h2, ?_⟩, ?_⟩
  · intro a ha
    simp only [List.mem_cons, List.not_mem_nil, or_false] at ha
    rcases ha with rfl | rfl <;> rfl
  · refine ⟨rfl, ?_, ?_, ?_, ?_⟩
    · intro r o
      simp only [delivS, readS]
      split
      · rfl
      · exact hq r o
    · simp [delivS, readS]
    · intro x hx
      simp [delivS, readS, hx]
    · intro a k
      simp only [delivS, readS]
      split
      · rename_i h
        rw [h.1, h.2]
      · rfl

theorem idxOf_cons (sp a b : Nat) (t : List (Nat × Nat)) :
    idxOf sp ((a, b) :: t) = (if a = sp then [b] else []) ++ idxOf sp t := by
  by_cases h : a = sp <;> simp [idxOf, h]

/-- an element of `routed` is preceded by exactly the smaller indices of the key -/
theorem routed_split (cfg : Cfg σ) (k sp c : Nat) (A B : List Nat) (i : Nat)
    (h : routed cfg k sp c = A ++ i :: B) : A = routed cfg k sp i ∧ cfg.key sp i = k := by
  induction c generalizing B with
  | zero => simp at h
  | succ c ih =>
    rw [routed_succ] at h
    by_cases hk : cfg.key sp c = k
    · rw [if_pos hk] at h
      rcases List.eq_nil_or_concat B with hB | ⟨B', b, hB⟩
      · subst hB
        obtain ⟨h1, h2⟩ := List.append_inj' h rfl
        cases h2
        exact ⟨h1.symm, hk⟩
      · subst hB
        have h' : routed cfg k sp c ++ [c] = (A ++ i :: B') ++ [b] := by simpa using h
        exact ih B' (List.append_inj' h' rfl).1
    · rw [if_neg hk, List.append_nil] at h
      exact ih B h

/-- read and deliver `m` records of `sp` none of which has key `k` -/
theorem rd_loop (cfg : Cfg σ) (k sp : Nat) (m : Nat) (s : State σ) (hn : 0 < s.n) (hq : ∀ r o, s.queue r o = [])
    (hk : ∀ j, s.cursor sp ≤ j → j < s.cursor sp + m → cfg.key sp j ≠ k) :
    ∃ s', FF cfg s s' ∧ s'.n = s.n ∧ (∀ r o, s'.queue r o = []) ∧ s'.cursor sp = s.cursor sp + m ∧
      (∀ x, x ≠ sp → s'.cursor x = s.cursor x) ∧ (∀ a, s'.log a k = s.log a k) := by
  induction m generalizing s with
  | zero => exact ⟨s, FF.refl cfg s, rfl, hq, rfl, fun _ _ => rfl, fun _ => rfl⟩
  | succ m ih =>
    obtain ⟨s1, hff1, hn1, hq1, hc1, hx1, hl1⟩ := rd_step cfg s hn hq sp
    have hk1 : ∀ j, s1.cursor sp ≤ j → j < s1.cursor sp + m → cfg.key sp j ≠ k := by
      intro j h1 h2
      rw [hc1] at h1 h2
      exact hk j (by omega) (by omega)
    obtain ⟨s2, hff2, hn2, hq2, hc2, hx2, hl2⟩ := ih s1 (by rw [hn1]; exact hn) hq1 hk1
    refine ⟨s2, hff1.trans hff2, by rw [hn2, hn1], hq2, by rw [hc2, hc1]; omega, ?_, ?_⟩
    · intro x hx
      rw [hx2 x hx, hx1 x hx]
    · intro a
      rw [hl2 a, hl1 a k, if_neg]
      intro hh
      exact hk (s.cursor sp) (Nat.le_refl _) (by omega) hh.2.symm

/-- replay of a key's log: if per split the log (after the part `P` already replayed) is a prefix of the key's
records of the split, a failure-free run from a state with empty channels produces it -/
theorem replay (cfg : Cfg σ) (k n : Nat) (hn : 0 < n) (C : Nat → Nat) (L : List (Nat × Nat)) :
    ∀ (P : List (Nat × Nat)) (s1 : State σ), s1.n = n → (∀ r o, s1.queue r o = []) →
      s1.log (cfg.route n k) k = P → (∀ sp, idxOf sp P = routed cfg k sp (s1.cursor sp)) →
      (∀ sp, ∃ B, idxOf sp (P ++ L) ++ B = routed cfg k sp (C sp)) →
      ∃ s2, FF cfg s1 s2 ∧ s2.n = n ∧ s2.log (cfg.route n k) k = P ++ L := by
  induction L with
  | nil =>
    intro P s1 hn1 _ hl _ _
    exact ⟨s1, FF.refl cfg s1, hn1, by simp [hl]⟩
  | cons p L ih =>
    obtain ⟨sp, i⟩ := p
    intro P s1 hn1 hq hl hidx hB
    obtain ⟨B, hB1⟩ := hB sp
    rw [idxOf_append, idxOf_cons, if_pos rfl] at hB1
    have hB2 : routed cfg k sp (C sp) = idxOf sp P ++ i :: (idxOf sp L ++ B) := by
      rw [← hB1]; simp
    obtain ⟨hP, hki⟩ := routed_split cfg k sp (C sp) _ _ i hB2
    have hrr : routed cfg k sp (s1.cursor sp) = routed cfg k sp i := by rw [← hidx sp, hP]
    have hle : s1.cursor sp ≤ i := by
      apply Nat.le_of_not_lt
      intro hlt
      have hm : i ∈ routed cfg k sp (s1.cursor sp) := (mem_routed cfg k sp _ i).2 ⟨hlt, hki⟩
      rw [hrr, mem_routed] at hm
      omega
    have hnk : ∀ j, s1.cursor sp ≤ j → j < s1.cursor sp + (i - s1.cursor sp) → cfg.key sp j ≠ k := by
      intro j h1 h2 hj
      have hm : j ∈ routed cfg k sp i := (mem_routed cfg k sp _ j).2 ⟨by omega, hj⟩
      rw [← hrr, mem_routed] at hm
      omega
    obtain ⟨s2, hff2, hn2, hq2, hc2, hx2, hl2⟩ := rd_loop cfg k sp (i - s1.cursor sp) s1 (by omega) hq hnk
    have hc2' : s2.cursor sp = i := by omega
    obtain ⟨s3, hff3, hn3, hq3, hc3, hx3, hl3⟩ := rd_step cfg s2 (by omega) hq2 sp
    have hl3' : s3.log (cfg.route n k) k = P ++ [(sp, i)] := by
      rw [hl3, hc2', hki, hn2, hn1, if_pos ⟨rfl, rfl⟩, hl2, hl]
    have hidx3 : ∀ sp', idxOf sp' (P ++ [(sp, i)]) = routed cfg k sp' (s3.cursor sp') := by
      intro sp'
      rw [idxOf_snoc]
      by_cases hs : sp = sp'
      · subst hs
        rw [if_pos rfl, hc3, hc2', routed_succ, if_pos hki, hP]
      · have hs' : sp' ≠ sp := fun e => hs e.symm
        rw [if_neg hs, List.append_nil, hx3 sp' hs', hx2 sp' hs']
        exact hidx sp'
    have hB3 : ∀ sp', ∃ B, idxOf sp' ((P ++ [(sp, i)]) ++ L) ++ B = routed cfg k sp' (C sp') := by
      intro sp'
      obtain ⟨B', hB'⟩ := hB sp'
      exact ⟨B', by simpa using hB'⟩
    obtain ⟨s4, hff4, hn4, hl4⟩ := ih (P ++ [(sp, i)]) s3 (by omega) hq3 hl3' hidx3 hB3
    exact ⟨s4, (hff2.trans hff3).trans hff4, hn4, by simpa using hl4⟩

theorem not_live_of_not_failure (a : Act) (h : a.isFailure = false) : a.isLiveRedeploy = false := by
  cases a <;> first | rfl | cases h

/-- the statement of `Rxn.C01.failure_free_realizable_partial` for a state satisfying the invariant -/
theorem failure_free_of_inv (cfg : Cfg σ) (wf : cfg.WF) (s : State σ) (hi : Inv cfg s) (hn : 0 < s.n) (k : Nat) :
    ∃ as' s' obs', run cfg as' = some (s', obs') ∧ as'.head? = some (Act.restart s.n false) ∧
      (∀ a ∈ as'.tail, a.isFailure = false) ∧ (∀ a ∈ as', a.isLiveRedeploy = false) ∧ s'.n = s.n ∧
      s'.log (cfg.route s.n k) k = s.log (cfg.route s.n k) k ∧
      s'.st (cfg.route s.n k) k = s.st (cfg.route s.n k) k := by
  have hB : ∀ sp, ∃ B, idxOf sp ([] ++ s.log (cfg.route s.n k) k) ++ B = routed cfg k sp (s.cursor sp) :=
    fun sp => ⟨_, by rw [List.nil_append]; exact hi.main k sp⟩
  obtain ⟨s2, ⟨as2, obs2, hr2, hf2⟩, hn2, hl2⟩ :=
    replay cfg k s.n hn s.cursor (s.log (cfg.route s.n k) k) [] (restore cfg (init cfg) none s.n false)
      rfl (fun _ _ => rfl) rfl (fun _ => rfl) hB
  have hrun : run cfg (Act.restart s.n false :: as2) = some (s2, [] ++ obs2) := by
    have h0 : step cfg (init cfg) (Act.restart s.n false) = some (restore cfg (init cfg) none s.n false, []) := by
      simp only [step, hn, if_true]
      rfl
    simp only [run, runFrom, h0, hr2]
  rw [List.nil_append] at hl2
  have hlive : ∀ a ∈ Act.restart s.n false :: as2, a.isLiveRedeploy = false := by
    intro a ha
    rcases List.mem_cons.1 ha with h | h
    · subst h; rfl
    · exact not_live_of_not_failure a (hf2 a h)
  refine ⟨_, s2, _, hrun, rfl, hf2, hlive, hn2, hl2, ?_⟩
  have hi2 := inv_run cfg wf _ s2 _ hlive hrun
  rw [hi2.hst, hi.hst, hl2]

end Rxn.Pipeline
