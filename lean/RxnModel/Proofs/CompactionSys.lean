import RxnModel.Proofs.CompactionPick
/-!
Compaction next to flushes: a safe change set stays safe and commutes with flush change sets; the invariant of the
system `Sys` (compaction task computing on a snapshot, committing later, flushes in between).
-/
namespace Rxn.Compaction
open Rxn Rxn.Lsm

/-! ## flush arrivals -/

theorem applyFlush_cons (l0 : List Tbl) (D : List (List Tbl)) (ts : List Tbl) :
    applyFlush (l0 :: D) ts = (l0 ++ ts) :: D := rfl

/-- applying a compaction change set after a flush = applying the flush after the change set -/
theorem flush_commute (L : Levels) (cs : ChangeSet) (n : Nat) (ts : List Tbl) (hlvl : 1 ≤ cs.lvl)
    (hfresh : ∀ t ∈ ts, rmP cs.rm t = false) :
    applyCS (applyFlush L ts) n cs = applyFlush (applyCS L n cs) ts := by
  cases L with
  | nil => simp [applyFlush, applyCS, addAt, removeIds]
  | cons l0 D =>
    obtain ⟨m, hm⟩ : ∃ m, cs.lvl = m + 1 := ⟨cs.lvl - 1, by omega⟩
    have hts : ts.filter (fun t => !cs.rm.contains t.id) = ts := by
      rw [List.filter_eq_self]
      intro t ht
      have := hfresh t ht
      unfold rmP at this
      rw [this]; rfl
    simp only [applyFlush_cons, applyCS, removeIds, addAt, hm, List.map_cons, List.modify_succ_cons,
      List.filter_append, hts]

theorem safe_after_flush {L : Levels} {rm : List Nat} {lvl : Nat} {add : List Run} {ts : List Tbl}
    (hs : SafeCS L rm lvl add) (hfresh : ∀ t ∈ ts, rmP rm t = false) : SafeCS (applyFlush L ts) rm lvl add := by
  cases L with
  | nil => have := hs.lvl_lt; simp at this
  | cons l0 D =>
    obtain ⟨m, rfl⟩ : ∃ m, lvl = m + 1 := ⟨lvl - 1, by have := hs.lvl_pos; omega⟩
    rw [applyFlush_cons]
    have htsf : ts.reverse.filter (rmP rm) = [] := by
      rw [List.filter_eq_nil_iff]
      intro t ht
      simp [hfresh t (List.mem_reverse.mp ht)]
    refine ⟨hs.lvl_pos, hs.lvl_lt, hs.target_all, hs.below_none, ?_, ?_, hs.chunks⟩
    · have h0 := hs.no_kept_below_removed
      simp only [List.take_succ_cons, readOrder, List.reverse_append, List.append_assoc] at h0 ⊢
      refine List.pairwise_append.mpr ⟨?_, h0, ?_⟩
      · apply pairwise_of_forall_left
        intro a ha b hpa
        rw [hfresh a (List.mem_reverse.mp ha)] at hpa; cases hpa
      · intro a ha b _ hpa
        rw [hfresh a (List.mem_reverse.mp ha)] at hpa; cases hpa
    · have h0 := hs.added
      simp only [readOrder, List.reverse_append, List.append_assoc, List.filter_append, htsf, List.nil_append] at h0 ⊢
      exact h0

/-! ## table ids stay distinct -/

theorem zipWith_fst_eq {α β γ : Type} (g : α → γ) : ∀ (xs : List α) (ys : List β), xs.length ≤ ys.length →
    List.zipWith (fun x _ => g x) xs ys = xs.map g := by
  intro xs
  induction xs with
  | nil => intro ys _; rfl
  | cons x xs ih =>
    intro ys h
    cases ys with
    | nil => simp at h
    | cons y ys => simp only [List.zipWith_cons_cons, List.map_cons]; rw [ih ys (by simpa using h)]

theorem mkTables_ids (n : Nat) (runs : List Run) : (mkTables n runs).map (·.id) = List.range' n runs.length := by
  unfold mkTables
  rw [List.map_zipWith, List.range'_eq_map_range]
  exact zipWith_fst_eq (fun i => n + i) _ _ (by simp)

theorem nodup_insert_fresh {X Y new : List Tbl} {n : Nat} (h : ((X ++ Y).map (·.id)).Nodup)
    (hlt : ∀ t ∈ X ++ Y, t.id < n) (hnew : (new.map (·.id)).Nodup) (hge : ∀ t ∈ new, n ≤ t.id) :
    ((X ++ new ++ Y).map (·.id)).Nodup := by
  rw [List.map_append, List.map_append] at *
  have ⟨hX, hY, hXY⟩ := List.nodup_append.mp h
  refine List.nodup_append.mpr ⟨List.nodup_append.mpr ⟨hX, hnew, ?_⟩, hY, ?_⟩
  · intro a ha b hb hab
    obtain ⟨x, hx, rfl⟩ := List.mem_map.mp ha
    obtain ⟨y, hy, rfl⟩ := List.mem_map.mp hb
    have := hlt x (List.mem_append_left _ hx)
    have := hge y hy
    omega
  · intro a ha b hb hab
    cases List.mem_append.mp ha with
    | inl ha => exact hXY a ha b hb hab
    | inr ha =>
      obtain ⟨x, hx, rfl⟩ := List.mem_map.mp ha
      obtain ⟨y, hy, rfl⟩ := List.mem_map.mp hb
      have := hlt y (List.mem_append_right _ hy)
      have := hge x hx
      omega

theorem idsFresh_insert {X Y : List Tbl} {n : Nat} (runs : List Run) {old : List Tbl}
    (hsub : (X ++ Y).Sublist old) (hf : (old.map (·.id)).Nodup ∧ ∀ t ∈ old, t.id < n) :
    ((X ++ mkTables n runs ++ Y).map (·.id)).Nodup ∧ ∀ t ∈ X ++ mkTables n runs ++ Y, t.id < n + runs.length := by
  have hnewid : ∀ t ∈ mkTables n runs, n ≤ t.id ∧ t.id < n + runs.length := by
    intro t ht
    have : t.id ∈ (mkTables n runs).map (·.id) := List.mem_map.mpr ⟨t, ht, rfl⟩
    rw [mkTables_ids] at this
    exact List.mem_range'_1.mp this
  constructor
  · apply nodup_insert_fresh (n := n)
    · exact List.Nodup.sublist (hsub.map _) hf.1
    · intro t ht; exact hf.2 t (hsub.subset ht)
    · rw [mkTables_ids]; exact List.nodup_range' 1
    · intro t ht; exact (hnewid t ht).1
  · intro t ht
    simp only [List.mem_append] at ht
    rcases ht with (ht | ht) | ht
    · have := hf.2 t (hsub.subset (List.mem_append_left _ ht)); omega
    · exact (hnewid t ht).2
    · have := hf.2 t (hsub.subset (List.mem_append_right _ ht)); omega

theorem idsFresh_applyCS {L : Levels} {rm : List Nat} {lvl : Nat} {add : List Run} {n : Nat}
    (hv : WeakValid L) (hs : SafeCS L rm lvl add) (hf : IdsFresh L n) :
    IdsFresh (applyCS L n ⟨rm, lvl, add⟩) (n + add.length) := by
  obtain ⟨_, _, _, l0, D1, Lv, D2, hL, _, hshape⟩ := safe_core n hv hs
  rw [hshape]
  subst hL
  have hflat : (l0.filter (fun t => !rmP rm t) :: (D1.map (List.filter (fun t => !rmP rm t)) ++ mkTables n add :: D2)).flatten
      = (l0.filter (fun t => !rmP rm t) ++ (D1.flatten).filter (fun t => !rmP rm t)) ++ mkTables n add ++ D2.flatten := by
    simp [List.flatten_append, List.filter_flatten, List.append_assoc]
  have hsub : ((l0.filter (fun t => !rmP rm t) ++ (D1.flatten).filter (fun t => !rmP rm t)) ++ D2.flatten).Sublist
      (l0 :: (D1 ++ Lv :: D2)).flatten := by
    simp only [List.flatten_cons, List.flatten_append, List.append_assoc]
    refine List.Sublist.append List.filter_sublist (List.Sublist.append List.filter_sublist ?_)
    exact List.sublist_append_right _ _
  unfold IdsFresh
  rw [hflat]
  exact idsFresh_insert add hsub hf

theorem idsFresh_flush {L : Levels} {n : Nat} (runs : List Run) (hne : L ≠ []) (hf : IdsFresh L n) :
    IdsFresh (applyFlush L (mkTables n runs)) (n + runs.length) := by
  cases L with
  | nil => exact absurd rfl hne
  | cons l0 D =>
    rw [applyFlush_cons]
    unfold IdsFresh
    have hflat : ((l0 ++ mkTables n runs) :: D).flatten = l0 ++ mkTables n runs ++ D.flatten := by simp
    rw [hflat]
    exact idsFresh_insert runs (by simp) hf

/-! ## the invariant of compaction running next to flushes -/

structure SysInv (s : Sys) : Prop where
  valid : LayoutValid s.L
  ids : IdsFresh s.L s.nextId
  age : L0KeyAgeOrdered s.L
  len : 2 ≤ s.L.length
  pendingSafe : ∀ cs, s.pending = some cs → SafeCS s.L cs.rm cs.lvl cs.add ∧ ∀ i ∈ cs.rm, i < s.nextId

/-- the ids a change set of the compactor removes are ids of tables of the level list -/
theorem compact_rm_old {L : Levels} {c : Compactor} {o : Oracle} {cs : ChangeSet} {c' : Compactor}
    (h : compact c L o = (some cs, c')) : ∀ i ∈ cs.rm, ∃ t ∈ L.flatten, t.id = i := by
  have hmap : ∀ (ts : List Tbl), (∀ t ∈ ts, t ∈ L.flatten) → ∀ i ∈ ts.map (·.id), ∃ t ∈ L.flatten, t.id = i := by
    intro ts hts i hi
    obtain ⟨t, ht, rfl⟩ := List.mem_map.mp hi
    exact ⟨t, hts t ht, rfl⟩
  have hpair : ∀ a b, ∀ t ∈ L.getD a [] ++ L.getD b [], t ∈ L.flatten := by
    intro a b t ht
    cases List.mem_append.mp ht with
    | inl h => exact getD_mem_flatten h
    | inr h => exact getD_mem_flatten h
  unfold compact compactWith at h
  split at h
  · simp at h
  · split at h
    · simp only [Prod.mk.injEq, Option.some.injEq] at h
      rw [← h.1]
      unfold majorCompactionWith
      simp only
      apply hmap
      intro t ht
      cases List.mem_append.mp ht with
      | inl hp =>
        obtain ⟨l, hl, htl⟩ := majorPickWith_sub sortByAge sortByAge_perm _ _ _ t hp
        exact List.mem_flatten.mpr ⟨l, List.dropLast_subset L (List.mem_reverse.mp hl), htl⟩
      | inr hb => rw [getLastD_eq_getD] at hb; exact getD_mem_flatten hb
    · unfold minorCompaction at h
      split at h
      · simp only [Prod.mk.injEq, Option.some.injEq] at h
        rw [← h.1]
        exact hmap _ (hpair 0 1)
      · generalize L.length = fuel at h
        generalize c.minorLevel = cur at h
        induction fuel generalizing cur with
        | zero => simp [minorDeep] at h
        | succ fuel ih =>
          unfold minorDeep at h
          split at h
          · split at h
            · simp only [Prod.mk.injEq, Option.some.injEq] at h
              rw [← h.1]
              exact hmap _ (hpair cur (cur + 1))
            · exact ih (cur + 1) h
          · simp at h

theorem age_mkTables_head {n : Nat} {runs : List Run} {t : Tbl} (ht : t ∈ mkTables n runs)
    (hne : ∀ r ∈ runs, r ≠ []) : ∃ e ∈ t.run, age t = e.seq := by
  have hr := mkTables_run_mem ht
  have := hne _ hr
  unfold age
  cases hrun : t.run with
  | nil => exact absurd hrun this
  | cons x xs => exact ⟨x, List.mem_cons_self, rfl⟩

theorem sysInv_step {s s' : Sys} {a : Act} (hi : SysInv s) (hok : ActOK s a) (h : s.step a = some s') : SysInv s' := by
  have hw := weakValid_of_layoutValid hi.valid
  cases a with
  | compactBegin o =>
    simp only [Sys.step] at h
    split at h
    · cases h
    · rename_i hp
      simp only [Option.some.injEq] at h
      subst h
      refine ⟨hi.valid, hi.ids, hi.age, hi.len, ?_⟩
      intro cs hcs
      simp only at hcs
      have hc : compact s.c s.L o = (some cs, (compact s.c s.L o).2) := by
        rw [← hcs]
      refine ⟨compact_safe hw hi.ids.1 hi.age hi.len hc, ?_⟩
      intro i hir
      obtain ⟨t, ht, rfl⟩ := compact_rm_old hc i hir
      exact hi.ids.2 t ht
  | compactCommit =>
    simp only [Sys.step] at h
    split at h
    · cases h
    · rename_i cs hp
      simp only [Option.some.injEq] at h
      subst h
      have hs := (hi.pendingSafe cs hp).1
      have hpres := safe_preserves s.nextId hi.valid hs
      obtain ⟨_, _, _, l0, D1, Lv, D2, hL, _, hshape⟩ := safe_core s.nextId hw hs
      refine ⟨hpres.2.2, idsFresh_applyCS hw hs hi.ids, ?_, ?_, ?_⟩
      · show L0KeyAgeOrdered (applyCS s.L s.nextId cs)
        have hcs : applyCS s.L s.nextId cs = applyCS s.L s.nextId ⟨cs.rm, cs.lvl, cs.add⟩ := rfl
        rw [hcs, hshape]
        have := hi.age
        rw [hL] at this
        exact List.Pairwise.filter _ this
      · show 2 ≤ (applyCS s.L s.nextId cs).length
        have hcs : applyCS s.L s.nextId cs = applyCS s.L s.nextId ⟨cs.rm, cs.lvl, cs.add⟩ := rfl
        rw [hcs, hshape]
        simp only [List.length_cons, List.length_append, List.length_map]
        omega
      · intro cs' hcs'; cases hcs'
  | flush runs =>
    simp only [Sys.step, Option.some.injEq] at h
    subst h
    obtain ⟨hruns, hpw, hnewer, hageNew⟩ := hok
    have hne : s.L ≠ [] := by intro h0; have := hi.len; rw [h0] at this; simp at this
    obtain ⟨l0, D, hLD⟩ : ∃ l0 D, s.L = l0 :: D := by
      cases hL : s.L with
      | nil => exact absurd hL hne
      | cons l0 D => exact ⟨l0, D, rfl⟩
    have hfreshIds : ∀ t ∈ mkTables s.nextId runs, s.nextId ≤ t.id := by
      intro t ht
      have : t.id ∈ (mkTables s.nextId runs).map (·.id) := List.mem_map.mpr ⟨t, ht, rfl⟩
      rw [mkTables_ids] at this
      exact (List.mem_range'_1.mp this).1
    refine ⟨?_, idsFresh_flush runs hne hi.ids, ?_, ?_, ?_⟩
    · -- layout validity with the new level-0 tables on top
      show LayoutValid (applyFlush s.L (mkTables s.nextId runs))
      rw [hLD, applyFlush_cons]
      have hv := hi.valid
      rw [hLD] at hv
      refine ⟨?_, hv.ordered, ?_⟩
      · intro t ht
        simp only [List.flatten_cons, List.mem_append] at ht
        rcases ht with (ht | ht) | ht
        · exact hv.sorted t (by simp [ht])
        · exact (hruns _ (mkTables_run_mem ht)).2
        · exact hv.sorted t (by simp [ht])
      · simp only [readOrder, List.reverse_append, List.append_assoc]
        refine List.pairwise_append.mpr ⟨?_, hv.newer, ?_⟩
        · rw [List.pairwise_reverse]
          have : ((mkTables s.nextId runs).map (·.run)).Pairwise
              (fun older newer => ∀ e ∈ newer, ∀ e' ∈ older, e'.seq < e.seq) := by
            rw [mkTables_map_run]; exact hpw
          refine List.Pairwise.imp ?_ (List.pairwise_map.mp this)
          intro a b hab eb heb ea hea _
          exact hab eb heb ea hea
        · intro a ha b hb
          have hb' : b ∈ (l0 :: D).flatten := (readOrder_mem _ b).mp hb
          rw [← hLD] at hb'
          exact hnewer _ (mkTables_run_mem (List.mem_reverse.mp ha)) b hb'
    · show L0KeyAgeOrdered (applyFlush s.L (mkTables s.nextId runs))
      rw [hLD, applyFlush_cons]
      have hage := hi.age
      rw [hLD] at hage
      show (l0 ++ mkTables s.nextId runs).Pairwise (fun a b => ¬ DisjointKeys a.run b.run → age a < age b)
      have hrne : ∀ r ∈ runs, r ≠ [] := fun r hr => (hruns r hr).1
      refine List.pairwise_append.mpr ⟨hage, ?_, ?_⟩
      · have : ((mkTables s.nextId runs).map (·.run)).Pairwise
            (fun older newer => ∀ e ∈ newer, ∀ e' ∈ older, e'.seq < e.seq) := by
          rw [mkTables_map_run]; exact hpw
        refine List.Pairwise.imp_of_mem ?_ (List.pairwise_map.mp this)
        intro a b ha hb hab _
        obtain ⟨ea, hea, hage_a⟩ := age_mkTables_head ha hrne
        obtain ⟨eb, heb, hage_b⟩ := age_mkTables_head hb hrne
        rw [hage_a, hage_b]
        exact hab eb heb ea hea
      · intro a ha b hb _
        obtain ⟨eb, heb, hage_b⟩ := age_mkTables_head hb hrne
        rw [hage_b]
        have ha' : a ∈ s.L.headD [] := by rw [hLD]; exact ha
        exact hageNew _ (mkTables_run_mem hb) a ha' eb heb
    · show 2 ≤ (applyFlush s.L (mkTables s.nextId runs)).length
      rw [hLD, applyFlush_cons]
      have := hi.len
      rw [hLD] at this
      simpa using this
    · intro cs hcs
      have ⟨hs, hold⟩ := hi.pendingSafe cs hcs
      have hfresh : ∀ t ∈ mkTables s.nextId runs, rmP cs.rm t = false := by
        intro t ht
        cases hr : rmP cs.rm t with
        | false => rfl
        | true =>
          unfold rmP at hr
          have := hold t.id (List.contains_iff_mem.mp hr)
          have := hfreshIds t ht
          omega
      refine ⟨safe_after_flush hs hfresh, ?_⟩
      intro i hir
      have := hold i hir
      show i < s.nextId + runs.length
      omega

/-- what a step does to the view: compaction steps change nothing -/
theorem sys_step_view {s s' : Sys} {a : Act} (hi : SysInv s) (h : s.step a = some s') (hnf : a.isFlush = false) :
    (∀ k, levelsGet s'.L k = levelsGet s.L k) ∧ (∀ p, scanView s'.L p = scanView s.L p) := by
  cases a with
  | compactBegin o =>
    simp only [Sys.step] at h
    split at h
    · cases h
    · simp only [Option.some.injEq] at h
      subst h
      exact ⟨fun _ => rfl, fun _ => rfl⟩
  | compactCommit =>
    simp only [Sys.step] at h
    split at h
    · cases h
    · rename_i cs hp
      simp only [Option.some.injEq] at h
      subst h
      have hpres := safe_preserves s.nextId hi.valid (hi.pendingSafe cs hp).1
      exact ⟨hpres.1, hpres.2.1⟩
  | flush runs => cases hnf

theorem reach_inv {s s' : Sys} {as : List Act} (hr : Reach s as s') (hi : SysInv s) : SysInv s' := by
  induction hr with
  | nil => exact hi
  | cons hok hstep _ ih => exact ih (sysInv_step hi hok hstep)

theorem reach_view {s s' : Sys} {as : List Act} (hr : Reach s as s') (hi : SysInv s)
    (hnf : ∀ a ∈ as, a.isFlush = false) :
    (∀ k, levelsGet s'.L k = levelsGet s.L k) ∧ (∀ p, scanView s'.L p = scanView s.L p) := by
  induction hr with
  | nil => exact ⟨fun _ => rfl, fun _ => rfl⟩
  | @cons s0 s1 s2 a0 as' hok hstep _ ih =>
    have h1 := sys_step_view hi hstep (hnf a0 List.mem_cons_self)
    have h2 := ih (sysInv_step hi hok hstep) (fun b hb => hnf b (List.mem_cons_of_mem _ hb))
    exact ⟨fun k => by rw [h2.1 k, h1.1 k], fun p => by rw [h2.2 p, h1.2 p]⟩

end Rxn.Compaction
