import RxnModel.Proofs.HeapIdx
/-! The heap of items over whole operation sequences: order invariant, index map = positions (and `-1` outside),
and refinement of a multiset reference that pops minima. -/
namespace Rxn.HeapItems
open Rxn

theorem ilt_sw : Heap.StrictWeak ilt := by
  constructor
  · intro a b h; simp only [ilt, decide_eq_true_eq, decide_eq_false_iff_not] at *; omega
  · intro a b c h1 h2; simp only [ilt, decide_eq_false_iff_not] at *; omega

/-- heap order; stored index = position; items that are not in the heap (never pushed, or popped) have `-1` -/
structure HInv (h : H) : Prop where
  ord : Heap.Inv ilt h.data
  ok : HeapI.Ok Item.id h.data h.idx
  out : ∀ id, (∀ i (hi : i < h.data.size), h.data[i].id ≠ id) → h.idx id = -1

/-- the harness pushes an item only while it is not in the heap -/
def opValid (h : H) : Op → Prop
  | .push _ id => ∀ i (hi : i < h.data.size), h.data[i].id ≠ id
  | _ => True

def Valid : H → List Op → Prop
  | _, [] => True
  | h, op :: ops => opValid h op ∧ Valid (step h op) ops

/-- reference: a multiset of items (a list up to order) -/
def specStep (ms : List Item) : Op → Option Item → List Item
  | .push p id, _ => ⟨p, id⟩ :: ms
  | .pop, some x => ms.erase x
  | .pop, none => ms
  | .fix id p, _ => ms.map (fun x => if x.id = id then { x with prio := p } else x)

theorem mem_of_mem_toList {a : Array Item} {x : Item} (h : x ∈ a.toList) : ∃ i, ∃ hi : i < a.size, a[i] = x := by
  obtain ⟨i, hi, e⟩ := List.getElem_of_mem h
  exact ⟨i, by simpa using hi, by simpa using e⟩

theorem push_step (h : H) (hi : HInv h) (p id : Nat) (hv : opValid h (.push p id)) :
    HInv (push h ⟨p, id⟩) ∧ (push h ⟨p, id⟩).data.toList.Perm (⟨p, id⟩ :: h.data.toList) := by
  have hfst := HeapI.pushI_fst Item.id ilt h.data h.idx ⟨p, id⟩
  have hperm : (push h ⟨p, id⟩).data.toList.Perm (⟨p, id⟩ :: h.data.toList) := by
    show (HeapI.pushI Item.id ilt h.data h.idx ⟨p, id⟩).1.toList.Perm _
    rw [hfst]; exact Heap.push_perm _ _ _
  refine ⟨⟨?_, HeapI.pushI_ok _ _ _ _ _ hi.ok hv, ?_⟩, hperm⟩
  · show Heap.Inv ilt (HeapI.pushI Item.id ilt h.data h.idx ⟨p, id⟩).1
    rw [hfst]; exact Heap.push_inv ilt_sw _ _ hi.ord
  · intro k hk
    have hkx : k ≠ id := by
      intro e
      have hm : (⟨p, id⟩ : Item) ∈ (push h ⟨p, id⟩).data.toList := hperm.symm.subset List.mem_cons_self
      obtain ⟨i, hi', e2⟩ := mem_of_mem_toList hm
      exact hk i hi' (by rw [e2, e])
    have hk0 : ∀ i (hi' : i < h.data.size), h.data[i].id ≠ k := by
      intro i hi' e
      have hm : h.data[i] ∈ (push h ⟨p, id⟩).data.toList :=
        hperm.symm.subset (List.mem_cons_of_mem _ (Array.getElem_mem_toList hi'))
      obtain ⟨j, hj, e2⟩ := mem_of_mem_toList hm
      exact hk j hj (by rw [e2, e])
    show (HeapI.pushI Item.id ilt h.data h.idx ⟨p, id⟩).2 k = -1
    rw [HeapI.pushI_frame Item.id ilt h.data h.idx ⟨p, id⟩ hi.ok hv k hkx hk0]
    exact hi.out k hk0

theorem pop_step (h : H) (hi : HInv h) :
    HInv (pop h).2 ∧
    (match (pop h).1 with
     | none => h.data.size = 0 ∧ (pop h).2 = h
     | some x => h.data.toList.Perm (x :: (pop h).2.data.toList) ∧ (∀ y ∈ h.data.toList, x.prio ≤ y.prio) ∧
         (pop h).2.idx x.id = -1) := by
  unfold pop
  have hfst := HeapI.popI_fst Item.id ilt h.data h.idx
  cases hp : HeapI.popI Item.id ilt h.data h.idx with
  | none =>
    rw [hp] at hfst
    simp only [Option.map_none] at hfst
    exact ⟨hi, (Heap.pop_none _ _).mp hfst.symm, rfl⟩
  | some xr =>
    obtain ⟨x, r⟩ := xr
    rw [hp] at hfst
    simp only [Option.map_some] at hfst
    obtain ⟨hinv', hperm, hmin⟩ := Heap.pop_spec ilt_sw h.data hi.ord x r.1 hfst.symm
    obtain ⟨hok', hx⟩ := HeapI.popI_ok Item.id ilt h.data h.idx hi.ok x r hp
    refine ⟨⟨hinv', hok', ?_⟩, hperm, ?_, hx⟩
    · intro k hk
      by_cases hkx : k = x.id
      · rw [hkx]; exact hx
      · have hk0 : ∀ i (hi' : i < h.data.size), h.data[i].id ≠ k := by
          intro i hi' e
          have hm := hperm.subset (Array.getElem_mem_toList hi')
          simp only [List.mem_cons] at hm
          rcases hm with hm | hm
          · exact hkx (by rw [← e, hm])
          · obtain ⟨j, hj, e2⟩ := mem_of_mem_toList hm
            exact hk j hj (by rw [e2, e])
        show r.2 k = -1
        rw [HeapI.popI_frame Item.id ilt h.data h.idx hi.ok x r hp k hk0]
        exact hi.out k hk0
    · intro y hy
      have := hmin y hy
      simp only [Heap.le, ilt, decide_eq_false_iff_not] at this
      omega

theorem reprio_step (h : H) (hi : HInv h) (id p : Nat) :
    HInv (reprio h id p) ∧
    (reprio h id p).data.toList.Perm (h.data.toList.map (fun x => if x.id = id then { x with prio := p } else x)) := by
  unfold reprio
  by_cases hneg : h.idx id < 0
  · rw [if_pos hneg]
    refine ⟨hi, ?_⟩
    -- the item is not in the heap: the reference changes nothing either
    have habs : ∀ x ∈ h.data.toList, x.id ≠ id := by
      intro x hx e
      obtain ⟨i, hi', e2⟩ := mem_of_mem_toList hx
      have := hi.ok.pos i hi'
      rw [e2, e] at this; omega
    have e : h.data.toList.map (fun x => if x.id = id then { x with prio := p } else x) = h.data.toList := by
      conv => rhs; rw [← List.map_id h.data.toList]
      exact List.map_congr_left (by intro x hx; simp [habs x hx])
    rw [e]
  · rw [if_neg hneg]
    simp only []
    -- the item is at position `idx id`
    have hpres : ∃ i, ∃ hi' : i < h.data.size, h.data[i].id = id := by
      apply Classical.byContradiction
      intro hno
      have := hi.out id (fun i hi' e => hno ⟨i, hi', e⟩)
      omega
    obtain ⟨i, hi', hid⟩ := hpres
    have hpos : h.idx id = (i : Int) := by have := hi.ok.pos i hi'; rw [hid] at this; exact this
    let f : Item → Item := fun x => if x.id = id then { x with prio := p } else x
    have hfid : ∀ x, (f x).id = x.id := by intro x; simp only [f]; split <;> rfl
    have hmap : h.data.map f = h.data.set i ⟨p, id⟩ := by
      apply Array.ext
      · simp
      · intro k hk1 hk2
        rw [Array.getElem_map, Array.getElem_set]
        by_cases hki : i = k
        · subst hki; simp [f, hid]
        · rw [if_neg hki]
          have hk3 : k < h.data.size := by simpa using hk1
          have : (h.data[k]'hk3).id ≠ id := fun e => hki (hi.ok.inj i k hi' hk3 (by rw [hid, e]))
          simp [f, this]
    have hokm : HeapI.Ok Item.id (h.data.map f) h.idx := by
      constructor
      · intro a b ha hb e
        simp only [Array.getElem_map, hfid] at e
        exact hi.ok.inj a b (by simpa using ha) (by simpa using hb) e
      · intro a ha
        simp only [Array.getElem_map, hfid]
        exact hi.ok.pos a (by simpa using ha)
    have hfst : (HeapI.fixI Item.id ilt (h.data.map f) h.idx (h.idx id)).1 = Heap.fix ilt (h.data.set i ⟨p, id⟩) i := by
      rw [HeapI.fixI_fst _ _ _ _ _ (by omega), hmap, hpos]; simp
    have hdown : Heap.DownInv ilt (h.data.set i ⟨p, id⟩) i := by
      constructor
      · intro j hji hpi hj0 x y hx hy
        rw [Array.getElem?_set] at hx hy
        rw [if_neg (fun e => hji e.symm)] at hy
        rw [if_neg (fun e => hpi e.symm)] at hx
        exact hi.ord j hj0 x y hx hy
      · intro hi0 c hc0 hcp x y hx hy
        rw [Array.getElem?_set] at hx hy
        rw [if_neg (by omega)] at hx hy
        exact Heap.le_trans' ilt_sw (hi.ord i hi0 x h.data[i] hx (Heap.get?_some hi'))
          (hi.ord c hc0 h.data[i] y (by rw [hcp]; exact Heap.get?_some hi') hy)
    refine ⟨⟨?_, HeapI.fixI_ok _ _ _ _ _ hokm, ?_⟩, ?_⟩
    · show Heap.Inv ilt (HeapI.fixI Item.id ilt (h.data.map f) h.idx (h.idx id)).1
      rw [hfst]
      exact Heap.fix_inv ilt_sw _ i (by simpa using hi') hdown
    · intro k hk
      have hperm : (HeapI.fixI Item.id ilt (h.data.map f) h.idx (h.idx id)).1.toList.Perm (h.data.map f).toList := by
        rw [hfst, hmap]; exact Heap.fix_perm _ _ _
      have hk0 : ∀ n (hn : n < (h.data.map f).size), Item.id (h.data.map f)[n] ≠ k := by
        intro n hn e
        have hm := hperm.symm.subset (Array.getElem_mem_toList hn)
        obtain ⟨j, hj, e2⟩ := mem_of_mem_toList hm
        exact hk j hj (by rw [e2]; exact e)
      show (HeapI.fixI Item.id ilt (h.data.map f) h.idx (h.idx id)).2 k = -1
      rw [HeapI.fixI_frame _ _ _ _ _ hokm k hk0]
      apply hi.out k
      intro n hn e
      exact hk0 n (by simpa using hn) (by simp only [Array.getElem_map, hfid]; exact e)
    · show (HeapI.fixI Item.id ilt (h.data.map f) h.idx (h.idx id)).1.toList.Perm _
      rw [hfst, ← hmap]
      refine (Heap.fix_perm _ _ _).trans ?_
      rw [Array.toList_map]

/-- one step keeps the invariant and moves the contents as the multiset reference does -/
theorem step_refines (h : H) (hi : HInv h) (op : Op) (hv : opValid h op) :
    HInv (step h op) ∧ (step h op).data.toList.Perm (specStep h.data.toList op (out h op)) ∧
    (op = .pop → match out h op with
      | none => h.data.size = 0
      | some x => x ∈ h.data.toList ∧ ∀ y ∈ h.data.toList, x.prio ≤ y.prio) := by
  cases op with
  | push p id =>
    obtain ⟨a, b⟩ := push_step h hi p id hv
    exact ⟨a, b, fun e => by cases e⟩
  | fix id p =>
    obtain ⟨a, b⟩ := reprio_step h hi id p
    exact ⟨a, b, fun e => by cases e⟩
  | pop =>
    obtain ⟨a, b⟩ := pop_step h hi
    refine ⟨a, ?_, fun _ => ?_⟩
    · show (pop h).2.data.toList.Perm (specStep h.data.toList .pop (pop h).1)
      cases hp : (pop h).1 with
      | none => rw [hp] at b; rw [b.2]; exact List.Perm.refl _
      | some x =>
        rw [hp] at b
        simp only [specStep]
        have hx : x ∈ h.data.toList := b.1.symm.subset List.mem_cons_self
        exact ((List.perm_cons x).mp ((List.perm_cons_erase hx).symm.trans b.1)).symm
    · show match (pop h).1 with
        | none => h.data.size = 0
        | some x => x ∈ h.data.toList ∧ ∀ y ∈ h.data.toList, x.prio ≤ y.prio
      cases hp : (pop h).1 with
      | none => rw [hp] at b; exact b.1
      | some x => rw [hp] at b; exact ⟨b.1.symm.subset List.mem_cons_self, b.2.1⟩

theorem run_inv_from (h : H) (hi : HInv h) (ops : List Op) (hv : Valid h ops) : HInv (ops.foldl step h) := by
  induction ops generalizing h with
  | nil => exact hi
  | cons op ops ih => exact ih _ (step_refines h hi op hv.1).1 hv.2

theorem hinv_empty : HInv {} :=
  ⟨by intro j _ x y hx _; simp at hx, ⟨by intro i j hi; simp at hi, by intro i hi; simp at hi⟩, fun _ _ => rfl⟩

/-- outputs of the whole run -/
def trace : H → List Op → List (Option Item)
  | _, [] => []
  | h, op :: ops => out h op :: trace (step h op) ops

/-- the multiset reference accepts a sequence of outputs: every `Pop` output is a minimum of the reference contents
(which then lose exactly it), `Pop` fails only on empty contents -/
def Accepts : List Item → List Op → List (Option Item) → Prop
  | _, [], [] => True
  | ms, .pop :: ops, none :: outs => ms = [] ∧ Accepts ms ops outs
  | ms, .pop :: ops, some x :: outs => x ∈ ms ∧ (∀ y ∈ ms, x.prio ≤ y.prio) ∧ Accepts (ms.erase x) ops outs
  | ms, op :: ops, none :: outs => Accepts (specStep ms op none) ops outs
  | _, _, _ => False

theorem accepts_perm (ms ms' : List Item) (hp : ms.Perm ms') (ops : List Op) (outs : List (Option Item))
    (h : Accepts ms ops outs) : Accepts ms' ops outs := by
  induction ops generalizing ms ms' outs with
  | nil => cases outs <;> simp [Accepts] at h ⊢
  | cons op ops ih =>
    cases outs with
    | nil => cases op <;> simp [Accepts] at h
    | cons o outs =>
      cases op with
      | pop =>
        cases o with
        | none =>
          simp only [Accepts] at h ⊢
          exact ⟨by rw [h.1] at hp; exact hp.symm.eq_nil, ih _ _ hp _ h.2⟩
        | some x =>
          simp only [Accepts] at h ⊢
          exact ⟨hp.subset h.1, fun y hy => h.2.1 y (hp.symm.subset hy), ih _ _ (hp.erase x) _ h.2.2⟩
      | push p id =>
        cases o with
        | none => simp only [Accepts, specStep] at h ⊢; exact ih _ _ ((List.perm_cons _).mpr hp) _ h
        | some x => simp [Accepts] at h
      | fix id p =>
        cases o with
        | none => simp only [Accepts, specStep] at h ⊢; exact ih _ _ (hp.map _) _ h
        | some x => simp [Accepts] at h

theorem trace_accepted (h : H) (hi : HInv h) (ops : List Op) (hv : Valid h ops) :
    Accepts h.data.toList ops (trace h ops) := by
  induction ops generalizing h with
  | nil => simp [trace, Accepts]
  | cons op ops ih =>
    obtain ⟨a, b, c⟩ := step_refines h hi op hv.1
    have := accepts_perm _ _ b ops _ (ih _ a hv.2)
    cases op with
    | push p id => simp only [trace, out, Accepts]; exact this
    | fix id p => simp only [trace, out, Accepts]; exact this
    | pop =>
      have c' := c rfl
      simp only [trace]
      cases ho : out h .pop with
      | none =>
        rw [ho] at c' this
        simp only [Accepts]
        refine ⟨?_, this⟩
        apply List.eq_nil_of_length_eq_zero; simpa using c'
      | some x =>
        rw [ho] at c' this
        simp only [Accepts]
        exact ⟨c'.1, c'.2, this⟩

end Rxn.HeapItems
