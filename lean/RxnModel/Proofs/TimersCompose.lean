import RxnModel.Props.C07
import RxnModel.Proofs.SortedBytes
/-!
Composition of C10's timer model with C07's DKV theorems: the "sorted duplicate-free list of keys with prefix scan"
that `Model/Timers.lean` uses for the DKV (`Timers.DB`) is the image of every reachable LSM state under
`dbOf` = "keys the code's `ScanPrefix` returns for the empty prefix" — `ScanPrefix(p)` of the real level-list code is
`DB.scan (dbOf s) p`, a `Put`/`Delete` acts on it as `DB.put`/`DB.delete`, and every background action (memtable
rotation, flush begin/commit, compaction commit) and read leaves it unchanged. Uses `C07.scan_code_returns_live_keys`
and `C07.spec_last_write_wins`.
-/
namespace Rxn.Timers
open Rxn Rxn.Lsm

/-- the key set of an LSM state as the timer store sees it -/
def dbOf (s : Lsm.State) : DB := (Rescale.scanR s []).map (·.key)

theorem runBoth_snoc (as : List Act) (a : Act) (s : Lsm.State) (m : Lsm.Spec) (s1 : Lsm.State) (m1 : Lsm.Spec) (s2 : Lsm.State)
    (h : runBoth s m as = some (s1, m1)) (hs : step s1 a = some s2) :
    runBoth s m (as ++ [a]) = some (s2, specStep m1 s1.seq a) := by
  induction as generalizing s m with
  | nil =>
    simp only [runBoth] at h
    cases h
    simp [runBoth, hs]
  | cons b bs ih =>
    simp only [List.cons_append, runBoth] at h ⊢
    cases hb : step s b with
    | none => rw [hb] at h; cases h
    | some s' =>
      rw [hb] at h
      simp only [hb]
      exact ih _ _ h

theorem mem_dbOf (as : List Act) (s : Lsm.State) (m : Lsm.Spec) (h : runBoth {} [] as = some (s, m)) (x : Bytes) :
    x ∈ dbOf s ↔ ∃ e, Lsm.Spec.get m x = some e ∧ e.del = false ∧ e.key = x := by
  obtain ⟨_, hmem⟩ := C07.scan_code_returns_live_keys as s m h []
  unfold dbOf
  rw [List.mem_map]
  constructor
  · rintro ⟨e, he, hk⟩
    obtain ⟨h1, h2, _⟩ := (hmem e).mp he
    exact ⟨e, by rw [← hk]; exact h1, h2, hk⟩
  · rintro ⟨e, h1, h2, hk⟩
    exact ⟨e, (hmem e).mpr ⟨by rw [hk]; exact h1, h2, by simp⟩, hk⟩

theorem dbOf_sorted (as : List Act) (s : Lsm.State) (m : Lsm.Spec) (h : runBoth {} [] as = some (s, m)) : Sorted (dbOf s) := by
  obtain ⟨hs, _⟩ := C07.scan_code_returns_live_keys as s m h []
  unfold dbOf Sorted
  exact List.pairwise_map.mpr hs

/-- the code's `ScanPrefix(p)` returns exactly `DB.scan` of the key set -/
theorem scan_bridge (as : List Act) (s : Lsm.State) (m : Lsm.Spec) (h : runBoth {} [] as = some (s, m)) (p : Bytes) :
    (Rescale.scanR s p).map (·.key) = DB.scan (dbOf s) p := by
  obtain ⟨hs, hmem⟩ := C07.scan_code_returns_live_keys as s m h p
  apply sorted_ext
  · exact List.pairwise_map.mpr hs
  · exact (dbOf_sorted as s m h).filter _
  · intro x
    simp only [DB.scan, List.mem_filter, List.mem_map]
    rw [mem_dbOf as s m h x]
    constructor
    · rintro ⟨e, he, hk⟩
      obtain ⟨h1, h2, h3⟩ := (hmem e).mp he
      exact ⟨⟨e, by rw [← hk]; exact h1, h2, hk⟩, by rw [← hk]; exact h3⟩
    · rintro ⟨⟨e, h1, h2, hk⟩, hp⟩
      exact ⟨e, (hmem e).mpr ⟨by rw [hk]; exact h1, h2, by rw [hk]; exact hp⟩, hk⟩

/-- `DB.Put(k, v)` on a reachable state is `DB.put k` on the key set -/
theorem put_bridge (as : List Act) (s : Lsm.State) (m : Lsm.Spec) (h : runBoth {} [] as = some (s, m)) (k v : Bytes)
    (s' : Lsm.State) (hs : step s (.put k v) = some s') : dbOf s' = DB.put (dbOf s) k := by
  have h' := runBoth_snoc as (.put k v) {} [] s m s' h hs
  apply sorted_ext (dbOf_sorted _ s' _ h') (sinsert_sorted k _ (dbOf_sorted as s m h))
  intro x
  show _ ↔ x ∈ sinsert k (dbOf s)
  rw [mem_dbOf _ s' _ h' x, mem_sinsert, mem_dbOf as s m h x, (C07.spec_last_write_wins m s.seq k v x).1]
  by_cases hk : k = x
  · subst hk
    simp
  · have hk' : ¬ x = k := fun e => hk e.symm
    simp [hk, hk']

/-- `DB.Delete(k)` on a reachable state is `DB.delete k` on the key set -/
theorem delete_bridge (as : List Act) (s : Lsm.State) (m : Lsm.Spec) (h : runBoth {} [] as = some (s, m)) (k : Bytes)
    (s' : Lsm.State) (hs : step s (.del k) = some s') : dbOf s' = DB.delete (dbOf s) k := by
  have h' := runBoth_snoc as (.del k) {} [] s m s' h hs
  apply sorted_ext (dbOf_sorted _ s' _ h') ((dbOf_sorted as s m h).erase k)
  intro x
  show _ ↔ x ∈ (dbOf s).erase k
  rw [mem_dbOf _ s' _ h' x, mem_erase_sorted (dbOf_sorted as s m h), mem_dbOf as s m h x,
    (C07.spec_last_write_wins m s.seq k [] x).2]
  by_cases hk : k = x
  · subst hk
    simp
  · have hk' : ¬ x = k := fun e => hk e.symm
    simp [hk, hk']

/-- every other action of the LSM (memtable rotation, flush begin/commit, compaction commit, the read phases) leaves
the key set unchanged -/
theorem background_bridge (as : List Act) (s : Lsm.State) (m : Lsm.Spec) (h : runBoth {} [] as = some (s, m)) (a : Act)
    (hw : specStep m s.seq a = m) (s' : Lsm.State) (hs : step s a = some s') : dbOf s' = dbOf s := by
  have h' := runBoth_snoc as a {} [] s m s' h hs
  rw [hw] at h'
  apply sorted_ext (dbOf_sorted _ s' _ h') (dbOf_sorted as s m h)
  intro x
  rw [mem_dbOf _ s' _ h' x, mem_dbOf as s m h x]

end Rxn.Timers
